(* C20 — proofs, part B: reads_resume as an invariant of the event-level model (all_fixes),
   refutations for the code as it is (current_fixes). *)
From Coq Require Import NArith ZArith List Bool Lia.
From Coq Require Import ZifyBool ZifyNat ZifyN.
From LTV.C20 Require Import ParamsGen Model.
Import ListNotations.
Open Scope N_scope.

Definition small_meta : list N := [100; 49; 58; 120; 101].
Definition hs_of (x m p : option Z) : hs := mkHs x m p None.

Definition is_some {A} (o : option A) : bool := match o with Some _ => true | None => false end.
Definition up_some (u : upstate) : bool := match u with UMsg (Some _) => true | _ => false end.

(* ------------------------------------------------------------------------------------------ *)
(* The reads_resume invariant of one connection.
     - out of the read set                      => a complete message waits (blocked)
     - a complete message waits                 => a reply is pending or in flight
     - a reply is pending / a message in flight => the connection is in the write set
     - complete messages in the protocol buffer => a message waits in front of them
     - read state READ_EXTENSION                => a message waits
     - a reply is pending                       => the peer's ut_metadata id is not 0            *)
Definition okio (idm0 : bool) (i : iostate) : bool :=
  let blocked := is_some (i_blocked i) in
  let pend := is_some (i_pend i) in
  (i_in_read i || blocked) &&
  (negb blocked || pend || up_some (i_up i)) &&
  (negb pend || i_in_write i) &&
  (negb (is_umsg (i_up i)) || i_in_write i) &&
  (blocked || is_nil (i_buf i)) &&
  (negb (i_ds_ext i) || blocked) &&
  (negb blocked || negb (i_in_read i)) &&
  (negb blocked || i_ds_ext i) &&
  (negb pend || negb idm0).

Definition okc (c : conn) : bool := okio (x_id_meta (c_x c) =? 0) (c_io c).

(* what holds while read_message() runs: nothing waits, IDLE, in the read set *)
Definition pre_parse (idm0 : bool) (i : iostate) : bool :=
  negb (is_some (i_blocked i)) && i_in_read i && negb (i_ds_ext i) &&
  (negb (is_some (i_pend i)) || i_in_write i) &&
  (negb (is_umsg (i_up i)) || i_in_write i) &&
  (negb (is_some (i_pend i)) || negb idm0).

Ltac io_cases i :=
  destruct i as [mk rd wr ds pend blk buf sock up ka wb idl];
  destruct rd, wr, ds, pend, blk, buf, up as [|[?|]]; cbn in *;
  try reflexivity; try discriminate; try tauto; try congruence.

Lemma pre_parse_nil : forall b i, pre_parse b i = true -> okio b (set_i_buf i []) = true.
Proof. intros b i H. destruct b; io_cases i. Qed.

Lemma pre_parse_poke : forall b i, pre_parse b i = true -> pre_parse b (poke_write i) = true.
Proof. intros b i H. destruct b; io_cases i. Qed.

Lemma pre_parse_buf_irrelevant : forall b i l, pre_parse b (set_i_buf i l) = pre_parse b i.
Proof. intros. destruct i; reflexivity. Qed.

(* parse_handshake and the pending reply *)
Lemma parse_handshake_meta : forall fx ms x pend sp h x' pend' sp' bad,
  parse_handshake fx ms x pend sp h = (x', pend', sp', bad) ->
  x_id_meta x' = match hs_meta h with Some z => clamp_id z | None => x_id_meta x end /\
  pend' = match hs_meta h with
          | Some z => if negb (clamp_id z =? x_id_meta x) && (clamp_id z =? 0) then None else pend
          | None => pend
          end.
Proof.
  intros fx ms x pend sp h x' pend' sp' bad H. unfold parse_handshake in H.
  destruct (hs_pex h) as [zx|]; destruct (hs_meta h) as [zm|]; cbn in H.
  1,2: destruct (clamp_id zx =? x_id_pex x).
  all: inversion H; subst; clear H; cbn; split; reflexivity.
Qed.

Lemma parse_handshake_pend : forall fx ms x pend sp h x' pend' sp' bad,
  parse_handshake fx ms x pend sp h = (x', pend', sp', bad) ->
  (is_some pend = true -> (x_id_meta x =? 0) = false) ->
  (pend' = pend \/ pend' = None) /\ (is_some pend' = true -> (x_id_meta x' =? 0) = false).
Proof.
  intros fx ms x pend sp h x' pend' sp' bad H Hp.
  destruct (parse_handshake_meta _ _ _ _ _ _ _ _ _ _ H) as [A B]. rewrite A. subst pend'.
  destruct (hs_meta h) as [zm|].
  - destruct (clamp_id zm =? x_id_meta x) eqn:E1; destruct (clamp_id zm =? 0) eqn:E2; cbn.
    + split; [left; reflexivity|]. intro Q. specialize (Hp Q).
      apply N.eqb_eq in E1. apply N.eqb_eq in E2. rewrite E1 in E2. rewrite E2 in Hp. discriminate Hp.
    + split; [left; reflexivity|]. intros _. reflexivity.
    + split; [right; reflexivity|]. intro Q. discriminate Q.
    + split; [left; reflexivity|]. intros _. reflexivity.
  - split; [left; reflexivity|exact Hp].
Qed.

Lemma pre_parse_hs : forall b b' i pend',
  pre_parse b i = true -> (pend' = i_pend i \/ pend' = None) ->
  (is_some pend' = true -> b' = false) ->
  pre_parse b' (poke_write (set_i_pend i pend')) = true.
Proof.
  intros b b' i pend' H [E|E] Hb; subst pend'.
  - assert (set_i_pend i (i_pend i) = i) as -> by (destruct i; reflexivity).
    destruct b'; [|destruct b; io_cases i].
    destruct i as [mk rd wr ds pend blk buf sock up ka wb idl]. destruct pend; cbn in Hb; [specialize (Hb eq_refl); discriminate Hb|].
    destruct b; destruct rd, wr, ds, blk, buf, up as [|[?|]]; cbn in *; try reflexivity; try discriminate.
  - destruct b, b'; io_cases i.
Qed.

Lemma try_request_some : forall meta x i p i',
  try_request meta x i p = Some i' ->
  pre_parse (x_id_meta x =? 0) i = true -> pre_parse (x_id_meta x =? 0) (poke_write i') = true.
Proof.
  intros meta x i p i' H Hp. unfold try_request in H.
  destruct (x_id_meta x =? 0) eqn:E.
  - inversion H; subst. apply pre_parse_poke. exact Hp.
  - destruct (i_pend i) eqn:Ep; [discriminate H|]. inversion H; subst; clear H.
    io_cases i.
Qed.

Lemma try_request_none : forall meta x i p,
  try_request meta x i p = None -> is_some (i_pend i) = true.
Proof.
  intros meta x i p H. unfold try_request in H. destruct (x_id_meta x =? 0); [discriminate H|].
  destruct (i_pend i); [reflexivity|discriminate H].
Qed.

Lemma blocked_ok : forall b i p rest,
  pre_parse b i = true -> is_some (i_pend i) = true ->
  okio b (set_i_buf (set_i_ds_ext (set_i_in_read (set_i_blocked i (Some p)) false) true) rest) = true.
Proof. intros b i p rest H Hp. destruct b; io_cases i. Qed.

Lemma parse_msgs_ok : forall fx meta ms c sp c' sp',
  pre_parse (x_id_meta (c_x c) =? 0) (c_io c) = true ->
  parse_msgs fx meta c sp ms = (c', sp', false) -> okc c' = true.
Proof.
  intros fx meta ms. induction ms as [|[m sz] rest IH]; intros c sp c' sp' Hp H.
  - cbn in H. inversion H; subst. unfold okc. cbn. apply pre_parse_nil. exact Hp.
  - cbn [parse_msgs] in H.
    assert (HS : forall h, (let '(x', pend', sp'0, bad) := parse_handshake fx (N.of_nat (length meta)) (c_x c) (i_pend (c_io c)) sp h in
                 let c'0 := mkConn (c_peer c) x' (set_i_pend (c_io c) pend') in
                 if bad then (with_io c'0 (set_i_buf (c_io c'0) rest), sp'0, true)
                 else parse_msgs fx meta (with_io c'0 (poke_write (c_io c'0))) sp'0 rest) = (c', sp', false) -> okc c' = true).
    { intros h Hh.
      destruct (parse_handshake fx (N.of_nat (length meta)) (c_x c) (i_pend (c_io c)) sp h) as [[[x' pend'] sp1] bad] eqn:E.
      destruct bad; [inversion Hh|].
      assert (Hq : is_some (i_pend (c_io c)) = true -> (x_id_meta (c_x c) =? 0) = false).
      { intro Q. destruct (c_io c) as [mk rd wr ds pend blk buf sock up ka wb idl]. cbn in *.
        destruct pend; [|discriminate Q]. destruct (x_id_meta (c_x c) =? 0); [|reflexivity].
        destruct blk, rd, ds, wr; cbn in Hp; try discriminate Hp. destruct up as [|[?|]]; cbn in Hp; discriminate Hp. }
      destruct (parse_handshake_pend _ _ _ _ _ _ _ _ _ _ E Hq) as [A B].
      eapply IH; [|exact Hh]. cbn. eapply pre_parse_hs; eauto. }
    destruct m as [h|e t p|].
    + apply HS with (h := h). exact H.
    + destruct (3 <=? e); [inversion H|].
      destruct (e =? 0); [apply HS with (h := empty_hs); exact H|].
      destruct (e =? 1). { eapply IH; [|exact H]. cbn. apply pre_parse_poke. exact Hp. }
      destruct (negb (x_le_meta (c_x c))). { eapply IH; [|exact H]. cbn. apply pre_parse_poke. exact Hp. }
      destruct (t =? 0)%Z.
      * destruct (try_request meta (c_x c) (c_io c) p) as [i'|] eqn:E.
        -- eapply IH; [|exact H]. cbn. eapply try_request_some; eauto.
        -- inversion H; subst. unfold okc. cbn. apply blocked_ok; [exact Hp|]. eapply try_request_none; eauto.
      * eapply IH; [|exact H]. cbn. apply pre_parse_poke. exact Hp.
    + eapply IH; [|exact H]. exact Hp.
Qed.

(* ---- event_read keeps the invariant *)
Lemma read_event_ok : forall fx meta c sp c' sp' o,
  okc c = true -> i_in_read (c_io c) = true ->
  read_event fx meta c sp = COk c' sp' o -> okc c' = true.
Proof.
  intros fx meta c sp c' sp' o Hok Hr H. unfold read_event in H.
  set (i0 := set_i_idle (c_io c) 0) in *.
  assert (Hok0 : okio (x_id_meta (c_x c) =? 0) i0 = true).
  { unfold okc in Hok. subst i0. destruct (c_io c); exact Hok. }
  assert (Hr0 : i_in_read i0 = true) by (subst i0; destruct (c_io c); exact Hr).
  clearbody i0.
  destruct (i_ds_ext i0) eqn:Eds.
  - destruct (i_blocked i0) as [p|] eqn:Eb.
    + destruct (try_request meta (c_x c) i0 p) as [i'|] eqn:Et.
      * (* processed now *)
        match type of H with context [if ?b then _ else _] => destruct b end; [discriminate H|].
        match type of H with context [parse_msgs ?a ?b ?cc ?d ?e] => destruct (parse_msgs a b cc d e) as [[c1 sp1] cl] eqn:Ep end.
        destruct cl; inversion H; subst. eapply parse_msgs_ok; [|exact Ep]. cbn.
        unfold try_request in Et. destruct (x_id_meta (c_x c) =? 0) eqn:Ez.
        -- inversion Et; subst. io_cases i'.
        -- destruct (i_pend i0) eqn:Epd; [discriminate Et|]. inversion Et; subst. io_cases i0.
      * inversion H; subst. unfold okc. cbn. pose proof (try_request_none _ _ _ _ Et) as Q.
        destruct (x_id_meta (c_x c) =? 0); io_cases i0.
    + (* READ_EXTENSION without a waiting message cannot happen under the invariant *)
      exfalso. destruct (x_id_meta (c_x c) =? 0); io_cases i0.
  - match type of H with context [if ?b then _ else _] => destruct b end; [discriminate H|].
    match type of H with context [parse_msgs ?a ?b ?cc ?d ?e] => destruct (parse_msgs a b cc d e) as [[c1 sp1] cl] eqn:Ep end.
    destruct cl; inversion H; subst. eapply parse_msgs_ok; [|exact Ep]. cbn.
    destruct (x_id_meta (c_x c) =? 0); io_cases i0.
Qed.

(* ---- event_write keeps the invariant *)
Lemma okio_mask : forall b i k, okio b (set_i_mask i k) = okio b i.
Proof. intros. destruct i; reflexivity. Qed.

Lemma fill_spec : forall fx ini del c c1 ext,
  fx_pex_false fx = true -> fill fx ini del c = (c1, ext) ->
  c_peer c1 = c_peer c /\ x_id_meta (c_x c1) = x_id_meta (c_x c) /\
  exists k, (c_io c1 = set_i_mask (c_io c) k /\ (ext = None -> i_pend (c_io c) = None))
         \/ (c_io c1 = set_i_mask (set_i_pend (c_io c) None) k /\ ext <> None).
Proof.
  intros fx ini del c c1 ext Hfx H. unfold fill in H.
  assert (FIN : forall c0 k, c_peer c0 = c_peer c -> x_id_meta (c_x c0) = x_id_meta (c_x c) -> c_io c0 = set_i_mask (c_io c) k ->
          match i_pend (c_io c0) with
          | Some r => (with_io c0 (set_i_pend (c_io c0) None), Some (OMeta (c_peer c0) (x_id_meta (c_x c0)) r))
          | None => (c0, None)
          end = (c1, ext) ->
          c_peer c1 = c_peer c /\ x_id_meta (c_x c1) = x_id_meta (c_x c) /\
          exists k, (c_io c1 = set_i_mask (c_io c) k /\ (ext = None -> i_pend (c_io c) = None))
                 \/ (c_io c1 = set_i_mask (set_i_pend (c_io c) None) k /\ ext <> None)).
  { intros c0 k Hp Hx Hio HH. rewrite Hio in HH.
    assert (Epd : i_pend (set_i_mask (c_io c) k) = i_pend (c_io c)) by (destruct (c_io c); reflexivity).
    rewrite Epd in HH. destruct (i_pend (c_io c)) eqn:E; inversion HH; subst; clear HH; cbn.
    - repeat split; auto. exists k. right. split; [destruct (c_io c); reflexivity|discriminate].
    - repeat split; auto. exists k. left. split; [exact Hio|reflexivity]. }
  destruct (mask_is0 (i_mask (c_io c))).
  { cbv beta iota zeta in H. apply (FIN c (i_mask (c_io c))); auto. destruct (c_io c); reflexivity. }
  unfold send_pex in H.
  destruct (negb (x_rs_pex (c_x c))).
  { cbv beta iota zeta in H. apply (FIN (with_io c (set_i_mask (c_io c) mask0)) mask0) in H; auto. }
  destruct (k_en (i_mask (c_io c)) || k_dis (i_mask (c_io c))).
  { cbv beta iota zeta in H. inversion H; subst; clear H. cbn. repeat split; auto. eexists. left. split; [reflexivity|discriminate]. }
  destruct (k_do (i_mask (c_io c)) && negb (x_id_pex (c_x c) =? 0)).
  { destruct (if x_init_pex (c_x c) then ini else del) as [[a r]|].
    - cbv beta iota zeta in H. inversion H; subst; clear H. cbn. repeat split; auto. eexists. left. split; [reflexivity|discriminate].
    - cbv beta iota zeta in H.
      apply (FIN (mkConn (c_peer c) (set_x_init_pex (c_x c) false) (set_i_mask (c_io c) mask0)) mask0) in H; auto. }
  rewrite Hfx in H. cbv beta iota zeta in H. cbn [negb] in H. cbv beta iota zeta in H.
  apply (FIN (with_io c (set_i_mask (c_io c) mask0)) mask0) in H; auto.
Qed.

Lemma parse_msgs_in_write : forall fx meta ms c sp c' sp' cl,
  i_in_write (c_io c) = true -> parse_msgs fx meta c sp ms = (c', sp', cl) -> i_in_write (c_io c') = true.
Proof.
  intros fx meta ms. induction ms as [|[m sz] rest IH]; intros c sp c' sp' cl Hw H.
  - cbn in H. inversion H; subst. cbn. destruct (c_io c); exact Hw.
  - cbn [parse_msgs] in H.
    assert (PK : forall i, i_in_write i = true -> i_in_write (poke_write i) = true).
    { intros i Hi. unfold poke_write. destruct (i_pend i); [destruct (i_up i)|]; auto; try (destruct i; reflexivity). }
    assert (HS : forall h, (let '(x', pend', sp'0, bad) := parse_handshake fx (N.of_nat (length meta)) (c_x c) (i_pend (c_io c)) sp h in
                 let c'0 := mkConn (c_peer c) x' (set_i_pend (c_io c) pend') in
                 if bad then (with_io c'0 (set_i_buf (c_io c'0) rest), sp'0, true)
                 else parse_msgs fx meta (with_io c'0 (poke_write (c_io c'0))) sp'0 rest) = (c', sp', cl) -> i_in_write (c_io c') = true).
    { intros h Hh.
      destruct (parse_handshake fx (N.of_nat (length meta)) (c_x c) (i_pend (c_io c)) sp h) as [[[x' pend'] sp1] bad].
      destruct bad.
      - inversion Hh; subst. cbn. destruct (c_io c); exact Hw.
      - eapply IH; [|exact Hh]. cbn. apply PK. destruct (c_io c); exact Hw. }
    destruct m as [h|e t p|].
    + apply HS with (h := h). exact H.
    + destruct (3 <=? e). { inversion H; subst. cbn. destruct (c_io c); exact Hw. }
      destruct (e =? 0); [apply HS with (h := empty_hs); exact H|].
      destruct (e =? 1). { eapply IH; [|exact H]. cbn. apply PK. exact Hw. }
      destruct (negb (x_le_meta (c_x c))). { eapply IH; [|exact H]. cbn. apply PK. exact Hw. }
      destruct (t =? 0)%Z.
      * destruct (try_request meta (c_x c) (c_io c) p) as [i'|] eqn:E.
        -- eapply IH; [|exact H]. cbn. apply PK. unfold try_request in E.
           destruct (x_id_meta (c_x c) =? 0); [inversion E; subst; exact Hw|].
           destruct (i_pend (c_io c)); [discriminate E|]. inversion E; subst. destruct (c_io c); exact Hw.
        -- inversion H; subst. cbn. destruct (c_io c); exact Hw.
      * eapply IH; [|exact H]. cbn. apply PK. exact Hw.
    + eapply IH; [|exact H]. exact Hw.
Qed.

Lemma okc_with_io : forall c i, okc (with_io c i) = okio (x_id_meta (c_x c) =? 0) i.
Proof. reflexivity. Qed.
Lemma in_write_with_io : forall c i, i_in_write (c_io (with_io c i)) = i_in_write i.
Proof. reflexivity. Qed.

Lemma write_loop_ok : forall f fx meta ini del c sp acc c' sp' o,
  fx_up_nothrow fx = true -> fx_pex_false fx = true -> fx_drain fx = true ->
  okc c = true -> i_in_write (c_io c) = true ->
  write_loop f fx meta ini del c sp acc = COk c' sp' o -> okc c' = true.
Proof.
  induction f as [|f IH]; intros fx meta ini del c sp acc c' sp' o F1 F2 F3 Hok Hw H; [discriminate H|].
  cbn [write_loop] in H.
  unfold okc in Hok.
  remember (x_id_meta (c_x c) =? 0) as b eqn:Eb0.
  remember (c_io c) as i eqn:Ei.
  destruct (i_up i) as [|ext] eqn:Eu.
  - destruct (fill fx ini del c) as [c1 ext] eqn:Ef.
    destruct (fill_spec _ _ _ _ _ _ F2 Ef) as (Hp & Hx & k & Hk). rewrite <- Ei in Hk.
    destruct ext as [e|].
    + refine (IH fx meta ini del _ _ _ _ _ _ F1 F2 F3 _ _ H).
      * rewrite okc_with_io, Hx, <- Eb0.
        destruct Hk as [[Eio _]|[Eio _]]; rewrite Eio; clear - Hok Hw Eu; destruct b; io_cases i.
      * rewrite in_write_with_io. destruct Hk as [[Eio _]|[Eio _]]; rewrite Eio; clear - Hw; destruct i; exact Hw.
    + destruct Hk as [[Eio Hn]|[_ Hn]]; [|exfalso; apply Hn; reflexivity].
      specialize (Hn eq_refl).
      destruct (i_kabuf (c_io c1)) eqn:Eka.
      * refine (IH fx meta ini del _ _ _ _ _ _ F1 F2 F3 _ _ H).
        -- rewrite okc_with_io, Hx, <- Eb0, Eio. clear - Hok Hw Eu Hn. destruct b; io_cases i.
        -- rewrite in_write_with_io, Eio. clear - Hw. destruct i; exact Hw.
      * inversion H; subst c' sp' o; clear H. rewrite okc_with_io, Hx, <- Eb0, Eio.
        clear - Hok Hw Eu Hn. destruct b; io_cases i.
  - destruct (i_wblocked i). { inversion H; subst c' sp' o. unfold okc. rewrite <- Eb0, <- Ei. exact Hok. }
    destruct ext as [e|].
    2: { refine (IH fx meta ini del _ _ _ _ _ _ F1 F2 F3 _ _ H).
         - rewrite okc_with_io, <- Eb0. clear - Hok Hw Eu. destruct b; io_cases i.
         - rewrite in_write_with_io. clear - Hw. destruct i; exact Hw. }
    rewrite F1, F3 in H.
    destruct (i_blocked i) as [p|] eqn:Ebl.
    + destruct (try_request meta (c_x c) i p) as [i'|] eqn:Et.
      * (* the waiting message is processed; READ_EXTENSION: drain *)
        assert (Et' := Et). unfold try_request in Et'. rewrite <- Eb0 in Et'.
        assert (Eds : i_ds_ext (set_i_up (set_i_in_read (set_i_blocked i' None) true) UIdle) = true).
        { clear - Hok Ebl Et'. destruct b.
          - inversion Et'; subst. io_cases i'.
          - destruct (i_pend i) eqn:Epd; [discriminate Et'|]. inversion Et'; subst. io_cases i. }
        rewrite Eds in H.
        assert (Ebl2 : i_blocked (set_i_up (set_i_in_read (set_i_blocked i' None) true) UIdle) = None) by (destruct i'; reflexivity).
        rewrite Ebl2 in H. cbn [andb] in H.
        match type of H with context [parse_msgs ?a ?bb ?cc ?d ?ee] => destruct (parse_msgs a bb cc d ee) as [[c1 sp1] cl] eqn:Ep end.
        destruct cl; [discriminate H|].
        refine (IH fx meta ini del _ _ _ _ _ _ F1 F2 F3 _ _ H).
        -- eapply parse_msgs_ok; [|exact Ep]. cbn [c_x c_io with_io]. rewrite <- Eb0.
           clear - Hok Hw Ebl Et' Eu. destruct b.
           ++ inversion Et'; subst. io_cases i'.
           ++ destruct (i_pend i) eqn:Epd; [discriminate Et'|]. inversion Et'; subst. io_cases i.
        -- eapply parse_msgs_in_write; [|exact Ep]. cbn [c_io with_io].
           clear - Hw Et'. destruct b.
           ++ inversion Et'; subst. destruct i'; exact Hw.
           ++ destruct (i_pend i); [discriminate Et'|]. inversion Et'; subst. destruct i; exact Hw.
      * (* still cannot proceed: keeps waiting *)
        assert (Ebl2 : i_blocked (set_i_up i UIdle) = Some p) by (destruct i; exact Ebl).
        rewrite Ebl2 in H. rewrite andb_false_r in H.
        refine (IH fx meta ini del _ _ _ _ _ _ F1 F2 F3 _ _ H).
        -- pose proof (try_request_none _ _ _ _ Et) as Q. rewrite okc_with_io, <- Eb0.
           clear - Hok Hw Ebl Eu Q. destruct b; io_cases i.
        -- rewrite in_write_with_io. clear - Hw. destruct i; exact Hw.
    + (* nothing waits: READ_EXTENSION is impossible *)
      assert (Eds : i_ds_ext (set_i_up i UIdle) = false).
      { clear - Hok Ebl. destruct b; io_cases i. }
      rewrite Eds in H. cbn [andb] in H.
      refine (IH fx meta ini del _ _ _ _ _ _ F1 F2 F3 _ _ H).
      * rewrite okc_with_io, <- Eb0. clear - Hok Hw Ebl Eu. destruct b; io_cases i.
      * rewrite in_write_with_io. clear - Hw. destruct i; exact Hw.
Qed.

(* ------------------------------------------------------------------------------------------ *)
(* download level: every connection satisfies the invariant in every reachable state          *)

Definition all_ok (d : dstate) : Prop := Forall (fun c => okc c = true) (d_conns d).
Definition repaired (fx : fixes) : Prop :=
  fx_up_nothrow fx = true /\ fx_pex_false fx = true /\ fx_drain fx = true.

Section ForallLemmas.
  Variable P : conn -> Prop.

  Lemma Forall_last : forall r c, P c -> Forall P r -> P (last r c).
  Proof.
    induction r as [|a r IH]; intros c Hc Hr; cbn [last]; [exact Hc|].
    inversion Hr; subst. destruct r; [assumption|]. apply IH; assumption.
  Qed.

  Lemma Forall_removelast : forall r, Forall P r -> Forall P (removelast r).
  Proof.
    induction r as [|a r IH]; intro Hr; cbn [removelast]; [constructor|].
    inversion Hr; subst. destruct r; [constructor|]. constructor; [assumption|]. apply IH; assumption.
  Qed.

  Lemma Forall_swap_erase : forall c r, P c -> Forall P r ->
    Forall P (match r with [] => [] | _ => last r c :: removelast r end).
  Proof.
    intros c r Hc Hr. destruct r as [|a r]; [constructor|].
    constructor; [apply Forall_last; assumption|apply Forall_removelast; assumption].
  Qed.

  Lemma Forall_erase : forall i l, Forall P l -> Forall P (erase_conn i l).
  Proof.
    intros i l. induction l as [|c r IH]; intro H; cbn [erase_conn]; [constructor|].
    inversion H; subst. destruct (c_peer c =? i).
    - apply Forall_swap_erase; assumption.
    - constructor; [assumption|apply IH; assumption].
  Qed.

  Lemma Forall_replace : forall c' l, P c' -> Forall P l -> Forall P (replace_conn c' l).
  Proof.
    intros c' l Hc. induction l as [|c r IH]; intro H; cbn [replace_conn]; [constructor|].
    inversion H; subst. destruct (c_peer c =? c_peer c'); constructor; auto.
  Qed.

  Lemma find_conn_P : forall i l c, Forall P l -> find_conn i l = Some c -> P c.
  Proof.
    intros i l. induction l as [|a r IH]; intros c H E; cbn [find_conn] in E; [discriminate E|].
    inversion H; subst. destruct (c_peer a =? i); [inversion E; subst; assumption|apply IH; assumption].
  Qed.
End ForallLemmas.

Lemma all_ok_set_conns : forall d l sp, Forall (fun c => okc c = true) l -> all_ok (set_conns d l sp).
Proof. intros. exact H. Qed.

Lemma settle_ok : forall f fx d i acc d' o,
  repaired fx -> all_ok d -> settle f fx d i acc = SOk d' o -> all_ok d'.
Proof.
  induction f as [|f IH]; intros fx d i acc d' o R Hd H; [discriminate H|].
  destruct R as (F1 & F2 & F3). cbn [settle] in H.
  destruct (find_conn i (d_conns d)) as [c|] eqn:Ef; [|inversion H; subst; exact Hd].
  pose proof (find_conn_P _ _ _ _ Hd Ef) as Hc. cbv beta in Hc.
  destruct (i_in_read (c_io c) && negb (is_nil (i_sock (c_io c)))) eqn:Er.
  - apply andb_true_iff in Er. destruct Er as [Er _].
    destruct (read_event fx (d_meta d) c (d_size_pex d)) as [c1 sp1 o1|c1 sp1 o1| |] eqn:Ee; try discriminate H.
    + eapply IH; [repeat split; eassumption| |exact H].
      apply all_ok_set_conns. apply Forall_replace; [|exact Hd]. eapply read_event_ok; eauto.
    + inversion H; subst. apply all_ok_set_conns. apply Forall_erase. exact Hd.
  - destruct (i_in_write (c_io c) && negb (is_umsg (i_up (c_io c)) && i_wblocked (c_io c))) eqn:Ew.
    + apply andb_true_iff in Ew. destruct Ew as [Ew _].
      destruct (write_event fx (d_meta d) (d_initial d) (d_delta d) c (d_size_pex d)) as [c1 sp1 o1|c1 sp1 o1| |] eqn:Ee; try discriminate H.
      * eapply IH; [repeat split; eassumption| |exact H].
        apply all_ok_set_conns. apply Forall_replace; [|exact Hd]. unfold write_event in Ee. eapply write_loop_ok; eauto.
      * inversion H; subst. apply all_ok_set_conns. apply Forall_erase. exact Hd.
    + inversion H; subst. exact Hd.
Qed.

Lemma settle_all_ok : forall fx ids d acc d' o,
  repaired fx -> all_ok d -> settle_all fx d ids acc = SOk d' o -> all_ok d'.
Proof.
  intros fx ids. induction ids as [|i r IH]; intros d acc d' o R Hd H; cbn [settle_all] in H.
  - inversion H; subst. exact Hd.
  - destruct (settle settle_fuel fx d i []) as [d1 o1| |] eqn:E; try discriminate H.
    eapply IH; [exact R| |exact H]. eapply settle_ok; eauto.
Qed.

(* the tick's own updates do not touch what the invariant talks about, except that a keep-alive
   puts the connection into the write set *)
Lemma okc_push_sock : forall c ms, okc (push_sock c ms) = okc c.
Proof. intros. unfold okc, push_sock. cbn. destruct (c_io c); reflexivity. Qed.

Lemma okc_set_cmask_le : forall c b k, okc (set_cmask (set_le_pex c b) k) = okc c.
Proof. intros. unfold okc, set_cmask, set_le_pex. cbn. destruct (c_x c); destruct (c_io c); reflexivity. Qed.
Lemma okc_set_cmask : forall c k, okc (set_cmask c k) = okc c.
Proof. intros. unfold okc, set_cmask. cbn. destruct (c_io c); reflexivity. Qed.

Lemma okc_keepalive : forall c, okc c = true -> okc (keepalive_conn c) = true.
Proof.
  intros c H. unfold okc, keepalive_conn in *. cbn. destruct (x_id_meta (c_x c) =? 0); generalize dependent (c_io c); intros i H; io_cases i.
Qed.

Lemma pex_loop_ok : forall l tg sp l' sp',
  Forall (fun c => okc c = true) l -> pex_loop tg sp l = (l', sp') -> Forall (fun c => okc c = true) l'.
Proof.
  induction l as [|c r IH]; intros tg sp l' sp' H E; cbn [pex_loop] in E.
  - inversion E; subst. constructor.
  - inversion H; subst.
    repeat match type of E with
    | context [pex_loop ?a ?b r] => let l2 := fresh "l2" in let s2 := fresh "s2" in let E2 := fresh "E2" in
        destruct (pex_loop a b r) as [l2 s2] eqn:E2; pose proof (IH _ _ _ _ H3 E2)
    | context [if ?b then _ else _] => destruct b
    | context [match ?t with TNone => _ | TEnable => _ | TDisable => _ end] => destruct t
    end; inversion E; subst; constructor; auto; rewrite ?okc_set_cmask_le, ?okc_set_cmask; auto.
Qed.

Lemma disable_all_ok : forall l sp l' sp',
  Forall (fun c => okc c = true) l -> disable_all sp l = (l', sp') -> Forall (fun c => okc c = true) l'.
Proof.
  induction l as [|c r IH]; intros sp l' sp' H E; cbn [disable_all] in E.
  - inversion E; subst. constructor.
  - inversion H; subst. destruct (x_rs_pex (c_x c)).
    + destruct (disable_all (dec_if (x_le_pex (c_x c)) sp) r) as [l2 s2] eqn:E2. inversion E; subst.
      constructor; [rewrite okc_set_cmask_le; assumption|eapply IH; eauto].
    + destruct (disable_all sp r) as [l2 s2] eqn:E2. inversion E; subst. constructor; [assumption|eapply IH; eauto].
Qed.

Lemma ka_loop_ok : forall f sp l l' sp' o,
  Forall (fun c => okc c = true) l -> ka_loop f sp l = (l', sp', o) -> Forall (fun c => okc c = true) l'.
Proof.
  induction f as [|f IH]; intros sp l l' sp' o H E; cbn [ka_loop] in E.
  - inversion E; subst. exact H.
  - destruct l as [|c r]; [inversion E; subst; constructor|]. inversion H; subst.
    destruct (timeout_ticks <? i_idle (c_io c) + 1).
    + match type of E with context [ka_loop f ?a ?b] => destruct (ka_loop f a b) as [[l2 s2] o2] eqn:E2 end.
      inversion E; subst. eapply IH; [|exact E2]. apply Forall_swap_erase; assumption.
    + destruct (ka_loop f sp r) as [[l2 s2] o2] eqn:E2. inversion E; subst.
      constructor; [apply okc_keepalive; assumption|eapply IH; eauto].
Qed.

Lemma do_peer_exchange_ok : forall d d1, all_ok d -> do_peer_exchange d = DpeOk d1 -> all_ok d1.
Proof.
  intros d d1 H E. unfold do_peer_exchange in E.
  match type of E with context [pex_loop ?a ?b ?c] => destruct (pex_loop a b c) as [l2 s2] eqn:E2 end.
  assert (A : Forall (fun c => okc c = true) l2) by (eapply pex_loop_ok; [exact H|exact E2]).
  repeat match type of E with
  | context [if ?b then _ else _] => destruct b
  | context [let '(_, _) := ?t in _] => destruct t
  end; try discriminate E; inversion E; subst; exact A.
Qed.

Lemma tick_ok : forall fx d d' o, repaired fx -> all_ok d -> tick fx d = SOk d' o -> all_ok d'.
Proof.
  intros fx d d' o R H E. unfold tick in E.
  match type of E with context [settle_all fx ?a ?b ?c] => destruct (settle_all fx a b c) as [d0 o0| |] eqn:E0 end; try discriminate E.
  assert (H0 : all_ok d0).
  { eapply settle_all_ok; [exact R| |exact E0]. apply all_ok_set_conns.
    unfold all_ok in H. induction (d_conns d) as [|c r IH]; cbn [map]; [constructor|].
    inversion H; subst. constructor; [rewrite okc_push_sock; assumption|apply IH; assumption]. }
  match type of E with context [match ?r with DpeOk _ => _ | DpeInternalError => _ end] => destruct r as [d1|] eqn:E1 end; [|discriminate E].
  assert (H1 : all_ok d1).
  { destruct (negb (d_private d0)); [eapply do_peer_exchange_ok; eauto|].
    destruct (d_pex_active d0); [|inversion E1; subst; exact H0].
    destruct (disable_all (d_size_pex d0) (d_conns d0)) as [l sp] eqn:Ed. inversion E1; subst.
    unfold all_ok. cbn. eapply disable_all_ok; eauto. }
  destruct (ka_loop (length (d_conns d1)) (d_size_pex d1) (d_conns d1)) as [[l2 sp2] o2] eqn:E2.
  eapply settle_all_ok; [exact R| |exact E]. apply all_ok_set_conns. eapply ka_loop_ok; [exact H1|exact E2].
Qed.

Lemma step_ok : forall fx d op d' o, repaired fx -> all_ok d -> step fx d op = SOk d' o -> all_ok d'.
Proof.
  intros fx d op d' o R H E. destruct op as [i|i ms| |i|i b]; cbn [step] in E.
  - destruct (existsb (N.eqb i) (d_used d)); inversion E; subst; [exact H|].
    unfold all_ok. cbn. apply Forall_app. split; [exact H|]. constructor; [|constructor].
    destruct (negb (d_private d) && d_pex_active d && (d_size_pex d <? Params.c20_max_size_pex)); vm_compute; reflexivity.
  - destruct (find_conn i (d_conns d)) as [c|] eqn:Ef; [|inversion E; subst; exact H].
    eapply settle_ok; [exact R| |exact E]. apply all_ok_set_conns. apply Forall_replace; [|exact H].
    rewrite okc_push_sock. eapply (find_conn_P (fun c => okc c = true)); eauto.
  - eapply tick_ok; eauto.
  - destruct (find_conn i (d_conns d)) as [c|]; [|inversion E; subst; exact H].
    match type of E with context [if ?b then _ else _] => destruct b end; [|discriminate E].
    inversion E; subst. apply all_ok_set_conns. apply Forall_erase. exact H.
  - destruct (find_conn i (d_conns d)) as [c|] eqn:Ef; [|inversion E; subst; exact H].
    eapply settle_ok; [exact R| |exact E]. apply all_ok_set_conns. apply Forall_replace; [|exact H].
    pose proof (find_conn_P (fun c => okc c = true) _ _ _ H Ef) as Hc. cbv beta in Hc.
    unfold okc in *. cbn. destruct (c_io c); exact Hc.
Qed.

Lemma final_state_ok : forall fx ops d, repaired fx -> all_ok d -> all_ok (final_state fx d ops).
Proof.
  intros fx ops. induction ops as [|o r IH]; intros d R H; cbn [final_state]; [exact H|].
  destruct (step fx d o) as [d' outs| |] eqn:E; try exact H. apply IH; [exact R|]. eapply step_ok; eauto.
Qed.

Lemma start_ok : forall fx priv m minp, repaired fx -> all_ok (start fx priv m minp).
Proof.
  intros fx priv m minp R. unfold start.
  destruct (tick fx (init priv m minp)) as [d o| |] eqn:E; try (constructor).
  eapply tick_ok; [exact R| |exact E]. constructor.
Qed.

Lemma current_repaired : repaired current_fixes.
Proof. repeat split. Qed.

(* THE reads_resume THEOREM, for the code as it is (current_fixes): in every reachable state of
   every connection, a complete message that is not processed (waiting in m_read, or buffered
   behind it, or the connection is out of the read set) implies that a reply is pending or in
   flight and the connection is in the write set; and no internal_error is raised by the events. *)
Definition unprocessed (c : conn) : bool :=
  is_some (i_blocked (c_io c)) || negb (is_nil (i_buf (c_io c))) || negb (i_in_read (c_io c)) || i_ds_ext (c_io c).
Definition progress_scheduled (c : conn) : bool :=
  (is_some (i_pend (c_io c)) || up_some (i_up (c_io c))) && i_in_write (c_io c).

Lemma okc_reads_resume : forall c, okc c = true -> unprocessed c = true -> progress_scheduled c = true.
Proof.
  intros c H U. unfold okc, unprocessed, progress_scheduled in *.
  destruct (x_id_meta (c_x c) =? 0); generalize dependent (c_io c); intros i H U; io_cases i.
Qed.

Theorem reads_resume : forall priv m minp ops c,
  In c (d_conns (final_state current_fixes (start current_fixes priv m minp) ops)) ->
  unprocessed c = true -> progress_scheduled c = true.
Proof.
  intros priv m minp ops c Hin U.
  pose proof (final_state_ok current_fixes ops _ current_repaired (start_ok current_fixes priv m minp current_repaired)) as A.
  unfold all_ok in A. rewrite Forall_forall in A. apply okc_reads_resume; [apply A; exact Hin|exact U].
Qed.
