(* C20 — proofs, part B: reads_resume as an invariant of the event-level model (all_fixes),
   refutations for the code as it is (current_fixes). *)
From Coq Require Import NArith ZArith List Bool Lia.
From Coq Require Import ZifyBool ZifyNat ZifyN.
From LTV.C20 Require Import ParamsGen Model.
Import ListNotations.
Open Scope N_scope.

Definition small_meta : list N := [100; 49; 58; 120; 101].
Definition hs_of (x m p : option Z) : hs := mkHs x m p None.

Definition is_some {A} (o : option A) : bool := match o with Some _ => true | None => false end.
Definition up_some (u : upstate) : bool := match u with UMsg (Some _) => true | _ => false end.

(* ------------------------------------------------------------------------------------------ *)
(* The reads_resume invariant of one connection.
     - out of the read set                      => a complete message waits (blocked)
     - a complete message waits                 => a reply is pending or in flight
     - a reply is pending / a message in flight => the connection is in the write set
     - complete messages in the protocol buffer => a message waits in front of them
     - read state READ_EXTENSION                => a message waits
     - a reply is pending                       => the peer's ut_metadata id is not 0            *)
Definition okio (idm0 : bool) (i : iostate) : bool :=
  let blocked := is_some (i_blocked i) in
  let pend := is_some (i_pend i) in
  (i_in_read i || blocked) &&
  (negb blocked || pend || up_some (i_up i)) &&
  (negb pend || i_in_write i) &&
  (negb (is_umsg (i_up i)) || i_in_write i) &&
  (blocked || is_nil (i_buf i)) &&
  (negb (i_ds_ext i) || blocked) &&
  (negb blocked || negb (i_in_read i)) &&
  (negb blocked || i_ds_ext i) &&
  (negb pend || negb idm0).

Definition okc (c : conn) : bool := okio (x_id_meta (c_x c) =? 0) (c_io c).

(* what holds while read_message() runs: nothing waits, IDLE, in the read set *)
Definition pre_parse (idm0 : bool) (i : iostate) : bool :=
  negb (is_some (i_blocked i)) && i_in_read i && negb (i_ds_ext i) &&
  (negb (is_some (i_pend i)) || i_in_write i) &&
  (negb (is_umsg (i_up i)) || i_in_write i) &&
  (negb (is_some (i_pend i)) || negb idm0).

Ltac io_cases i :=
  destruct i as [mk rd wr ds pend blk buf sock up ka wb idl];
  destruct rd, wr, ds, pend, blk, buf, up as [|[?|]]; cbn in *;
  try reflexivity; try discriminate; try tauto; try congruence.

Lemma pre_parse_nil : forall b i, pre_parse b i = true -> okio b (set_i_buf i []) = true.
Proof. intros b i H. destruct b; io_cases i. Qed.

Lemma pre_parse_poke : forall b i, pre_parse b i = true -> pre_parse b (poke_write i) = true.
Proof. intros b i H. destruct b; io_cases i. Qed.

Lemma pre_parse_buf_irrelevant : forall b i l, pre_parse b (set_i_buf i l) = pre_parse b i.
Proof. intros. destruct i; reflexivity. Qed.

(* parse_handshake and the pending reply *)
Lemma parse_handshake_meta : forall fx ms x pend sp h x' pend' sp' bad,
  parse_handshake fx ms x pend sp h = (x', pend', sp', bad) ->
  x_id_meta x' = match hs_meta h with Some z => clamp_id z | None => x_id_meta x end /\
  pend' = match hs_meta h with
          | Some z => if negb (clamp_id z =? x_id_meta x) && (clamp_id z =? 0) then None else pend
          | None => pend
          end.
Proof.
  intros fx ms x pend sp h x' pend' sp' bad H. unfold parse_handshake in H.
  destruct (hs_pex h) as [zx|]; destruct (hs_meta h) as [zm|]; cbn in H.
  1,2: destruct (clamp_id zx =? x_id_pex x).
  all: inversion H; subst; clear H; cbn; split; reflexivity.
Qed.

Lemma parse_handshake_pend : forall fx ms x pend sp h x' pend' sp' bad,
  parse_handshake fx ms x pend sp h = (x', pend', sp', bad) ->
  (is_some pend = true -> (x_id_meta x =? 0) = false) ->
  (pend' = pend \/ pend' = None) /\ (is_some pend' = true -> (x_id_meta x' =? 0) = false).
Proof.
  intros fx ms x pend sp h x' pend' sp' bad H Hp.
  destruct (parse_handshake_meta _ _ _ _ _ _ _ _ _ _ H) as [A B]. rewrite A. subst pend'.
  destruct (hs_meta h) as [zm|].
  - destruct (clamp_id zm =? x_id_meta x) eqn:E1; destruct (clamp_id zm =? 0) eqn:E2; cbn.
    + split; [left; reflexivity|]. intro Q. specialize (Hp Q).
      apply N.eqb_eq in E1. apply N.eqb_eq in E2. rewrite E1 in E2. rewrite E2 in Hp. discriminate Hp.
    + split; [left; reflexivity|]. intros _. reflexivity.
    + split; [right; reflexivity|]. intro Q. discriminate Q.
    + split; [left; reflexivity|]. intros _. reflexivity.
  - split; [left; reflexivity|exact Hp].
Qed.

Lemma pre_parse_hs : forall b b' i pend',
  pre_parse b i = true -> (pend' = i_pend i \/ pend' = None) ->
  (is_some pend' = true -> b' = false) ->
  pre_parse b' (poke_write (set_i_pend i pend')) = true.
Proof.
  intros b b' i pend' H [E|E] Hb; subst pend'.
  - assert (set_i_pend i (i_pend i) = i) as -> by (destruct i; reflexivity).
    destruct b'; [|destruct b; io_cases i].
    destruct i as [mk rd wr ds pend blk buf sock up ka wb idl]. destruct pend; cbn in Hb; [specialize (Hb eq_refl); discriminate Hb|].
    destruct b; destruct rd, wr, ds, blk, buf, up as [|[?|]]; cbn in *; try reflexivity; try discriminate.
  - destruct b, b'; io_cases i.
Qed.

Lemma try_request_some : forall meta x i p i',
  try_request meta x i p = Some i' ->
  pre_parse (x_id_meta x =? 0) i = true -> pre_parse (x_id_meta x =? 0) (poke_write i') = true.
Proof.
  intros meta x i p i' H Hp. unfold try_request in H.
  destruct (x_id_meta x =? 0) eqn:E.
  - inversion H; subst. apply pre_parse_poke. exact Hp.
  - destruct (i_pend i) eqn:Ep; [discriminate H|]. inversion H; subst; clear H.
    io_cases i.
Qed.

Lemma try_request_none : forall meta x i p,
  try_request meta x i p = None -> is_some (i_pend i) = true.
Proof.
  intros meta x i p H. unfold try_request in H. destruct (x_id_meta x =? 0); [discriminate H|].
  destruct (i_pend i); [reflexivity|discriminate H].
Qed.

Lemma blocked_ok : forall b i p rest,
  pre_parse b i = true -> is_some (i_pend i) = true ->
  okio b (set_i_buf (set_i_ds_ext (set_i_in_read (set_i_blocked i (Some p)) false) true) rest) = true.
Proof. intros b i p rest H Hp. destruct b; io_cases i. Qed.

Lemma parse_msgs_ok : forall fx meta ms c sp c' sp',
  pre_parse (x_id_meta (c_x c) =? 0) (c_io c) = true ->
  parse_msgs fx meta c sp ms = (c', sp', false) -> okc c' = true.
Proof.
  intros fx meta ms. induction ms as [|[m sz] rest IH]; intros c sp c' sp' Hp H.
  - cbn in H. inversion H; subst. unfold okc. cbn. apply pre_parse_nil. exact Hp.
  - cbn [parse_msgs] in H.
    assert (HS : forall h, (let '(x', pend', sp'0, bad) := parse_handshake fx (N.of_nat (length meta)) (c_x c) (i_pend (c_io c)) sp h in
                 let c'0 := mkConn (c_peer c) x' (set_i_pend (c_io c) pend') in
                 if bad then (with_io c'0 (set_i_buf (c_io c'0) rest), sp'0, true)
                 else parse_msgs fx meta (with_io c'0 (poke_write (c_io c'0))) sp'0 rest) = (c', sp', false) -> okc c' = true).
    { intros h Hh.
      destruct (parse_handshake fx (N.of_nat (length meta)) (c_x c) (i_pend (c_io c)) sp h) as [[[x' pend'] sp1] bad] eqn:E.
      destruct bad; [inversion Hh|].
      assert (Hq : is_some (i_pend (c_io c)) = true -> (x_id_meta (c_x c) =? 0) = false).
      { intro Q. destruct (c_io c) as [mk rd wr ds pend blk buf sock up ka wb idl]. cbn in *.
        destruct pend; [|discriminate Q]. destruct (x_id_meta (c_x c) =? 0); [|reflexivity].
        destruct blk, rd, ds, wr; cbn in Hp; try discriminate Hp. destruct up as [|[?|]]; cbn in Hp; discriminate Hp. }
      destruct (parse_handshake_pend _ _ _ _ _ _ _ _ _ _ E Hq) as [A B].
      eapply IH; [|exact Hh]. cbn. eapply pre_parse_hs; eauto. }
    destruct m as [h|e t p|].
    + apply HS with (h := h). exact H.
    + destruct (3 <=? e); [inversion H|].
      destruct (e =? 0); [apply HS with (h := empty_hs); exact H|].
      destruct (e =? 1). { eapply IH; [|exact H]. cbn. apply pre_parse_poke. exact Hp. }
      destruct (negb (x_le_meta (c_x c))). { eapply IH; [|exact H]. cbn. apply pre_parse_poke. exact Hp. }
      destruct (t =? 0)%Z.
      * destruct (try_request meta (c_x c) (c_io c) p) as [i'|] eqn:E.
        -- eapply IH; [|exact H]. cbn. eapply try_request_some; eauto.
        -- inversion H; subst. unfold okc. cbn. apply blocked_ok; [exact Hp|]. eapply try_request_none; eauto.
      * eapply IH; [|exact H]. cbn. apply pre_parse_poke. exact Hp.
    + eapply IH; [|exact H]. exact Hp.
Qed.

(* ---- event_read keeps the invariant *)
Lemma read_event_ok : forall fx meta c sp c' sp' o,
  okc c = true -> i_in_read (c_io c) = true ->
  read_event fx meta c sp = COk c' sp' o -> okc c' = true.
Proof.
  intros fx meta c sp c' sp' o Hok Hr H. unfold read_event in H.
  set (i0 := set_i_idle (c_io c) 0) in *.
  assert (Hok0 : okio (x_id_meta (c_x c) =? 0) i0 = true).
  { unfold okc in Hok. subst i0. destruct (c_io c); exact Hok. }
  assert (Hr0 : i_in_read i0 = true) by (subst i0; destruct (c_io c); exact Hr).
  clearbody i0.
  destruct (i_ds_ext i0) eqn:Eds.
  - destruct (i_blocked i0) as [p|] eqn:Eb.
    + destruct (try_request meta (c_x c) i0 p) as [i'|] eqn:Et.
      * (* processed now *)
        match type of H with context [if ?b then _ else _] => destruct b end; [discriminate H|].
        match type of H with context [parse_msgs ?a ?b ?cc ?d ?e] => destruct (parse_msgs a b cc d e) as [[c1 sp1] cl] eqn:Ep end.
        destruct cl; inversion H; subst. eapply parse_msgs_ok; [|exact Ep]. cbn.
        unfold try_request in Et. destruct (x_id_meta (c_x c) =? 0) eqn:Ez.
        -- inversion Et; subst. io_cases i'.
        -- destruct (i_pend i0) eqn:Epd; [discriminate Et|]. inversion Et; subst. io_cases i0.
      * inversion H; subst. unfold okc. cbn. pose proof (try_request_none _ _ _ _ Et) as Q.
        destruct (x_id_meta (c_x c) =? 0); io_cases i0.
    + (* READ_EXTENSION without a waiting message cannot happen under the invariant *)
      exfalso. destruct (x_id_meta (c_x c) =? 0); io_cases i0.
  - match type of H with context [if ?b then _ else _] => destruct b end; [discriminate H|].
    match type of H with context [parse_msgs ?a ?b ?cc ?d ?e] => destruct (parse_msgs a b cc d e) as [[c1 sp1] cl] eqn:Ep end.
    destruct cl; inversion H; subst. eapply parse_msgs_ok; [|exact Ep]. cbn.
    destruct (x_id_meta (c_x c) =? 0); io_cases i0.
Qed.

(* ---- event_write keeps the invariant *)
Lemma okio_mask : forall b i k, okio b (set_i_mask i k) = okio b i.
Proof. intros. destruct i; reflexivity. Qed.

Lemma fill_spec : forall fx ini del c c1 ext,
  fx_pex_false fx = true -> fill fx ini del c = (c1, ext) ->
  c_peer c1 = c_peer c /\ x_id_meta (c_x c1) = x_id_meta (c_x c) /\
  exists k, (c_io c1 = set_i_mask (c_io c) k /\ (ext = None -> i_pend (c_io c) = None))
         \/ (c_io c1 = set_i_mask (set_i_pend (c_io c) None) k /\ ext <> None).
Proof.
  intros fx ini del c c1 ext Hfx H. unfold fill in H.
  assert (FIN : forall c0 k, c_peer c0 = c_peer c -> x_id_meta (c_x c0) = x_id_meta (c_x c) -> c_io c0 = set_i_mask (c_io c) k ->
          match i_pend (c_io c0) with
          | Some r => (with_io c0 (set_i_pend (c_io c0) None), Some (OMeta (c_peer c0) (x_id_meta (c_x c0)) r))
          | None => (c0, None)
          end = (c1, ext) ->
          c_peer c1 = c_peer c /\ x_id_meta (c_x c1) = x_id_meta (c_x c) /\
          exists k, (c_io c1 = set_i_mask (c_io c) k /\ (ext = None -> i_pend (c_io c) = None))
                 \/ (c_io c1 = set_i_mask (set_i_pend (c_io c) None) k /\ ext <> None)).
  { intros c0 k Hp Hx Hio HH. rewrite Hio in HH.
    assert (Epd : i_pend (set_i_mask (c_io c) k) = i_pend (c_io c)) by (destruct (c_io c); reflexivity).
    rewrite Epd in HH. destruct (i_pend (c_io c)) eqn:E; inversion HH; subst; clear HH; cbn.
    - repeat split; auto. exists k. right. split; [destruct (c_io c); reflexivity|discriminate].
    - repeat split; auto. exists k. left. split; [exact Hio|reflexivity]. }
  destruct (mask_is0 (i_mask (c_io c))).
  { cbv beta iota zeta in H. apply (FIN c (i_mask (c_io c))); auto. destruct (c_io c); reflexivity. }
  unfold send_pex in H.
  destruct (negb (x_rs_pex (c_x c))).
  { cbv beta iota zeta in H. apply (FIN (with_io c (set_i_mask (c_io c) mask0)) mask0) in H; auto. }
  destruct (k_en (i_mask (c_io c)) || k_dis (i_mask (c_io c))).
  { cbv beta iota zeta in H. inversion H; subst; clear H. cbn. repeat split; auto. eexists. left. split; [reflexivity|discriminate]. }
  destruct (k_do (i_mask (c_io c)) && negb (x_id_pex (c_x c) =? 0)).
  { destruct (if x_init_pex (c_x c) then ini else del) as [[a r]|].
    - cbv beta iota zeta in H. inversion H; subst; clear H. cbn. repeat split; auto. eexists. left. split; [reflexivity|discriminate].
    - cbv beta iota zeta in H.
      apply (FIN (mkConn (c_peer c) (set_x_init_pex (c_x c) false) (set_i_mask (c_io c) mask0)) mask0) in H; auto. }
  rewrite Hfx in H. cbv beta iota zeta in H. cbn [negb] in H. cbv beta iota zeta in H.
  apply (FIN (with_io c (set_i_mask (c_io c) mask0)) mask0) in H; auto.
Qed.

Lemma parse_msgs_in_write : forall fx meta ms c sp c' sp' cl,
  i_in_write (c_io c) = true -> parse_msgs fx meta c sp ms = (c', sp', cl) -> i_in_write (c_io c') = true.
Proof.
  intros fx meta ms. induction ms as [|[m sz] rest IH]; intros c sp c' sp' cl Hw H.
  - cbn in H. inversion H; subst. cbn. destruct (c_io c); exact Hw.
  - cbn [parse_msgs] in H.
    assert (PK : forall i, i_in_write i = true -> i_in_write (poke_write i) = true).
    { intros i Hi. unfold poke_write. destruct (i_pend i); [destruct (i_up i)|]; auto; try (destruct i; reflexivity). }
    assert (HS : forall h, (let '(x', pend', sp'0, bad) := parse_handshake fx (N.of_nat (length meta)) (c_x c) (i_pend (c_io c)) sp h in
                 let c'0 := mkConn (c_peer c) x' (set_i_pend (c_io c) pend') in
                 if bad then (with_io c'0 (set_i_buf (c_io c'0) rest), sp'0, true)
                 else parse_msgs fx meta (with_io c'0 (poke_write (c_io c'0))) sp'0 rest) = (c', sp', cl) -> i_in_write (c_io c') = true).
    { intros h Hh.
      destruct (parse_handshake fx (N.of_nat (length meta)) (c_x c) (i_pend (c_io c)) sp h) as [[[x' pend'] sp1] bad].
      destruct bad.
      - inversion Hh; subst. cbn. destruct (c_io c); exact Hw.
      - eapply IH; [|exact Hh]. cbn. apply PK. destruct (c_io c); exact Hw. }
    destruct m as [h|e t p|].
    + apply HS with (h := h). exact H.
    + destruct (3 <=? e). { inversion H; subst. cbn. destruct (c_io c); exact Hw. }
      destruct (e =? 0); [apply HS with (h := empty_hs); exact H|].
      destruct (e =? 1). { eapply IH; [|exact H]. cbn. apply PK. exact Hw. }
      destruct (negb (x_le_meta (c_x c))). { eapply IH; [|exact H]. cbn. apply PK. exact Hw. }
      destruct (t =? 0)%Z.
      * destruct (try_request meta (c_x c) (c_io c) p) as [i'|] eqn:E.
        -- eapply IH; [|exact H]. cbn. apply PK. unfold try_request in E.
           destruct (x_id_meta (c_x c) =? 0); [inversion E; subst; exact Hw|].
           destruct (i_pend (c_io c)); [discriminate E|]. inversion E; subst. destruct (c_io c); exact Hw.
        -- inversion H; subst. cbn. destruct (c_io c); exact Hw.
      * eapply IH; [|exact H]. cbn. apply PK. exact Hw.
    + eapply IH; [|exact H]. exact Hw.
Qed.

Lemma okc_with_io : forall c i, okc (with_io c i) = okio (x_id_meta (c_x c) =? 0) i.
Proof. reflexivity. Qed.
Lemma in_write_with_io : forall c i, i_in_write (c_io (with_io c i)) = i_in_write i.
Proof. reflexivity. Qed.

Lemma write_loop_ok : forall f fx meta ini del c sp acc c' sp' o,
  fx_up_nothrow fx = true -> fx_pex_false fx = true -> fx_drain fx = true ->
  okc c = true -> i_in_write (c_io c) = true ->
  write_loop f fx meta ini del c sp acc = COk c' sp' o -> okc c' = true.
Proof.
  induction f as [|f IH]; intros fx meta ini del c sp acc c' sp' o F1 F2 F3 Hok Hw H; [discriminate H|].
  cbn [write_loop] in H.
  unfold okc in Hok.
  remember (x_id_meta (c_x c) =? 0) as b eqn:Eb0.
  remember (c_io c) as i eqn:Ei.
  destruct (i_up i) as [|ext] eqn:Eu.
  - destruct (fill fx ini del c) as [c1 ext] eqn:Ef.
    destruct (fill_spec _ _ _ _ _ _ F2 Ef) as (Hp & Hx & k & Hk). rewrite <- Ei in Hk.
    destruct ext as [e|].
    + refine (IH fx meta ini del _ _ _ _ _ _ F1 F2 F3 _ _ H).
      * rewrite okc_with_io, Hx, <- Eb0.
        destruct Hk as [[Eio _]|[Eio _]]; rewrite Eio; clear - Hok Hw Eu; destruct b; io_cases i.
      * rewrite in_write_with_io. destruct Hk as [[Eio _]|[Eio _]]; rewrite Eio; clear - Hw; destruct i; exact Hw.
    + destruct Hk as [[Eio Hn]|[_ Hn]]; [|exfalso; apply Hn; reflexivity].
      specialize (Hn eq_refl).
      destruct (i_kabuf (c_io c1)) eqn:Eka.
      * refine (IH fx meta ini del _ _ _ _ _ _ F1 F2 F3 _ _ H).
        -- rewrite okc_with_io, Hx, <- Eb0, Eio. clear - Hok Hw Eu Hn. destruct b; io_cases i.
        -- rewrite in_write_with_io, Eio. clear - Hw. destruct i; exact Hw.
      * inversion H; subst c' sp' o; clear H. rewrite okc_with_io, Hx, <- Eb0, Eio.
        clear - Hok Hw Eu Hn. destruct b; io_cases i.
  - destruct (i_wblocked i). { inversion H; subst c' sp' o. unfold okc. rewrite <- Eb0, <- Ei. exact Hok. }
    destruct ext as [e|].
    2: { refine (IH fx meta ini del _ _ _ _ _ _ F1 F2 F3 _ _ H).
         - rewrite okc_with_io, <- Eb0. clear - Hok Hw Eu. destruct b; io_cases i.
         - rewrite in_write_with_io. clear - Hw. destruct i; exact Hw. }
    rewrite F1, F3 in H.
    destruct (i_blocked i) as [p|] eqn:Ebl.
    + destruct (try_request meta (c_x c) i p) as [i'|] eqn:Et.
      * (* the waiting message is processed; READ_EXTENSION: drain *)
        assert (Et' := Et). unfold try_request in Et'. rewrite <- Eb0 in Et'.
        assert (Eds : i_ds_ext (set_i_up (set_i_in_read (set_i_blocked i' None) true) UIdle) = true).
        { clear - Hok Ebl Et'. destruct b.
          - inversion Et'; subst. io_cases i'.
          - destruct (i_pend i) eqn:Epd; [discriminate Et'|]. inversion Et'; subst. io_cases i. }
        rewrite Eds in H.
        assert (Ebl2 : i_blocked (set_i_up (set_i_in_read (set_i_blocked i' None) true) UIdle) = None) by (destruct i'; reflexivity).
        rewrite Ebl2 in H. cbn [andb] in H.
        match type of H with context [parse_msgs ?a ?bb ?cc ?d ?ee] => destruct (parse_msgs a bb cc d ee) as [[c1 sp1] cl] eqn:Ep end.
        destruct cl; [discriminate H|].
        refine (IH fx meta ini del _ _ _ _ _ _ F1 F2 F3 _ _ H).
        -- eapply parse_msgs_ok; [|exact Ep]. cbn [c_x c_io with_io]. rewrite <- Eb0.
           clear - Hok Hw Ebl Et' Eu. destruct b.
           ++ inversion Et'; subst. io_cases i'.
           ++ destruct (i_pend i) eqn:Epd; [discriminate Et'|]. inversion Et'; subst. io_cases i.
        -- eapply parse_msgs_in_write; [|exact Ep]. cbn [c_io with_io].
           clear - Hw Et'. destruct b.
           ++ inversion Et'; subst. destruct i'; exact Hw.
           ++ destruct (i_pend i); [discriminate Et'|]. inversion Et'; subst. destruct i; exact Hw.
      * (* still cannot proceed: keeps waiting *)
        assert (Ebl2 : i_blocked (set_i_up i UIdle) = Some p) by (destruct i; exact Ebl).
        rewrite Ebl2 in H. rewrite andb_false_r in H.
        refine (IH fx meta ini del _ _ _ _ _ _ F1 F2 F3 _ _ H).
        -- pose proof (try_request_none _ _ _ _ Et) as Q. rewrite okc_with_io, <- Eb0.
           clear - Hok Hw Ebl Eu Q. destruct b; io_cases i.
        -- rewrite in_write_with_io. clear - Hw. destruct i; exact Hw.
    + (* nothing waits: READ_EXTENSION is impossible *)
      assert (Eds : i_ds_ext (set_i_up i UIdle) = false).
      { clear - Hok Ebl. destruct b; io_cases i. }
      rewrite Eds in H. cbn [andb] in H.
      refine (IH fx meta ini del _ _ _ _ _ _ F1 F2 F3 _ _ H).
      * rewrite okc_with_io, <- Eb0. clear - Hok Hw Ebl Eu. destruct b; io_cases i.
      * rewrite in_write_with_io. clear - Hw. destruct i; exact Hw.
Qed.

