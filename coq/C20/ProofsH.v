(* C20 — proofs, part H: std::set_difference on sorted ranges; PEX 'dropped' exactness. *)
From Coq Require Import NArith ZArith List Bool Lia Sorting.Sorted.
From Coq Require Import ZifyBool ZifyNat ZifyN.
From LTV.C20 Require Import ParamsGen Model ProofsB ProofsC ProofsD ProofsG.
Import ListNotations.
Open Scope N_scope.

Section Ord.
  Variable fx : fixes.

Lemma less_true : forall a b, entry_less fx a b = true <->
  key_addr fx (fst a) < key_addr fx (fst b) \/
  (key_addr fx (fst a) = key_addr fx (fst b) /\ key_port fx (snd a) < key_port fx (snd b)).
Proof.
  intros a b. unfold entry_less. rewrite orb_true_iff, andb_true_iff, !N.ltb_lt, N.eqb_eq. tauto.
Qed.
Lemma less_false : forall a b, entry_less fx a b = false <->
  key_addr fx (fst b) < key_addr fx (fst a) \/
  (key_addr fx (fst a) = key_addr fx (fst b) /\ key_port fx (snd b) <= key_port fx (snd a)).
Proof.
  intros a b. destruct (entry_less fx a b) eqn:E.
  - apply less_true in E. split; [discriminate|]. lia.
  - split; [intros _|reflexivity].
    assert (~ (key_addr fx (fst a) < key_addr fx (fst b) \/
               (key_addr fx (fst a) = key_addr fx (fst b) /\ key_port fx (snd a) < key_port fx (snd b)))) by (rewrite <- less_true, E; discriminate). lia.
Qed.

(* strictly ascending / ascending in SocketAddressCompact_less *)
Definition asc_strict := StronglySorted (fun x y : entry => entry_less fx x y = true).
Definition asc := StronglySorted (fun x y : entry => entry_less fx y x = false).

Lemma asc_strict_asc : forall l, asc_strict l -> asc l.
Proof.
  induction 1; constructor; auto. eapply Forall_impl; [|exact H0]. cbv beta. intros e He.
  apply less_true in He. apply less_false. lia.
Qed.

(* what std::set_difference keeps from a strictly ascending range has no counterpart in b *)
Lemma set_diff_sound : forall a b, asc_strict a -> asc b ->
  forall e, In e (set_diff fx a b) -> forall e', In e' b -> ~ same_entry fx e e'.
Proof.
  induction a as [|x a IHa]; intros b Ha Hb e Hin e' Hin'; [destruct b; destruct Hin|].
  inversion Ha as [|? ? Ha' Hx]; subst. rewrite Forall_forall in Hx.
  induction b as [|y b IHb]; [destruct Hin'|].
  inversion Hb as [|? ? Hb' Hy]; subst. rewrite Forall_forall in Hy.
  cbn in Hin. destruct (entry_less fx x y) eqn:L1.
  - destruct Hin as [Hin|Hin].
    + subst e. intros [S1 S2]. apply less_true in L1.
      destruct Hin' as [E|E]; [subst e'; lia|]. specialize (Hy _ E). apply less_false in Hy. lia.
    + exact (IHa _ Ha' Hb _ Hin _ Hin').
  - destruct (entry_less fx y x) eqn:L2.
    + destruct Hin' as [E|E].
      * subst e'. intros [S1 S2]. apply less_true in L2.
        assert (In e (x :: a)) as [E2|E2] by (eapply set_diff_subset; exact Hin); [subst e; lia|].
        specialize (Hx _ E2). apply less_true in Hx. lia.
      * exact (IHb Hb' Hin E).
    + assert (Hea : In e a) by (eapply set_diff_subset; exact Hin).
      destruct Hin' as [E|E].
      * subst e'. intros [S1 S2]. specialize (Hx _ Hea). apply less_true in Hx.
        apply less_false in L1. apply less_false in L2. lia.
      * exact (IHa _ Ha' Hb' _ Hin _ E).
Qed.

(* insertion sort gives an ascending list; strictly ascending when no two entries share a key *)
Lemma insert_sorted_asc : forall x l, asc l -> asc (insert_sorted fx x l).
Proof.
  intros x l H. induction H as [|y r Hr IH Hy]; cbn [insert_sorted]; [repeat constructor|].
  destruct (entry_less fx y x) eqn:L.
  - constructor; [exact IH|]. rewrite Forall_forall in *. intros e He. apply insert_sorted_in in He.
    destruct He as [He|He]; [subst e; apply less_true in L; apply less_false; lia|apply Hy; exact He].
  - constructor; [constructor; assumption|]. rewrite Forall_forall in *. intros e [He|He].
    + subst e. apply less_false in L. apply less_false. lia.
    + specialize (Hy _ He). apply less_false in Hy. apply less_false in L. apply less_false. lia.
Qed.

Lemma sort_entries_asc : forall l, asc (sort_entries fx l).
Proof. induction l as [|x r IH]; cbn; [constructor|apply insert_sorted_asc; exact IH]. Qed.

Lemma insert_sorted_strict : forall x l, asc_strict l -> (forall e, In e l -> ~ same_entry fx x e) -> asc_strict (insert_sorted fx x l).
Proof.
  intros x l H. induction H as [|y r Hr IH Hy]; intro Hn; cbn [insert_sorted]; [repeat constructor|].
  assert (Hny : ~ same_entry fx x y) by (apply Hn; left; reflexivity). unfold same_entry in Hny.
  destruct (entry_less fx y x) eqn:L.
  - constructor; [apply IH; intros e He; apply Hn; right; exact He|]. rewrite Forall_forall in *. intros e He.
    apply insert_sorted_in in He. destruct He as [He|He]; [subst e; exact L|apply Hy; exact He].
  - constructor; [constructor; assumption|]. rewrite Forall_forall in *. intros e [He|He].
    + subst e. apply less_false in L. apply less_true. lia.
    + specialize (Hy _ He). apply less_true in Hy. apply less_false in L. apply less_true. lia.
Qed.

Definition akey (e : entry) : N := key_addr fx (fst e).

Lemma sort_entries_strict : forall l, NoDup (map akey l) -> asc_strict (sort_entries fx l).
Proof.
  induction l as [|x r IH]; intro H; cbn; [constructor|].
  cbn in H. inversion H; subst. apply insert_sorted_strict; [apply IH; assumption|].
  intros e He [S1 _]. apply (proj1 (sort_entries_in fx r e)) in He. apply H2. unfold akey at 1. rewrite S1.
  apply (in_map akey). exact He.
Qed.

Lemma current_entries_keys : forall l, NoDup (map (fun c => key_addr fx (c_peer c)) l) -> NoDup (map akey (current_entries l)).
Proof.
  induction l as [|c r IH]; intro H; cbn; [constructor|]. cbn in H. inversion H; subst.
  unfold current_entries in *. cbn [filter]. destruct (negb (x_listen (c_x c) =? 0)); [|apply IH; assumption].
  cbn. constructor; [|apply IH; assumption]. intro Hin. apply H2.
  apply in_map_iff in Hin. destruct Hin as ([p q] & E1 & E2). unfold akey in E1. cbn in E1.
  apply in_map_iff in E2. destruct E2 as (c0 & E3 & E4). inversion E3; subst. apply filter_In in E4.
  rewrite <- E1. apply (in_map (fun c => key_addr fx (c_peer c))). exact (proj1 E4).
Qed.

(* PEX 'dropped' exactness for one round (at most 200 listed peers): every dropped entry was
   listed in m_ut_pex_list and has the wire bytes of NO currently connected peer with a port.
   Hypotheses: m_ut_pex_list strictly ascending (it is the previous round's sorted list) and no two
   connections of the same peer (PeerList admits one connection per address). *)
Theorem pex_dropped_exact : forall d d1 a r e,
  do_peer_exchange fx d = DpeOk d1 ->
  N.of_nat (length (sort_entries fx (current_entries (d_conns d)))) <= Params.c20_max_pex_list ->
  asc_strict (d_list d) ->
  d_delta d1 = Some (a, r) -> In e r ->
  In e (d_list d) /\ forall e', In e' (sort_entries fx (current_entries (d_conns d))) -> ~ same_entry fx e e'.
Proof.
  intros d d1 a r e E Hcap Hs Hd Hin.
  destruct (dpe_shape fx d d1 E) as (added' & list' & Hsh & Hl & Hi & Hdl). cbv zeta in Hsh.
  destruct Hsh as [(Hc & _ & _)|(Hc & Ea & El)]; [apply N.ltb_lt in Hc; lia|]. subst added' list'.
  rewrite Hdl in Hd. unfold dpe_buffers in Hd.
  set (cur := sort_entries fx (current_entries (d_conns d))) in *.
  assert (R : r = set_diff fx (d_list d) cur).
  { destruct (set_diff fx cur (d_list d)); destruct (set_diff fx (d_list d) cur); cbn in Hd; try discriminate Hd; inversion Hd; reflexivity. }
  subst r. split; [eapply set_diff_subset; exact Hin|].
  intros e' He'. eapply set_diff_sound; eauto. apply sort_entries_asc.
Qed.

(* ... and the list that results is strictly ascending again when the peers are distinct, so the
   hypothesis is an invariant of the rounds *)
Theorem pex_list_strict_after_round : forall d d1,
  do_peer_exchange fx d = DpeOk d1 ->
  N.of_nat (length (sort_entries fx (current_entries (d_conns d)))) <= Params.c20_max_pex_list ->
  NoDup (map (fun c => key_addr fx (c_peer c)) (d_conns d)) -> asc_strict (d_list d1).
Proof.
  intros d d1 E Hcap Hn. destruct (dpe_shape fx d d1 E) as (added' & list' & Hsh & Hl & _). cbv zeta in Hsh.
  destruct Hsh as [(Hc & _ & _)|(Hc & Ea & El)]; [apply N.ltb_lt in Hc; lia|]. subst list'. rewrite Hl.
  apply sort_entries_strict. apply current_entries_keys. exact Hn.
Qed.
End Ord.
