(* C01 — the hashing invariant: in every reachable state every block of a piece that is in the hash queue (or between
   the verdict and mark_completed) is finished; hence a piece that is being hashed accepts no write. *)
From Coq Require Import NArith List Bool Lia.
From LTV.C01 Require Import ParamsGen Model Proofs ProofsInv.
Import ListNotations.
Open Scope N_scope.

(* what an event may do to one block, seen from the acting peer p *)
Definition BS (p : N) (x x' : block) : Prop :=
  key x' = key x /\ b_len x' = b_len x /\ ents p (b_trans x) (b_trans x') /\ (finished x = true -> finished x' = true).

Lemma BS_refl : forall p x, BS p x x.
Proof. intros. repeat split; auto. apply ents_refl. Qed.
Lemma BS_trans : forall p x y z, BS p x y -> BS p y z -> BS p x z.
Proof.
  intros p x y z (A1 & A2 & A3 & A4) (B1 & B2 & B3 & B4). repeat split; try congruence; auto.
  eapply ents_trans; eassumption.
Qed.

Lemma key_is_block : forall i b x y, key x = key y -> is_block i b x = is_block i b y.
Proof. exact is_block_key. Qed.
Lemma key_idx : forall x y, key x = key y -> b_idx x = b_idx y.
Proof. unfold key. intros x y E. inversion E. reflexivity. Qed.

Lemma find_upd_block : forall l i b f x, (forall y, key (f y) = key y) -> find (is_block i b) l = Some x ->
  find (is_block i b) (upd_block l i b f) = Some (f x).
Proof.
  intros l i b f x Hf F. unfold upd_block.
  rewrite (find_map_key (fun y => if is_block i b y then f y else y) i b l).
  - rewrite F. simpl. apply find_some in F. destruct F as [_ B]. rewrite B. reflexivity.
  - intro y. destruct (is_block i b y); auto.
Qed.

Lemma upd_block_twice : forall l i b f g, (forall y, key (f y) = key y) ->
  upd_block (upd_block l i b f) i b g = upd_block l i b (fun y => g (f y)).
Proof.
  intros l i b f g Hf. unfold upd_block. rewrite map_map. apply map_ext. intro y.
  destruct (is_block i b y) eqn:B; [|rewrite B; reflexivity].
  rewrite (is_block_key i b (f y) y (Hf y)). rewrite B. reflexivity.
Qed.

Lemma find_tr_set_pos : forall p st pos l t, find_tr p l = Some t ->
  find_tr p (set_pos p st pos l) = Some {| t_peer := p; t_state := st; t_pos := pos |}.
Proof.
  intros p st pos l t. unfold find_tr, set_pos, upd_tr. induction l as [|a l IH]; simpl; [discriminate|].
  destruct (t_peer a =? p) eqn:E; simpl.
  - rewrite N.eqb_refl. reflexivity.
  - rewrite E. exact IH.
Qed.

Lemma in_set_pos_p : forall p st pos l t', In t' (set_pos p st pos l) -> t_peer t' = p -> t_pos t' = pos.
Proof.
  intros p st pos l t' Hin E. unfold set_pos in Hin. apply in_upd_tr in Hin. destruct Hin as (u & Hu & Eu).
  destruct (t_peer u =? p) eqn:Eq; subst t'; [reflexivity|]. apply N.eqb_neq in Eq. contradiction.
Qed.

Lemma ents_set_pos : forall p st pos l, ents p l (set_pos p st pos l).
Proof. intros. unfold set_pos. apply ents_upd. intros u Eu. simpl. auto. Qed.

Lemma finished_set_pos_other : forall x p q st pos, b_leader x = Some q -> q <> p ->
  finished (set_trans x (set_pos p st pos (b_trans x)) (b_leader x)) = finished x.
Proof.
  intros x p q st pos L Hne. unfold finished. simpl. rewrite L. unfold set_pos. rewrite find_tr_upd_other; auto.
Qed.

Section Hash.
Variable H : list N -> list N.
Variable expected : N -> list N.
Variable npieces : N.
Variable psize : N -> N.
Hypothesis psize_pos : forall i, i < npieces -> 0 < psize i.
Notation accept := (accept H expected npieces psize).
Notation run := (run H expected npieces psize).
Notation J := (J).

(* the generic preservation argument for events that keep the block keys *)
Lemma J_from_BS : forall p s s',
  J s ->
  map key (blocks s') = map key (blocks s) ->
  (forall y', In y' (blocks s') -> exists y, In y (blocks s) /\ BS p y y') ->
  (forall q i b, In (q, CValid i b) (curs s') -> q <> p -> In (q, CValid i b) (curs s)) ->
  (forall i b x t, In (p, CValid i b) (curs s') -> In x (blocks s') -> is_block i b x = true ->
                   In t (b_trans x) -> t_peer t = p -> t_pos t < b_len x) ->
  (forall i, In i (hashing s') \/ pmark s' = Some i -> In i (hashing s) \/ pmark s = Some i) ->
  J s'.
Proof.
  intros p s s' (KU & LP & CLs & HI) K B C Cp Hh. unfold ProofsInv.J. repeat split.
  - rewrite K. exact KU.
  - intros y' Hy'. destruct (B y' Hy') as (y & Hy & (_ & E & _)). rewrite E. apply LP. exact Hy.
  - intros q i b x t Hc Hx Bx Ht Et. destruct (N.eq_dec q p) as [->|Hne]; [eapply Cp; eassumption|].
    destruct (B x Hx) as (y & Hy & (Ek & El & En & _)).
    destruct (En t Ht) as [E|(u & Hu & E1 & E2)]; [congruence|].
    rewrite El, <- E2. eapply CLs; [apply C; eassumption | exact Hy | rewrite <- (key_is_block i b x y Ek); exact Bx | exact Hu | congruence].
  - intros i Hi. apply all_finished_intro. intros y' Hy' Ei.
    destruct (B y' Hy') as (y & Hy & (Ek & _ & _ & Fm)). apply Fm.
    eapply all_finished_block; [apply HI; apply Hh; exact Hi | exact Hy |]. rewrite <- (key_idx _ _ Ek). exact Ei.
Qed.


Lemma invalidate_curs_sub : forall l x q i b, In (q, CValid i b) (invalidate_curs l x) -> In (q, CValid i b) l.
Proof.
  intros l x q i b Hin. unfold invalidate_curs in Hin. apply in_map_iff in Hin. destruct Hin as [[q0 c0] [E Hc]]. simpl in E.
  destruct c0 as [i0 b0|pos len]; [|inversion E; subst; exact Hc].
  destruct (is_block i0 b0 x); [|inversion E; subst; exact Hc].
  destruct (find_tr q0 (b_trans x)) as [t|]; [|inversion E; subst; exact Hc].
  destruct (is_leader_t t); [inversion E; subst; exact Hc | inversion E].
Qed.

(* updating exactly the block found by find_block *)
Lemma upd_J : forall p s s' i b x F,
  J s -> find_block s i b = Some x ->
  (forall y, key (F y) = key y) -> BS p x (F x) ->
  blocks s' = upd_block (blocks s) i b F ->
  (forall q i' b', In (q, CValid i' b') (curs s') -> q <> p -> In (q, CValid i' b') (curs s)) ->
  (forall i' b', In (p, CValid i' b') (curs s') ->
      (is_block i' b' x = false -> In (p, CValid i' b') (curs s)) /\
      (is_block i' b' x = true -> forall t, In t (b_trans (F x)) -> t_peer t = p -> t_pos t < b_len x)) ->
  (forall j, In j (hashing s') \/ pmark s' = Some j -> In j (hashing s) \/ pmark s = Some j) ->
  J s'.
Proof.
  intros p s s' i b x F Js Fx HF BSx Eb C Cp Hh.
  pose proof Js as (KU & LP & CLs & HI).
  apply (J_from_BS p s s' Js).
  - rewrite Eb. apply keys_upd_block. exact HF.
  - intros y' Hy'. rewrite Eb in Hy'.
    destruct (in_upd_block_unique _ _ _ _ _ _ KU Fx Hy') as [->|[Hy Bn]].
    + exists x. split; [apply find_some in Fx; apply Fx | exact BSx].
    + exists y'. split; [exact Hy | apply BS_refl].
  - exact C.
  - intros i' b' x' t Hc Hx' Bx' Ht Et. destruct (Cp i' b' Hc) as [Hold Hnew]. rewrite Eb in Hx'.
    destruct (in_upd_block_unique _ _ _ _ _ _ KU Fx Hx') as [->|[Hy Bn]].
    + destruct BSx as (Ek & El & _). rewrite El. apply Hnew; auto. rewrite <- (key_is_block i' b' _ _ Ek). exact Bx'.
    + destruct (is_block i' b' x) eqn:Bx.
      * exfalso. apply find_some in Fx. destruct Fx as [Hx Bix].
        unfold is_block in Bx, Bix.
        apply andb_true_iff in Bx. destruct Bx as [B1 B2]. apply andb_true_iff in Bix. destruct Bix as [B5 B6].
        apply N.eqb_eq in B1. apply N.eqb_eq in B2. apply N.eqb_eq in B5. apply N.eqb_eq in B6.
        assert (i' = i) by congruence. assert (b' = b) by congruence. subst i' b'. congruence.
      * eapply CLs; try eassumption. apply Hold. reflexivity.
  - exact Hh.
Qed.

Lemma BS_complete : forall p x y, BS p x y -> finished x = false -> BS p x (complete_block y).
Proof.
  intros p x y (A1 & A2 & A3 & A4) Fx. repeat split; auto.
  - simpl. eapply ents_trans; [exact A3 | apply ents_filter].
  - intro. congruence.
Qed.

Lemma BS_erase : forall p x y q, BS p x y -> b_leader y = Some q -> q <> p -> BS p x (erase_tr p y).
Proof.
  intros p x y q B L Hne. eapply BS_trans; [exact B|].
  destruct (erase_tr_facts p y) as (E1 & E2 & E3 & E4). repeat split; auto.
  intro Fy. rewrite (E4 q L Hne). exact Fy.
Qed.

Lemma BS_erase_unfinished : forall p x, finished x = false -> BS p x (erase_tr p x).
Proof.
  intros p x Fx. destruct (erase_tr_facts p x) as (E1 & E2 & E3 & _). repeat split; auto. intro. congruence.
Qed.

(* set the position of p's transfer in block (i,b), then down_chunk_finished if it reached the end *)
Lemma dv_finish : forall s s2 p i b x f st pos',
  J s -> find_block s i b = Some x ->
  (forall y, key (f y) = key y) ->
  blocks s2 = upd_block (blocks s) i b f -> curs s2 = curs s -> hashing s2 = hashing s -> pmark s2 = pmark s ->
  find_tr p (b_trans (f x)) = Some {| t_peer := p; t_state := st; t_pos := pos' |} ->
  (forall t', In t' (b_trans (f x)) -> t_peer t' = p -> t_pos t' = pos') ->
  pos' <= b_len x ->
  BS p x (f x) ->
  (st = TLeader -> finished x = false) ->
  (st <> TLeader -> exists q, b_leader (f x) = Some q /\ q <> p) ->
  J (after_data s2 p i b).
Proof.
  intros s s2 p i b x f st pos' Js Fx Hf Eb Ec Eh Ep Ft Hall Hle BSx HL HN.
  pose proof Js as (KU & LP & CLs & HI).
  pose proof BSx as (Ek & El & _).
  assert (F2 : find_block s2 i b = Some (f x)).
  { unfold find_block. rewrite Eb. apply find_upd_block; auto. }
  unfold after_data. rewrite F2, Ft. cbn [t_pos]. rewrite El.
  destruct (pos' =? b_len x) eqn:Epos.
  - destruct st; unfold is_leader_t; cbn [t_state tstate_eqb].
    + (* leader finished: Block::completed *)
      eapply (upd_J p s _ i b x (fun y => complete_block (f y))); try exact Js; try exact Fx.
      * intro y. rewrite <- (Hf y). reflexivity.
      * apply BS_complete; [exact BSx | apply HL; reflexivity].
      * cbn [blocks with_blocks with_curs]. rewrite Eb. apply upd_block_twice. exact Hf.
      * cbn [curs with_blocks with_curs]. intros q i' b' Hin Hne. apply in_del_cur in Hin. destruct Hin as [Hin _].
        apply invalidate_curs_sub in Hin. rewrite Ec in Hin. exact Hin.
      * cbn [curs with_blocks with_curs]. intros i' b' Hin. apply in_del_cur in Hin. destruct Hin as [_ Hne]. congruence.
      * cbn [hashing pmark with_blocks with_curs]. rewrite Eh, Ep. auto.
    + destruct (HN ltac:(discriminate)) as (q & Lq & Hne).
      eapply (upd_J p s _ i b x (fun y => erase_tr p (f y))); try exact Js; try exact Fx.
      * intro y. destruct (erase_tr_facts p (f y)) as (E1 & _). rewrite E1. apply Hf.
      * eapply BS_erase; eassumption.
      * cbn [blocks with_blocks with_curs]. rewrite Eb. apply upd_block_twice. exact Hf.
      * cbn [curs with_blocks with_curs]. intros q0 i' b' Hin Hn0. apply in_del_cur in Hin. rewrite Ec in Hin. apply Hin.
      * cbn [curs with_blocks with_curs]. intros i' b' Hin. apply in_del_cur in Hin. destruct Hin as [_ Hn0]. congruence.
      * cbn [hashing pmark with_blocks with_curs]. rewrite Eh, Ep. auto.
    + destruct (HN ltac:(discriminate)) as (q & Lq & Hne).
      eapply (upd_J p s _ i b x (fun y => erase_tr p (f y))); try exact Js; try exact Fx.
      * intro y. destruct (erase_tr_facts p (f y)) as (E1 & _). rewrite E1. apply Hf.
      * eapply BS_erase; eassumption.
      * cbn [blocks with_blocks with_curs]. rewrite Eb. apply upd_block_twice. exact Hf.
      * cbn [curs with_blocks with_curs]. intros q0 i' b' Hin Hn0. apply in_del_cur in Hin. rewrite Ec in Hin. apply Hin.
      * cbn [curs with_blocks with_curs]. intros i' b' Hin. apply in_del_cur in Hin. destruct Hin as [_ Hn0]. congruence.
      * cbn [hashing pmark with_blocks with_curs]. rewrite Eh, Ep. auto.
  - (* not finished: the state is s2 *)
    apply N.eqb_neq in Epos.
    eapply (upd_J p s s2 i b x f); try exact Js; try exact Fx; auto.
    + rewrite Ec. auto.
    + rewrite Ec. intros i' b' Hin. split; [intro; exact Hin|]. intros _ t Ht Et. rewrite (Hall t Ht Et). lia.
    + rewrite Eh, Ep. auto.
Qed.


Lemma dv_J : forall s p i b d s', J s -> data_valid s p i b d = Some s' -> J s'.
Proof.
  intros s p i b d s' Js E. unfold data_valid in E.
  destruct (find_block s i b) as [x|] eqn:Fx; [|discriminate].
  destruct (find_tr p (b_trans x)) as [t|] eqn:Ft; [|discriminate].
  destruct ((lenN d =? 0) || (b_len x - t_pos t <? lenN d)) eqn:G; [discriminate|].
  apply orb_false_iff in G. destruct G as [G1 G2]. apply N.eqb_neq in G1. apply N.ltb_ge in G2.
  destruct (b_leader x) as [q|] eqn:L; [|discriminate].
  destruct (q =? p) eqn:Eq.
  - (* leader *)
    apply N.eqb_eq in Eq. subst q. inversion E; subst s'; clear E.
    assert (Fin : finished x = false).
    { unfold finished. rewrite L, Ft. apply N.eqb_neq. lia. }
    eapply (dv_finish s _ p i b x (fun y => set_trans y (set_pos p TLeader (t_pos t + lenN d) (b_trans y)) (b_leader y)) TLeader (t_pos t + lenN d));
      try exact Js; try exact Fx; try reflexivity.
    + cbn [b_trans set_trans]. eapply find_tr_set_pos. exact Ft.
    + cbn [b_trans set_trans]. intros t' Ht Et. eapply in_set_pos_p; eassumption.
    + lia.
    + repeat split; try reflexivity. * cbn [b_trans set_trans]. apply ents_set_pos. * intro. congruence.
    + intro. exact Fin.
    + intro X. contradiction.
  - apply N.eqb_neq in Eq.
    destruct (leader_pos x <? t_pos t) eqn:LP; [discriminate|]. apply N.ltb_ge in LP.
    destruct (negb (list_eqb _ _)).
    + (* dissimilar *)
      inversion E; subst s'; clear E.
      eapply (upd_J p s _ i b x (fun y => set_trans y (set_pos p TErased 0 (b_trans y)) (b_leader y))); try exact Js; try exact Fx.
      * reflexivity.
      * repeat split; try reflexivity. -- cbn [b_trans set_trans]. apply ents_set_pos.
        -- intro Fy. rewrite (finished_set_pos_other x p q TErased 0 L Eq). exact Fy.
      * reflexivity.
      * cbn [curs with_curs with_blocks]. intros q0 i' b' Hin Hne.
        destruct (t_pos t + lenN d =? b_len x); [apply in_del_cur in Hin; apply Hin|].
        apply in_set_cur in Hin. destruct Hin as [[Hin _]|[Hq _]]; [exact Hin | congruence].
      * cbn [curs with_curs with_blocks]. intros i' b' Hin. exfalso.
        destruct (t_pos t + lenN d =? b_len x).
        -- apply in_del_cur in Hin. destruct Hin as [_ Hn]. congruence.
        -- apply in_set_cur in Hin. destruct Hin as [[_ Hn]|[_ Hc]]; [congruence | discriminate].
      * auto.
    + destruct (N.min (lenN d) (leader_pos x - t_pos t) =? lenN d) eqn:M.
      * (* follower, same data *)
        inversion E; subst s'; clear E.
        eapply (dv_finish s _ p i b x (fun y => set_trans y (set_pos p TNotLeader (t_pos t + lenN d) (b_trans y)) (b_leader y)) TNotLeader (t_pos t + lenN d));
          try exact Js; try exact Fx; try reflexivity.
        -- cbn [b_trans set_trans]. eapply find_tr_set_pos. exact Ft.
        -- cbn [b_trans set_trans]. intros t' Ht Et. eapply in_set_pos_p; eassumption.
        -- lia.
        -- repeat split; try reflexivity. ++ cbn [b_trans set_trans]. apply ents_set_pos.
           ++ intro Fy. rewrite (finished_set_pos_other x p q TNotLeader _ L Eq). exact Fy.
        -- intro X. discriminate.
        -- intros _. exists q. split; [exact L | exact Eq].
      * (* take over: Block::change_leader *)
        apply N.eqb_neq in M. inversion E; subst s'; clear E.
        assert (Fin : finished x = false).
        { unfold finished. unfold leader_pos in *. rewrite L in *. destruct (find_tr q (b_trans x)) as [tq|]; [|reflexivity].
          apply N.eqb_neq. lia. }
        set (tr1 := upd_tr q (fun u => {| t_peer := t_peer u; t_state := TNotLeader; t_pos := t_pos u |}) (b_trans x)).
        eapply (dv_finish s _ p i b x (fun y => set_trans y (set_pos p TLeader (t_pos t + lenN d) tr1) (Some p)) TLeader (t_pos t + lenN d));
          try exact Js; try exact Fx; try reflexivity.
        -- cbn [b_trans set_trans]. eapply find_tr_set_pos. unfold tr1. rewrite find_tr_upd_other; [exact Ft | auto | intros u Eu; exact Eu].
        -- cbn [b_trans set_trans]. intros t' Ht Et. eapply in_set_pos_p; eassumption.
        -- lia.
        -- repeat split; try reflexivity.
           ++ cbn [b_trans set_trans]. eapply ents_trans; [|apply ents_set_pos]. unfold tr1. apply ents_upd. intros u Eu. simpl. auto.
           ++ intro. congruence.
        -- intro. exact Fin.
        -- intro X. contradiction.
Qed.


(* ---------- a connection goes away ---------- *)
Lemma disc_J : forall s p, J s -> J (disc s p).
Proof.
  intros s p Js. pose proof Js as (KU & LP & CLs & HI).
  apply (J_from_BS p s (disc s p) Js).
  - unfold disc. cbn [blocks]. rewrite map_map.
    destruct (get_cur s p) as [[i b|pos len]|]; try (apply map_ext; intro; reflexivity).
    transitivity (map key (upd_block (blocks s) i b (erase_tr p))); [apply map_ext; intro; reflexivity|].
    apply keys_upd_block. intro y. apply erase_tr_facts.
  - unfold disc. cbn [blocks]. intros y' Hy'. apply in_map_iff in Hy'. destruct Hy' as (y1 & E & Hy1). subst y'.
    assert (Q : forall z, BS p z (set_queued z (removeN p (b_queued z)))) by (intro z; repeat split; auto; apply ents_refl).
    destruct (get_cur s p) as [[i b|pos len]|] eqn:C; try (exists y1; split; [exact Hy1 | apply Q]).
    unfold upd_block in Hy1. apply in_map_iff in Hy1. destruct Hy1 as (y0 & E & Hy0).
    exists y0. split; [exact Hy0|]. destruct (is_block i b y0) eqn:B; subst y1; [|apply Q].
    eapply BS_trans; [|apply Q].
    destruct (b_leader y0) as [q|] eqn:L.
    + destruct (N.eq_dec q p) as [->|Hne].
      * (* the transfer p is receiving is below the block length: the block it leads is unfinished *)
        apply BS_erase_unfinished. unfold finished. rewrite L.
        destruct (find_tr p (b_trans y0)) as [t|] eqn:Ft; [|reflexivity].
        apply find_tr_in in Ft. destruct Ft as [Ht Et]. apply N.eqb_neq.
        pose proof (CLs p i b y0 t (get_cur_in _ _ _ C) Hy0 B Ht Et). lia.
      * eapply BS_erase; [apply BS_refl | exact L | exact Hne].
    + apply BS_erase_unfinished. unfold finished. rewrite L. reflexivity.
  - unfold disc. cbn [curs]. intros q i b Hin Hne. apply in_del_cur in Hin. apply Hin.
  - unfold disc. cbn [curs]. intros i b x t Hin. apply in_del_cur in Hin. destruct Hin as [_ Hn]. congruence.
  - unfold disc. cbn [hashing pmark]. auto.
Qed.

End Hash.
