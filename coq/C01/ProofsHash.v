(* C01 — the hashing invariant: in every reachable state every block of a piece that is in the hash queue (or between
   the verdict and mark_completed) is finished; hence a piece that is being hashed accepts no write. *)
From Coq Require Import NArith List Bool Lia.
From LTV.C01 Require Import ParamsGen Model Proofs ProofsInv.
Import ListNotations.
Open Scope N_scope.

(* what an event may do to one block, seen from the acting peer p *)
Definition BS (p : N) (x x' : block) : Prop :=
  key x' = key x /\ b_len x' = b_len x /\ ents p (b_trans x) (b_trans x') /\ (finished x = true -> finished x' = true).

Lemma BS_refl : forall p x, BS p x x.
Proof. intros. repeat split; auto. apply ents_refl. Qed.
Lemma BS_trans : forall p x y z, BS p x y -> BS p y z -> BS p x z.
Proof.
  intros p x y z (A1 & A2 & A3 & A4) (B1 & B2 & B3 & B4). repeat split; try congruence; auto.
  eapply ents_trans; eassumption.
Qed.

Lemma key_is_block : forall i b x y, key x = key y -> is_block i b x = is_block i b y.
Proof. exact is_block_key. Qed.
Lemma key_idx : forall x y, key x = key y -> b_idx x = b_idx y.
Proof. unfold key. intros x y E. inversion E. reflexivity. Qed.

Lemma find_upd_block : forall l i b f x, (forall y, key (f y) = key y) -> find (is_block i b) l = Some x ->
  find (is_block i b) (upd_block l i b f) = Some (f x).
Proof.
  intros l i b f x Hf F. unfold upd_block.
  rewrite (find_map_key (fun y => if is_block i b y then f y else y) i b l).
  - rewrite F. simpl. apply find_some in F. destruct F as [_ B]. rewrite B. reflexivity.
  - intro y. destruct (is_block i b y); auto.
Qed.

Lemma upd_block_twice : forall l i b f g, (forall y, key (f y) = key y) ->
  upd_block (upd_block l i b f) i b g = upd_block l i b (fun y => g (f y)).
Proof.
  intros l i b f g Hf. unfold upd_block. rewrite map_map. apply map_ext. intro y.
  destruct (is_block i b y) eqn:B; [|rewrite B; reflexivity].
  rewrite (is_block_key i b (f y) y (Hf y)). rewrite B. reflexivity.
Qed.

Lemma find_tr_set_pos : forall p st pos l t, find_tr p l = Some t ->
  find_tr p (set_pos p st pos l) = Some {| t_peer := p; t_state := st; t_pos := pos |}.
Proof.
  intros p st pos l t. unfold find_tr, set_pos, upd_tr. induction l as [|a l IH]; simpl; [discriminate|].
  destruct (t_peer a =? p) eqn:E; simpl.
  - rewrite N.eqb_refl. reflexivity.
  - rewrite E. exact IH.
Qed.

Lemma in_set_pos_p : forall p st pos l t', In t' (set_pos p st pos l) -> t_peer t' = p -> t_pos t' = pos.
Proof.
  intros p st pos l t' Hin E. unfold set_pos in Hin. apply in_upd_tr in Hin. destruct Hin as (u & Hu & Eu).
  destruct (t_peer u =? p) eqn:Eq; subst t'; [reflexivity|]. apply N.eqb_neq in Eq. contradiction.
Qed.

Lemma ents_set_pos : forall p st pos l, ents p l (set_pos p st pos l).
Proof. intros. unfold set_pos. apply ents_upd. intros u Eu. simpl. auto. Qed.

Lemma finished_set_pos_other : forall x p q st pos, b_leader x = Some q -> q <> p ->
  finished (set_trans x (set_pos p st pos (b_trans x)) (b_leader x)) = finished x.
Proof.
  intros x p q st pos L Hne. unfold finished. simpl. rewrite L. unfold set_pos. rewrite find_tr_upd_other; auto.
Qed.

Lemma NoDup_app_intro : forall {A} (l1 l2 : list A), NoDup l1 -> NoDup l2 -> (forall k, In k l1 -> In k l2 -> False) -> NoDup (l1 ++ l2).
Proof.
  intros A l1 l2 N1 N2 D. induction N1 as [|a l1 Hn N1 IH]; simpl; [exact N2|].
  constructor.
  - intro Hin. apply in_app_or in Hin. destruct Hin as [Hin|Hin]; [contradiction | apply (D a); [left; reflexivity | exact Hin]].
  - apply IH. intros k H1 H2. apply (D k); [right; exact H1 | exact H2].
Qed.

Lemma bs_pos : 0 < bs.
Proof. unfold bs. reflexivity. Qed.

Section Hash.
Variable H : list N -> list N.
Variable expected : N -> list N.
Variable npieces : N.
Variable psize : N -> N.
Variable repaired : bool.
Hypothesis psize_pos : forall i, i < npieces -> 0 < psize i.
Notation accept := (accept H expected npieces psize repaired).
Notation run := (run H expected npieces psize repaired).
Notation J := (J).

(* the generic preservation argument for events that keep the block keys *)
Lemma J_from_BS : forall p s s',
  J s ->
  map key (blocks s') = map key (blocks s) ->
  (forall y', In y' (blocks s') -> exists y, In y (blocks s) /\ BS p y y') ->
  (forall q i b, In (q, CValid i b) (curs s') -> q <> p -> In (q, CValid i b) (curs s)) ->
  (forall i b x t, In (p, CValid i b) (curs s') -> In x (blocks s') -> is_block i b x = true ->
                   In t (b_trans x) -> t_peer t = p -> t_pos t < b_len x) ->
  (forall i, In i (hashing s') \/ pmark s' = Some i -> In i (hashing s) \/ pmark s = Some i) ->
  J s'.
Proof.
  intros p s s' (KU & LP & CLs & HI) K B C Cp Hh. unfold ProofsInv.J. repeat split.
  - rewrite K. exact KU.
  - intros y' Hy'. destruct (B y' Hy') as (y & Hy & (_ & E & _)). rewrite E. apply LP. exact Hy.
  - intros q i b x t Hc Hx Bx Ht Et. destruct (N.eq_dec q p) as [->|Hne]; [eapply Cp; eassumption|].
    destruct (B x Hx) as (y & Hy & (Ek & El & En & _)).
    destruct (En t Ht) as [E|(u & Hu & E1 & E2)]; [congruence|].
    rewrite El, <- E2. eapply CLs; [apply C; eassumption | exact Hy | rewrite <- (key_is_block i b x y Ek); exact Bx | exact Hu | congruence].
  - intros i Hi. apply all_finished_intro. intros y' Hy' Ei.
    destruct (B y' Hy') as (y & Hy & (Ek & _ & _ & Fm)). apply Fm.
    eapply all_finished_block; [apply HI; apply Hh; exact Hi | exact Hy |]. rewrite <- (key_idx _ _ Ek). exact Ei.
Qed.


Lemma invalidate_curs_sub : forall l x q i b, In (q, CValid i b) (invalidate_curs l x) -> In (q, CValid i b) l.
Proof.
  intros l x q i b Hin. unfold invalidate_curs in Hin. apply in_map_iff in Hin. destruct Hin as [[q0 c0] [E Hc]]. simpl in E.
  destruct c0 as [i0 b0|pos len]; [|inversion E; subst; exact Hc].
  destruct (is_block i0 b0 x); [|inversion E; subst; exact Hc].
  destruct (find_tr q0 (b_trans x)) as [t|]; [|inversion E; subst; exact Hc].
  destruct (is_leader_t t); [inversion E; subst; exact Hc | inversion E].
Qed.

(* updating exactly the block found by find_block *)
Lemma upd_J : forall p s s' i b x F,
  J s -> find_block s i b = Some x ->
  (forall y, key (F y) = key y) -> BS p x (F x) ->
  blocks s' = upd_block (blocks s) i b F ->
  (forall q i' b', In (q, CValid i' b') (curs s') -> q <> p -> In (q, CValid i' b') (curs s)) ->
  (forall i' b', In (p, CValid i' b') (curs s') ->
      (is_block i' b' x = false -> In (p, CValid i' b') (curs s)) /\
      (is_block i' b' x = true -> forall t, In t (b_trans (F x)) -> t_peer t = p -> t_pos t < b_len x)) ->
  (forall j, In j (hashing s') \/ pmark s' = Some j -> In j (hashing s) \/ pmark s = Some j) ->
  J s'.
Proof.
  intros p s s' i b x F Js Fx HF BSx Eb C Cp Hh.
  pose proof Js as (KU & LP & CLs & HI).
  apply (J_from_BS p s s' Js).
  - rewrite Eb. apply keys_upd_block. exact HF.
  - intros y' Hy'. rewrite Eb in Hy'.
    destruct (in_upd_block_unique _ _ _ _ _ _ KU Fx Hy') as [->|[Hy Bn]].
    + exists x. split; [apply find_some in Fx; apply Fx | exact BSx].
    + exists y'. split; [exact Hy | apply BS_refl].
  - exact C.
  - intros i' b' x' t Hc Hx' Bx' Ht Et. destruct (Cp i' b' Hc) as [Hold Hnew]. rewrite Eb in Hx'.
    destruct (in_upd_block_unique _ _ _ _ _ _ KU Fx Hx') as [->|[Hy Bn]].
    + destruct BSx as (Ek & El & _). rewrite El. apply Hnew; auto. rewrite <- (key_is_block i' b' _ _ Ek). exact Bx'.
    + destruct (is_block i' b' x) eqn:Bx.
      * exfalso. apply find_some in Fx. destruct Fx as [Hx Bix].
        unfold is_block in Bx, Bix.
        apply andb_true_iff in Bx. destruct Bx as [B1 B2]. apply andb_true_iff in Bix. destruct Bix as [B5 B6].
        apply N.eqb_eq in B1. apply N.eqb_eq in B2. apply N.eqb_eq in B5. apply N.eqb_eq in B6.
        assert (i' = i) by congruence. assert (b' = b) by congruence. subst i' b'. congruence.
      * eapply CLs; try eassumption. apply Hold. reflexivity.
  - exact Hh.
Qed.

Lemma BS_complete : forall p x y, BS p x y -> finished x = false -> BS p x (complete_block y).
Proof.
  intros p x y (A1 & A2 & A3 & A4) Fx. repeat split; auto.
  - simpl. eapply ents_trans; [exact A3 | apply ents_filter].
  - intro. congruence.
Qed.

Lemma BS_erase : forall p x y q, BS p x y -> b_leader y = Some q -> q <> p -> BS p x (erase_tr p y).
Proof.
  intros p x y q B L Hne. eapply BS_trans; [exact B|].
  destruct (erase_tr_facts p y) as (E1 & E2 & E3 & E4). repeat split; auto.
  intro Fy. rewrite (E4 q L Hne). exact Fy.
Qed.

Lemma BS_erase_unfinished : forall p x, finished x = false -> BS p x (erase_tr p x).
Proof.
  intros p x Fx. destruct (erase_tr_facts p x) as (E1 & E2 & E3 & _). repeat split; auto. intro. congruence.
Qed.

(* set the position of p's transfer in block (i,b), then down_chunk_finished if it reached the end *)
Lemma dv_finish : forall s s2 p i b x f st pos',
  J s -> find_block s i b = Some x ->
  (forall y, key (f y) = key y) ->
  blocks s2 = upd_block (blocks s) i b f -> curs s2 = curs s -> hashing s2 = hashing s -> pmark s2 = pmark s ->
  find_tr p (b_trans (f x)) = Some {| t_peer := p; t_state := st; t_pos := pos' |} ->
  (forall t', In t' (b_trans (f x)) -> t_peer t' = p -> t_pos t' = pos') ->
  pos' <= b_len x ->
  BS p x (f x) ->
  (st = TLeader -> finished x = false) ->
  (st <> TLeader -> exists q, b_leader (f x) = Some q /\ q <> p) ->
  J (after_data s2 p i b).
Proof.
  intros s s2 p i b x f st pos' Js Fx Hf Eb Ec Eh Ep Ft Hall Hle BSx HL HN.
  pose proof Js as (KU & LP & CLs & HI).
  pose proof BSx as (Ek & El & _).
  assert (F2 : find_block s2 i b = Some (f x)).
  { unfold find_block. rewrite Eb. apply find_upd_block; auto. }
  unfold after_data. rewrite F2, Ft. cbn [t_pos]. rewrite El.
  destruct (pos' =? b_len x) eqn:Epos.
  - destruct st; unfold is_leader_t; cbn [t_state tstate_eqb].
    + (* leader finished: Block::completed *)
      eapply (upd_J p s _ i b x (fun y => complete_block (f y))); try exact Js; try exact Fx.
      * intro y. rewrite <- (Hf y). reflexivity.
      * apply BS_complete; [exact BSx | apply HL; reflexivity].
      * cbn [blocks with_blocks with_curs]. rewrite Eb. apply upd_block_twice. exact Hf.
      * cbn [curs with_blocks with_curs]. intros q i' b' Hin Hne. apply in_del_cur in Hin. destruct Hin as [Hin _].
        apply invalidate_curs_sub in Hin. rewrite Ec in Hin. exact Hin.
      * cbn [curs with_blocks with_curs]. intros i' b' Hin. apply in_del_cur in Hin. destruct Hin as [_ Hne]. congruence.
      * cbn [hashing pmark with_blocks with_curs]. rewrite Eh, Ep. auto.
    + destruct (HN ltac:(discriminate)) as (q & Lq & Hne).
      eapply (upd_J p s _ i b x (fun y => erase_tr p (f y))); try exact Js; try exact Fx.
      * intro y. destruct (erase_tr_facts p (f y)) as (E1 & _). rewrite E1. apply Hf.
      * eapply BS_erase; eassumption.
      * cbn [blocks with_blocks with_curs]. rewrite Eb. apply upd_block_twice. exact Hf.
      * cbn [curs with_blocks with_curs]. intros q0 i' b' Hin Hn0. apply in_del_cur in Hin. rewrite Ec in Hin. apply Hin.
      * cbn [curs with_blocks with_curs]. intros i' b' Hin. apply in_del_cur in Hin. destruct Hin as [_ Hn0]. congruence.
      * cbn [hashing pmark with_blocks with_curs]. rewrite Eh, Ep. auto.
    + destruct (HN ltac:(discriminate)) as (q & Lq & Hne).
      eapply (upd_J p s _ i b x (fun y => erase_tr p (f y))); try exact Js; try exact Fx.
      * intro y. destruct (erase_tr_facts p (f y)) as (E1 & _). rewrite E1. apply Hf.
      * eapply BS_erase; eassumption.
      * cbn [blocks with_blocks with_curs]. rewrite Eb. apply upd_block_twice. exact Hf.
      * cbn [curs with_blocks with_curs]. intros q0 i' b' Hin Hn0. apply in_del_cur in Hin. rewrite Ec in Hin. apply Hin.
      * cbn [curs with_blocks with_curs]. intros i' b' Hin. apply in_del_cur in Hin. destruct Hin as [_ Hn0]. congruence.
      * cbn [hashing pmark with_blocks with_curs]. rewrite Eh, Ep. auto.
  - (* not finished: the state is s2 *)
    apply N.eqb_neq in Epos.
    eapply (upd_J p s s2 i b x f); try exact Js; try exact Fx; auto.
    + rewrite Ec. auto.
    + rewrite Ec. intros i' b' Hin. split; [intro; exact Hin|]. intros _ t Ht Et. rewrite (Hall t Ht Et). lia.
    + rewrite Eh, Ep. auto.
Qed.


Lemma dv_J : forall s p i b d s', J s -> data_valid s p i b d = Some s' -> J s'.
Proof.
  intros s p i b d s' Js E. unfold data_valid in E.
  destruct (find_block s i b) as [x|] eqn:Fx; [|discriminate].
  destruct (find_tr p (b_trans x)) as [t|] eqn:Ft; [|discriminate].
  destruct ((lenN d =? 0) || (b_len x - t_pos t <? lenN d)) eqn:G; [discriminate|].
  apply orb_false_iff in G. destruct G as [G1 G2]. apply N.eqb_neq in G1. apply N.ltb_ge in G2.
  destruct (b_leader x) as [q|] eqn:L; [|discriminate].
  destruct (q =? p) eqn:Eq.
  - (* leader *)
    apply N.eqb_eq in Eq. subst q. inversion E; subst s'; clear E.
    assert (Fin : finished x = false).
    { unfold finished. rewrite L, Ft. apply N.eqb_neq. lia. }
    eapply (dv_finish s _ p i b x (fun y => set_trans y (set_pos p TLeader (t_pos t + lenN d) (b_trans y)) (b_leader y)) TLeader (t_pos t + lenN d));
      try exact Js; try exact Fx; try reflexivity.
    + cbn [b_trans set_trans]. eapply find_tr_set_pos. exact Ft.
    + cbn [b_trans set_trans]. intros t' Ht Et. eapply in_set_pos_p; eassumption.
    + lia.
    + repeat split; try reflexivity. * cbn [b_trans set_trans]. apply ents_set_pos. * intro. congruence.
    + intro. exact Fin.
    + intro X. contradiction.
  - apply N.eqb_neq in Eq.
    destruct (leader_pos x <? t_pos t) eqn:LP; [discriminate|]. apply N.ltb_ge in LP.
    destruct (negb (list_eqb _ _)).
    + (* dissimilar *)
      inversion E; subst s'; clear E.
      eapply (upd_J p s _ i b x (fun y => set_trans y (set_pos p TErased 0 (b_trans y)) (b_leader y))); try exact Js; try exact Fx.
      * reflexivity.
      * repeat split; try reflexivity. -- cbn [b_trans set_trans]. apply ents_set_pos.
        -- intro Fy. rewrite (finished_set_pos_other x p q TErased 0 L Eq). exact Fy.
      * reflexivity.
      * cbn [curs with_curs with_blocks]. intros q0 i' b' Hin Hne.
        destruct (t_pos t + lenN d =? b_len x); [apply in_del_cur in Hin; apply Hin|].
        apply in_set_cur in Hin. destruct Hin as [[Hin _]|[Hq _]]; [exact Hin | congruence].
      * cbn [curs with_curs with_blocks]. intros i' b' Hin. exfalso.
        destruct (t_pos t + lenN d =? b_len x).
        -- apply in_del_cur in Hin. destruct Hin as [_ Hn]. congruence.
        -- apply in_set_cur in Hin. destruct Hin as [[_ Hn]|[_ Hc]]; [congruence | discriminate].
      * auto.
    + destruct (N.min (lenN d) (leader_pos x - t_pos t) =? lenN d) eqn:M.
      * (* follower, same data *)
        inversion E; subst s'; clear E.
        eapply (dv_finish s _ p i b x (fun y => set_trans y (set_pos p TNotLeader (t_pos t + lenN d) (b_trans y)) (b_leader y)) TNotLeader (t_pos t + lenN d));
          try exact Js; try exact Fx; try reflexivity.
        -- cbn [b_trans set_trans]. eapply find_tr_set_pos. exact Ft.
        -- cbn [b_trans set_trans]. intros t' Ht Et. eapply in_set_pos_p; eassumption.
        -- lia.
        -- repeat split; try reflexivity. ++ cbn [b_trans set_trans]. apply ents_set_pos.
           ++ intro Fy. rewrite (finished_set_pos_other x p q TNotLeader _ L Eq). exact Fy.
        -- intro X. discriminate.
        -- intros _. exists q. split; [exact L | exact Eq].
      * (* take over: Block::change_leader *)
        apply N.eqb_neq in M. inversion E; subst s'; clear E.
        assert (Fin : finished x = false).
        { unfold finished. unfold leader_pos in *. rewrite L in *. destruct (find_tr q (b_trans x)) as [tq|]; [|reflexivity].
          apply N.eqb_neq. lia. }
        set (tr1 := upd_tr q (fun u => {| t_peer := t_peer u; t_state := TNotLeader; t_pos := t_pos u |}) (b_trans x)).
        eapply (dv_finish s _ p i b x (fun y => set_trans y (set_pos p TLeader (t_pos t + lenN d) tr1) (Some p)) TLeader (t_pos t + lenN d));
          try exact Js; try exact Fx; try reflexivity.
        -- cbn [b_trans set_trans]. eapply find_tr_set_pos. unfold tr1. rewrite find_tr_upd_other; [exact Ft | auto | intros u Eu; exact Eu].
        -- cbn [b_trans set_trans]. intros t' Ht Et. eapply in_set_pos_p; eassumption.
        -- lia.
        -- repeat split; try reflexivity.
           ++ cbn [b_trans set_trans]. eapply ents_trans; [|apply ents_set_pos]. unfold tr1. apply ents_upd. intros u Eu. simpl. auto.
           ++ intro. congruence.
        -- intro. exact Fin.
        -- intro X. contradiction.
Qed.


(* ---------- a connection goes away ---------- *)
Lemma disc_J : forall s p, J s -> J (disc s p).
Proof.
  intros s p Js. pose proof Js as (KU & LP & CLs & HI).
  apply (J_from_BS p s (disc s p) Js).
  - unfold disc. cbn [blocks]. rewrite map_map.
    destruct (get_cur s p) as [[i b|pos len]|]; try (apply map_ext; intro; reflexivity).
    transitivity (map key (upd_block (blocks s) i b (erase_tr p))); [apply map_ext; intro; reflexivity|].
    apply keys_upd_block. intro y. apply erase_tr_facts.
  - unfold disc. cbn [blocks]. intros y' Hy'. apply in_map_iff in Hy'. destruct Hy' as (y1 & E & Hy1). subst y'.
    assert (Q : forall z, BS p z (set_queued z (removeN p (b_queued z)))) by (intro z; repeat split; auto; apply ents_refl).
    destruct (get_cur s p) as [[i b|pos len]|] eqn:C; try (exists y1; split; [exact Hy1 | apply Q]).
    unfold upd_block in Hy1. apply in_map_iff in Hy1. destruct Hy1 as (y0 & E & Hy0).
    exists y0. split; [exact Hy0|]. destruct (is_block i b y0) eqn:B; subst y1; [|apply Q].
    eapply BS_trans; [|apply Q].
    destruct (b_leader y0) as [q|] eqn:L.
    + destruct (N.eq_dec q p) as [->|Hne].
      * (* the transfer p is receiving is below the block length: the block it leads is unfinished *)
        apply BS_erase_unfinished. unfold finished. rewrite L.
        destruct (find_tr p (b_trans y0)) as [t|] eqn:Ft; [|reflexivity].
        apply find_tr_in in Ft. destruct Ft as [Ht Et]. apply N.eqb_neq.
        pose proof (CLs p i b y0 t (get_cur_in _ _ _ C) Hy0 B Ht Et). lia.
      * eapply BS_erase; [apply BS_refl | exact L | exact Hne].
    + apply BS_erase_unfinished. unfold finished. rewrite L. reflexivity.
  - unfold disc. cbn [curs]. intros q i b Hin Hne. apply in_del_cur in Hin. apply Hin.
  - unfold disc. cbn [curs]. intros i b x t Hin. apply in_del_cur in Hin. destruct Hin as [_ Hn]. congruence.
  - unfold disc. cbn [hashing pmark]. auto.
Qed.


(* ---------- hash_failed: keys, lengths and transfers are untouched; leaders only change in piece i ---------- *)
Definition HR (i : N) (y y' : block) : Prop :=
  key y' = key y /\ b_len y' = b_len y /\ (forall t, In t (b_trans y') -> In t (b_trans y)) /\
  (b_idx y <> i -> b_trans y' = b_trans y /\ b_leader y' = b_leader y).

Lemma HR_refl : forall i y, HR i y y. Proof. intros. repeat split; auto. Qed.

Lemma retry_blocks_HR : forall i bl pc, Forall2 (HR i) bl (fst (retry_blocks i bl pc)).
Proof.
  intros i bl. induction bl as [|x bl IH]; intro pc; simpl; [constructor|].
  destruct (b_idx x =? i).
  - destruct (last_max (b_failed x) 0 None) as [[k c]|].
    + destruct (match b_cur x with Some c0 => c0 =? k | None => false end).
      * specialize (IH pc). destruct (retry_blocks i bl pc). simpl in *. constructor; [apply HR_refl | exact IH].
      * specialize (IH (splice pc (N.to_nat (b_off x)) (fst (nth (N.to_nat k) (b_failed x) ([], 0))))).
        destruct (retry_blocks i bl _). simpl in *. constructor; [repeat split; auto | exact IH].
    + specialize (IH pc). destruct (retry_blocks i bl pc). simpl in *. constructor; [apply HR_refl | exact IH].
  - specialize (IH pc). destruct (retry_blocks i bl pc). simpl in *. constructor; [apply HR_refl | exact IH].
Qed.

Lemma Forall2_map_r : forall {A} (R : A -> A -> Prop) (g : A -> A) l, (forall x, R x (g x)) -> Forall2 R l (map g l).
Proof. intros A R g l Hg. induction l; simpl; constructor; auto. Qed.

Lemma Forall2_trans : forall {A} (R : A -> A -> Prop) l1 l2 l3, (forall x y z, R x y -> R y z -> R x z) ->
  Forall2 R l1 l2 -> Forall2 R l2 l3 -> Forall2 R l1 l3.
Proof.
  intros A R l1 l2 l3 T F1. revert l3. induction F1; intros l3 F2; inversion F2; subst; constructor; eauto.
Qed.

Lemma HR_trans : forall i x y z, HR i x y -> HR i y z -> HR i x z.
Proof.
  intros i x y z (A1 & A2 & A3 & A4) (B1 & B2 & B3 & B4).
  split; [congruence|]. split; [congruence|]. split; [auto|].
  intro Hn. destruct (A4 Hn) as [E1 E2].
  assert (Hy : b_idx y <> i) by (unfold key in A1; inversion A1; congruence).
  destruct (B4 Hy) as [E3 E4]. split; congruence.
Qed.

Lemma hash_failed_HR : forall s i, Forall2 (HR i) (blocks s) (blocks (hash_failed s i)).
Proof.
  intros s i. unfold hash_failed. destruct (attempt_of s i =? 0).
  - pose proof (retry_blocks_HR i (upd_piece_blocks (blocks s) i (update_failed_block (piece s i))) (piece s i)) as R.
    destruct (retry_blocks i _ (piece s i)) as [bl2 pc]. simpl in *.
    eapply Forall2_trans; [apply HR_trans | | exact R].
    unfold upd_piece_blocks. apply Forall2_map_r. intro x. destruct (b_idx x =? i); [|apply HR_refl].
    unfold update_failed_block. destruct (find_data _ _ _); repeat split; auto.
  - simpl. unfold upd_piece_blocks. apply Forall2_map_r. intro x. destruct (b_idx x =? i) eqn:E; [|apply HR_refl].
    apply N.eqb_eq in E. split; [reflexivity|]. split; [reflexivity|]. split; [intros t []|]. intro Hn. contradiction.
Qed.

Lemma Forall2_keys : forall i l l', Forall2 (HR i) l l' -> map key l' = map key l.
Proof. intros i l l' F. induction F as [|x y l l' R F IH]; simpl; [reflexivity|]. destruct R as (E & _). rewrite E, IH. reflexivity. Qed.
Lemma Forall2_in_r : forall {A} (R : A -> A -> Prop) l l' y', Forall2 R l l' -> In y' l' -> exists y, In y l /\ R y y'.
Proof.
  intros A R l l' y' F. induction F as [|x y l l' Rxy F IH]; intro Hin; [destruct Hin|].
  destruct Hin as [<-|Hin]; [exists x; split; [left; reflexivity | exact Rxy]|].
  destruct (IH Hin) as (z & Hz & Rz). exists z. split; [right; exact Hz | exact Rz].
Qed.

Lemma hash_failed_J : forall s i, J s -> ~ In i (hashing s) -> pmark s = None -> J (hash_failed s i).
Proof.
  intros s i (KU & LP & CLs & HI) Hni PM.
  pose proof (hash_failed_HR s i) as F.
  destruct (hash_failed_spec s i) as (_ & _ & F3 & F4 & _).
  assert (Ec : curs (hash_failed s i) = curs s).
  { unfold hash_failed. destruct (attempt_of s i =? 0); [destruct (retry_blocks _ _ _)|]; reflexivity. }
  unfold ProofsInv.J. repeat split.
  - rewrite (Forall2_keys i _ _ F). exact KU.
  - intros y' Hy'. destruct (Forall2_in_r _ _ _ _ F Hy') as (y & Hy & (_ & E & _)). rewrite E. apply LP. exact Hy.
  - intros q i' b' x t Hc Hx Bx Ht Et. rewrite Ec in Hc. destruct (Forall2_in_r _ _ _ _ F Hx) as (y & Hy & (Ek & El & Etr & _)).
    rewrite El. eapply CLs; [exact Hc | exact Hy | rewrite <- (key_is_block i' b' x y Ek); exact Bx | apply Etr; exact Ht | exact Et].
  - intros j Hj. rewrite F3, F4, PM in Hj. destruct Hj as [Hj|Hj]; [|discriminate].
    apply all_finished_intro. intros y' Hy' Ej.
    destruct (Forall2_in_r _ _ _ _ F Hy') as (y & Hy & (Ek & El & Etr & Eld)).
    assert (Ei : b_idx y = j) by (rewrite <- (key_idx _ _ Ek); exact Ej).
    assert (Hne : b_idx y <> i) by (intro; subst; congruence).
    pose proof (all_finished_block s j y (HI j (or_introl Hj)) Hy Ei) as Fy.
    destruct (Eld Hne) as [Et2 El2]. unfold finished in *. rewrite Et2, El2, El. exact Fy.
Qed.

(* ---------- BlockList::BlockList ---------- *)
Lemma mk_blocks_from_facts : forall fuel i no off size y, 0 < size -> In y (mk_blocks_from i no off size fuel) ->
  b_idx y = i /\ no <= b_no y /\ 0 < b_len y /\ b_trans y = [] /\ b_leader y = None.
Proof.
  induction fuel as [|k IH]; intros i no off size y Hs Hin; simpl in Hin; [contradiction|].
  pose proof bs_pos.
  destruct (size <=? bs) eqn:E.
  - destruct Hin as [<-|[]]. simpl. repeat split; auto; lia.
  - apply N.leb_gt in E. destruct Hin as [<-|Hin]; [simpl; repeat split; auto; lia|].
    apply IH in Hin; [|lia]. destruct Hin as (A & B & C). repeat split; auto; try lia; apply C.
Qed.

Lemma mk_blocks_from_keys : forall fuel i no off size, 0 < size -> NoDup (map key (mk_blocks_from i no off size fuel)).
Proof.
  induction fuel as [|k IH]; intros i no off size Hs; simpl; [constructor|].
  destruct (size <=? bs) eqn:E; simpl.
  - constructor; [intros []|constructor].
  - apply N.leb_gt in E. constructor; [|apply IH; lia].
    intro Hin. apply in_map_iff in Hin. destruct Hin as (y & Ey & Hy).
    apply mk_blocks_from_facts in Hy; [|lia]. destruct Hy as (_ & B & _). unfold key in Ey. simpl in Ey. inversion Ey. lia.
Qed.


Lemma find_tr_app_some : forall q l a t, find_tr q l = Some t -> find_tr q (l ++ a) = Some t.
Proof.
  intros q l a t. unfold find_tr. induction l as [|u l IH]; simpl; [discriminate|].
  destruct (t_peer u =? q); [auto | exact IH].
Qed.

Lemma has_tr_false : forall p l t, has_tr p l = false -> In t l -> t_peer t <> p.
Proof.
  intros p l t Hh Hin E. unfold has_tr in Hh. assert (existsb (fun t0 => t_peer t0 =? p) l = true); [|congruence].
  apply existsb_exists. exists t. split; [exact Hin | apply N.eqb_eq; exact E].
Qed.

(* events that only touch queued sets / nothing of a block *)
Lemma same_blocks_J : forall s s', J s -> blocks s' = blocks s -> curs s' = curs s ->
  (forall j, In j (hashing s') \/ pmark s' = Some j -> all_finished s j = true) -> J s'.
Proof.
  intros s s' (KU & LP & CLs & HI) Eb Ec Hh. unfold ProofsInv.J, CL. rewrite Eb, Ec. repeat split; auto.
  intros j Hj. specialize (Hh j Hj). unfold all_finished in *. rewrite Eb. exact Hh.
Qed.

Theorem J_step : forall s e s', Inv H expected npieces s -> J s -> accept s e = Some s' -> J s'.
Proof.
  intros s e s' (I1 & I2 & I3 & I4 & I5 & I6 & I7) Js A.
  pose proof Js as (KU & LP & CLs & HI).
  unfold Model.accept in A. destruct (pmark s) as [m|] eqn:PM.
  - (* EMark *)
    destruct e; try discriminate. destruct (m =? i) eqn:E; [|discriminate]. apply N.eqb_eq in E. subst m.
    inversion A; subst s'; clear A. unfold ProofsInv.J, CL. cbn [blocks curs hashing pmark]. repeat split.
    + apply NoDup_map_filter. exact KU.
    + intros x Hx. apply filter_In in Hx. apply LP. apply Hx.
    + intros q i' b' x t Hc Hx. apply filter_In in Hx. destruct Hx as [Hx _]. eapply CLs; eassumption.
    + intros j [Hj|Hj]; [|discriminate]. apply all_finished_intro. cbn [blocks]. intros x Hx Ej. apply filter_In in Hx.
      eapply all_finished_block; [apply HI; left; exact Hj | apply Hx | exact Ej].
  - destruct e; try discriminate.
    + (* EConn *) destruct (_ || _); [discriminate|]. inversion A; subst s'. apply (same_blocks_J s); auto;
      try (cbn [hashing pmark]; intros j Hj; apply HI; try rewrite PM; exact Hj).
    + (* EDisc *) destruct (memN p (conns s)); inversion A; subst s'; [apply disc_J; exact Js | exact Js].
    + (* ENew *)
      destruct ((i <? npieces) && negb (listed s i) && negb (memN i (completed s))) eqn:G; [|discriminate].
      apply andb_true_iff in G. destruct G as [G _]. apply andb_true_iff in G. destruct G as [G1 G2].
      apply N.ltb_lt in G1. apply negb_true_iff in G2. inversion A; subst s'; clear A.
      pose proof (psize_pos i G1) as Hps.
      assert (NewF : forall y, In y (mk_blocks psize i) -> b_idx y = i /\ 0 < b_len y /\ b_trans y = []).
      { intros y Hy. unfold mk_blocks in Hy. apply mk_blocks_from_facts in Hy; [|exact Hps]. tauto. }
      unfold ProofsInv.J, CL. cbn [blocks curs hashing pmark with_blocks with_attempts]. repeat split.
      * rewrite map_app. apply NoDup_app_intro.
        -- exact KU.
        -- unfold mk_blocks. apply mk_blocks_from_keys. exact Hps.
        -- intros k Hk1 Hk2. apply in_map_iff in Hk1. destruct Hk1 as (x & Ex & Hx). apply in_map_iff in Hk2. destruct Hk2 as (y & Ey & Hy).
           destruct (NewF y Hy) as (Ei & _). pose proof (I4 x Hx) as Lx.
           assert (b_idx x = i) by (unfold key in *; rewrite <- Ey in Ex; inversion Ex; congruence). subst i. congruence.
      * intros x Hx. apply in_app_or in Hx. destruct Hx as [Hx|Hx]; [apply LP; exact Hx | apply NewF; exact Hx].
      * intros q i' b' x t Hc Hx Bx Ht Et. apply in_app_or in Hx. destruct Hx as [Hx|Hx]; [eapply CLs; eassumption|].
        destruct (NewF x Hx) as (_ & _ & Etr). rewrite Etr in Ht. destruct Ht.
      * intros j Hj. try rewrite PM in Hj. apply all_finished_intro. cbn [blocks with_blocks with_attempts]. intros x Hx Ej.
        apply in_app_or in Hx. destruct Hx as [Hx|Hx]; [eapply all_finished_block; [apply HI; try rewrite PM; exact Hj | exact Hx | exact Ej]|].
        exfalso. destruct (NewF x Hx) as (Ei & _). destruct Hj as [Hj|Hj]; [|discriminate].
        pose proof (I5 j Hj). congruence.
    + (* EIns *) destruct (find_block s i b) as [x|] eqn:Fx; [|discriminate]. destruct (_ && _); [|discriminate]. inversion A; subst s'.
      eapply (upd_J p s _ i b x (fun y => set_queued y (b_queued y ++ [p]))); try exact Js; try exact Fx; try reflexivity; auto.
      * repeat split; auto. apply ents_refl.
      * cbn [curs with_blocks]. intros i' b' Hin. split; [auto|]. intros Bx t Ht Et.
        apply find_some in Fx. eapply CLs; try eassumption. apply Fx.
    + (* ERel *) destruct (find_block s i b) as [x|] eqn:Fx; [|discriminate]. destruct (memN p (b_queued x)); [|discriminate]. inversion A; subst s'.
      eapply (upd_J p s _ i b x (fun y => set_queued y (removeN p (b_queued y)))); try exact Js; try exact Fx; try reflexivity; auto.
      * repeat split; auto. apply ents_refl.
      * cbn [curs with_blocks]. intros i' b' Hin. split; [auto|]. intros Bx t Ht Et.
        apply find_some in Fx. eapply CLs; try eassumption. apply Fx.
    + (* EPiece *) destruct (negb (memN p (conns s))); [discriminate|].
      destruct (get_cur s p) eqn:C; [discriminate|]. destruct start.
      * destruct (find_block s i (off / bs)) as [x|] eqn:Fx; [|discriminate].
        destruct ((b_off x =? off) && (b_len x =? len) && memN p (b_queued x) && negb (has_tr p (b_trans x))) eqn:G; [|discriminate].
        apply andb_true_iff in G. destruct G as [_ G]. apply negb_true_iff in G.
        inversion A; subst s'; clear A.
        set (st := match b_leader x with None => TLeader | Some _ => TNotLeader end).
        set (ld := match b_leader x with None => Some p | Some q => Some q end).
        eapply (upd_J p s _ i (off / bs) x (fun y => set_trans (set_queued y (removeN p (b_queued y)))
                 (b_trans y ++ [ {| t_peer := p; t_state := st; t_pos := 0 |} ]) ld)); try exact Js; try exact Fx; try reflexivity.
        -- repeat split; auto.
           ++ cbn [b_trans set_trans]. apply ents_app_new. reflexivity.
           ++ unfold finished, ld. cbn [b_leader b_trans b_len set_trans set_queued]. destruct (b_leader x) as [q|]; [|discriminate].
              destruct (find_tr q (b_trans x)) as [t|] eqn:Ft; [|discriminate]. rewrite (find_tr_app_some _ _ _ _ Ft). auto.
        -- cbn [curs with_blocks with_curs]. intros q i' b' Hin Hne. apply in_set_cur in Hin. destruct Hin as [[Hin _]|[E _]]; [exact Hin | congruence].
        -- cbn [curs with_blocks with_curs]. intros i' b' Hin. apply in_set_cur in Hin. destruct Hin as [[Hin _]|[_ E]].
           ++ exfalso. eapply get_cur_none; eassumption.
           ++ split; [intro; exfalso; inversion E; subst i' b'; apply find_some in Fx; destruct Fx; congruence|].
              intros _ t Ht Et. cbn [b_trans set_trans] in Ht. apply in_app_or in Ht. destruct Ht as [Ht|[<-|[]]].
              ** exfalso. eapply has_tr_false; eassumption.
              ** simpl. apply LP. apply find_some in Fx. apply Fx.
        -- auto.
      * destruct (len =? 0); inversion A; subst s'; [exact Js|].
        apply (J_from_BS p s); auto.
        -- intros y' Hy'. exists y'. split; [exact Hy' | apply BS_refl].
        -- cbn [curs with_curs]. intros q i' b' Hin Hne. apply in_set_cur in Hin. destruct Hin as [[Hin _]|[E _]]; [exact Hin | congruence].
        -- cbn [curs with_curs]. intros i' b' x t Hin. apply in_set_cur in Hin. destruct Hin as [[_ Hn]|[_ E]]; [congruence | discriminate].
    + (* EData *) destruct (get_cur s p) as [[i b|pos len]|] eqn:C; [| |discriminate].
      * eapply dv_J; eassumption.
      * destruct (_ || _); [discriminate|].
        destruct (pos + lenN d =? len); inversion A; subst s'; apply (J_from_BS p s); auto;
          try (intros y' Hy'; exists y'; split; [exact Hy' | apply BS_refl]); cbn [curs with_curs].
        -- intros q i' b' Hin Hne. apply in_del_cur in Hin. apply Hin.
        -- intros i' b' x t Hin. apply in_del_cur in Hin. destruct Hin as [_ Hn]. congruence.
        -- intros q i' b' Hin Hne. apply in_set_cur in Hin. destruct Hin as [[Hin _]|[E _]]; [exact Hin | congruence].
        -- intros i' b' x t Hin. apply in_set_cur in Hin. destruct Hin as [[_ Hn]|[_ E]]; [congruence | discriminate].
    + destruct (memN p (conns s)); inversion A; subst s'; exact Js.
    + destruct (memN p (conns s)); inversion A; subst s'; exact Js.
    + (* EHashQueued *) destruct (listed s i && all_finished s i && negb (memN i (hashing s))) eqn:G; [|discriminate].
      apply andb_true_iff in G. destruct G as [G _]. apply andb_true_iff in G. destruct G as [_ G].
      inversion A; subst s'. apply (same_blocks_J s); auto. cbn [hashing pmark with_hashing]; try rewrite PM.
      intros j [[<-|Hj]|Hj]; [exact G | apply HI; left; exact Hj | discriminate].
    + (* EHashDone *) destruct (memN i (hashing s) && _) eqn:G; [|discriminate].
      apply andb_true_iff in G. destruct G as [G1 _]. apply memN_In in G1.
      destruct ok; inversion A; subst s'; clear A.
      * apply (same_blocks_J s); auto. cbn [hashing pmark with_hashing with_pmark].
        intros j [Hj|Hj]; [apply removeN_In in Hj; apply HI; left; apply Hj | inversion Hj; subst; apply HI; left; exact G1].
      * apply hash_failed_J.
        -- apply (same_blocks_J s); auto. cbn [hashing pmark with_hashing]; try rewrite PM.
           intros j [Hj|Hj]; [apply removeN_In in Hj; apply HI; left; apply Hj | discriminate].
        -- cbn [hashing with_hashing]. intro Hc. apply removeN_In in Hc. destruct Hc as [_ Hc]. apply Hc. reflexivity.
        -- cbn [pmark with_hashing]; try exact PM; reflexivity.
    + (* EHashCancel *) destruct (memN i (hashing s)); [|discriminate]. inversion A; subst s'.
      apply (same_blocks_J s); auto. cbn [hashing pmark with_hashing]; try rewrite PM.
      intros j [Hj|Hj]; [apply removeN_In in Hj; apply HI; left; apply Hj | discriminate].
    + (* EHave *) destruct (_ && _); [|discriminate]. inversion A; subst s'. apply (same_blocks_J s); auto;
      try (cbn [hashing pmark]; intros j Hj; apply HI; try rewrite PM; exact Hj).
    + (* EDone *) destruct (_ && _); [|discriminate]. inversion A; subst s'. apply (same_blocks_J s); auto;
      try (cbn [hashing pmark]; intros j Hj; apply HI; try rewrite PM; exact Hj).
    + destruct (list_eqb _ _); inversion A; subst s'. exact Js.
    + (* ECorrupt *) inversion A; subst s'. unfold corrupt.
      match goal with |- context [disc ?S p] => set (s1 := S) end.
      assert (J1 : J s1) by (apply (same_blocks_J s); auto; unfold s1; cbn [hashing pmark]; intros j Hj; apply HI; try rewrite PM in Hj; exact Hj).
      destruct (_ && _); [apply disc_J; exact J1 | exact J1].
Qed.


Lemma J_init : forall st0 c0, J (init st0 c0).
Proof. intros. unfold ProofsInv.J, CL, init; simpl. repeat split; try constructor; try contradiction; try (intros i [[]|E]; discriminate). Qed.

Theorem JI_run : forall tr s s', Inv H expected npieces s -> J s -> run s tr = Some s' -> Inv H expected npieces s' /\ J s'.
Proof.
  induction tr as [|e tr IH]; intros s s' I Js R; simpl in R.
  - inversion R; subst; auto.
  - destruct (accept s e) as [s1|] eqn:A; [|discriminate]. eapply IH; [| |exact R].
    + eapply inv_step; eassumption.
    + eapply J_step; eassumption.
Qed.

(* the only events that change a piece of the store are Data events and the failed verdict of that very piece *)
Lemma piece_change : forall s e s' i, accept s e = Some s' ->
  (forall p d, e <> EData p d) -> e <> EHashDone i false -> piece s' i = piece s i.
Proof.
  intros s e s' i A ND NH. unfold Model.accept in A. destruct (pmark s) as [m|].
  - destruct e; try discriminate. destruct (m =? i0); [|discriminate]. inversion A; subst s'. reflexivity.
  - destruct e; try discriminate.
    + destruct (_ || _); [discriminate|]. inversion A; subst s'. reflexivity.
    + destruct (memN p (conns s)); inversion A; subst s'; reflexivity.
    + destruct (_ && _); [|discriminate]. inversion A; subst s'. reflexivity.
    + destruct (find_block s i0 b); [|discriminate]. destruct (_ && _); [|discriminate]. inversion A; subst s'. reflexivity.
    + destruct (find_block s i0 b); [|discriminate]. destruct (memN p (b_queued b0)); [|discriminate]. inversion A; subst s'. reflexivity.
    + destruct (negb (memN p (conns s))); [discriminate|]. destruct (get_cur s p); [discriminate|]. destruct start.
      * destruct (find_block s i0 (off / bs)); [|discriminate]. destruct (_ && _); [|discriminate]. inversion A; subst s'. reflexivity.
      * destruct (len =? 0); inversion A; subst s'; reflexivity.
    + exfalso. eapply ND. reflexivity.
    + destruct (memN p (conns s)); inversion A; subst s'; reflexivity.
    + destruct (memN p (conns s)); inversion A; subst s'; reflexivity.
    + destruct (_ && _); [|discriminate]. inversion A; subst s'. reflexivity.
    + destruct (_ && _); [|discriminate]. destruct ok; inversion A; subst s'; [reflexivity|].
      destruct (hash_failed_spec (with_hashing s (removeN i0 (hashing s))) i0) as (F1 & _).
      apply F1. intro. subst. apply NH. reflexivity.
    + destruct (memN i0 (hashing s)); [|discriminate]. inversion A; subst s'. reflexivity.
    + destruct (_ && _); [|discriminate]. inversion A; subst s'. reflexivity.
    + destruct (_ && _); [|discriminate]. inversion A; subst s'. reflexivity.
    + destruct (list_eqb _ _); inversion A; subst s'. reflexivity.
    + inversion A; subst s'. destruct (corrupt_spec s p) as (D1 & _). unfold piece. rewrite D1. reflexivity.
Qed.

(* a piece that is in the hash queue (or between its verdict and mark_completed) accepts no write: its bytes change
   only through its own failed verdict (retry_most_popular); in particular the digest is computed from the store as
   it still is when the verdict is delivered *)
Theorem hashing_never_written : forall st0 c0 tr s e s' i,
  init_ok H expected st0 c0 -> run (init st0 c0) tr = Some s -> accept s e = Some s' ->
  In i (hashing s) \/ pmark s = Some i -> e <> EHashDone i false ->
  piece s' i = piece s i /\ all_finished s i = true.
Proof.
  intros st0 c0 tr s e s' i Hi R A Hh NH.
  destruct (JI_run tr _ _ (inv_init H expected npieces _ _ Hi) (J_init _ _) R) as (I & (_ & _ & _ & HI)).
  pose proof (HI i Hh) as AF. split; [|exact AF].
  destruct e; try (eapply piece_change; [exact A | intros; discriminate | exact NH]).
  eapply hashing_never_written_partial; eassumption.
Qed.

(* internal_error checks, the part that needs the hashing invariant: "all blocks finished" in hash_succeeded / hash_failed,
   "already finished" in mark_completed, "already delegated" in TransferList::insert *)
Theorem no_fatal_hash : forall st0 c0 tr s e s',
  init_ok H expected st0 c0 -> run (init st0 c0) tr = Some s -> accept s e = Some s' ->
  (forall p d, e <> EData p d) -> fatal s e = false.
Proof.
  intros st0 c0 tr s e s' Hi R A ND.
  destruct (JI_run tr _ _ (inv_init H expected npieces _ _ Hi) (J_init _ _) R) as ((I1 & I2 & I3 & I4 & I5 & _) & (_ & _ & _ & HI)).
  destruct e; try reflexivity.
  - (* ENew *) unfold Model.accept in A. destruct (pmark s); [discriminate|].
    destruct ((i <? npieces) && negb (listed s i) && negb (memN i (completed s))) eqn:G; [|discriminate].
    apply andb_true_iff in G. destruct G as [G _]. apply andb_true_iff in G. destruct G as [_ G]. apply negb_true_iff in G. exact G.
  - exfalso. eapply ND. reflexivity.
  - (* EHashDone *) destruct ok; [reflexivity|]. unfold Model.accept in A. destruct (pmark s) eqn:PM; [discriminate|].
    destruct (memN i (hashing s) && _) eqn:G; [|discriminate]. apply andb_true_iff in G. destruct G as [G _]. apply memN_In in G.
    simpl. rewrite (I5 i G), (HI i (or_introl G)). reflexivity.
  - (* EMark *) unfold Model.accept in A. destruct (pmark s) as [m|] eqn:PM; [|discriminate].
    destruct (m =? i) eqn:E; [|discriminate]. apply N.eqb_eq in E. subst m.
    destruct (I2 i eq_refl) as (_ & L & _). simpl. rewrite (HI i (or_intror eq_refl)).
    destruct (memN i (completed s)) eqn:M; [|reflexivity]. apply memN_In in M. rewrite (I3 i M) in L. discriminate.
Qed.


(* liveness, the last mile: once every block of a listed piece is finished and the bytes are the original ones, the
   sequence HashQueued, verdict, mark_completed, have-queue is enabled from ANY reachable state with no verdict in
   progress, and ends with the piece completed (so a fair scheduler of enabled events completes it) *)
Theorem finished_piece_completes : forall st0 c0 tr s i,
  init_ok H expected st0 c0 -> run (init st0 c0) tr = Some s ->
  pmark s = None -> listed s i = true -> all_finished s i = true -> ~ In i (hashing s) ->
  H (piece s i) = expected i ->
  exists s', run s [EHashQueued i; EHashDone i true; EMark i; EHave i] = Some s' /\
             In i (completed s') /\ In i (haves s') /\ piece s' i = piece s i /\ listed s' i = false.
Proof.
  intros st0 c0 tr s i Hi R PM L AF NH Hh.
  destruct (JI_run tr _ _ (inv_init H expected npieces _ _ Hi) (J_init _ _) R) as ((I1 & I2 & I3 & I4 & I5 & I6 & I7) & _).
  assert (NC : memN i (completed s) = false).
  { destruct (memN i (completed s)) eqn:M; [|reflexivity]. apply memN_In in M. rewrite (I3 i M) in L. discriminate. }
  assert (NHv : memN i (haves s) = false).
  { destruct (memN i (haves s)) eqn:M; [|reflexivity]. apply memN_In in M. apply I6 in M. apply memN_In in M. congruence. }
  assert (NHm : memN i (hashing s) = false).
  { destruct (memN i (hashing s)) eqn:M; [|reflexivity]. apply memN_In in M. contradiction. }
  assert (LE : list_eqb (H (piece s i)) (expected i) = true) by (apply list_eqb_eq; exact Hh).
  set (s1 := with_hashing s (i :: hashing s)).
  assert (A1 : accept s (EHashQueued i) = Some s1).
  { unfold Model.accept. rewrite PM, L, AF, NHm. reflexivity. }
  set (s2 := with_pmark (with_hashing s1 (removeN i (hashing s1))) (Some i)).
  assert (A2 : accept s1 (EHashDone i true) = Some s2).
  { unfold Model.accept. replace (pmark s1) with (@None N) by (symmetry; exact PM).
    replace (memN i (hashing s1)) with true by (unfold s1, memN; cbn [hashing with_hashing existsb]; rewrite N.eqb_refl; reflexivity).
    replace (piece s1 i) with (piece s i) by reflexivity. rewrite LE. reflexivity. }
  destruct (accept s2 (EMark i)) as [s3|] eqn:A3.
  2:{ exfalso. unfold Model.accept in A3. replace (pmark s2) with (Some i) in A3 by reflexivity. rewrite N.eqb_refl in A3. discriminate. }
  assert (E3 : pmark s3 = None /\ completed s3 = i :: completed s /\ haves s3 = haves s /\ piece s3 i = piece s i /\ listed s3 i = false).
  { unfold Model.accept in A3. replace (pmark s2) with (Some i) in A3 by reflexivity. rewrite N.eqb_refl in A3. inversion A3; subst s3. clear A3.
    repeat split. unfold listed. cbn [attempts]. unfold s2, s1. cbn [attempts with_pmark with_hashing]. rewrite listed_filter. rewrite N.eqb_refl. apply andb_false_r. }
  destruct E3 as (P3 & C3 & H3 & Pc3 & L3).
  destruct (accept s3 (EHave i)) as [s4|] eqn:A4.
  2:{ exfalso. unfold Model.accept in A4. rewrite P3, C3, H3, NHv in A4. unfold memN in A4. cbn [existsb] in A4. rewrite N.eqb_refl in A4. discriminate. }
  exists s4. split.
  - simpl. rewrite A1, A2, A3, A4. reflexivity.
  - unfold Model.accept in A4. rewrite P3, C3, H3, NHv in A4. unfold memN in A4. cbn [existsb] in A4. rewrite N.eqb_refl in A4.
    cbn [orb andb negb] in A4. inversion A4; subst s4; clear A4. cbn [completed haves piece store listed attempts].
    repeat split; try (left; reflexivity); try (rewrite C3; left; reflexivity); auto.
Qed.

End Hash.
