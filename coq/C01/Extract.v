From Coq Require Import Extraction ExtrOcamlBasic NArith ZArith List.
From LTV.C01 Require Import Model.
Set Extraction Optimize.
Extraction Language OCaml.
Extraction "extracted/c01_model.ml" accept run init fatal piece listed finished leader_pos all_finished attempt_of memN failc_of Z.of_N.
