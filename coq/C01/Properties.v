(* C01 — only hash-verified pieces are ever reported complete: the theorems (statements in full). *)
From Coq Require Import NArith List Bool.
From LTV.C01 Require Import ParamsGen Model Proofs ProofsB ProofsGeo ProofsInv ProofsHash ProofsLive.
Import ListNotations.
Open Scope N_scope.

(* In every accepted trace, at every point: a piece in the completed bitfield hashes to the torrent's digest. *)
Theorem completed_means_hashed :
  forall (H : list N -> list N) (expected : N -> list N) (npieces : N) (psize : N -> N) (repaired : bool) st0 c0 tr s,
  (forall i, In i c0 -> H (nth (N.to_nat i) st0 []) = expected i) ->
  run H expected npieces psize repaired (init st0 c0) tr = Some s ->
  forall i, In i (completed s) -> H (piece s i) = expected i.
Proof. exact Proofs.completed_means_hashed. Qed.
Print Assumptions completed_means_hashed.

(* MarkCompleted i is accepted only right after a hash verdict computed from the store as it is (no hash job of i
   pending any more), and does not touch the store. *)
Theorem mark_only_when_hashed :
  forall (H : list N -> list N) (expected : N -> list N) (npieces : N) (psize : N -> N) (repaired : bool) st0 c0 tr s i s',
  (forall i, In i c0 -> H (nth (N.to_nat i) st0 []) = expected i) ->
  run H expected npieces psize repaired (init st0 c0) tr = Some s ->
  accept H expected npieces psize repaired s (EMark i) = Some s' ->
  H (piece s i) = expected i /\ piece s' i = piece s i /\ In i (completed s') /\ ~ In i (hashing s).
Proof. exact Proofs.mark_only_when_hashed. Qed.
Print Assumptions mark_only_when_hashed.

(* No accepted event (Write as leader, take-over, retry_most_popular copy, ...) changes a completed piece, and a
   completed piece stays completed. *)
Theorem completed_never_written :
  forall (H : list N -> list N) (expected : N -> list N) (npieces : N) (psize : N -> N) (repaired : bool) st0 c0 tr s e s' i,
  (forall i, In i c0 -> H (nth (N.to_nat i) st0 []) = expected i) ->
  run H expected npieces psize repaired (init st0 c0) tr = Some s ->
  accept H expected npieces psize repaired s e = Some s' -> In i (completed s) ->
  piece s' i = piece s i /\ In i (completed s').
Proof. exact Proofs.completed_never_written. Qed.
Print Assumptions completed_never_written.

Theorem have_and_done_only_completed :
  forall (H : list N -> list N) (expected : N -> list N) (npieces : N) (psize : N -> N) (repaired : bool) st0 c0 tr s,
  (forall i, In i c0 -> H (nth (N.to_nat i) st0 []) = expected i) ->
  run H expected npieces psize repaired (init st0 c0) tr = Some s ->
  (forall i, In i (haves s) -> In i (completed s) /\ H (piece s i) = expected i) /\
  (done s = true -> forall i, i < npieces -> In i (completed s) /\ H (piece s i) = expected i).
Proof. exact Proofs.have_and_done_only_completed. Qed.
Print Assumptions have_and_done_only_completed.

(* done => files = original content when H is injective on the torrent's piece domain (same length, same digest =>
   same bytes); conversely "done" is enabled as soon as every piece is completed. *)
Theorem done_iff_all :
  forall (H : list N -> list N) (expected : N -> list N) (npieces : N) (psize : N -> N) (repaired : bool) st0 c0 tr s (orig : N -> list N),
  (forall i, In i c0 -> H (nth (N.to_nat i) st0 []) = expected i) ->
  run H expected npieces psize repaired (init st0 c0) tr = Some s ->
  (forall i, i < npieces -> expected i = H (orig i) /\ length (nth (N.to_nat i) st0 []) = length (orig i)) ->
  (forall i x, i < npieces -> length x = length (orig i) -> H x = H (orig i) -> x = orig i) ->
  (done s = true -> forall i, i < npieces -> piece s i = orig i) /\
  ((forall i, i < npieces -> In i (completed s)) -> pmark s = None -> done s = false ->
   accept H expected npieces psize repaired s EDone <> None).
Proof. exact Proofs.done_iff_all. Qed.
Print Assumptions done_iff_all.

(* bounds: in every accepted trace every accepted write lies inside the block of its transfer AND inside its piece
   (block geometry is an invariant: ProofsGeo.geo_step). *)
Theorem bounds :
  forall (H : list N -> list N) (expected : N -> list N) (npieces : N) (psize : N -> N) (repaired : bool) st0 c0 tr s p d s' i b x t,
  run H expected npieces psize repaired (init st0 c0) tr = Some s ->
  accept H expected npieces psize repaired s (EData p d) = Some s' -> get_cur s p = Some (CValid i b) ->
  find_block s i b = Some x -> find_tr p (b_trans x) = Some t ->
  0 < lenN d /\ t_pos t + lenN d <= b_len x /\ b_off x + t_pos t + lenN d <= psize i.
Proof. exact ProofsGeo.bounds. Qed.
Print Assumptions bounds.

(* A piece that is in the hash queue (or between its verdict and mark_completed) has all blocks finished and accepts no
   write: in every accepted trace its bytes change only through its own failed verdict (retry_most_popular), so the
   digest is computed from the store as it still is when the verdict is delivered. (psize > 0 for every piece:
   BlockList refuses zero-length pieces.) *)
Theorem hashing_never_written :
  forall (H : list N -> list N) (expected : N -> list N) (npieces : N) (psize : N -> N) (repaired : bool),
  (forall i, i < npieces -> 0 < psize i) ->
  forall st0 c0 tr s e s' i,
  (forall i, In i c0 -> H (nth (N.to_nat i) st0 []) = expected i) ->
  run H expected npieces psize repaired (init st0 c0) tr = Some s -> accept H expected npieces psize repaired s e = Some s' ->
  In i (hashing s) \/ pmark s = Some i -> e <> EHashDone i false ->
  piece s' i = piece s i /\ all_finished s i = true.
Proof. exact ProofsHash.hashing_never_written. Qed.
Print Assumptions hashing_never_written.

(* no_fatal, part 1 (needs the hashing invariant): for every accepted event other than Data the internal_error checks
   collected in Model.fatal cannot fire: "all blocks finished" of TransferList::hash_succeeded / hash_failed, "Could not
   find index" of hash_failed, "already finished" of FileList::mark_completed, "already delegated" of TransferList::insert. *)
Theorem no_fatal_hash :
  forall (H : list N -> list N) (expected : N -> list N) (npieces : N) (psize : N -> N) (repaired : bool),
  (forall i, i < npieces -> 0 < psize i) ->
  forall st0 c0 tr s e s',
  (forall i, In i c0 -> H (nth (N.to_nat i) st0 []) = expected i) ->
  run H expected npieces psize repaired (init st0 c0) tr = Some s -> accept H expected npieces psize repaired s e = Some s' ->
  (forall p d, e <> EData p d) -> fatal s e = false.
Proof. exact ProofsHash.no_fatal_hash. Qed.
Print Assumptions no_fatal_hash.

(* hostile peers are disconnected after max_failed: no connected peer has PeerInfo::failed_counter above max_failed
   (DownloadMain::receive_corrupt_chunk erases the connection), and such a peer cannot connect again. *)
Theorem hostile_disconnected_after_max_failed :
  forall (H : list N -> list N) (expected : N -> list N) (npieces : N) (psize : N -> N) (repaired : bool) st0 c0 tr s,
  run H expected npieces psize repaired (init st0 c0) tr = Some s ->
  (forall p, In p (conns s) -> failc_of s p <= max_failed) /\
  (forall p, max_failed < failc_of s p -> accept H expected npieces psize repaired s (EConn p) = None).
Proof. exact ProofsInv.hostile_disconnected_after_max_failed. Qed.
Print Assumptions hostile_disconnected_after_max_failed.

(* no_fatal, proved part: the "already finished" check of FileList::mark_completed and the "already delegated" check
   of TransferList::insert cannot fire in an accepted trace. MISSING: the checks of Block::completed,
   down_chunk_skip_process (follower past the leader / no transferring leader) and the "all blocks finished" checks of
   hash_succeeded / hash_failed need the follower-position and finished-while-hashing invariants, which are not proved;
   Model.fatal evaluates them on every accepted event of every recorded trace instead (ocaml/c01_driver.ml). The
   m_notStalled bookkeeping (where the correspondence run found the real defect fixed by /repo bfb0451) is not modelled. *)
Theorem no_fatal_partial :
  forall (H : list N -> list N) (expected : N -> list N) (npieces : N) (psize : N -> N) (repaired : bool) st0 c0 tr s e s',
  (forall i, In i c0 -> H (nth (N.to_nat i) st0 []) = expected i) ->
  run H expected npieces psize repaired (init st0 c0) tr = Some s -> accept H expected npieces psize repaired s e = Some s' ->
  match e with
  | EMark i => memN i (completed s) = false
  | ENew i => listed s i = false
  | _ => True
  end.
Proof. exact ProofsB.no_fatal_partial. Qed.
Print Assumptions no_fatal_partial.

(* Liveness, proved part: verdicts are deliverable, mark_completed follows, finished pieces can be queued, done is
   enabled when everything is complete. MISSING (and FALSE of the faithful model, see eventually_done_refuted): that an
   honest connected peer can always be asked for a missing block. Under that explicit hypothesis ([requestable]) the
   trace-level statement with a computed step count is honest_piece_completes below; the hypothesis is discharged for the
   repaired Block::insert after do_all_failed in honest_piece_completes_after_reset. *)
Theorem eventually_done_partial :
  forall (H : list N -> list N) (expected : N -> list N) (npieces : N) (psize : N -> N) (repaired : bool) s,
  (forall i, pmark s = None -> In i (hashing s) ->
     accept H expected npieces psize repaired s (EHashDone i (list_eqb (H (piece s i)) (expected i))) <> None) /\
  (forall i, pmark s = Some i -> accept H expected npieces psize repaired s (EMark i) <> None) /\
  (forall i, pmark s = None -> listed s i = true -> all_finished s i = true -> ~ In i (hashing s) ->
     accept H expected npieces psize repaired s (EHashQueued i) <> None) /\
  (pmark s = None -> all_completed npieces s = true -> done s = false -> accept H expected npieces psize repaired s EDone <> None).
Proof. exact ProofsB.eventually_done_partial. Qed.
Print Assumptions eventually_done_partial.

(* Liveness, the last mile: in any reachable state with no verdict in progress, a listed piece whose blocks are all
   finished and whose bytes are the original ones can be queued, verified, marked completed and announced; the four
   events are enabled in sequence (a scheduler that is fair to enabled events completes the piece). Together with
   eventually_done_partial (done is enabled once every piece is completed) this is the part of "eventually finishes" that
   holds; what does not hold is that a missing block can always be requested from an honest peer (eventually_done_refuted). *)
Theorem finished_piece_completes :
  forall (H : list N -> list N) (expected : N -> list N) (npieces : N) (psize : N -> N) (repaired : bool),
  (forall i, i < npieces -> 0 < psize i) ->
  forall st0 c0 tr s i,
  (forall i, In i c0 -> H (nth (N.to_nat i) st0 []) = expected i) ->
  run H expected npieces psize repaired (init st0 c0) tr = Some s ->
  pmark s = None -> listed s i = true -> all_finished s i = true -> ~ In i (hashing s) ->
  H (piece s i) = expected i ->
  exists s', run H expected npieces psize repaired s [EHashQueued i; EHashDone i true; EMark i; EHave i] = Some s' /\
             In i (completed s') /\ In i (haves s') /\ piece s' i = piece s i /\ listed s' i = false.
Proof. exact ProofsHash.finished_piece_completes. Qed.
Print Assumptions finished_piece_completes.

(* Request deadlock: an accepted trace (2 peers, one corrupting, one honest, one piece of two blocks, four failed
   verdicts) ends in a state where the honest peer is connected, the piece is not complete, nothing is queued / being
   received / being hashed, and Block::insert refuses every connected peer for every block. *)
Theorem eventually_done_refuted :
  exists s, run toyH toy_expected 1 toy_psize false toy_init toy_trace = Some s /\ stuck_check s = true.
Proof. exact ProofsB.eventually_done_refuted. Qed.
Print Assumptions eventually_done_refuted.

(* The stale-transfer repair: with the repaired Block::insert (repaired = true), the second failed verdict of a piece
   (BlockList::do_all_failed) leaves every block of the piece with no transfer of the current attempt and no leader, and
   every connected peer that is not already queued on it can be asked again (Insert is accepted). With the old guard
   (repaired = false) this is false: eventually_done_refuted, the recorded finding liveness-stale-transfer. *)
Theorem reset_block_insertable :
  forall (H : list N -> list N) (expected : N -> list N) (npieces : N) (psize : N -> N) s i s',
  accept H expected npieces psize true s (EHashDone i false) = Some s' -> attempt_of s i <> 0 ->
  forall b x p, find_block s' i b = Some x -> In p (conns s') -> memN p (b_queued x) = false ->
  b_trans x = [] /\ b_leader x = None /\ accept H expected npieces psize true s' (EIns p i b) <> None.
Proof. exact ProofsB.reset_block_insertable. Qed.
Print Assumptions reset_block_insertable.

(* Liveness, the step an honest peer contributes (both guards): a requestable block (no leader, no transfer of the current
   attempt, the connected peer neither queued nor refused nor busy) is requested from the peer, answered with a PIECE of
   the right length and its data, and is then finished with exactly those bytes in the store; the three events are
   enabled in sequence. Measure argument for "eventually done" under a scheduler fair to the enabled events of an honest
   peer that holds the piece: reset_block_insertable makes every block of a failed piece requestable again (repaired guard),
   honest_block_step finishes one more block with the original bytes, finished_piece_completes completes the piece once
   all its blocks are finished with the original bytes, eventually_done_partial enables "done" once every piece is
   completed. The composition into one trace-level theorem with a computed length is honest_piece_completes /
   honest_piece_completes_after_reset below (for the uncontended case: no other peer takes the blocks in between). *)
Theorem honest_block_step :
  forall (H : list N -> list N) (expected : N -> list N) (npieces : N) (psize : N -> N) (repaired : bool) s i b x p d,
  pmark s = None -> find_block s i b = Some x -> b_off x / bs = b ->
  In p (conns s) -> get_cur s p = None ->
  b_leader x = None -> b_trans x = [] -> memN p (b_queued x) = false -> ins_refused repaired p x = false ->
  lenN d = b_len x -> 0 < b_len x ->
  exists s', run H expected npieces psize repaired s [EIns p i b; EPiece p i (b_off x) (b_len x) true; EData p d] = Some s' /\
             (exists x', find_block s' i b = Some x' /\ finished x' = true /\ b_queued x' = [] /\ b_leader x' = Some p) /\
             piece s' i = splice (piece s i) (N.to_nat (b_off x)) d /\ get_cur s' p = None /\ pmark s' = None.
Proof. exact ProofsLive.honest_block_step. Qed.
Print Assumptions honest_block_step.

(* Block numbering is an invariant: in every reachable state block b of a piece starts at b * block_size (this is what
   down_chunk_start's off / block_size lookup relies on; it discharges the side condition b_off x / bs = b of
   honest_block_step for reachable states). *)
Theorem block_offsets :
  forall (H : list N -> list N) (expected : N -> list N) (npieces : N) (psize : N -> N) (repaired : bool) st0 c0 tr s x,
  run H expected npieces psize repaired (init st0 c0) tr = Some s -> In x (blocks s) -> b_off x = b_no x * bs.
Proof. exact ProofsGeo.no_off_run. Qed.
Print Assumptions block_offsets.

(* honest_block_step with its frame: only block (i, b) changes; connections, hash queue, listed pieces, completed bitfield,
   have queue and done flag do not. *)
Theorem honest_block_step_frame :
  forall (H : list N -> list N) (expected : N -> list N) (npieces : N) (psize : N -> N) (repaired : bool) s i b x p d,
  pmark s = None -> find_block s i b = Some x -> b_off x / bs = b ->
  In p (conns s) -> get_cur s p = None ->
  b_leader x = None -> b_trans x = [] -> memN p (b_queued x) = false -> ins_refused repaired p x = false ->
  lenN d = b_len x -> 0 < b_len x ->
  exists s', run H expected npieces psize repaired s [EIns p i b; EPiece p i (b_off x) (b_len x) true; EData p d] = Some s' /\
             (exists x', find_block s' i b = Some x' /\ finished x' = true /\ b_queued x' = [] /\ b_leader x' = Some p) /\
             piece s' i = splice (piece s i) (N.to_nat (b_off x)) d /\ get_cur s' p = None /\ pmark s' = None /\
             (exists G, (forall y, ProofsInv.key (G y) = ProofsInv.key y) /\ (forall y, b_len (G y) = b_len y) /\ finished (G x) = true /\
                        blocks s' = upd_block (blocks s) i b G) /\
             conns s' = conns s /\ hashing s' = hashing s /\ attempts s' = attempts s /\ completed s' = completed s /\
             done s' = done s /\ haves s' = haves s.
Proof. exact ProofsLive.honest_block_step_frame. Qed.
Print Assumptions honest_block_step_frame.

(* Liveness for a whole piece, as ONE trace with a computed length (replaces the informal measure argument above).
   ublocks s i   = the unfinished blocks of piece i in BlockList order,
   requestable   = Block::insert accepts p for the block (no leader, no transfer of the current attempt, p neither queued
                   nor refused) and [serve] has data of the block's length for it,
   serve_trace   = [Ins; PIECE header; data] for each of these blocks, verdict_trace = [HashQueued; HashDone ok; Mark; Have],
   serve_all     = the piece after these writes.
   In any reachable state with no verdict in progress, if an idle connected peer p can be asked for every unfinished
   block of the listed piece i and the bytes it serves make the piece hash to the torrent's digest, then these
   3 * (unfinished blocks) + 4 events of p and the hash queue are accepted in sequence (no other peer has to move, and
   whatever else is going on in other blocks / pieces / connections does not matter), and they end with i completed and
   announced and the store holding exactly the served bytes; if i was the last missing piece, "done" is then enabled.
   So under a scheduler fair to these enabled events the piece completes within that many of p's steps.
   What remains a hypothesis is [requestable] itself: FALSE in general with the old Block::insert
   (eventually_done_refuted), a theorem after do_all_failed with the repaired one (honest_piece_completes_after_reset).
   Interference by hostile peers racing p for the same blocks between these steps (p then becomes a follower) is not covered. *)
Theorem honest_piece_completes :
  forall (H : list N -> list N) (expected : N -> list N) (npieces : N) (psize : N -> N) (repaired : bool),
  (forall i, i < npieces -> 0 < psize i) ->
  forall st0 c0 tr s i p serve,
  (forall i, In i c0 -> H (nth (N.to_nat i) st0 []) = expected i) ->
  run H expected npieces psize repaired (init st0 c0) tr = Some s ->
  pmark s = None -> listed s i = true -> ~ In i (hashing s) -> In p (conns s) -> get_cur s p = None ->
  (forall x, In x (ublocks s i) -> requestable repaired p serve x) ->
  H (serve_all serve (ublocks s i) (piece s i)) = expected i ->
  exists s', run H expected npieces psize repaired s (serve_trace p i serve (ublocks s i) ++ verdict_trace i) = Some s' /\
             length (serve_trace p i serve (ublocks s i) ++ verdict_trace i) = (3 * length (ublocks s i) + 4)%nat /\
             In i (completed s') /\ In i (haves s') /\ piece s' i = serve_all serve (ublocks s i) (piece s i) /\
             listed s' i = false /\
             ((forall j, j < npieces -> j <> i -> In j (completed s)) -> done s = false ->
              accept H expected npieces psize repaired s' EDone <> None).
Proof. exact ProofsLive.honest_piece_completes. Qed.
Print Assumptions honest_piece_completes.

(* With the repaired Block::insert, [requestable] is discharged right after the second failed verdict of a piece
   (BlockList::do_all_failed), whatever the peers did before: an idle connected peer that is not already queued on the
   blocks of the piece and serves bytes hashing to the torrent's digest completes it in 3 * (blocks of the piece) + 4
   steps. With the old guard the same state can be a deadlock (eventually_done_refuted; Example ex_after_reset_hyps
   instantiates this theorem on exactly that trace). *)
Theorem honest_piece_completes_after_reset :
  forall (H : list N -> list N) (expected : N -> list N) (npieces : N) (psize : N -> N),
  (forall i, i < npieces -> 0 < psize i) ->
  forall st0 c0 tr s i s1 p serve,
  (forall i, In i c0 -> H (nth (N.to_nat i) st0 []) = expected i) ->
  run H expected npieces psize true (init st0 c0) tr = Some s ->
  accept H expected npieces psize true s (EHashDone i false) = Some s1 -> attempt_of s i <> 0 ->
  In p (conns s1) -> get_cur s1 p = None ->
  (forall x, In x (ublocks s1 i) -> memN p (b_queued x) = false /\ lenN (serve (b_no x)) = b_len x) ->
  H (serve_all serve (ublocks s1 i) (piece s1 i)) = expected i ->
  exists s', run H expected npieces psize true s1 (serve_trace p i serve (ublocks s1 i) ++ verdict_trace i) = Some s' /\
             length (serve_trace p i serve (ublocks s1 i) ++ verdict_trace i) = (3 * length (ublocks s1 i) + 4)%nat /\
             In i (completed s') /\ In i (haves s') /\ piece s' i = serve_all serve (ublocks s1 i) (piece s1 i) /\
             listed s' i = false /\
             ((forall j, j < npieces -> j <> i -> In j (completed s1)) -> done s1 = false ->
              accept H expected npieces psize true s' EDone <> None).
Proof. exact ProofsLive.honest_piece_completes_after_reset. Qed.
Print Assumptions honest_piece_completes_after_reset.

Theorem params_ok_now : params_ok = true.
Proof. exact ProofsB.params_ok_now. Qed.
Print Assumptions params_ok_now.
