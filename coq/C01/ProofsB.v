(* C01 — bounds of accepted writes, the internal_error checks, progress (liveness, partial) and the request
   deadlock witness; parameter obligations; non-vacuity examples. *)
From Coq Require Import NArith List Bool Lia.
From LTV.C01 Require Import ParamsGen Model Proofs.
Import ListNotations.
Open Scope N_scope.

(* what the proofs need of the constants: a positive block size (any value), a positive failure limit *)
Definition params_ok : bool := (0 <? Params.c01_block_size) && (0 <? Params.c01_max_failed).
Lemma params_ok_now : params_ok = true.
Proof. vm_compute. reflexivity. Qed.

Section ProofsB.
Variable H : list N -> list N.
Variable expected : N -> list N.
Variable npieces : N.
Variable psize : N -> N.
Variable repaired : bool.
Notation accept := (accept H expected npieces psize repaired).
Notation run := (run H expected npieces psize repaired).

Lemma lenN_0 : forall (d : list N), lenN d = 0 -> d = [].
Proof. intros [|x d]; unfold lenN; simpl; [reflexivity | lia]. Qed.

(* every accepted Data event for a live transfer lies inside the block of that transfer: the bytes a leader writes
   (Chunk::from_buffer at b_off + t_pos, |d| bytes) and the bytes a follower that takes over writes (a suffix of
   them) are inside [b_off, b_off + b_len) *)
Theorem bounds_in_block : forall s p d s' i b x t,
  accept s (EData p d) = Some s' -> get_cur s p = Some (CValid i b) ->
  find_block s i b = Some x -> find_tr p (b_trans x) = Some t ->
  0 < lenN d /\ t_pos t + lenN d <= b_len x /\ b_off x + t_pos t + lenN d <= b_off x + b_len x.
Proof.
  intros s p d s' i b x t A C Fx Ft. unfold Model.accept in A.
  destruct (pmark s); [discriminate|]. rewrite C in A. unfold data_valid in A. rewrite Fx, Ft in A.
  destruct ((lenN d =? 0) || (b_len x - t_pos t <? lenN d)) eqn:G; [discriminate|].
  apply orb_false_iff in G. destruct G as [G1 G2]. apply N.eqb_neq in G1. apply N.ltb_ge in G2. lia.
Qed.

(* blocks are created inside their piece (BlockList::BlockList) *)
Lemma mk_blocks_from_bounds : forall fuel i no off size y,
  In y (mk_blocks_from i no off size fuel) -> off <= b_off y /\ b_off y + b_len y <= off + size.
Proof.
  induction fuel as [|k IH]; intros i no off size y Hin; simpl in Hin; [contradiction|].
  destruct (size <=? bs) eqn:E.
  - destruct Hin as [<-|[]]. simpl. lia.
  - apply N.leb_gt in E. destruct Hin as [<-|Hin]; [simpl; lia|].
    apply IH in Hin. lia.
Qed.
Theorem blocks_inside_piece : forall i y, In y (mk_blocks psize i) -> b_idx y = i /\ b_off y + b_len y <= psize i.
Proof.
  intros i y Hin. split; [eapply mk_blocks_from_idx; exact Hin|].
  unfold mk_blocks in Hin. apply mk_blocks_from_bounds in Hin. lia.
Qed.

(* the FileList::mark_completed check ("already finished") and TransferList::insert check cannot fire *)
Theorem no_fatal_partial : forall st0 c0 tr s e s',
  init_ok H expected st0 c0 -> run (init st0 c0) tr = Some s -> accept s e = Some s' ->
  match e with
  | EMark i => memN i (completed s) = false
  | ENew i => listed s i = false
  | _ => True
  end.
Proof.
  intros st0 c0 tr s e s' Hi R A.
  pose proof (inv_run H expected npieces psize repaired tr _ _ (inv_init H expected npieces st0 c0 Hi) R) as (I1 & I2 & I3 & _).
  destruct e; auto.
  - unfold Model.accept in A. destruct (pmark s); [discriminate|].
    destruct ((i <? npieces) && negb (listed s i) && negb (memN i (completed s))) eqn:G; [|discriminate].
    apply andb_true_iff in G. destruct G as [G _]. apply andb_true_iff in G. destruct G as [_ G]. apply negb_true_iff in G. exact G.
  - unfold Model.accept in A. destruct (pmark s) as [m|] eqn:PM; [|discriminate].
    destruct (m =? i) eqn:E; [|discriminate]. apply N.eqb_eq in E. subst m.
    destruct (I2 i eq_refl) as (_ & L & _).
    destruct (memN i (completed s)) eqn:M; [|reflexivity]. apply memN_In in M. rewrite (I3 i M) in L. discriminate.
Qed.

(* progress (liveness, the proved part): the verdict of a queued hash job is always deliverable, mark_completed follows
   a good verdict, a piece whose blocks are all finished can be queued, and "done" is enabled once everything is complete *)
Theorem eventually_done_partial : forall s,
  (forall i, pmark s = None -> In i (hashing s) ->
     accept s (EHashDone i (list_eqb (H (piece s i)) (expected i))) <> None) /\
  (forall i, pmark s = Some i -> accept s (EMark i) <> None) /\
  (forall i, pmark s = None -> listed s i = true -> all_finished s i = true -> ~ In i (hashing s) ->
     accept s (EHashQueued i) <> None) /\
  (pmark s = None -> all_completed npieces s = true -> done s = false -> accept s EDone <> None).
Proof.
  intro s. repeat split.
  - intros i PM Hin. unfold Model.accept. rewrite PM. apply memN_In in Hin. rewrite Hin. rewrite eqb_reflx. simpl.
    destruct (list_eqb _ _); discriminate.
  - intros i PM. unfold Model.accept. rewrite PM. rewrite N.eqb_refl. discriminate.
  - intros i PM L AF NH. unfold Model.accept. rewrite PM, L, AF.
    destruct (memN i (hashing s)) eqn:M; [apply memN_In in M; contradiction|]. discriminate.
  - intros PM AC D. unfold Model.accept. rewrite PM, AC, D. discriminate.
Qed.

End ProofsB.

(* ---------- the missing part of liveness is FALSE of the faithful model: request deadlock ----------
   Toy instance (H = identity on a 2-byte prefix is enough: the verdicts are all "fail"): one piece of 2 blocks
   (16384 + 1 bytes), peer 0 corrupts, peer 1 is honest. After each peer has supplied each block once, Block::insert
   refuses every connected peer for every block (stale finished transfers keep their peer), nothing is queued, nobody is
   receiving, no hash job is pending: no event that could lead to completion is enabled although the honest peer is
   connected. Replayed on the real code: corpus/C01/witnesses.case (third case). *)
Definition toyH (l : list N) : list N := firstn 1 l ++ firstn 1 (skipn (N.to_nat bs) l).
Definition toy_expected (_ : N) : list N := [7; 7].
Definition toy_psize (_ : N) : N := (bs + 1).
Definition blk (v : N) (n : N) : list N := repeat v (N.to_nat n).
Definition toy_trace : list event :=
  [ EConn 0; EConn 1; ENew 0; EIns 0 0 0; EIns 1 0 1;
    EPiece 0 0 0 bs true; EData 0 (blk 9 bs); EPiece 1 0 bs 1 true; EData 1 [7];
    EHashQueued 0; EHashDone 0 false; EHashQueued 0; EHashDone 0 false;
    EIns 1 0 0; EIns 0 0 1;
    EPiece 1 0 0 bs true; EData 1 (blk 7 bs); EPiece 0 0 bs 1 true; EData 0 [9];
    EHashQueued 0; EHashDone 0 false; EHashQueued 0; EHashDone 0 false ].
Definition toy_init : state := init [blk 0 (bs + 1)] [].
Definition stuck_check (s : state) : bool :=
  memN 1 (conns s) && negb (memN 0 (completed s)) && listed s 0 &&
  forallb (fun x => negb (finished x) && match b_queued x with [] => true | _ => false end) (blocks s) &&
  match curs s, hashing s, pmark s with [], [], None => true | _, _, _ => false end &&
  forallb (fun pb => match accept toyH toy_expected 1 toy_psize false s (EIns (fst pb) 0 (snd pb)) with None => true | Some _ => false end)
          [(0, 0); (0, 1); (1, 0); (1, 1)].

Theorem eventually_done_refuted :
  exists s, run toyH toy_expected 1 toy_psize false toy_init toy_trace = Some s /\ stuck_check s = true.
Proof.
  destruct (run toyH toy_expected 1 toy_psize false toy_init toy_trace) as [s|] eqn:E.
  - exists s. split; [reflexivity|]. revert E. vm_compute. intro E. inversion E. reflexivity.
  - exfalso. revert E. vm_compute. discriminate.
Qed.

(* ---------- non-vacuity: the hypotheses of the theorems are satisfiable, an honest download is accepted ---------- *)
Definition ex_H (l : list N) : list N := l.
Definition ex_expected (i : N) : list N := [1; 2; 3].
Definition ex_psize (_ : N) : N := 3.
Definition ex_trace : list event :=
  [ EConn 0; ENew 0; EIns 0 0 0; EPiece 0 0 0 3 true; EData 0 [1; 2]; EData 0 [3];
    EHashQueued 0; EHashDone 0 true; EMark 0; EHave 0; EDone ].
Example ex_accepted :
  exists s, run ex_H ex_expected 1 ex_psize true (init [[0; 0; 0]] []) ex_trace = Some s /\
            completed s = [0] /\ done s = true /\ piece s 0 = [1; 2; 3] /\ haves s = [0].
Proof. eexists. vm_compute. repeat split. Qed.
Example ex_init_ok : init_ok ex_H ex_expected [[0; 0; 0]] [].
Proof. intros i []. Qed.
Example ex_corrupt_rejected_mark :
  run ex_H ex_expected 1 ex_psize true (init [[0; 0; 0]] [])
      [ EConn 0; ENew 0; EIns 0 0 0; EPiece 0 0 0 3 true; EData 0 [1; 2; 9]; EHashQueued 0; EHashDone 0 true ] = None.
Proof. vm_compute. reflexivity. Qed.

(* ---------- the stale-transfer repair (Block::insert ignores the finished leftovers of failed attempts) ----------
   With the repaired guard, BlockList::do_all_failed makes every block of the piece requestable again from EVERY connected
   peer: the leftovers moved out of the way, no leader, nothing in flight. (With the old guard this is exactly what fails:
   eventually_done_refuted.) *)
Theorem reset_block_insertable :
  forall (H : list N -> list N) (expected : N -> list N) (npieces : N) (psize : N -> N) s i s',
  accept H expected npieces psize true s (EHashDone i false) = Some s' -> attempt_of s i <> 0 ->
  forall b x p, find_block s' i b = Some x -> In p (conns s') -> memN p (b_queued x) = false ->
  b_trans x = [] /\ b_leader x = None /\ accept H expected npieces psize true s' (EIns p i b) <> None.
Proof.
  intros H expected npieces psize s i s' A Hat b x p Fx Hp Hq.
  unfold accept in A. destruct (pmark s) eqn:PM; [discriminate|].
  destruct (memN i (hashing s) && _); [|discriminate]. inversion A; subst s'; clear A.
  assert (E : attempt_of (with_hashing s (removeN i (hashing s))) i =? 0 = false) by (apply N.eqb_neq; exact Hat).
  unfold hash_failed in *. rewrite E in *. cbn [blocks conns pmark] in *.
  destruct (find_block_some _ _ _ _ Fx) as (Hx & Ei & _). cbn [blocks] in Hx.
  unfold upd_piece_blocks in Hx. apply in_map_iff in Hx. destruct Hx as (y & Ey & Hy).
  assert (Eiy : b_idx y =? i = true).
  { destruct (b_idx y =? i) eqn:B; [reflexivity|]. subst x. apply N.eqb_neq in B. contradiction. }
  rewrite Eiy in Ey. subst x. cbn [b_trans b_leader fail_leader]. repeat split.
  unfold accept. cbn [pmark with_hashing]. rewrite PM. unfold find_block in Fx. cbn [blocks] in Fx. unfold find_block. cbn [blocks]. rewrite Fx.
  cbn [conns with_hashing]. apply memN_In in Hp. cbn [conns with_hashing] in Hp. rewrite Hp.
  unfold finished, ins_refused. cbn [b_leader b_trans b_queued fail_leader has_tr existsb negb andb orb] in *. rewrite Hq. discriminate.
Qed.
