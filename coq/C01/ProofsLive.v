(* C01 — liveness, the step an honest peer contributes: a block that is requestable (no leader, no transfer of the current
   attempt, the peer neither queued nor refused) is requested from the peer, answered with a PIECE of the right length
   and its data, and is then finished with exactly those bytes in the store.  All three events are enabled in sequence.
   Together with reset_block_insertable (repaired guard: after do_all_failed every block is requestable again from every
   connected peer) and finished_piece_completes (a piece whose blocks are finished and whose bytes are the original ones
   is verified, marked and announced) this gives the measure argument: under a scheduler that is fair to the enabled
   events of an honest peer, the number of unfinished blocks of a listed piece decreases to 0 and the piece completes. *)
From Coq Require Import NArith List Bool Lia.
From LTV.C01 Require Import ParamsGen Model Proofs ProofsInv ProofsHash.
Import ListNotations.
Open Scope N_scope.

Lemma nth_upd_nth_same : forall {A} (l : list A) n f d0, f d0 = d0 -> nth n (upd_nth l n f) d0 = f (nth n l d0).
Proof.
  induction l as [|a l IH]; intros n f d0 Hf; simpl.
  - destruct n; simpl; auto.
  - destruct n; simpl; auto.
Qed.

Lemma splice_nil : forall off d, splice [] off d = [].
Proof. reflexivity. Qed.

Lemma memN_app_last : forall p l, memN p (l ++ [p]) = true.
Proof. intros. apply memN_In. apply in_or_app. right. left. reflexivity. Qed.

Lemma get_cur_set_cur : forall s l p c, curs s = set_cur l p c -> get_cur s p = Some c.
Proof.
  intros s l p c E. unfold get_cur. rewrite E. unfold set_cur. clear E.
  assert (F : find (fun c0 : N * cur => fst c0 =? p) (del_cur l p ++ [(p, c)]) = Some (p, c)).
  { induction l as [|a l IH]; simpl; [rewrite N.eqb_refl; reflexivity|].
    destruct (fst a =? p) eqn:Ea; simpl; [exact IH|]. rewrite Ea. exact IH. }
  rewrite F. reflexivity.
Qed.

Lemma get_cur_del_cur : forall s l p, curs s = del_cur l p -> get_cur s p = None.
Proof.
  intros s l p E. unfold get_cur. rewrite E. clear E.
  assert (F : find (fun c0 : N * cur => fst c0 =? p) (del_cur l p) = None).
  { induction l as [|a l IH]; simpl; [reflexivity|]. destruct (fst a =? p) eqn:Ea; simpl; [exact IH|]. rewrite Ea. exact IH. }
  rewrite F. reflexivity.
Qed.

Section Live.
Variable H : list N -> list N.
Variable expected : N -> list N.
Variable npieces : N.
Variable psize : N -> N.
Variable repaired : bool.
Notation accept := (accept H expected npieces psize repaired).
Notation run := (run H expected npieces psize repaired).

Theorem honest_block_step : forall s i b x p d,
  pmark s = None -> find_block s i b = Some x -> b_off x / bs = b ->
  In p (conns s) -> get_cur s p = None ->
  b_leader x = None -> b_trans x = [] -> memN p (b_queued x) = false -> ins_refused repaired p x = false ->
  lenN d = b_len x -> 0 < b_len x ->
  exists s', run s [EIns p i b; EPiece p i (b_off x) (b_len x) true; EData p d] = Some s' /\
             (exists x', find_block s' i b = Some x' /\ finished x' = true /\ b_queued x' = [] /\ b_leader x' = Some p) /\
             piece s' i = splice (piece s i) (N.to_nat (b_off x)) d /\ get_cur s' p = None /\ pmark s' = None.
Proof.
  intros s i b x p d PM Fx Eb Hp Hc L Tr Hq Hr Ld Lpos.
  assert (Mp : memN p (conns s) = true) by (apply memN_In; exact Hp).
  assert (Fin : finished x = false) by (unfold finished; rewrite L; reflexivity).
  (* Block::insert *)
  set (f1 := fun y : block => set_queued y (b_queued y ++ [p])).
  set (s1 := with_blocks s (upd_block (blocks s) i b f1)).
  assert (A1 : accept s (EIns p i b) = Some s1).
  { unfold Model.accept. rewrite PM, Fx, Mp, Fin, Hq, Hr. reflexivity. }
  assert (F1 : find_block s1 i b = Some (f1 x)).
  { unfold find_block, s1. cbn [blocks with_blocks]. apply find_upd_block; [intro; reflexivity | exact Fx]. }
  (* PIECE header: Block::transfering, p becomes the leader *)
  set (new := {| t_peer := p; t_state := TLeader; t_pos := 0 |}).
  set (f2 := fun y : block => set_trans (set_queued y (removeN p (b_queued y))) (b_trans y ++ [new]) (Some p)).
  set (s2 := with_curs (with_blocks s1 (upd_block (blocks s1) i b f2)) (set_cur (curs s1) p (CValid i b))).
  assert (A2 : accept s1 (EPiece p i (b_off x) (b_len x) true) = Some s2).
  { unfold Model.accept. replace (pmark s1) with (@None N) by (symmetry; exact PM).
    replace (memN p (conns s1)) with true by (symmetry; exact Mp). cbn [negb].
    replace (get_cur s1 p) with (@None cur) by (symmetry; exact Hc).
    rewrite Eb, F1. cbn [b_off b_len b_queued b_trans b_leader f1 set_queued]. rewrite !N.eqb_refl, memN_app_last, Tr, L.
    cbn [has_tr existsb negb andb]. reflexivity. }
  assert (F2 : find_block s2 i b = Some (f2 (f1 x))).
  { unfold find_block, s2. cbn [blocks with_blocks with_curs]. apply find_upd_block; [intro; reflexivity | exact F1]. }
  assert (C2 : get_cur s2 p = Some (CValid i b)) by (eapply get_cur_set_cur; reflexivity).
  (* the data: leader write, then Block::completed *)
  set (n := lenN d).
  set (f3 := fun y : block => set_trans y (set_pos p TLeader (0 + n) (b_trans y)) (b_leader y)).
  set (s3 := with_blocks (with_store s2 (write_store (store s2) i (b_off x + 0) d)) (upd_block (blocks s2) i b f3)).
  assert (T2 : b_trans (f2 (f1 x)) = [new]) by (cbn [b_trans f2 f1 set_trans set_queued]; rewrite Tr; reflexivity).
  assert (Ft2 : find_tr p (b_trans (f2 (f1 x))) = Some new) by (rewrite T2; unfold find_tr; simpl; rewrite N.eqb_refl; reflexivity).
  assert (A3 : accept s2 (EData p d) = Some (after_data s3 p i b)).
  { unfold Model.accept. replace (pmark s2) with (@None N) by (symmetry; exact PM). rewrite C2.
    unfold data_valid. rewrite F2, Ft2. cbn [t_pos new b_len b_leader b_off f2 f1 set_trans set_queued].
    fold n. replace (n =? 0) with false by (symmetry; apply N.eqb_neq; unfold n; lia).
    replace (b_len x - 0 <? n) with false by (symmetry; apply N.ltb_ge; unfold n; lia).
    cbn [orb]. rewrite N.eqb_refl. reflexivity. }
  assert (F3 : find_block s3 i b = Some (f3 (f2 (f1 x)))).
  { unfold find_block, s3. cbn [blocks with_blocks with_store]. apply find_upd_block; [intro; reflexivity | exact F2]. }
  set (done_t := {| t_peer := p; t_state := TLeader; t_pos := 0 + n |}).
  assert (Ft3 : find_tr p (b_trans (f3 (f2 (f1 x)))) = Some done_t).
  { cbn [b_trans f3 set_trans]. eapply find_tr_set_pos. exact Ft2. }
  set (x3 := f3 (f2 (f1 x))).
  set (s4 := with_blocks (with_curs s3 (del_cur (invalidate_curs (curs s3) x3) p)) (upd_block (blocks s3) i b complete_block)).
  assert (E4 : after_data s3 p i b = s4).
  { unfold after_data. rewrite F3, Ft3. cbn [t_pos done_t b_len f3 f2 f1 set_trans set_queued]. 
    replace (0 + n =? b_len x) with true by (symmetry; apply N.eqb_eq; unfold n; lia).
    unfold is_leader_t. cbn [t_state tstate_eqb]. reflexivity. }
  exists s4. split; [simpl; rewrite A1, A2, A3, E4; reflexivity|]. split; [|split; [|split]].
  - exists (complete_block x3). split; [|split; [|split]].
    + unfold find_block, s4. cbn [blocks with_blocks with_curs]. apply find_upd_block; [intro; reflexivity | exact F3].
    + unfold finished. cbn [b_leader complete_block x3 f3 f2 f1 set_trans set_queued b_trans b_len]. rewrite Tr.
      cbn [app set_pos upd_tr map t_peer new]. rewrite N.eqb_refl. cbn [filter is_leader_t t_state tstate_eqb find_tr find t_peer t_pos].
      rewrite N.eqb_refl. cbn [t_pos]. apply N.eqb_eq. unfold n. lia.
    + reflexivity.
    + reflexivity.
  - unfold piece, s4, s3, write_store. cbn [store with_blocks with_curs with_store s2 s1]. rewrite N.add_0_r.
    apply (nth_upd_nth_same (store s) (N.to_nat i) (fun pc : list N => splice pc (N.to_nat (b_off x)) d) []). reflexivity.
  - eapply get_cur_del_cur. reflexivity.
  - exact PM.
Qed.

End Live.
