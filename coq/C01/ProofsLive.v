(* C01 — liveness, the step an honest peer contributes: a block that is requestable (no leader, no transfer of the current
   attempt, the peer neither queued nor refused) is requested from the peer, answered with a PIECE of the right length
   and its data, and is then finished with exactly those bytes in the store.  All three events are enabled in sequence.
   Together with reset_block_insertable (repaired guard: after do_all_failed every block is requestable again from every
   connected peer) and finished_piece_completes (a piece whose blocks are finished and whose bytes are the original ones
   is verified, marked and announced) this gives the measure argument: under a scheduler that is fair to the enabled
   events of an honest peer, the number of unfinished blocks of a listed piece decreases to 0 and the piece completes.
   Second part of the file: that argument as theorems. honest_block_step_frame (only the one block changes),
   honest_blocks_finish (induction over the unfinished blocks of the piece), honest_piece_completes (one accepted trace of
   3 * unfinished blocks + 4 events from any reachable state, ending with the piece completed, announced, and "done"
   enabled if it was the last one) and honest_piece_completes_after_reset (the [requestable] hypothesis discharged after
   BlockList::do_all_failed with the repaired Block::insert). *)
From Coq Require Import NArith List Bool Lia.
From LTV.C01 Require Import ParamsGen Model Proofs ProofsB ProofsGeo ProofsInv ProofsHash.
Import ListNotations.
Open Scope N_scope.

Lemma nth_upd_nth_same : forall {A} (l : list A) n f d0, f d0 = d0 -> nth n (upd_nth l n f) d0 = f (nth n l d0).
Proof.
  induction l as [|a l IH]; intros n f d0 Hf; simpl.
  - destruct n; simpl; auto.
  - destruct n; simpl; auto.
Qed.

Lemma splice_nil : forall off d, splice [] off d = [].
Proof. reflexivity. Qed.

Lemma memN_app_last : forall p l, memN p (l ++ [p]) = true.
Proof. intros. apply memN_In. apply in_or_app. right. left. reflexivity. Qed.

Lemma get_cur_set_cur : forall s l p c, curs s = set_cur l p c -> get_cur s p = Some c.
Proof.
  intros s l p c E. unfold get_cur. rewrite E. unfold set_cur. clear E.
  assert (F : find (fun c0 : N * cur => fst c0 =? p) (del_cur l p ++ [(p, c)]) = Some (p, c)).
  { induction l as [|a l IH]; simpl; [rewrite N.eqb_refl; reflexivity|].
    destruct (fst a =? p) eqn:Ea; simpl; [exact IH|]. rewrite Ea. exact IH. }
  rewrite F. reflexivity.
Qed.

Lemma get_cur_del_cur : forall s l p, curs s = del_cur l p -> get_cur s p = None.
Proof.
  intros s l p E. unfold get_cur. rewrite E. clear E.
  assert (F : find (fun c0 : N * cur => fst c0 =? p) (del_cur l p) = None).
  { induction l as [|a l IH]; simpl; [reflexivity|]. destruct (fst a =? p) eqn:Ea; simpl; [exact IH|]. rewrite Ea. exact IH. }
  rewrite F. reflexivity.
Qed.

Section Live.
Variable H : list N -> list N.
Variable expected : N -> list N.
Variable npieces : N.
Variable psize : N -> N.
Variable repaired : bool.
Notation accept := (accept H expected npieces psize repaired).
Notation run := (run H expected npieces psize repaired).

(* the same with the frame: only block (i, b) changes, and connections / hash queue / listed pieces do not *)
Theorem honest_block_step_frame : forall s i b x p d,
  pmark s = None -> find_block s i b = Some x -> b_off x / bs = b ->
  In p (conns s) -> get_cur s p = None ->
  b_leader x = None -> b_trans x = [] -> memN p (b_queued x) = false -> ins_refused repaired p x = false ->
  lenN d = b_len x -> 0 < b_len x ->
  exists s', run s [EIns p i b; EPiece p i (b_off x) (b_len x) true; EData p d] = Some s' /\
             (exists x', find_block s' i b = Some x' /\ finished x' = true /\ b_queued x' = [] /\ b_leader x' = Some p) /\
             piece s' i = splice (piece s i) (N.to_nat (b_off x)) d /\ get_cur s' p = None /\ pmark s' = None /\
             (exists G, (forall y, key (G y) = key y) /\ (forall y, b_len (G y) = b_len y) /\ finished (G x) = true /\
                        blocks s' = upd_block (blocks s) i b G) /\
             conns s' = conns s /\ hashing s' = hashing s /\ attempts s' = attempts s /\ completed s' = completed s /\
             done s' = done s /\ haves s' = haves s.
Proof.
  intros s i b x p d PM Fx Eb Hp Hc L Tr Hq Hr Ld Lpos.
  assert (Mp : memN p (conns s) = true) by (apply memN_In; exact Hp).
  assert (Fin : finished x = false) by (unfold finished; rewrite L; reflexivity).
  (* Block::insert *)
  set (f1 := fun y : block => set_queued y (b_queued y ++ [p])).
  set (s1 := with_blocks s (upd_block (blocks s) i b f1)).
  assert (A1 : accept s (EIns p i b) = Some s1).
  { unfold Model.accept. rewrite PM, Fx, Mp, Fin, Hq, Hr. reflexivity. }
  assert (F1 : find_block s1 i b = Some (f1 x)).
  { unfold find_block, s1. cbn [blocks with_blocks]. apply find_upd_block; [intro; reflexivity | exact Fx]. }
  (* PIECE header: Block::transfering, p becomes the leader *)
  set (new := {| t_peer := p; t_state := TLeader; t_pos := 0 |}).
  set (f2 := fun y : block => set_trans (set_queued y (removeN p (b_queued y))) (b_trans y ++ [new]) (Some p)).
  set (s2 := with_curs (with_blocks s1 (upd_block (blocks s1) i b f2)) (set_cur (curs s1) p (CValid i b))).
  assert (A2 : accept s1 (EPiece p i (b_off x) (b_len x) true) = Some s2).
  { unfold Model.accept. replace (pmark s1) with (@None N) by (symmetry; exact PM).
    replace (memN p (conns s1)) with true by (symmetry; exact Mp). cbn [negb].
    replace (get_cur s1 p) with (@None cur) by (symmetry; exact Hc).
    rewrite Eb, F1. cbn [b_off b_len b_queued b_trans b_leader f1 set_queued]. rewrite !N.eqb_refl, memN_app_last, Tr, L.
    cbn [has_tr existsb negb andb]. reflexivity. }
  assert (F2 : find_block s2 i b = Some (f2 (f1 x))).
  { unfold find_block, s2. cbn [blocks with_blocks with_curs]. apply find_upd_block; [intro; reflexivity | exact F1]. }
  assert (C2 : get_cur s2 p = Some (CValid i b)) by (eapply get_cur_set_cur; reflexivity).
  (* the data: leader write, then Block::completed *)
  set (n := lenN d).
  set (f3 := fun y : block => set_trans y (set_pos p TLeader (0 + n) (b_trans y)) (b_leader y)).
  set (s3 := with_blocks (with_store s2 (write_store (store s2) i (b_off x + 0) d)) (upd_block (blocks s2) i b f3)).
  assert (T2 : b_trans (f2 (f1 x)) = [new]) by (cbn [b_trans f2 f1 set_trans set_queued]; rewrite Tr; reflexivity).
  assert (Ft2 : find_tr p (b_trans (f2 (f1 x))) = Some new) by (rewrite T2; unfold find_tr; simpl; rewrite N.eqb_refl; reflexivity).
  assert (A3 : accept s2 (EData p d) = Some (after_data s3 p i b)).
  { unfold Model.accept. replace (pmark s2) with (@None N) by (symmetry; exact PM). rewrite C2.
    unfold data_valid. rewrite F2, Ft2. cbn [t_pos new b_len b_leader b_off f2 f1 set_trans set_queued].
    fold n. replace (n =? 0) with false by (symmetry; apply N.eqb_neq; unfold n; lia).
    replace (b_len x - 0 <? n) with false by (symmetry; apply N.ltb_ge; unfold n; lia).
    cbn [orb]. rewrite N.eqb_refl. reflexivity. }
  assert (F3 : find_block s3 i b = Some (f3 (f2 (f1 x)))).
  { unfold find_block, s3. cbn [blocks with_blocks with_store]. apply find_upd_block; [intro; reflexivity | exact F2]. }
  set (done_t := {| t_peer := p; t_state := TLeader; t_pos := 0 + n |}).
  assert (Ft3 : find_tr p (b_trans (f3 (f2 (f1 x)))) = Some done_t).
  { cbn [b_trans f3 set_trans]. eapply find_tr_set_pos. exact Ft2. }
  set (x3 := f3 (f2 (f1 x))).
  set (s4 := with_blocks (with_curs s3 (del_cur (invalidate_curs (curs s3) x3) p)) (upd_block (blocks s3) i b complete_block)).
  assert (E4 : after_data s3 p i b = s4).
  { unfold after_data. rewrite F3, Ft3. cbn [t_pos done_t b_len f3 f2 f1 set_trans set_queued]. 
    replace (0 + n =? b_len x) with true by (symmetry; apply N.eqb_eq; unfold n; lia).
    unfold is_leader_t. cbn [t_state tstate_eqb]. reflexivity. }
  exists s4. split; [simpl; rewrite A1, A2, A3, E4; reflexivity|]. split; [|split; [|split; [|split; [|split; [|split; [|split; [|split; [|split; [|split]]]]]]]]].
  - exists (complete_block x3). split; [|split; [|split]].
    + unfold find_block, s4. cbn [blocks with_blocks with_curs]. apply find_upd_block; [intro; reflexivity | exact F3].
    + unfold finished. cbn [b_leader complete_block x3 f3 f2 f1 set_trans set_queued b_trans b_len]. rewrite Tr.
      cbn [app set_pos upd_tr map t_peer new]. rewrite N.eqb_refl. cbn [filter is_leader_t t_state tstate_eqb find_tr find t_peer t_pos].
      rewrite N.eqb_refl. cbn [t_pos]. apply N.eqb_eq. unfold n. lia.
    + reflexivity.
    + reflexivity.
  - unfold piece, s4, s3, write_store. cbn [store with_blocks with_curs with_store s2 s1]. rewrite N.add_0_r.
    apply (nth_upd_nth_same (store s) (N.to_nat i) (fun pc : list N => splice pc (N.to_nat (b_off x)) d) []). reflexivity.
  - eapply get_cur_del_cur. reflexivity.
  - exact PM.
  - exists (fun y => complete_block (f3 (f2 (f1 y)))). split; [intro; reflexivity|]. split; [intro; reflexivity|]. split.
    + unfold finished. cbn [b_leader complete_block f3 f2 f1 set_trans set_queued b_trans b_len]. rewrite Tr.
      cbn [app set_pos upd_tr map t_peer new]. rewrite N.eqb_refl. cbn [filter is_leader_t t_state tstate_eqb find_tr find t_peer t_pos].
      rewrite N.eqb_refl. cbn [t_pos]. apply N.eqb_eq. unfold n. lia.
    + unfold s4, s3, s2, s1. cbn [blocks with_blocks with_curs with_store].
      rewrite !upd_block_twice by (intro; reflexivity). reflexivity.
  - reflexivity.
  - reflexivity.
  - reflexivity.
  - reflexivity.
  - reflexivity.
  - reflexivity.
Qed.

Theorem honest_block_step : forall s i b x p d,
  pmark s = None -> find_block s i b = Some x -> b_off x / bs = b ->
  In p (conns s) -> get_cur s p = None ->
  b_leader x = None -> b_trans x = [] -> memN p (b_queued x) = false -> ins_refused repaired p x = false ->
  lenN d = b_len x -> 0 < b_len x ->
  exists s', run s [EIns p i b; EPiece p i (b_off x) (b_len x) true; EData p d] = Some s' /\
             (exists x', find_block s' i b = Some x' /\ finished x' = true /\ b_queued x' = [] /\ b_leader x' = Some p) /\
             piece s' i = splice (piece s i) (N.to_nat (b_off x)) d /\ get_cur s' p = None /\ pmark s' = None.
Proof.
  intros s i b x p d PM Fx Eb Hp Hc L Tr Hq Hr Ld Lpos.
  destruct (honest_block_step_frame s i b x p d PM Fx Eb Hp Hc L Tr Hq Hr Ld Lpos) as (s' & R & A & B & C & D & _).
  exists s'. auto.
Qed.


(* ---------- a whole piece: the honest peer serves every unfinished block, then the verdict ---------- *)
Definition unfin (i : N) (x : block) : bool := (b_idx x =? i) && negb (finished x).
(* the unfinished blocks of piece i, in BlockList order *)
Definition ublocks (s : state) (i : N) : list block := filter (unfin i) (blocks s).
(* what the piece contains after the blocks of l were written with the data [serve] gives for each block number *)
Definition serve_all (serve : N -> list N) (l : list block) (pc : list N) : list N :=
  fold_left (fun pc x => splice pc (N.to_nat (b_off x)) (serve (b_no x))) l pc.
(* request, PIECE header, data for every block of l *)
Definition serve_trace (p i : N) (serve : N -> list N) (l : list block) : list event :=
  flat_map (fun x => [EIns p i (b_no x); EPiece p i (b_off x) (b_len x) true; EData p (serve (b_no x))]) l.
(* Block::insert accepts p for x, nobody is sending x, and [serve] has data of the right length for it *)
Definition requestable (p : N) (serve : N -> list N) (x : block) : Prop :=
  b_leader x = None /\ b_trans x = [] /\ memN p (b_queued x) = false /\ ins_refused repaired p x = false /\
  lenN (serve (b_no x)) = b_len x.

Lemma run_app : forall a s b, run s (a ++ b) = match run s a with Some s1 => run s1 b | None => None end.
Proof.
  induction a as [|e a IH]; intros s b; simpl; [reflexivity|]. destruct (accept s e); [apply IH | reflexivity].
Qed.

Lemma is_block_true_key : forall i b y, is_block i b y = true -> key y = (i, b).
Proof.
  intros i b y E. unfold is_block in E. apply andb_true_iff in E. destruct E as [E1 E2].
  apply N.eqb_eq in E1. apply N.eqb_eq in E2. unfold key. congruence.
Qed.

Lemma upd_block_id : forall l i b G, (forall y, In y l -> is_block i b y = false) -> upd_block l i b G = l.
Proof.
  induction l as [|a l IH]; intros i b G Hn; simpl; [reflexivity|].
  rewrite (Hn a (or_introl eq_refl)). f_equal. apply IH. intros y Hy. apply Hn. right. exact Hy.
Qed.

Lemma filter_upd_block : forall l i b G x l', NoDup (map key l) -> filter (unfin i) l = x :: l' -> b_no x = b ->
  (forall y, key (G y) = key y) -> finished (G x) = true -> filter (unfin i) (upd_block l i b G) = l'.
Proof.
  induction l as [|a l IH]; intros i b G x l' ND F Eb Hk Fin; simpl in F; [discriminate|].
  subst b. inversion ND as [|k ks Hnin ND']; subst.
  destruct (unfin i a) eqn:U.
  - inversion F; subst a. clear F.
    assert (Ix : b_idx x = i) by (unfold unfin in U; apply andb_true_iff in U; destruct U as [U _]; apply N.eqb_eq; exact U).
    assert (B : is_block i (b_no x) x = true) by (unfold is_block; rewrite Ix, !N.eqb_refl; reflexivity).
    simpl. rewrite B. simpl.
    assert (U' : unfin i (G x) = false) by (unfold unfin; rewrite Fin; apply andb_false_r).
    rewrite U'. rewrite upd_block_id; [reflexivity|].
    intros y Hy. destruct (is_block i (b_no x) y) eqn:By; [|reflexivity]. exfalso. apply Hnin.
    apply is_block_true_key in By. apply is_block_true_key in B. rewrite B, <- By. apply in_map. exact Hy.
  - assert (Hx : In x l) by (assert (Hx : In x (filter (unfin i) l)) by (rewrite F; left; reflexivity); apply filter_In in Hx; apply Hx).
    assert (Ux : unfin i x = true) by (assert (Hx' : In x (filter (unfin i) l)) by (rewrite F; left; reflexivity); apply filter_In in Hx'; apply Hx').
    assert (Ix : b_idx x = i) by (unfold unfin in Ux; apply andb_true_iff in Ux; destruct Ux as [Ux _]; apply N.eqb_eq; exact Ux).
    assert (Ba : is_block i (b_no x) a = false).
    { destruct (is_block i (b_no x) a) eqn:Ba; [|reflexivity]. exfalso. apply Hnin. apply is_block_true_key in Ba.
      assert (Kx : key x = (i, b_no x)) by (unfold key; congruence). rewrite Ba, <- Kx. apply in_map. exact Hx. }
    simpl. rewrite Ba. simpl. rewrite U. eapply IH; eauto.
Qed.

Lemma ublocks_nil_all_finished : forall s i, ublocks s i = [] -> all_finished s i = true.
Proof.
  intros s i. unfold ublocks, all_finished. induction (blocks s) as [|a l IH]; simpl; [reflexivity|].
  unfold unfin at 1. destruct (b_idx a =? i); simpl.
  - destruct (finished a); simpl; [exact IH | discriminate].
  - exact IH.
Qed.

Lemma honest_blocks_finish : forall l s i p serve,
  NoDup (map key (blocks s)) -> pmark s = None -> In p (conns s) -> get_cur s p = None ->
  ublocks s i = l -> (forall x, In x l -> requestable p serve x /\ b_off x / bs = b_no x /\ 0 < b_len x) ->
  exists s', run s (serve_trace p i serve l) = Some s' /\ ublocks s' i = [] /\
             piece s' i = serve_all serve l (piece s i) /\ pmark s' = None /\ get_cur s' p = None /\
             conns s' = conns s /\ hashing s' = hashing s /\ attempts s' = attempts s /\ completed s' = completed s /\
             done s' = done s /\ haves s' = haves s.
Proof.
  induction l as [|x l IH]; intros s i p serve ND PM Hp Hc U Rq.
  - exists s. simpl. repeat split; auto.
  - assert (Hx : In x (blocks s) /\ unfin i x = true).
    { assert (Hx : In x (filter (unfin i) (blocks s))) by (unfold ublocks in U; rewrite U; left; reflexivity). apply filter_In in Hx. exact Hx. }
    destruct Hx as [Hx Ux].
    assert (Ix : b_idx x = i) by (unfold unfin in Ux; apply andb_true_iff in Ux; destruct Ux as [Ux _]; apply N.eqb_eq; exact Ux).
    assert (Fx : find_block s i (b_no x) = Some x) by (unfold find_block; rewrite <- Ix; apply find_block_unique; assumption).
    destruct (Rq x (or_introl eq_refl)) as ((L & Tr & Hq & Hr & Ld) & Eb & Lpos).
    destruct (honest_block_step_frame s i (b_no x) x p (serve (b_no x)) PM Fx Eb Hp Hc L Tr Hq Hr Ld Lpos)
      as (s1 & R1 & _ & Pc1 & C1 & PM1 & (G & Gk & _ & Gf & Bl1) & Cn1 & Hs1 & At1 & Cm1 & Dn1 & Hv1).
    assert (U1 : ublocks s1 i = l).
    { unfold ublocks. rewrite Bl1. eapply filter_upd_block; eauto. }
    assert (ND1 : NoDup (map key (blocks s1))) by (rewrite Bl1, keys_upd_block; assumption).
    assert (Hp1 : In p (conns s1)) by (rewrite Cn1; exact Hp).
    destruct (IH s1 i p serve ND1 PM1 Hp1 C1 U1 (fun y Hy => Rq y (or_intror Hy)))
      as (s' & R' & U' & Pc' & PM' & C' & Cn' & Hs' & At' & Cm' & Dn' & Hv').
    exists s'. split.
    + change (serve_trace p i serve (x :: l)) with
        ([EIns p i (b_no x); EPiece p i (b_off x) (b_len x) true; EData p (serve (b_no x))] ++ serve_trace p i serve l).
      rewrite run_app, R1. exact R'.
    + repeat split; auto; try congruence.
      rewrite Pc'. unfold serve_all. simpl. rewrite Pc1. reflexivity.
Qed.

Lemma serve_trace_length : forall p i serve l, length (serve_trace p i serve l) = (3 * length l)%nat.
Proof. intros. unfold serve_trace. induction l as [|x l IH]; simpl; [reflexivity|]. simpl in IH. rewrite IH. lia. Qed.

End Live.

Section LivePiece.
Variable H : list N -> list N.
Variable expected : N -> list N.
Variable npieces : N.
Variable psize : N -> N.
Variable repaired : bool.
Hypothesis psize_pos : forall i, i < npieces -> 0 < psize i.
Notation accept := (accept H expected npieces psize repaired).
Notation run := (run H expected npieces psize repaired).

Definition verdict_trace (i : N) : list event := [EHashQueued i; EHashDone i true; EMark i; EHave i].

Lemma verdict_trace_facts : forall s i s', run s (verdict_trace i) = Some s' ->
  pmark s' = None /\ done s' = done s /\ completed s' = i :: completed s.
Proof.
  intros s i s' R. unfold verdict_trace in R. simpl in R.
  destruct (accept s (EHashQueued i)) as [s1|] eqn:A1; [|discriminate].
  destruct (accept s1 (EHashDone i true)) as [s2|] eqn:A2; [|discriminate].
  destruct (accept s2 (EMark i)) as [s3|] eqn:A3; [|discriminate].
  destruct (accept s3 (EHave i)) as [s4|] eqn:A4; [|discriminate]. inversion R; subst s4; clear R.
  unfold Model.accept in A1. destruct (pmark s) eqn:P0; [discriminate|].
  destruct (listed s i && all_finished s i && negb (memN i (hashing s))); [|discriminate]. inversion A1; subst s1; clear A1.
  unfold Model.accept in A2. cbn [pmark with_hashing] in A2. rewrite P0 in A2.
  destruct (memN i (hashing (with_hashing s (i :: hashing s))) && _); [|discriminate]. inversion A2; subst s2; clear A2.
  unfold Model.accept in A3. cbn [pmark with_pmark] in A3. rewrite N.eqb_refl in A3. inversion A3; subst s3; clear A3.
  unfold Model.accept in A4. cbn [pmark] in A4.
  match type of A4 with (if ?c then _ else _) = _ => destruct c; [|discriminate] end. inversion A4; subst s'; clear A4.
  repeat split.
Qed.

(* A whole piece, with a computed number of steps: in any reachable state with no verdict in progress, if an idle
   connected peer p can be asked for every unfinished block of the listed piece i (requestable) and the data it serves
   makes the piece hash to the torrent's digest, then the 3 * (unfinished blocks) + 4 events
   [request, PIECE header, data] per block, HashQueued, verdict, mark_completed, have-queue are accepted in sequence
   and end with i completed and announced; if that was the last missing piece, "done" is enabled. *)
Theorem honest_piece_completes : forall st0 c0 tr s i p serve,
  init_ok H expected st0 c0 -> run (init st0 c0) tr = Some s ->
  pmark s = None -> listed s i = true -> ~ In i (hashing s) -> In p (conns s) -> get_cur s p = None ->
  (forall x, In x (ublocks s i) -> requestable repaired p serve x) ->
  H (serve_all serve (ublocks s i) (piece s i)) = expected i ->
  exists s', run s (serve_trace p i serve (ublocks s i) ++ verdict_trace i) = Some s' /\
             length (serve_trace p i serve (ublocks s i) ++ verdict_trace i) = (3 * length (ublocks s i) + 4)%nat /\
             In i (completed s') /\ In i (haves s') /\ piece s' i = serve_all serve (ublocks s i) (piece s i) /\
             listed s' i = false /\
             ((forall j, j < npieces -> j <> i -> In j (completed s)) -> done s = false -> accept s' EDone <> None).
Proof.
  intros st0 c0 tr s i p serve Hi R PM L NH Hp Hc Rq Hh.
  destruct (JI_run H expected npieces psize repaired psize_pos tr _ _ (inv_init H expected npieces _ _ Hi) (J_init _ _) R)
    as (_ & (ND & Lp & _)).
  destruct (honest_blocks_finish H expected npieces psize repaired (ublocks s i) s i p serve ND PM Hp Hc eq_refl)
    as (s1 & R1 & U1 & Pc1 & PM1 & C1 & Cn1 & Hs1 & At1 & Cm1 & Dn1 & Hv1).
  { intros x Hx. split; [apply Rq; exact Hx|]. unfold ublocks in Hx. apply filter_In in Hx. destruct Hx as [Hx _]. split; [|apply Lp; exact Hx].
    rewrite (no_off_run H expected npieces psize repaired st0 c0 tr s x R Hx). apply N.div_mul. pose proof bs_pos. lia. }
  assert (Rs1 : run (init st0 c0) (tr ++ serve_trace p i serve (ublocks s i)) = Some s1) by (rewrite run_app, R; exact R1).
  assert (L1 : listed s1 i = true) by (unfold listed; rewrite At1; exact L).
  assert (NH1 : ~ In i (hashing s1)) by (rewrite Hs1; exact NH).
  assert (Hh1 : H (piece s1 i) = expected i) by (rewrite Pc1; exact Hh).
  destruct (finished_piece_completes H expected npieces psize repaired psize_pos st0 c0 _ s1 i Hi Rs1 PM1 L1
              (ublocks_nil_all_finished s1 i U1) NH1 Hh1) as (s' & R' & Cm' & Hv' & Pc' & L').
  exists s'. split; [rewrite run_app, R1; exact R'|]. split.
  { rewrite app_length, serve_trace_length. reflexivity. }
  repeat split; auto; try congruence.
  intros All Dn. destruct (verdict_trace_facts s1 i s' R') as (PM' & Dn' & Cmp').
  destruct (ProofsB.eventually_done_partial H expected npieces psize repaired s') as (_ & _ & _ & ED).
  apply ED; [exact PM' | | congruence].
  unfold all_completed. apply forallb_forall. intros k Hk. apply in_seq in Hk. apply memN_In. rewrite Cmp', Cm1.
  destruct (N.eq_dec (N.of_nat k) i) as [E|E]; [left; auto | right; apply All; [lia | exact E]].
Qed.

End LivePiece.

Section LiveReset.
Variable H : list N -> list N.
Variable expected : N -> list N.
Variable npieces : N.
Variable psize : N -> N.
Hypothesis psize_pos : forall i, i < npieces -> 0 < psize i.
Notation accept := (accept H expected npieces psize true).
Notation run := (run H expected npieces psize true).

(* With the repaired Block::insert the [requestable] hypothesis of honest_piece_completes is a theorem right after the
   second failed verdict of a piece (BlockList::do_all_failed): whatever the hostile peers did before, an idle connected
   peer that is not already queued on the blocks of the piece and serves data hashing to the torrent's digest completes
   the piece in 3 * (blocks of the piece) + 4 steps. *)
Theorem honest_piece_completes_after_reset : forall st0 c0 tr s i s1 p serve,
  init_ok H expected st0 c0 -> run (init st0 c0) tr = Some s ->
  accept s (EHashDone i false) = Some s1 -> attempt_of s i <> 0 ->
  In p (conns s1) -> get_cur s1 p = None ->
  (forall x, In x (ublocks s1 i) -> memN p (b_queued x) = false /\ lenN (serve (b_no x)) = b_len x) ->
  H (serve_all serve (ublocks s1 i) (piece s1 i)) = expected i ->
  exists s', run s1 (serve_trace p i serve (ublocks s1 i) ++ verdict_trace i) = Some s' /\
             length (serve_trace p i serve (ublocks s1 i) ++ verdict_trace i) = (3 * length (ublocks s1 i) + 4)%nat /\
             In i (completed s') /\ In i (haves s') /\ piece s' i = serve_all serve (ublocks s1 i) (piece s1 i) /\
             listed s' i = false /\
             ((forall j, j < npieces -> j <> i -> In j (completed s1)) -> done s1 = false -> accept s' EDone <> None).
Proof.
  intros st0 c0 tr s i s1 p serve Hi R A Hat Hp Hc Hq Hh.
  assert (R1 : run (init st0 c0) (tr ++ [EHashDone i false]) = Some s1) by (rewrite run_app, R; simpl; rewrite A; reflexivity).
  destruct (JI_run H expected npieces psize true psize_pos tr _ _ (inv_init H expected npieces _ _ Hi) (J_init _ _) R)
    as ((_ & _ & _ & _ & I5 & _) & _).
  destruct (JI_run H expected npieces psize true psize_pos _ _ _ (inv_init H expected npieces _ _ Hi) (J_init _ _) R1)
    as (_ & (ND1 & _)).
  assert (Facts : pmark s1 = None /\ listed s1 i = true /\ ~ In i (hashing s1)).
  { pose proof A as A'. unfold Model.accept in A'. destruct (pmark s) eqn:PM; [discriminate|].
    destruct (memN i (hashing s) && _) eqn:G; [|discriminate]. apply andb_true_iff in G. destruct G as [Mh _].
    inversion A' as [E1]; clear A'.
    destruct (hash_failed_spec (with_hashing s (removeN i (hashing s))) i) as (_ & _ & Hs & Pm & _ & _ & _ & Ls & _).
    rewrite Pm, Hs, Ls. cbn [pmark hashing with_hashing]. split; [exact PM|]. split.
    - apply memN_In in Mh. exact (I5 i Mh).
    - intro Hin. unfold removeN in Hin. apply filter_In in Hin. destruct Hin as [_ Hin]. rewrite N.eqb_refl in Hin. discriminate. }
  destruct Facts as (PM1 & L1 & NH1).
  apply (honest_piece_completes H expected npieces psize true psize_pos st0 c0 _ s1 i p serve Hi R1 PM1 L1 NH1 Hp Hc); [|exact Hh].
  intros x Hx. destruct (Hq x Hx) as [Q Ld]. unfold ublocks in Hx. apply filter_In in Hx. destruct Hx as [Hx Ux].
  assert (Ix : b_idx x = i) by (unfold unfin in Ux; apply andb_true_iff in Ux; destruct Ux as [Ux _]; apply N.eqb_eq; exact Ux).
  assert (Fx : find_block s1 i (b_no x) = Some x) by (unfold find_block; rewrite <- Ix; apply find_block_unique; assumption).
  destruct (ProofsB.reset_block_insertable H expected npieces psize s i s1 A Hat (b_no x) x p Fx Hp Q) as (Tr & L & _).
  unfold requestable. repeat split; auto. unfold ins_refused. rewrite Tr. reflexivity.
Qed.

End LiveReset.

(* ---------- the hypotheses are satisfiable ---------- *)
(* honest_piece_completes: a fresh piece of one block, one idle connected peer serving the original bytes *)
Example ex_honest_piece_hyps :
  exists s, run ex_H ex_expected 1 ex_psize true (init [[0; 0; 0]] []) [EConn 0; ENew 0] = Some s /\
            pmark s = None /\ listed s 0 = true /\ ~ In 0 (hashing s) /\ In 0 (conns s) /\ get_cur s 0 = None /\
            length (ublocks s 0) = 1%nat /\
            (forall x, In x (ublocks s 0) -> requestable true 0 (fun _ => [1; 2; 3]) x) /\
            ex_H (serve_all (fun _ => [1; 2; 3]) (ublocks s 0) (piece s 0)) = ex_expected 0.
Proof.
  eexists. split; [vm_compute; reflexivity|].
  split; [reflexivity|]. split; [reflexivity|]. split; [intros []|]. split; [left; reflexivity|].
  split; [reflexivity|]. split; [reflexivity|]. split; [|reflexivity].
  intros x Hx. vm_compute in Hx. destruct Hx as [<-|[]]. unfold requestable. vm_compute. repeat split.
Qed.

(* honest_piece_completes_after_reset: the state of the request deadlock (eventually_done_refuted), but with the repaired
   Block::insert: after the fourth failed verdict the honest peer 1 can be asked for both blocks again and completes the piece *)
Definition toy_serve (b : N) : list N := if b =? 0 then blk 7 bs else [7].
Definition ex_reset_check (s s1 : state) : bool :=
  negb (attempt_of s 0 =? 0) && memN 1 (conns s1) && match get_cur s1 1 with None => true | Some _ => false end &&
  Nat.eqb (length (ublocks s1 0)) 2 &&
  forallb (fun x => negb (memN 1 (b_queued x)) && (lenN (toy_serve (b_no x)) =? b_len x)) (ublocks s1 0) &&
  list_eqb (toyH (serve_all toy_serve (ublocks s1 0) (piece s1 0))) (toy_expected 0).
Definition ex_reset_opt (r : option state) (acc : state -> option state) : bool :=
  match r with
  | Some s => match acc s with Some s1 => ex_reset_check s s1 | None => false end
  | None => false
  end.
Lemma ex_reset_opt_sound : forall r acc, ex_reset_opt r acc = true ->
  exists s s1, r = Some s /\ acc s = Some s1 /\ attempt_of s 0 <> 0 /\
               In 1 (conns s1) /\ get_cur s1 1 = None /\ length (ublocks s1 0) = 2%nat /\
               (forall x, In x (ublocks s1 0) -> memN 1 (b_queued x) = false /\ lenN (toy_serve (b_no x)) = b_len x) /\
               toyH (serve_all toy_serve (ublocks s1 0) (piece s1 0)) = toy_expected 0.
Proof.
  intros r acc K. unfold ex_reset_opt in K. destruct r as [s|]; [|discriminate].
  destruct (acc s) as [s1|] eqn:A; [|discriminate].
  exists s, s1. split; [reflexivity|]. split; [exact A|]. unfold ex_reset_check in K.
  repeat (apply andb_true_iff in K; destruct K as [K ?K]).
  split; [apply N.eqb_neq; apply negb_true_iff; exact K|].
  split; [apply memN_In; assumption|].
  split; [destruct (get_cur s1 1); [discriminate | reflexivity]|].
  split; [apply PeanoNat.Nat.eqb_eq; assumption|].
  split; [|apply list_eqb_eq; assumption].
  intros x Hx. match goal with F : forallb _ _ = true |- _ => rewrite forallb_forall in F; specialize (F x Hx); apply andb_true_iff in F; destruct F as [F1 F2] end.
  split; [apply negb_true_iff; exact F1 | apply N.eqb_eq; exact F2].
Qed.
Lemma ex_reset_ok_true :
  ex_reset_opt (run toyH toy_expected 1 toy_psize true toy_init (removelast toy_trace))
               (fun s => accept toyH toy_expected 1 toy_psize true s (EHashDone 0 false)) = true.
Proof. vm_compute. reflexivity. Qed.
Example ex_after_reset_hyps :
  exists s s1, run toyH toy_expected 1 toy_psize true toy_init (removelast toy_trace) = Some s /\
               accept toyH toy_expected 1 toy_psize true s (EHashDone 0 false) = Some s1 /\ attempt_of s 0 <> 0 /\
               In 1 (conns s1) /\ get_cur s1 1 = None /\ length (ublocks s1 0) = 2%nat /\
               (forall x, In x (ublocks s1 0) -> memN 1 (b_queued x) = false /\ lenN (toy_serve (b_no x)) = b_len x) /\
               toyH (serve_all toy_serve (ublocks s1 0) (piece s1 0)) = toy_expected 0.
Proof. exact (ex_reset_opt_sound _ _ ex_reset_ok_true). Qed.
