(* C01 — invariants of the mechanism automaton and the derived user-level safety properties. *)
From Coq Require Import NArith List Bool Lia.
From LTV.C01 Require Import ParamsGen Model.
Import ListNotations.
Open Scope N_scope.

Lemma list_eqb_eq : forall a b, list_eqb a b = true <-> a = b.
Proof.
  induction a as [|x a IH]; destruct b as [|y b]; simpl; split; intro E; try reflexivity; try discriminate.
  - apply andb_true_iff in E. destruct E as [E1 E2]. apply N.eqb_eq in E1. apply IH in E2. congruence.
  - inversion E; subst. rewrite N.eqb_refl. simpl. apply IH. reflexivity.
Qed.

Lemma memN_In : forall x l, memN x l = true <-> In x l.
Proof.
  intros x l. unfold memN. rewrite existsb_exists. split.
  - intros [y [Hy E]]. apply N.eqb_eq in E. subst. exact Hy.
  - intro Hin. exists x. split; [exact Hin | apply N.eqb_refl].
Qed.

Lemma removeN_In : forall x y l, In y (removeN x l) <-> In y l /\ y <> x.
Proof.
  intros x y l. unfold removeN. rewrite filter_In. rewrite negb_true_iff, N.eqb_neq. tauto.
Qed.

Lemma splice_length : forall l off d, length (splice l off d) = length l.
Proof.
  induction l as [|x l IH]; intros off d; simpl; [reflexivity|].
  destruct off; [destruct d|]; simpl; try rewrite IH; reflexivity.
Qed.

Lemma upd_nth_other : forall {A} (l : list A) n m f d, n <> m -> nth n (upd_nth l m f) d = nth n l d.
Proof.
  induction l as [|x l IH]; intros n m f d Hne; simpl; [reflexivity|].
  destruct m; destruct n; simpl; try reflexivity; try congruence. apply IH. congruence.
Qed.

Lemma upd_nth_length : forall {A} (l : list A) m f, length (upd_nth l m f) = length l.
Proof. induction l; intros [|m] f; simpl; try rewrite IHl; reflexivity. Qed.

Lemma upd_nth_same_len : forall (l : list (list N)) n m f,
  (forall x, length (f x) = length x) -> length (nth n (upd_nth l m f) []) = length (nth n l []).
Proof.
  induction l as [|x l IH]; intros n m f Hf; simpl; [reflexivity|].
  destruct m; destruct n; simpl; try reflexivity; try apply Hf. apply IH. exact Hf.
Qed.

Definition geo (x : block) : N * N * N * N := (b_idx x, b_off x, b_len x, b_no x).
Lemma geo_no : forall y x, geo y = geo x -> b_no y = b_no x /\ b_off y = b_off x.
Proof. unfold geo. intros y x E. inversion E. auto. Qed.
Lemma geo_idx : forall y x, geo y = geo x -> b_idx y = b_idx x.
Proof. unfold geo. intros y x E. inversion E. reflexivity. Qed.

Section Proofs.
Variable H : list N -> list N.
Variable expected : N -> list N.
Variable npieces : N.
Variable psize : N -> N.
Variable repaired : bool.

Notation accept := (accept H expected npieces psize repaired).
Notation run := (run H expected npieces psize repaired).
Notation hash_failed := (hash_failed).

(* ---------- listed / blocks bookkeeping ---------- *)
Definition idx_ok (s : state) : Prop := forall x, In x (blocks s) -> listed s (b_idx x) = true.

Lemma find_block_some : forall s i b x, find_block s i b = Some x -> In x (blocks s) /\ b_idx x = i /\ b_no x = b.
Proof.
  unfold find_block. intros s i b x E. apply find_some in E. destruct E as [Hin E]. unfold is_block in E.
  apply andb_true_iff in E. destruct E as [E1 E2]. apply N.eqb_eq in E1. apply N.eqb_eq in E2. auto.
Qed.

Lemma in_upd_block : forall l i b f y, (forall x, geo (f x) = geo x) ->
  In y (upd_block l i b f) -> exists x, In x l /\ geo y = geo x.
Proof.
  intros l i b f y Hf Hin. unfold upd_block in Hin. apply in_map_iff in Hin. destruct Hin as [x [E Hx]].
  exists x. split; [exact Hx|]. destruct (is_block i b x); subst; [apply Hf | reflexivity].
Qed.

Lemma in_upd_piece_blocks : forall l i f y, (forall x, geo (f x) = geo x) ->
  In y (upd_piece_blocks l i f) -> exists x, In x l /\ geo y = geo x.
Proof.
  intros l i f y Hf Hin. unfold upd_piece_blocks in Hin. apply in_map_iff in Hin. destruct Hin as [x [E Hx]].
  exists x. split; [exact Hx|]. destruct (b_idx x =? i); subst; [apply Hf | reflexivity].
Qed.

Lemma erase_tr_idx : forall p x, geo (erase_tr p x) = geo x.
Proof.
  intros p x. unfold erase_tr. destruct (b_leader x) as [q|]; [|reflexivity].
  destruct (q =? p); [|reflexivity].
  destruct (take_leaders (rm_tr p (b_trans x))) as [pre rest].
  destruct (max_pos_tr _ None); reflexivity.
Qed.

Lemma complete_block_idx : forall x, geo (complete_block x) = geo x.
Proof. reflexivity. Qed.

Lemma retry_blocks_idx : forall i bl pc y, In y (fst (retry_blocks i bl pc)) -> exists x, In x bl /\ geo y = geo x.
Proof.
  intros i bl. induction bl as [|x bl IH]; intros pc y Hin; simpl in Hin; [contradiction|].
  destruct (b_idx x =? i).
  - destruct (last_max (b_failed x) 0 None) as [[k c]|].
    + destruct (match b_cur x with Some c0 => c0 =? k | None => false end).
      * destruct (retry_blocks i bl pc) as [r pc'] eqn:E. simpl in Hin. destruct Hin as [<-|Hin].
        -- exists x. split; [left; reflexivity | reflexivity].
        -- specialize (IH pc y). rewrite E in IH. destruct (IH Hin) as [x0 [A B]]. exists x0. split; [right; exact A | exact B].
      * destruct (retry_blocks i bl (splice pc (N.to_nat (b_off x)) (fst (nth (N.to_nat k) (b_failed x) ([], 0))))) as [r pc'] eqn:E.
        simpl in Hin. destruct Hin as [<-|Hin].
        -- exists x. split; [left; reflexivity | reflexivity].
        -- specialize (IH (splice pc (N.to_nat (b_off x)) (fst (nth (N.to_nat k) (b_failed x) ([], 0)))) y). rewrite E in IH.
           destruct (IH Hin) as [x0 [A B]]. exists x0. split; [right; exact A | exact B].
    + destruct (retry_blocks i bl pc) as [r pc'] eqn:E. simpl in Hin. destruct Hin as [<-|Hin].
      * exists x. split; [left; reflexivity | reflexivity].
      * specialize (IH pc y). rewrite E in IH. destruct (IH Hin) as [x0 [A B]]. exists x0. split; [right; exact A | exact B].
  - destruct (retry_blocks i bl pc) as [r pc'] eqn:E. simpl in Hin. destruct Hin as [<-|Hin].
    + exists x. split; [left; reflexivity | reflexivity].
    + specialize (IH pc y). rewrite E in IH. destruct (IH Hin) as [x0 [A B]]. exists x0. split; [right; exact A | exact B].
Qed.

Lemma retry_blocks_len : forall i bl pc, length (snd (retry_blocks i bl pc)) = length pc.
Proof.
  intros i bl. induction bl as [|x bl IH]; intros pc; simpl; [reflexivity|].
  destruct (b_idx x =? i).
  - destruct (last_max (b_failed x) 0 None) as [[k c]|].
    + destruct (match b_cur x with Some c0 => c0 =? k | None => false end).
      * specialize (IH pc). destruct (retry_blocks i bl pc). exact IH.
      * specialize (IH (splice pc (N.to_nat (b_off x)) (fst (nth (N.to_nat k) (b_failed x) ([], 0))))).
        destruct (retry_blocks i bl _). simpl in *. rewrite IH. apply splice_length.
    + specialize (IH pc). destruct (retry_blocks i bl pc). exact IH.
  - specialize (IH pc). destruct (retry_blocks i bl pc). exact IH.
Qed.

Lemma listed_set_attempt : forall l i v j,
  existsb (fun a => fst a =? j) (set_attempt l i v) = existsb (fun a => fst a =? j) l.
Proof.
  induction l as [|a l IH]; intros i v j; simpl; [reflexivity|]. rewrite IH. f_equal.
  destruct (fst a =? i) eqn:E; [|reflexivity]. simpl. apply N.eqb_eq in E. subst. reflexivity.
Qed.

(* ---------- which pieces of the store an accepted event may change ---------- *)
Definition changes_only_listed (s s' : state) : Prop :=
  forall i, piece s' i <> piece s i -> listed s i = true.

Lemma write_store_other : forall st i off d j, j <> i -> nth (N.to_nat j) (write_store st i off d) [] = nth (N.to_nat j) st [].
Proof. intros. unfold write_store. apply upd_nth_other. intro E. apply N2Nat.inj in E. contradiction. Qed.

Lemma piece_with_blocks : forall s bl i, piece (with_blocks s bl) i = piece s i. Proof. reflexivity. Qed.
Lemma piece_with_curs : forall s c i, piece (with_curs s c) i = piece s i. Proof. reflexivity. Qed.

Lemma after_data_piece : forall s p i b j, piece (after_data s p i b) j = piece s j.
Proof.
  intros. unfold after_data. destruct (find_block s i b) as [x|]; [|reflexivity].
  destruct (find_tr p (b_trans x)) as [t|]; [|reflexivity].
  destruct (t_pos t =? b_len x); [|reflexivity]. destruct (is_leader_t t); reflexivity.
Qed.

Lemma after_data_listed : forall s p i b j, listed (after_data s p i b) j = listed s j.
Proof.
  intros. unfold after_data. destruct (find_block s i b) as [x|]; [|reflexivity].
  destruct (find_tr p (b_trans x)) as [t|]; [|reflexivity].
  destruct (t_pos t =? b_len x); [|reflexivity]. destruct (is_leader_t t); reflexivity.
Qed.

Lemma after_data_fields : forall s p i b,
  completed (after_data s p i b) = completed s /\ hashing (after_data s p i b) = hashing s /\
  pmark (after_data s p i b) = pmark s /\ haves (after_data s p i b) = haves s /\ done (after_data s p i b) = done s /\
  attempts (after_data s p i b) = attempts s /\ conns (after_data s p i b) = conns s.
Proof.
  intros. unfold after_data. destruct (find_block s i b) as [x|]; [|repeat split].
  destruct (find_tr p (b_trans x)) as [t|]; [|repeat split].
  destruct (t_pos t =? b_len x); [|repeat split]. destruct (is_leader_t t); repeat split.
Qed.

Lemma after_data_blocks : forall s p i b y, In y (blocks (after_data s p i b)) -> exists x, In x (blocks s) /\ geo y = geo x.
Proof.
  intros s p i b y. unfold after_data. destruct (find_block s i b) as [x|]; [|intro; exists y; auto].
  destruct (find_tr p (b_trans x)) as [t|]; [|intro; exists y; auto].
  destruct (t_pos t =? b_len x); [|intro; exists y; auto].
  destruct (is_leader_t t); simpl; intro Hin.
  - eapply in_upd_block; [|exact Hin]. apply complete_block_idx.
  - eapply in_upd_block; [|exact Hin]. apply erase_tr_idx.
Qed.

(* everything data_valid may do *)
Lemma data_valid_spec : forall s p i b d s', data_valid s p i b d = Some s' ->
  (forall j, j <> i -> piece s' j = piece s j) /\
  (exists x, find_block s i b = Some x) /\
  completed s' = completed s /\ hashing s' = hashing s /\ pmark s' = pmark s /\ haves s' = haves s /\ done s' = done s /\
  attempts s' = attempts s /\ conns s' = conns s /\
  (forall y, In y (blocks s') -> exists x, In x (blocks s) /\ geo y = geo x) /\
  (forall j, length (piece s' j) = length (piece s j)).
Proof.
  intros s p i b d s' E. unfold data_valid in E.
  destruct (find_block s i b) as [x|] eqn:Fx; [|discriminate].
  destruct (find_tr p (b_trans x)) as [t|]; [|discriminate].
  destruct ((lenN d =? 0) || (b_len x - t_pos t <? lenN d)); [discriminate|].
  destruct (b_leader x) as [q|]; [|discriminate].
  destruct (q =? p).
  - inversion E; subst s'; clear E.
    match goal with |- context [after_data ?S _ _ _] => set (s2 := S) end.
    destruct (after_data_fields s2 p i b) as (A1 & A2 & A3 & A4 & A5 & A6 & A7).
    repeat split; try (first [rewrite A1|rewrite A2|rewrite A3|rewrite A4|rewrite A5|rewrite A6|rewrite A7]; reflexivity).
    + intros j Hj. rewrite after_data_piece. unfold s2, piece. simpl. apply write_store_other. exact Hj.
    + eexists; reflexivity.
    + intros y Hy. apply after_data_blocks in Hy. destruct Hy as [x0 [Hx0 Ey]]. unfold s2 in Hx0. simpl in Hx0.
      apply in_upd_block in Hx0; [|intro; reflexivity]; destruct Hx0 as [x1 [Hx1 E1]]. exists x1. split; [exact Hx1 | congruence].
    + intro j. rewrite after_data_piece. unfold s2, piece. simpl. unfold write_store. apply upd_nth_same_len. intro. apply splice_length.
  - destruct (leader_pos x <? t_pos t); [discriminate|].
    destruct (negb (list_eqb _ _)).
    + inversion E; subst s'; clear E. simpl.
      repeat split; try reflexivity.
      * eexists; reflexivity.
      * intros y Hy. apply in_upd_block in Hy; [|intro; reflexivity]; destruct Hy as [x1 [Hx1 E1]]. exists x1. auto.
    + destruct (N.min (lenN d) (leader_pos x - t_pos t) =? lenN d).
      * inversion E; subst s'; clear E.
        match goal with |- context [after_data ?S _ _ _] => set (s2 := S) end.
        destruct (after_data_fields s2 p i b) as (A1 & A2 & A3 & A4 & A5 & A6 & A7).
        repeat split; try (first [rewrite A1|rewrite A2|rewrite A3|rewrite A4|rewrite A5|rewrite A6|rewrite A7]; reflexivity).
        -- intros j Hj. rewrite after_data_piece. reflexivity.
        -- eexists; reflexivity.
        -- intros y Hy. apply after_data_blocks in Hy. destruct Hy as [x0 [Hx0 Ey]]. unfold s2 in Hx0. simpl in Hx0.
           apply in_upd_block in Hx0; [|intro; reflexivity]; destruct Hx0 as [x1 [Hx1 E1]]. exists x1. split; [exact Hx1 | congruence].
        -- intro j. rewrite after_data_piece. reflexivity.
      * inversion E; subst s'; clear E.
        match goal with |- context [after_data ?S _ _ _] => set (s2 := S) end.
        destruct (after_data_fields s2 p i b) as (A1 & A2 & A3 & A4 & A5 & A6 & A7).
        repeat split; try (first [rewrite A1|rewrite A2|rewrite A3|rewrite A4|rewrite A5|rewrite A6|rewrite A7]; reflexivity).
        -- intros j Hj. rewrite after_data_piece. unfold s2, piece. simpl. apply write_store_other. exact Hj.
        -- eexists; reflexivity.
        -- intros y Hy. apply after_data_blocks in Hy. destruct Hy as [x0 [Hx0 Ey]]. unfold s2 in Hx0. simpl in Hx0.
           apply in_upd_block in Hx0; [|intro; reflexivity]; destruct Hx0 as [x1 [Hx1 E1]]. exists x1. split; [exact Hx1 | congruence].
        -- intro j. rewrite after_data_piece. unfold s2, piece. simpl. unfold write_store. apply upd_nth_same_len. intro. apply splice_length.
Qed.

Lemma hash_failed_spec : forall s i,
  (forall j, j <> i -> piece (hash_failed s i) j = piece s j) /\
  completed (hash_failed s i) = completed s /\ hashing (hash_failed s i) = hashing s /\ pmark (hash_failed s i) = pmark s /\
  haves (hash_failed s i) = haves s /\ done (hash_failed s i) = done s /\ conns (hash_failed s i) = conns s /\
  (forall j, listed (hash_failed s i) j = listed s j) /\
  (forall y, In y (blocks (hash_failed s i)) -> exists x, In x (blocks s) /\ geo y = geo x) /\
  (forall j, length (piece (hash_failed s i) j) = length (piece s j)).
Proof.
  intros s i. unfold Model.hash_failed. destruct (attempt_of s i =? 0).
  - destruct (retry_blocks i (upd_piece_blocks (blocks s) i (update_failed_block (piece s i))) (piece s i)) as [bl2 pc] eqn:E.
    simpl. repeat split; try reflexivity.
    + intros j Hj. unfold piece. simpl. apply upd_nth_other. intro E2. apply N2Nat.inj in E2. contradiction.
    + intro j. unfold listed. simpl. apply listed_set_attempt.
    + intros y Hy. pose proof (retry_blocks_idx i (upd_piece_blocks (blocks s) i (update_failed_block (piece s i))) (piece s i) y) as R.
      rewrite E in R. simpl in R. destruct (R Hy) as [x0 [Hx0 E0]].
      destruct (in_upd_piece_blocks (blocks s) i (update_failed_block (piece s i)) x0) as [x1 [Hx1 E1]]; [|exact Hx0|].
      * intro x. unfold update_failed_block. destruct (find_data _ _ _); reflexivity.
      * exists x1. split; [exact Hx1 | congruence].
    + intro j. unfold piece. simpl.
      pose proof (retry_blocks_len i (upd_piece_blocks (blocks s) i (update_failed_block (piece s i))) (piece s i)) as L.
      rewrite E in L. simpl in L.
      destruct (N.eq_dec j i) as [->|Hne].
      * clear E. revert L. unfold piece. generalize (N.to_nat i). generalize (store s).
        induction l as [|x l IH]; intros n L; simpl; [destruct n; reflexivity|].
        destruct n; simpl; [exact L | apply IH; exact L].
      * rewrite upd_nth_other; [reflexivity|]. intro E2. apply N2Nat.inj in E2. contradiction.
  - simpl. repeat split; try reflexivity.
    + intro j. unfold listed. simpl. apply listed_set_attempt.
    + intros y Hy. eapply in_upd_piece_blocks; [|exact Hy]. reflexivity.
Qed.

(* ---------- the invariant ---------- *)
Definition Inv (s : state) : Prop :=
  (forall i, In i (completed s) -> H (piece s i) = expected i) /\
  (forall i, pmark s = Some i -> H (piece s i) = expected i /\ listed s i = true /\ ~ In i (hashing s)) /\
  (forall i, In i (completed s) -> listed s i = false) /\
  idx_ok s /\
  (forall i, In i (hashing s) -> listed s i = true) /\
  (forall i, In i (haves s) -> In i (completed s)) /\
  (done s = true -> forall i, i < npieces -> In i (completed s)).

Lemma all_completed_spec : forall s, all_completed npieces s = true -> forall i, i < npieces -> In i (completed s).
Proof.
  intros s E i Hi. unfold all_completed in E. rewrite forallb_forall in E.
  specialize (E (N.to_nat i)). rewrite N2Nat.id in E. apply memN_In. apply E. apply in_seq. lia.
Qed.

Lemma disc_spec : forall s p,
  store (disc s p) = store s /\ completed (disc s p) = completed s /\ attempts (disc s p) = attempts s /\
  hashing (disc s p) = hashing s /\ pmark (disc s p) = pmark s /\ haves (disc s p) = haves s /\ done (disc s p) = done s /\
  (forall y, In y (blocks (disc s p)) -> exists x, In x (blocks s) /\ geo y = geo x).
Proof.
  intros s p. unfold disc. simpl. repeat split; try reflexivity.
  intros y Hy. apply in_map_iff in Hy. destruct Hy as [x [E Hx]]. subst y. simpl.
  destruct (get_cur s p) as [[i b|pos len]|].
  - destruct (in_upd_block _ _ _ _ _ (erase_tr_idx p) Hx) as [x1 [A B]]. exists x1. auto.
  - exists x. auto.
  - exists x. auto.
Qed.

Lemma corrupt_spec : forall s p,
  store (corrupt s p) = store s /\ completed (corrupt s p) = completed s /\ attempts (corrupt s p) = attempts s /\
  hashing (corrupt s p) = hashing s /\ pmark (corrupt s p) = pmark s /\ haves (corrupt s p) = haves s /\ done (corrupt s p) = done s /\
  (forall y, In y (blocks (corrupt s p)) -> exists x, In x (blocks s) /\ geo y = geo x).
Proof.
  intros s p. unfold corrupt.
  match goal with |- context [disc ?S p] => set (s1 := S) end.
  destruct ((max_failed <? failc_of s p + 1) && memN p (conns s)).
  - destruct (disc_spec s1 p) as (D1 & D2 & D3 & D4 & D5 & D6 & D7 & D8).
    rewrite D1, D2, D3, D4, D5, D6, D7. repeat split; auto.
  - repeat split; auto. intros y Hy. exists y. auto.
Qed.

Lemma mk_blocks_from_idx : forall fuel i no off size y, In y (mk_blocks_from i no off size fuel) -> b_idx y = i.
Proof.
  induction fuel as [|k IH]; intros i no off size y Hin; simpl in Hin; [contradiction|].
  destruct (size <=? bs).
  - destruct Hin as [<-|[]]. reflexivity.
  - destruct Hin as [<-|Hin]; [reflexivity|]. eapply IH; exact Hin.
Qed.

Lemma listed_app : forall s a i, existsb (fun x => fst x =? i) (attempts s ++ [a]) = listed s i || (fst a =? i).
Proof. intros. rewrite existsb_app. simpl. rewrite orb_false_r. reflexivity. Qed.

Lemma listed_filter : forall l i j, existsb (fun a => fst a =? j) (filter (fun a : N * N => negb (fst a =? i)) l)
   = existsb (fun a => fst a =? j) l && negb (j =? i).
Proof.
  induction l as [|a l IH]; intros i j; simpl; [reflexivity|].
  destruct (fst a =? i) eqn:E; simpl.
  - rewrite IH. apply N.eqb_eq in E. destruct (fst a =? j) eqn:E2; simpl.
    + apply N.eqb_eq in E2. assert (j = i) by congruence. subst. rewrite N.eqb_refl. simpl. rewrite andb_false_r. reflexivity.
    + reflexivity.
  - rewrite IH. destruct (fst a =? j) eqn:E2; simpl; [|reflexivity].
    apply N.eqb_eq in E2. apply N.eqb_neq in E. destruct (j =? i) eqn:E3; [apply N.eqb_eq in E3; congruence|].
    simpl. reflexivity.
Qed.

Theorem inv_step : forall s e s', Inv s -> accept s e = Some s' -> Inv s'.
Proof.
  intros s e s' (I1 & I2 & I3 & I4 & I5 & I6 & I7) A.
  unfold Model.accept in A.
  destruct (pmark s) as [m|] eqn:PM.
  - (* inside receive_hash_done: only EMark *)
    destruct e; try discriminate.
    destruct (m =? i) eqn:E; [|discriminate]. apply N.eqb_eq in E. subst m.
    inversion A; subst s'; clear A.
    destruct (I2 i eq_refl) as (Hh & Hl & Hnh).
    unfold Inv, idx_ok, listed, piece; simpl.
    repeat split; try discriminate.
    + intros j [<-|Hj]; [exact Hh | apply I1; exact Hj].
    + intros j [<-|Hj]; rewrite listed_filter.
      * rewrite N.eqb_refl. simpl. apply andb_false_r.
      * specialize (I3 j Hj). unfold listed in I3. rewrite I3. reflexivity.
    + intros x Hx. apply filter_In in Hx. destruct Hx as [Hx Ne]. rewrite listed_filter.
      specialize (I4 x Hx). unfold listed in I4. rewrite I4. simpl. exact Ne.
    + intros j Hj. rewrite listed_filter. specialize (I5 j Hj). unfold listed in I5. rewrite I5. simpl.
      apply negb_true_iff. apply N.eqb_neq. intro. subst. contradiction.
    + intros j Hj. right. apply I6. exact Hj.
    + intros D j Hj. right. apply I7; assumption.
  - assert (NoMark : forall i, None = Some i -> H (piece s i) = expected i /\ listed s i = true /\ ~ In i (hashing s)) by (intros; discriminate).
    destruct e.
    + (* EConn *) destruct (memN p (conns s) || (max_failed <? failc_of s p)); [discriminate|]. inversion A; subst s'; clear A.
      unfold Inv, idx_ok, listed, piece; simpl. repeat split; auto; try discriminate; try (intros; discriminate).
    + (* EDisc *) destruct (memN p (conns s)); inversion A; subst s'; clear A.
      * destruct (disc_spec s p) as (D1 & D2 & D3 & D4 & D5 & D6 & D7 & D8).
        unfold Inv, idx_ok, listed, piece. rewrite D1, D2, D3, D4, D5, D6, D7, PM. repeat split; auto; try discriminate; try (intros; discriminate).
        intros x Hx. destruct (D8 x Hx) as [x1 [A1 A2]]. rewrite (geo_idx _ _ A2). apply I4. exact A1.
      * unfold Inv. rewrite PM. repeat split; auto; try discriminate.
    + (* ENew *) destruct ((i <? npieces) && negb (listed s i) && negb (memN i (completed s))) eqn:G; [|discriminate].
      inversion A; subst s'; clear A. apply andb_true_iff in G. destruct G as [G G3]. apply andb_true_iff in G. destruct G as [G1 G2].
      unfold Inv, idx_ok, listed, piece; simpl. rewrite PM. repeat split; auto; try discriminate; try (intros; discriminate).
      * intros j Hj. rewrite listed_app. simpl. rewrite (I3 j Hj). simpl. apply N.eqb_neq. intro. subst.
        apply negb_true_iff in G3. apply memN_In in Hj. congruence.
      * intros x Hx. rewrite listed_app. apply in_app_or in Hx. destruct Hx as [Hx|Hx].
        -- rewrite (I4 x Hx). reflexivity.
        -- unfold mk_blocks in Hx. apply mk_blocks_from_idx in Hx. rewrite Hx. simpl. rewrite N.eqb_refl. apply orb_true_r.
      * intros j Hj. rewrite listed_app. rewrite (I5 j Hj). reflexivity.
    + (* EIns *) destruct (find_block s i b) as [x|]; [|discriminate].
      destruct (_ && _); [|discriminate].
      inversion A; subst s'; clear A. unfold Inv, idx_ok, listed, piece; simpl. rewrite PM. repeat split; auto; try discriminate; try (intros; discriminate).
      intros y Hy. apply in_upd_block in Hy; [|intro; reflexivity]; destruct Hy as [x1 [A1 A2]]. rewrite (geo_idx _ _ A2). apply I4. exact A1.
    + (* ERel *) destruct (find_block s i b) as [x|]; [|discriminate].
      destruct (memN p (b_queued x)); [|discriminate].
      inversion A; subst s'; clear A. unfold Inv, idx_ok, listed, piece; simpl. rewrite PM. repeat split; auto; try discriminate; try (intros; discriminate).
      intros y Hy. apply in_upd_block in Hy; [|intro; reflexivity]; destruct Hy as [x1 [A1 A2]]. rewrite (geo_idx _ _ A2). apply I4. exact A1.
    + (* EPiece *) destruct (negb (memN p (conns s))); [discriminate|].
      destruct (get_cur s p); [discriminate|].
      destruct start.
      * destruct (find_block s i (off / bs)) as [x|]; [|discriminate].
        destruct ((b_off x =? off) && (b_len x =? len) && memN p (b_queued x) && negb (has_tr p (b_trans x))); [|discriminate].
        inversion A; subst s'; clear A. unfold Inv, idx_ok, listed, piece; simpl. rewrite PM. repeat split; auto; try discriminate; try (intros; discriminate).
        intros y Hy. apply in_upd_block in Hy; [|intro; reflexivity]; destruct Hy as [x1 [A1 A2]]. rewrite (geo_idx _ _ A2). apply I4. exact A1.
      * destruct (len =? 0); inversion A; subst s'; clear A; unfold Inv, idx_ok, listed, piece; simpl; rewrite PM; repeat split; auto; try discriminate; try (intros; discriminate).
    + (* EData *) destruct (get_cur s p) as [[i b|pos len]|]; [| |discriminate].
      * destruct (data_valid_spec _ _ _ _ _ _ A) as (P1 & [x Fx] & P2 & P3 & P4 & P5 & P6 & P7 & P8 & P9 & P10).
        apply find_block_some in Fx. destruct Fx as (Hx & Ex & _).
        assert (Li : listed s i = true) by (rewrite <- Ex; apply I4; exact Hx).
        assert (LL : forall j, listed s' j = listed s j) by (intro j; unfold listed; rewrite P7; reflexivity).
        unfold Inv, idx_ok. rewrite P2, P3, P4, P5, P6, PM. repeat split; auto; try discriminate; try (intros; discriminate).
        -- intros j Hj. destruct (N.eq_dec j i) as [->|Hne].
           ++ rewrite (I3 i Hj) in Li. discriminate.
           ++ rewrite (P1 j Hne). apply I1. exact Hj.
        -- intros j Hj. rewrite LL. apply I3. exact Hj.
        -- intros y Hy. rewrite LL. destruct (P9 y Hy) as [x1 [A1 A2]]. rewrite (geo_idx _ _ A2). apply I4. exact A1.
        -- intros j Hj. rewrite LL. apply I5. exact Hj.
      * destruct ((lenN d =? 0) || (len - pos <? lenN d)); [discriminate|].
        destruct (pos + lenN d =? len); inversion A; subst s'; clear A; unfold Inv, idx_ok, listed, piece; simpl; rewrite PM; repeat split; auto; try discriminate; try (intros; discriminate).
    + (* EChoke *) destruct (memN p (conns s)); inversion A; subst s'. unfold Inv. rewrite PM. repeat split; auto; try discriminate.
    + (* EUnchoke *) destruct (memN p (conns s)); inversion A; subst s'. unfold Inv. rewrite PM. repeat split; auto; try discriminate.
    + (* EHashQueued *) destruct (listed s i && all_finished s i && negb (memN i (hashing s))) eqn:G; [|discriminate].
      inversion A; subst s'; clear A. apply andb_true_iff in G. destruct G as [G _]. apply andb_true_iff in G. destruct G as [G1 _].
      unfold Inv, idx_ok, listed, piece; simpl. rewrite PM. repeat split; auto; try discriminate; try (intros; discriminate).
      intros j [<-|Hj]; [exact G1 | apply I5; exact Hj].
    + (* EHashDone *) destruct (memN i (hashing s) && Bool.eqb ok (list_eqb (H (piece s i)) (expected i))) eqn:G; [|discriminate].
      apply andb_true_iff in G. destruct G as [G1 G2]. apply memN_In in G1. apply eqb_prop in G2.
      destruct ok.
      * inversion A; subst s'; clear A. symmetry in G2. apply list_eqb_eq in G2.
        unfold Inv, idx_ok, listed, piece; simpl. repeat split; auto; try discriminate;
          try match goal with E : Some _ = Some _ |- _ => inversion E; subst; clear E end.
        -- exact G2.
        -- apply I5. exact G1.
        -- intro Hc. apply removeN_In in Hc. destruct Hc as [_ Hc]. apply Hc. reflexivity.
        -- intros j Hj. apply removeN_In in Hj. destruct Hj as [Hj _]. apply I5. exact Hj.
      * inversion A; subst s'; clear A.
        set (s1 := with_hashing s (removeN i (hashing s))).
        destruct (hash_failed_spec s1 i) as (F1 & F2 & F3 & F4 & F5 & F6 & F7 & F8 & F9 & F10).
        assert (Li : listed s i = true) by (apply I5; exact G1).
        unfold Inv, idx_ok. rewrite F2, F3, F4, F5, F6. unfold s1 in *; cbn [completed hashing pmark haves done with_hashing]. rewrite PM. repeat split; auto; try discriminate; try (intros; discriminate).
        -- intros j Hj. destruct (N.eq_dec j i) as [->|Hne].
           ++ rewrite (I3 i Hj) in Li. discriminate.
           ++ rewrite (F1 j Hne). apply I1. exact Hj.
        -- intros j Hj. rewrite F8. apply I3. exact Hj.
        -- intros y Hy. rewrite F8. destruct (F9 y Hy) as [x1 [A1 A2]]. rewrite (geo_idx _ _ A2). apply I4. exact A1.
        -- intros j Hj. rewrite F8. apply removeN_In in Hj. destruct Hj as [Hj _]. apply I5. exact Hj.
    + (* EHashCancel *) destruct (memN i (hashing s)); [|discriminate]. inversion A; subst s'; clear A.
      unfold Inv, idx_ok, listed, piece; simpl. rewrite PM. repeat split; auto; try discriminate; try (intros; discriminate).
      intros j Hj. apply removeN_In in Hj. destruct Hj as [Hj _]. apply I5. exact Hj.
    + (* EMark *) discriminate.
    + (* EHave *) destruct (memN i (completed s) && negb (memN i (haves s))) eqn:G; [|discriminate].
      inversion A; subst s'; clear A. apply andb_true_iff in G. destruct G as [G1 _]. apply memN_In in G1.
      unfold Inv, idx_ok, listed, piece; simpl. repeat split; auto; try discriminate; try (intros; discriminate).
      intros j [<-|Hj]; [exact G1 | apply I6; exact Hj].
    + (* EDone *) destruct (all_completed npieces s && negb (done s)) eqn:G; [|discriminate].
      inversion A; subst s'; clear A. apply andb_true_iff in G. destruct G as [G1 _].
      unfold Inv, idx_ok, listed, piece; simpl. repeat split; auto; try discriminate; try (intros; discriminate).
      intros _ j Hj. eapply all_completed_spec; eassumption.
    + (* EProbe *) destruct (list_eqb (H (piece s i)) d); inversion A; subst s'. unfold Inv. rewrite PM. repeat split; auto; try discriminate.
    + (* ECorrupt *) inversion A; subst s'; clear A.
      destruct (corrupt_spec s p) as (D1 & D2 & D3 & D4 & D5 & D6 & D7 & D8).
      unfold Inv, idx_ok, listed, piece. rewrite D1, D2, D3, D4, D5, D6, D7, PM. repeat split; auto; try discriminate; try (intros; discriminate).
      intros x Hx. destruct (D8 x Hx) as [x1 [A1 A2]]. rewrite (geo_idx _ _ A2). apply I4. exact A1.
Qed.

Definition init_ok (st0 : list (list N)) (c0 : list N) : Prop :=
  forall i, In i c0 -> H (nth (N.to_nat i) st0 []) = expected i.

Lemma inv_init : forall st0 c0, init_ok st0 c0 -> Inv (init st0 c0).
Proof.
  intros st0 c0 Hi. unfold Inv, idx_ok, init, listed, piece; simpl. repeat split; auto; try discriminate; try (intros; discriminate); try contradiction.
Qed.

Theorem inv_run : forall tr s s', Inv s -> run s tr = Some s' -> Inv s'.
Proof.
  induction tr as [|e tr IH]; intros s s' I R; simpl in R.
  - inversion R; subst; exact I.
  - destruct (accept s e) as [s1|] eqn:A; [|discriminate]. eapply IH; [|exact R]. eapply inv_step; eassumption.
Qed.

(* ---------- derived user-level properties ---------- *)
Theorem completed_means_hashed : forall st0 c0 tr s,
  init_ok st0 c0 -> run (init st0 c0) tr = Some s -> forall i, In i (completed s) -> H (piece s i) = expected i.
Proof.
  intros st0 c0 tr s Hi R i Hc. destruct (inv_run tr _ _ (inv_init _ _ Hi) R) as (I1 & _). apply I1. exact Hc.
Qed.

(* at MarkCompleted: the digest comparison succeeded on the store as it is, and mark_completed does not touch it *)
Theorem mark_only_when_hashed : forall st0 c0 tr s i s',
  init_ok st0 c0 -> run (init st0 c0) tr = Some s -> accept s (EMark i) = Some s' ->
  H (piece s i) = expected i /\ piece s' i = piece s i /\ In i (completed s') /\ ~ In i (hashing s).
Proof.
  intros st0 c0 tr s i s' Hi R A. destruct (inv_run tr _ _ (inv_init _ _ Hi) R) as (_ & I2 & _).
  unfold Model.accept in A. destruct (pmark s) as [m|] eqn:PM; [|discriminate].
  destruct (m =? i) eqn:E; [|discriminate]. apply N.eqb_eq in E. subst m.
  destruct (I2 i eq_refl) as (Hh & _ & Hn). inversion A; subst s'. simpl. repeat split; auto; try (left; reflexivity).
Qed.

(* a completed piece is never written again and stays completed, whatever event is accepted *)
Theorem completed_never_written : forall st0 c0 tr s e s' i,
  init_ok st0 c0 -> run (init st0 c0) tr = Some s -> accept s e = Some s' -> In i (completed s) ->
  piece s' i = piece s i /\ In i (completed s').
Proof.
  intros st0 c0 tr s e s' i Hi R A Hc.
  pose proof (inv_run tr _ _ (inv_init _ _ Hi) R) as (I1 & I2 & I3 & I4 & I5 & I6 & I7).
  pose proof (I3 i Hc) as NL.
  unfold Model.accept in A. destruct (pmark s) as [m|] eqn:PM.
  - destruct e; try discriminate. destruct (m =? i0); [|discriminate]. inversion A; subst s'. simpl. split; [reflexivity | right; exact Hc].
  - destruct e; try discriminate.
    + destruct (memN p (conns s) || (max_failed <? failc_of s p)); [discriminate|]. inversion A; subst s'. auto.
    + destruct (memN p (conns s)); inversion A; subst s'; auto.
    + destruct ((i0 <? npieces) && negb (listed s i0) && negb (memN i0 (completed s))); [|discriminate]. inversion A; subst s'. auto.
    + destruct (find_block s i0 b); [|discriminate]. destruct (_ && _); [|discriminate]. inversion A; subst s'. auto.
    + destruct (find_block s i0 b); [|discriminate]. destruct (memN p (b_queued b0)); [|discriminate]. inversion A; subst s'. auto.
    + destruct (negb (memN p (conns s))); [discriminate|]. destruct (get_cur s p); [discriminate|]. destruct start.
      * destruct (find_block s i0 (off / bs)); [|discriminate]. destruct (_ && _); [|discriminate]. inversion A; subst s'. auto.
      * destruct (len =? 0); inversion A; subst s'; auto.
    + destruct (get_cur s p) as [[i0 b|pos len]|]; [| |discriminate].
      * destruct (data_valid_spec _ _ _ _ _ _ A) as (P1 & [x Fx] & P2 & _).
        apply find_block_some in Fx. destruct Fx as (Hx & Ex & _).
        assert (Li : listed s i0 = true) by (rewrite <- Ex; apply I4; exact Hx).
        rewrite P2. split; [|exact Hc]. apply P1. intro. subst. congruence.
      * destruct (_ || _); [discriminate|]. destruct (pos + lenN d =? len); inversion A; subst s'; auto.
    + destruct (memN p (conns s)); inversion A; subst s'; auto.
    + destruct (memN p (conns s)); inversion A; subst s'; auto.
    + destruct (_ && _); [|discriminate]. inversion A; subst s'. auto.
    + destruct (memN i0 (hashing s) && _) eqn:G; [|discriminate]. apply andb_true_iff in G. destruct G as [G1 _]. apply memN_In in G1.
      destruct ok; inversion A; subst s'; auto.
      set (s1 := with_hashing s (removeN i0 (hashing s))).
      destruct (hash_failed_spec s1 i0) as (F1 & F2 & _). rewrite F2. split; [|exact Hc].
      apply F1. intro. subst. rewrite (I5 i0 G1) in NL. discriminate.
    + destruct (memN i0 (hashing s)); [|discriminate]. inversion A; subst s'. auto.
    + destruct (_ && _); [|discriminate]. inversion A; subst s'. auto.
    + destruct (_ && _); [|discriminate]. inversion A; subst s'. auto.
    + destruct (list_eqb _ _); inversion A; subst s'. auto.
    + inversion A; subst s'. destruct (corrupt_spec s p) as (D1 & D2 & _). unfold piece. rewrite D1, D2. auto.
Qed.

Theorem have_and_done_only_completed : forall st0 c0 tr s,
  init_ok st0 c0 -> run (init st0 c0) tr = Some s ->
  (forall i, In i (haves s) -> In i (completed s) /\ H (piece s i) = expected i) /\
  (done s = true -> forall i, i < npieces -> In i (completed s) /\ H (piece s i) = expected i).
Proof.
  intros st0 c0 tr s Hi R. destruct (inv_run tr _ _ (inv_init _ _ Hi) R) as (I1 & _ & _ & _ & _ & I6 & I7).
  split.
  - intros i Hh. split; [apply I6; exact Hh | apply I1; apply I6; exact Hh].
  - intros D i Hlt. split; [apply I7; assumption | apply I1; apply I7; assumption].
Qed.

(* the store never changes shape *)
Theorem piece_length_step : forall s e s' j, accept s e = Some s' -> length (piece s' j) = length (piece s j).
Proof.
  intros s e s' j A. unfold Model.accept in A. destruct (pmark s) as [m|].
  - destruct e; try discriminate. destruct (m =? i); [|discriminate]. inversion A; subst s'. reflexivity.
  - destruct e; try discriminate.
    + destruct (memN p (conns s) || (max_failed <? failc_of s p)); [discriminate|]. inversion A; subst s'. reflexivity.
    + destruct (memN p (conns s)); inversion A; subst s'; [|reflexivity]. destruct (disc_spec s p) as (D1 & _). unfold piece. rewrite D1. reflexivity.
    + destruct (_ && _); [|discriminate]. inversion A; subst s'. reflexivity.
    + destruct (find_block s i b); [|discriminate]. destruct (_ && _); [|discriminate]. inversion A; subst s'. reflexivity.
    + destruct (find_block s i b); [|discriminate]. destruct (memN p (b_queued b0)); [|discriminate]. inversion A; subst s'. reflexivity.
    + destruct (negb (memN p (conns s))); [discriminate|]. destruct (get_cur s p); [discriminate|]. destruct start.
      * destruct (find_block s i (off / bs)); [|discriminate]. destruct (_ && _); [|discriminate]. inversion A; subst s'. reflexivity.
      * destruct (len =? 0); inversion A; subst s'; reflexivity.
    + destruct (get_cur s p) as [[i b|pos len]|]; [| |discriminate].
      * destruct (data_valid_spec _ _ _ _ _ _ A) as (_ & _ & _ & _ & _ & _ & _ & _ & _ & _ & P10). apply P10.
      * destruct (_ || _); [discriminate|]. destruct (pos + lenN d =? len); inversion A; subst s'; reflexivity.
    + destruct (memN p (conns s)); inversion A; subst s'; reflexivity.
    + destruct (memN p (conns s)); inversion A; subst s'; reflexivity.
    + destruct (_ && _); [|discriminate]. inversion A; subst s'. reflexivity.
    + destruct (_ && _); [|discriminate]. destruct ok; inversion A; subst s'; [reflexivity|].
      destruct (hash_failed_spec (with_hashing s (removeN i (hashing s))) i) as (_ & _ & _ & _ & _ & _ & _ & _ & _ & F10). apply F10.
    + destruct (memN i (hashing s)); [|discriminate]. inversion A; subst s'. reflexivity.
    + destruct (_ && _); [|discriminate]. inversion A; subst s'. reflexivity.
    + destruct (_ && _); [|discriminate]. inversion A; subst s'. reflexivity.
    + destruct (list_eqb _ _); inversion A; subst s'. reflexivity.
    + inversion A; subst s'. destruct (corrupt_spec s p) as (D1 & _). unfold piece. rewrite D1. reflexivity.
Qed.

Theorem piece_length_run : forall tr s s' j, run s tr = Some s' -> length (piece s' j) = length (piece s j).
Proof.
  induction tr as [|e tr IH]; intros s s' j R; simpl in R.
  - inversion R; reflexivity.
  - destruct (accept s e) as [s1|] eqn:A; [|discriminate]. rewrite (IH _ _ j R). eapply piece_length_step; exact A.
Qed.

(* done  =>  every piece verified; with H injective on the torrent's piece domain, the files are the original content *)
Theorem done_iff_all : forall st0 c0 tr s (orig : N -> list N),
  init_ok st0 c0 -> run (init st0 c0) tr = Some s ->
  (forall i, i < npieces -> expected i = H (orig i) /\ length (nth (N.to_nat i) st0 []) = length (orig i)) ->
  (forall i x, i < npieces -> length x = length (orig i) -> H x = H (orig i) -> x = orig i) ->
  (done s = true -> forall i, i < npieces -> piece s i = orig i) /\
  ((forall i, i < npieces -> In i (completed s)) -> pmark s = None -> done s = false -> accept s EDone <> None).
Proof.
  intros st0 c0 tr s orig Hi R Hexp Hinj. split.
  - intros D i Hlt. destruct (have_and_done_only_completed _ _ _ _ Hi R) as [_ HD].
    destruct (HD D i Hlt) as [_ Hh]. destruct (Hexp i Hlt) as [E L].
    apply Hinj; [exact Hlt | | congruence].
    rewrite (piece_length_run _ _ _ i R). exact L.
  - intros All PM D. unfold Model.accept. rewrite PM.
    assert (AC : all_completed npieces s = true).
    { unfold all_completed. apply forallb_forall. intros k Hk. apply in_seq in Hk. apply memN_In. apply All. lia. }
    rewrite AC, D. simpl. discriminate.
Qed.

End Proofs.
