(* C01 — the block geometry is an invariant: every block of every listed piece lies inside its piece, hence (with
   bounds_in_block) every accepted write lies inside its block and inside its piece. *)
From Coq Require Import NArith List Bool Lia.
From LTV.C01 Require Import ParamsGen Model Proofs ProofsB.
Import ListNotations.
Open Scope N_scope.

Section Geo.
Variable H : list N -> list N.
Variable expected : N -> list N.
Variable npieces : N.
Variable psize : N -> N.
Variable repaired : bool.
Notation accept := (accept H expected npieces psize repaired).
Notation run := (run H expected npieces psize repaired).

Definition in_piece (x : block) : Prop := b_off x + b_len x <= psize (b_idx x).
(* Block numbering: block b of a piece starts at b * block_size (what down_chunk_start's off / block_size relies on) *)
Definition no_off (x : block) : Prop := b_off x = b_no x * bs.

Lemma in_piece_geo : forall y x, geo y = geo x -> in_piece x -> in_piece y.
Proof. unfold geo, in_piece. intros y x E. inversion E as [[E1 E2 E3 E4]]. rewrite E1, E2, E3. auto. Qed.
Lemma no_off_geo : forall y x, geo y = geo x -> no_off x -> no_off y.
Proof. unfold geo, no_off. intros y x E. inversion E as [[E1 E2 E3 E4]]. rewrite E2, E4. auto. Qed.

Lemma in_piece_mk : forall i y, In y (mk_blocks psize i) -> in_piece y.
Proof. intros i y Hy. destruct (blocks_inside_piece psize i y Hy) as [E B]. unfold in_piece. rewrite E. exact B. Qed.

Lemma mk_blocks_from_no_off : forall fuel i no off size y, off = no * bs -> In y (mk_blocks_from i no off size fuel) -> no_off y.
Proof.
  induction fuel as [|k IH]; intros i no off size y E Hy; simpl in Hy; [destruct Hy|].
  destruct (size <=? bs).
  - destruct Hy as [<-|[]]. unfold no_off. simpl. exact E.
  - destruct Hy as [<-|Hy]; [unfold no_off; simpl; exact E|]. eapply IH; [|exact Hy]. rewrite E. lia.
Qed.
Lemma no_off_mk : forall i y, In y (mk_blocks psize i) -> no_off y.
Proof. intros i y Hy. unfold mk_blocks in Hy. eapply mk_blocks_from_no_off; [|exact Hy]. reflexivity. Qed.

Ltac same_blocks := let y := fresh in let Hy := fresh in intros y Hy; exists y; split; [exact Hy | reflexivity].
Ltac upd_blocks := let y := fresh in let Hy := fresh in intros y Hy; simpl in Hy; apply in_upd_block in Hy; [exact Hy | intro; reflexivity].

(* any per-block predicate that depends only on the block's geometry (piece, number, offset, length) and holds for
   the blocks BlockList::BlockList creates is an invariant *)
Section PerBlock.
Variable P : block -> Prop.
Hypothesis P_geo : forall y x, geo y = geo x -> P x -> P y.
Hypothesis P_mk : forall i y, In y (mk_blocks psize i) -> P y.
Definition PInv (s : state) : Prop := forall x, In x (blocks s) -> P x.

Lemma pinv_from : forall (s s' : state),
  PInv s -> (forall y, In y (blocks s') -> exists x, In x (blocks s) /\ geo y = geo x) -> PInv s'.
Proof. intros s s' G Hb y Hy. destruct (Hb y Hy) as [x [Hx E]]. eapply P_geo; [exact E | apply G; exact Hx]. Qed.

Theorem pinv_step : forall s e s', PInv s -> accept s e = Some s' -> PInv s'.
Proof.
  intros s e s' G A. unfold Model.accept in A. destruct (pmark s) as [m|].
  - destruct e; try discriminate. destruct (m =? i); [|discriminate]. inversion A; subst s'.
    intros y Hy. simpl in Hy. apply filter_In in Hy. apply G. apply Hy.
  - destruct e; try discriminate.
    + destruct (_ || _); [discriminate|]. inversion A; subst s'. exact G.
    + destruct (memN p (conns s)); inversion A; subst s'; [|exact G].
      eapply pinv_from; [exact G|]. apply disc_spec.
    + destruct (_ && _); [|discriminate]. inversion A; subst s'. intros y Hy. simpl in Hy. apply in_app_or in Hy.
      destruct Hy as [Hy|Hy]; [apply G; exact Hy|]. eapply P_mk. exact Hy.
    + destruct (find_block s i b); [|discriminate]. destruct (_ && _); [|discriminate]. inversion A; subst s'.
      eapply pinv_from; [exact G|]. upd_blocks.
    + destruct (find_block s i b); [|discriminate]. destruct (memN p (b_queued b0)); [|discriminate]. inversion A; subst s'.
      eapply pinv_from; [exact G|]. upd_blocks.
    + destruct (negb (memN p (conns s))); [discriminate|]. destruct (get_cur s p); [discriminate|]. destruct start.
      * destruct (find_block s i (off / bs)); [|discriminate]. destruct (_ && _); [|discriminate]. inversion A; subst s'.
        eapply pinv_from; [exact G|]. upd_blocks.
      * destruct (len =? 0); inversion A; subst s'; exact G.
    + destruct (get_cur s p) as [[i b|pos len]|]; [| |discriminate].
      * eapply pinv_from; [exact G|]. apply (data_valid_spec _ _ _ _ _ _ A).
      * destruct (_ || _); [discriminate|]. destruct (pos + lenN d =? len); inversion A; subst s'; exact G.
    + destruct (memN p (conns s)); inversion A; subst s'; exact G.
    + destruct (memN p (conns s)); inversion A; subst s'; exact G.
    + destruct (_ && _); [|discriminate]. inversion A; subst s'. exact G.
    + destruct (_ && _); [|discriminate]. destruct ok; inversion A; subst s'; [exact G|].
      eapply pinv_from; [|apply hash_failed_spec]. exact G.
    + destruct (memN i (hashing s)); [|discriminate]. inversion A; subst s'. exact G.
    + destruct (_ && _); [|discriminate]. inversion A; subst s'. exact G.
    + destruct (_ && _); [|discriminate]. inversion A; subst s'. exact G.
    + destruct (list_eqb _ _); inversion A; subst s'. exact G.
    + inversion A; subst s'. eapply pinv_from; [exact G|]. apply corrupt_spec.
Qed.

Theorem pinv_run : forall tr s s', PInv s -> run s tr = Some s' -> PInv s'.
Proof.
  induction tr as [|e tr IH]; intros s s' G R; simpl in R.
  - inversion R; subst; exact G.
  - destruct (accept s e) as [s1|] eqn:A; [|discriminate]. eapply IH; [|exact R]. eapply pinv_step; eassumption.
Qed.
End PerBlock.

Definition GeoInv (s : state) : Prop := PInv in_piece s.
Theorem geo_step : forall s e s', GeoInv s -> accept s e = Some s' -> GeoInv s'.
Proof. exact (pinv_step in_piece in_piece_geo in_piece_mk). Qed.

(* in every reachable state every block starts at its number times the block size *)
Theorem no_off_run : forall st0 c0 tr s x, run (init st0 c0) tr = Some s -> In x (blocks s) -> b_off x = b_no x * bs.
Proof.
  intros st0 c0 tr s x R Hx.
  assert (G : PInv no_off s) by (eapply (pinv_run no_off no_off_geo no_off_mk); [|exact R]; intros y []).
  exact (G x Hx).
Qed.

Theorem geo_run : forall tr s s', GeoInv s -> run s tr = Some s' -> GeoInv s'.
Proof.
  induction tr as [|e tr IH]; intros s s' G R; simpl in R.
  - inversion R; subst; exact G.
  - destruct (accept s e) as [s1|] eqn:A; [|discriminate]. eapply IH; [|exact R]. eapply geo_step; eassumption.
Qed.

(* bounds: every accepted write lies inside its block AND inside its piece *)
Theorem bounds : forall st0 c0 tr s p d s' i b x t,
  run (init st0 c0) tr = Some s ->
  accept s (EData p d) = Some s' -> get_cur s p = Some (CValid i b) ->
  find_block s i b = Some x -> find_tr p (b_trans x) = Some t ->
  0 < lenN d /\ t_pos t + lenN d <= b_len x /\ b_off x + t_pos t + lenN d <= psize i.
Proof.
  intros st0 c0 tr s p d s' i b x t R A C Fx Ft.
  destruct (bounds_in_block H expected npieces psize repaired _ _ _ _ _ _ _ _ A C Fx Ft) as (B1 & B2 & B3).
  assert (G : GeoInv s) by (eapply geo_run; [|exact R]; intros y []).
  destruct (find_block_some _ _ _ _ Fx) as (Hx & Ex & _).
  specialize (G x Hx). unfold in_piece in G. rewrite Ex in G. lia.
Qed.
End Geo.
