(* C01 — mechanism automaton (shape A, DESIGN.md section 1) of the download path:
   TransferList / BlockList / Block / BlockTransfer / BlockFailed, RequestList::{downloading, finished, skipped,
   transfer_dissimilar, clear}, PeerConnectionBase::{down_chunk_start, down_chunk_process, down_chunk_skip_process,
   down_chunk_finished}, DownloadMain::receive_chunk_done, DownloadWrapper::{check_chunk_hash, receive_hash_done,
   finished_download}, FileList::mark_completed, have-queue insertion.
   Definitions only. SHA-1 is the Section variable H. The piece store is a list of byte lists.
   [accept] enforces only what the CODE enforces; the user-level property is derived in Proofs*.v. *)
From Coq Require Import NArith List Bool.
From LTV.C01 Require Import ParamsGen.
Import ListNotations.
Open Scope N_scope.

(* ---------- list helpers ---------- *)
Fixpoint list_eqb (a b : list N) : bool :=
  match a, b with
  | [], [] => true
  | x :: a', y :: b' => (x =? y) && list_eqb a' b'
  | _, _ => false
  end.

Definition memN (x : N) (l : list N) : bool := existsb (N.eqb x) l.
Definition removeN (x : N) (l : list N) : list N := filter (fun y => negb (y =? x)) l.
Definition lenN {A} (l : list A) : N := N.of_nat (length l).

(* overwrite l from position off with d; never changes the length (bytes that would fall outside are dropped:
   theorem [bounds] shows an accepted write never has such bytes) *)
Fixpoint splice (l : list N) (off : nat) (d : list N) : list N :=
  match l with
  | [] => []
  | x :: l' =>
      match off with
      | S o => x :: splice l' o d
      | O => match d with [] => l | y :: d' => y :: splice l' O d' end
      end
  end.

Definition slice (l : list N) (off len : N) : list N := firstn (N.to_nat len) (skipn (N.to_nat off) l).

Fixpoint upd_nth {A} (l : list A) (n : nat) (f : A -> A) : list A :=
  match l, n with
  | [], _ => []
  | x :: l', O => f x :: l'
  | x :: l', S k => x :: upd_nth l' k f
  end.

(* ---------- data ---------- *)
Inductive tstate := TLeader | TNotLeader | TErased.
Definition tstate_eqb (a b : tstate) : bool :=
  match a, b with TLeader, TLeader | TNotLeader, TNotLeader | TErased, TErased => true | _, _ => false end.

Record transfer := { t_peer : N; t_state : tstate; t_pos : N }.

Record block := {
  b_idx : N;                       (* piece *)
  b_no : N;                        (* block number inside the piece *)
  b_off : N; b_len : N;
  b_queued : list N;               (* peers with a QUEUED transfer (Block::m_queued) *)
  b_stale : list transfer;         (* finished transfers left in m_transfers by earlier, hash-failed attempts (in front) *)
  b_trans : list transfer;         (* the rest of Block::m_transfers, in order: transfers of the current attempt *)
  b_leader : option N;             (* Block::m_leader (peer) *)
  b_failed : list (list N * N);    (* BlockFailed: data seen after hash failures, reference counts *)
  b_cur : option N                 (* BlockFailed::m_current *)
}.

Inductive cur := CValid (i b : N) | CSkip (pos len : N).   (* RequestList::m_transfer: valid / invalid or dummy *)

Record state := {
  store : list (list N);           (* piece store: what the chunks / files contain *)
  completed : list N;              (* completed bitfield *)
  blocks : list block;             (* all blocks of all listed pieces (TransferList of BlockLists) *)
  attempts : list (N * N);         (* listed pieces with BlockList::m_attempt *)
  hashing : list N;                (* pieces in the hash queue *)
  curs : list (N * cur);           (* per connection: the transfer being received *)
  conns : list N;
  pmark : option N;                (* inside receive_hash_done, between the memcmp and mark_completed *)
  haves : list N;                  (* have queue *)
  done : bool;
  failc : list (N * N)             (* PeerInfo::failed_counter per peer *)
}.

Inductive event :=
| EConn (p : N) | EDisc (p : N)
| ENew (i : N)                                   (* TransferList::insert *)
| EIns (p i b : N)                               (* Block::insert *)
| ERel (p i b : N)                               (* Block::release of a queued transfer *)
| EPiece (p i off len : N) (start : bool)        (* down_chunk_start; start = RequestList::downloading found a live transfer *)
| EData (p : N) (d : list N)                     (* down_chunk_process / down_chunk_skip_process, any split *)
| EChoke (p : N) | EUnchoke (p : N)
| EHashQueued (i : N)                            (* receive_chunk_done -> check_chunk_hash *)
| EHashDone (i : N) (ok : bool)                  (* receive_hash_done with a digest; ok = memcmp verdict *)
| EHashCancel (i : N)                            (* receive_hash_done with NULL *)
| EMark (i : N)                                  (* FileList::mark_completed + TransferList::hash_succeeded *)
| EHave (i : N) | EDone
| EProbe (i : N) (d : list N)
| ECorrupt (p : N).                               (* DownloadMain::receive_corrupt_chunk(peer) *)                   (* observation: digest of the piece on disk *)

Section Model.
Variable H : list N -> list N.          (* SHA-1 *)
Variable expected : N -> list N.        (* digests in the torrent *)
Variable npieces : N.
Variable psize : N -> N.                (* piece sizes *)
(* Block::insert of the tree: false = a peer with ANY transfer left in m_transfers is refused (old tree); true = the finished
   leftovers of earlier hash-failed attempts do not count (tree with the stale-transfer repair). Decided by a behavioural
   probe of the compiled code (harness/c01.cc --probe). *)
Variable repaired : bool.

Definition bs : N := Params.c01_block_size.

Definition piece (s : state) (i : N) : list N := nth (N.to_nat i) (store s) [].
Definition listed (s : state) (i : N) : bool := existsb (fun a => fst a =? i) (attempts s).
Definition attempt_of (s : state) (i : N) : N :=
  match find (fun a => fst a =? i) (attempts s) with Some a => snd a | None => 0 end.
Definition set_attempt (l : list (N * N)) (i v : N) : list (N * N) :=
  map (fun a => if fst a =? i then (i, v) else a) l.

Definition is_block (i b : N) (x : block) : bool := (b_idx x =? i) && (b_no x =? b).
Definition find_block (s : state) (i b : N) : option block := find (is_block i b) (blocks s).
Definition upd_block (l : list block) (i b : N) (f : block -> block) : list block :=
  map (fun x => if is_block i b x then f x else x) l.
Definition upd_piece_blocks (l : list block) (i : N) (f : block -> block) : list block :=
  map (fun x => if b_idx x =? i then f x else x) l.

Definition find_tr (p : N) (l : list transfer) : option transfer := find (fun t => t_peer t =? p) l.
Definition has_tr (p : N) (l : list transfer) : bool := existsb (fun t => t_peer t =? p) l.
Definition upd_tr (p : N) (f : transfer -> transfer) (l : list transfer) : list transfer :=
  map (fun t => if t_peer t =? p then f t else t) l.
Definition rm_tr (p : N) (l : list transfer) : list transfer := filter (fun t => negb (t_peer t =? p)) l.

Definition leader_pos (x : block) : N :=
  match b_leader x with
  | Some q => match find_tr q (b_trans x) with Some t => t_pos t | None => 0 end
  | None => 0
  end.
(* Block::is_finished *)
Definition finished (x : block) : bool :=
  match b_leader x with
  | Some q => match find_tr q (b_trans x) with Some t => t_pos t =? b_len x | None => false end
  | None => false
  end.
Definition all_finished (s : state) (i : N) : bool :=
  forallb (fun x => negb (b_idx x =? i) || finished x) (blocks s).

Definition get_cur (s : state) (p : N) : option cur :=
  match find (fun c => fst c =? p) (curs s) with Some c => Some (snd c) | None => None end.
Definition del_cur (l : list (N * cur)) (p : N) : list (N * cur) := filter (fun c => negb (fst c =? p)) l.
Definition set_cur (l : list (N * cur)) (p : N) (c : cur) : list (N * cur) := del_cur l p ++ [(p, c)].

(* BlockList::BlockList *)
Fixpoint mk_blocks_from (i : N) (no off : N) (size : N) (fuel : nat) : list block :=
  match fuel with
  | O => []
  | S k =>
      if size <=? bs
      then [ {| b_idx := i; b_no := no; b_off := off; b_len := size; b_queued := []; b_stale := []; b_trans := [];
                b_leader := None; b_failed := []; b_cur := None |} ]
      else {| b_idx := i; b_no := no; b_off := off; b_len := bs; b_queued := []; b_stale := []; b_trans := [];
              b_leader := None; b_failed := []; b_cur := None |} :: mk_blocks_from i (no + 1) (off + bs) (size - bs) k
  end.
Definition mk_blocks (i : N) : list block :=
  mk_blocks_from i 0 0 (psize i) (S (N.to_nat (psize i / bs))).

Definition write_store (st : list (list N)) (i off : N) (d : list N) : list (list N) :=
  upd_nth st (N.to_nat i) (fun pc => splice pc (N.to_nat off) d).

(* ---------- Block::erase of the transfer of peer p (p's current, unfinished transfer) ---------- *)
Definition is_leader_t (t : transfer) : bool := tstate_eqb (t_state t) TLeader.
Definition is_notleader_t (t : transfer) : bool := tstate_eqb (t_state t) TNotLeader.
Definition is_erased_t (t : transfer) : bool := tstate_eqb (t_state t) TErased.

Fixpoint take_leaders (l : list transfer) : list transfer * list transfer :=
  match l with
  | t :: l' => if is_leader_t t then let (a, b) := take_leaders l' in (t :: a, b) else ([], l)
  | [] => ([], [])
  end.

(* std::max_element over the not-leaders by position: first maximal *)
Fixpoint max_pos_tr (l : list transfer) (best : option transfer) : option transfer :=
  match l with
  | [] => best
  | t :: l' =>
      match best with
      | None => max_pos_tr l' (Some t)
      | Some b => if t_pos b <? t_pos t then max_pos_tr l' (Some t) else max_pos_tr l' best
      end
  end.

Definition erase_tr (p : N) (x : block) : block :=
  let tr' := rm_tr p (b_trans x) in
  match b_leader x with
  | Some q =>
      if q =? p then
        let (pre, rest) := take_leaders tr' in
        let nl := filter is_notleader_t rest in
        let others := filter (fun t => negb (is_notleader_t t)) rest in
        match max_pos_tr nl None with
        | Some t =>
            {| b_idx := b_idx x; b_no := b_no x; b_off := b_off x; b_len := b_len x; b_queued := b_queued x;
               b_stale := b_stale x; b_trans := upd_tr (t_peer t) (fun u => {| t_peer := t_peer u; t_state := TLeader; t_pos := t_pos u |}) (pre ++ nl ++ others);
               b_leader := Some (t_peer t); b_failed := b_failed x; b_cur := b_cur x |}
        | None =>
            (* no new leader: remove_erased_transfers *)
            {| b_idx := b_idx x; b_no := b_no x; b_off := b_off x; b_len := b_len x; b_queued := b_queued x;
               b_stale := b_stale x; b_trans := filter (fun t => negb (is_erased_t t)) (pre ++ nl ++ others);
               b_leader := None; b_failed := b_failed x; b_cur := b_cur x |}
        end
      else
        {| b_idx := b_idx x; b_no := b_no x; b_off := b_off x; b_len := b_len x; b_queued := b_queued x;
           b_stale := b_stale x; b_trans := tr'; b_leader := b_leader x; b_failed := b_failed x; b_cur := b_cur x |}
  | None =>
      {| b_idx := b_idx x; b_no := b_no x; b_off := b_off x; b_len := b_len x; b_queued := b_queued x;
         b_stale := b_stale x; b_trans := tr'; b_leader := None; b_failed := b_failed x; b_cur := b_cur x |}
  end.

Definition set_queued (x : block) (q : list N) : block :=
  {| b_idx := b_idx x; b_no := b_no x; b_off := b_off x; b_len := b_len x; b_queued := q;
     b_stale := b_stale x; b_trans := b_trans x; b_leader := b_leader x; b_failed := b_failed x; b_cur := b_cur x |}.
Definition set_trans (x : block) (tr : list transfer) (ld : option N) : block :=
  {| b_idx := b_idx x; b_no := b_no x; b_off := b_off x; b_len := b_len x; b_queued := b_queued x;
     b_stale := b_stale x; b_trans := tr; b_leader := ld; b_failed := b_failed x; b_cur := b_cur x |}.
Definition set_failed (x : block) (f : list (list N * N)) (c : option N) : block :=
  {| b_idx := b_idx x; b_no := b_no x; b_off := b_off x; b_len := b_len x; b_queued := b_queued x;
     b_stale := b_stale x; b_trans := b_trans x; b_leader := b_leader x; b_failed := f; b_cur := c |}.

Definition with_blocks (s : state) (bl : list block) : state :=
  {| store := store s; completed := completed s; blocks := bl; attempts := attempts s; hashing := hashing s;
     curs := curs s; conns := conns s; pmark := pmark s; haves := haves s; done := done s; failc := failc s |}.
Definition with_curs (s : state) (c : list (N * cur)) : state :=
  {| store := store s; completed := completed s; blocks := blocks s; attempts := attempts s; hashing := hashing s;
     curs := c; conns := conns s; pmark := pmark s; haves := haves s; done := done s; failc := failc s |}.
Definition with_store (s : state) (st : list (list N)) : state :=
  {| store := st; completed := completed s; blocks := blocks s; attempts := attempts s; hashing := hashing s;
     curs := curs s; conns := conns s; pmark := pmark s; haves := haves s; done := done s; failc := failc s |}.
Definition with_hashing (s : state) (h : list N) : state :=
  {| store := store s; completed := completed s; blocks := blocks s; attempts := attempts s; hashing := h;
     curs := curs s; conns := conns s; pmark := pmark s; haves := haves s; done := done s; failc := failc s |}.
Definition with_attempts (s : state) (a : list (N * N)) : state :=
  {| store := store s; completed := completed s; blocks := blocks s; attempts := a; hashing := hashing s;
     curs := curs s; conns := conns s; pmark := pmark s; haves := haves s; done := done s; failc := failc s |}.
Definition with_pmark (s : state) (m : option N) : state :=
  {| store := store s; completed := completed s; blocks := blocks s; attempts := attempts s; hashing := hashing s;
     curs := curs s; conns := conns s; pmark := m; haves := haves s; done := done s; failc := failc s |}.

(* ---------- connection goes away: RequestList::clear ---------- *)
Definition disc (s : state) (p : N) : state :=
  let bl1 := match get_cur s p with
             | Some (CValid i b) => upd_block (blocks s) i b (erase_tr p)
             | _ => blocks s
             end in
  let bl2 := map (fun x => set_queued x (removeN p (b_queued x))) bl1 in
  {| store := store s; completed := completed s; blocks := bl2; attempts := attempts s; hashing := hashing s;
     curs := del_cur (curs s) p; conns := removeN p (conns s); pmark := pmark s; haves := haves s; done := done s; failc := failc s |}.

(* ---------- Block::completed (the leader p finished the block) ---------- *)
Definition invalidate_curs (l : list (N * cur)) (x : block) : list (N * cur) :=
  map (fun c => match snd c with
                | CValid i b =>
                    if is_block i b x then
                      match find_tr (fst c) (b_trans x) with
                      | Some t => if is_leader_t t then c else (fst c, CSkip (t_pos t) (b_len x))
                      | None => c
                      end
                    else c
                | _ => c
                end) l.

Definition complete_block (x : block) : block :=
  {| b_idx := b_idx x; b_no := b_no x; b_off := b_off x; b_len := b_len x; b_queued := [];
     b_stale := b_stale x; b_trans := filter is_leader_t (b_trans x); b_leader := b_leader x; b_failed := b_failed x; b_cur := b_cur x |}.

(* ---------- data for a live transfer ---------- *)
Definition set_pos (p : N) (st : tstate) (pos : N) (l : list transfer) : list transfer :=
  upd_tr p (fun u => {| t_peer := p; t_state := st; t_pos := pos |}) l.

(* after the position of p's transfer in block x of piece i changed: finished? *)
Definition after_data (s : state) (p i b : N) : state :=
  match find_block s i b with
  | Some x =>
      match find_tr p (b_trans x) with
      | Some t =>
          if t_pos t =? b_len x then
            if is_leader_t t then
              (* down_chunk_finished -> RequestList::finished -> TransferList::finished -> Block::completed *)
              let s1 := with_curs s (del_cur (invalidate_curs (curs s) x) p) in
              with_blocks s1 (upd_block (blocks s) i b complete_block)
            else
              (* a follower that reached the end: RequestList::skipped -> Block::release *)
              with_blocks (with_curs s (del_cur (curs s) p)) (upd_block (blocks s) i b (erase_tr p))
          else s
      | None => s
      end
  | None => s
  end.

Definition data_valid (s : state) (p i b : N) (d : list N) : option state :=
  match find_block s i b with
  | None => None
  | Some x =>
      match find_tr p (b_trans x) with
      | None => None
      | Some t =>
          let n := lenN d in
          if (n =? 0) || (b_len x - t_pos t <? n) then None else
          match b_leader x with
          | None => None
          | Some q =>
              if q =? p then
                (* leader: Chunk::from_buffer / direct read into the chunk *)
                let s1 := with_store s (write_store (store s) i (b_off x + t_pos t) d) in
                let s2 := with_blocks s1 (upd_block (blocks s) i b (fun y => set_trans y (set_pos p TLeader (t_pos t + n) (b_trans y)) (b_leader y))) in
                Some (after_data s2 p i b)
              else
                let lp := leader_pos x in
                if lp <? t_pos t then None else
                let cmp := N.min n (lp - t_pos t) in
                if negb (list_eqb (slice (piece s i) (b_off x + t_pos t) cmp) (firstn (N.to_nat cmp) d)) then
                  (* RequestList::transfer_dissimilar *)
                  let s1 := with_blocks s (upd_block (blocks s) i b (fun y => set_trans y (set_pos p TErased 0 (b_trans y)) (b_leader y))) in
                  let pos' := t_pos t + n in
                  Some (with_curs s1 (if pos' =? b_len x then del_cur (curs s) p else set_cur (curs s) p (CSkip pos' (b_len x))))
                else if cmp =? n then
                  let s1 := with_blocks s (upd_block (blocks s) i b (fun y => set_trans y (set_pos p TNotLeader (t_pos t + n) (b_trans y)) (b_leader y))) in
                  Some (after_data s1 p i b)
                else
                  (* Block::change_leader, then down_chunk_process for the rest *)
                  let rest := skipn (N.to_nat cmp) d in
                  let s1 := with_store s (write_store (store s) i (b_off x + t_pos t + cmp) rest) in
                  let tr1 := upd_tr q (fun u => {| t_peer := t_peer u; t_state := TNotLeader; t_pos := t_pos u |}) (b_trans x) in
                  let tr2 := set_pos p TLeader (t_pos t + n) tr1 in
                  let s2 := with_blocks s1 (upd_block (blocks s) i b (fun y => set_trans y tr2 (Some p))) in
                  Some (after_data s2 p i b)
          end
      end
  end.

(* ---------- TransferList::hash_failed ---------- *)
Fixpoint find_data (d : list N) (l : list (list N * N)) (k : N) : option N :=
  match l with
  | [] => None
  | e :: l' => if list_eqb (fst e) d then Some k else find_data d l' (k + 1)
  end.
Definition inc_count (l : list (list N * N)) (k : N) : list (list N * N) :=
  upd_nth l (N.to_nat k) (fun e => (fst e, snd e + 1)).
(* reverse_max_element: the LAST entry with the maximal count *)
Fixpoint last_max (l : list (list N * N)) (k : N) (best : option (N * N)) : option (N * N) :=
  match l with
  | [] => best
  | e :: l' =>
      match best with
      | None => last_max l' (k + 1) (Some (k, snd e))
      | Some (bk, bc) => if bc <=? snd e then last_max l' (k + 1) (Some (k, snd e)) else last_max l' (k + 1) best
      end
  end.

Definition update_failed_block (pc : list N) (x : block) : block :=
  let d := slice pc (b_off x) (b_len x) in
  match find_data d (b_failed x) 0 with
  | None => set_failed x (b_failed x ++ [(d, 1)]) (Some (lenN (b_failed x)))
  | Some k => set_failed x (inc_count (b_failed x) k) (Some k)
  end.

(* retry_most_popular over the blocks of piece i, left to right *)
Fixpoint retry_blocks (i : N) (bl : list block) (pc : list N) : list block * list N :=
  match bl with
  | [] => ([], pc)
  | x :: bl' =>
      if b_idx x =? i then
        match last_max (b_failed x) 0 None with
        | Some (k, _) =>
            if match b_cur x with Some c => c =? k | None => false end
            then let (r, pc') := retry_blocks i bl' pc in (x :: r, pc')
            else
              let d := fst (nth (N.to_nat k) (b_failed x) ([], 0)) in
              let (r, pc') := retry_blocks i bl' (splice pc (N.to_nat (b_off x)) d) in
              (set_failed x (b_failed x) (Some k) :: r, pc')
        | None => let (r, pc') := retry_blocks i bl' pc in (x :: r, pc')
        end
      else let (r, pc') := retry_blocks i bl' pc in (x :: r, pc')
  end.

Definition fail_leader (x : block) : block :=
  {| b_idx := b_idx x; b_no := b_no x; b_off := b_off x; b_len := b_len x; b_queued := b_queued x;
     b_stale := b_stale x ++ b_trans x; b_trans := []; b_leader := None; b_failed := b_failed x; b_cur := None |}.

Definition hash_failed (s : state) (i : N) : state :=
  if attempt_of s i =? 0 then
    let bl1 := upd_piece_blocks (blocks s) i (update_failed_block (piece s i)) in
    let (bl2, pc) := retry_blocks i bl1 (piece s i) in
    {| store := upd_nth (store s) (N.to_nat i) (fun _ => pc); completed := completed s; blocks := bl2;
       attempts := set_attempt (attempts s) i 1; hashing := hashing s; curs := curs s; conns := conns s;
       pmark := pmark s; haves := haves s; done := done s; failc := failc s |}
  else
    (* BlockList::do_all_failed *)
    {| store := store s; completed := completed s; blocks := upd_piece_blocks (blocks s) i fail_leader;
       attempts := set_attempt (attempts s) i 0; hashing := hashing s; curs := curs s; conns := conns s;
       pmark := pmark s; haves := haves s; done := done s; failc := failc s |}.

Definition all_completed (s : state) : bool :=
  forallb (fun k => memN (N.of_nat k) (completed s)) (seq 0 (N.to_nat npieces)).

Definition failc_of (s : state) (p : N) : N :=
  match find (fun a => fst a =? p) (failc s) with Some a => snd a | None => 0 end.
Definition max_failed : N := Params.c01_max_failed.

(* DownloadMain::receive_corrupt_chunk: count, and erase the connection above max_failed *)
Definition corrupt (s : state) (p : N) : state :=
  let c := failc_of s p + 1 in
  let s1 := {| store := store s; completed := completed s; blocks := blocks s; attempts := attempts s; hashing := hashing s;
               curs := curs s; conns := conns s; pmark := pmark s; haves := haves s; done := done s;
               failc := (p, c) :: filter (fun a => negb (fst a =? p)) (failc s) |} in
  if (max_failed <? c) && memN p (conns s) then disc s1 p else s1.

(* Block::insert's refusal (beyond find_queued): a transfer of this peer in m_transfers *)
Definition ins_refused (p : N) (x : block) : bool :=
  has_tr p (b_trans x) || (negb repaired && has_tr p (b_stale x)).

(* ---------- the acceptor ---------- *)
Definition accept (s : state) (e : event) : option state :=
  match pmark s, e with
  | Some m, EMark i =>
      if m =? i then
        Some {| store := store s; completed := i :: completed s;
                blocks := filter (fun x => negb (b_idx x =? i)) (blocks s);
                attempts := filter (fun a => negb (fst a =? i)) (attempts s);
                hashing := hashing s; curs := curs s; conns := conns s; pmark := None; haves := haves s; done := done s; failc := failc s |}
      else None
  | Some _, _ => None
  | None, EMark _ => None
  | None, EConn p =>
      (* HandshakeManager / Handshake::prepare_peer_info refuse a peer whose failed counter exceeds max_failed *)
      if memN p (conns s) || (max_failed <? failc_of s p) then None else
      Some {| store := store s; completed := completed s; blocks := blocks s; attempts := attempts s; hashing := hashing s;
              curs := curs s; conns := p :: conns s; pmark := None; haves := haves s; done := done s; failc := failc s |}
  | None, EDisc p => if memN p (conns s) then Some (disc s p) else Some s
  | None, ENew i =>
      if (i <? npieces) && negb (listed s i) && negb (memN i (completed s)) then
        Some (with_attempts (with_blocks s (blocks s ++ mk_blocks i)) (attempts s ++ [(i, 0)]))
      else None
  | None, EIns p i b =>
      match find_block s i b with
      | Some x =>
          if memN p (conns s) && negb (finished x) && negb (memN p (b_queued x)) && negb (ins_refused p x) then
            Some (with_blocks s (upd_block (blocks s) i b (fun y => set_queued y (b_queued y ++ [p]))))
          else None
      | None => None
      end
  | None, ERel p i b =>
      match find_block s i b with
      | Some x =>
          if memN p (b_queued x) then
            Some (with_blocks s (upd_block (blocks s) i b (fun y => set_queued y (removeN p (b_queued y)))))
          else None
      | None => None
      end
  | None, EPiece p i off len start =>
      if negb (memN p (conns s)) then None else
      match get_cur s p with
      | Some _ => None        (* a PIECE header is only parsed between blocks *)
      | None =>
          if start then
            match find_block s i (off / bs) with
            | Some x =>
                if (b_off x =? off) && (b_len x =? len) && memN p (b_queued x) && negb (has_tr p (b_trans x)) then
                  (* Block::transfering *)
                  let st := match b_leader x with None => TLeader | Some _ => TNotLeader end in
                  let ld := match b_leader x with None => Some p | Some q => Some q end in
                  let s1 := with_blocks s (upd_block (blocks s) i (off / bs)
                               (fun y => set_trans (set_queued y (removeN p (b_queued y)))
                                                   (b_trans y ++ [ {| t_peer := p; t_state := st; t_pos := 0 |} ]) ld)) in
                  Some (with_curs s1 (set_cur (curs s) p (CValid i (off / bs))))
                else None
            | None => None
            end
          else
            if len =? 0 then Some s else Some (with_curs s (set_cur (curs s) p (CSkip 0 len)))
      end
  | None, EData p d =>
      match get_cur s p with
      | None => None
      | Some (CSkip pos len) =>
          let n := lenN d in
          if (n =? 0) || (len - pos <? n) then None else
          if pos + n =? len then Some (with_curs s (del_cur (curs s) p))
          else Some (with_curs s (set_cur (curs s) p (CSkip (pos + n) len)))
      | Some (CValid i b) => data_valid s p i b d
      end
  | None, EChoke p => if memN p (conns s) then Some s else None
  | None, EUnchoke p => if memN p (conns s) then Some s else None
  | None, EHashQueued i =>
      if listed s i && all_finished s i && negb (memN i (hashing s)) then Some (with_hashing s (i :: hashing s)) else None
  | None, EHashDone i ok =>
      if memN i (hashing s) && Bool.eqb ok (list_eqb (H (piece s i)) (expected i)) then
        let s1 := with_hashing s (removeN i (hashing s)) in
        if ok then Some (with_pmark s1 (Some i)) else Some (hash_failed s1 i)
      else None
  | None, EHashCancel i => if memN i (hashing s) then Some (with_hashing s (removeN i (hashing s))) else None
  | None, EHave i =>
      if memN i (completed s) && negb (memN i (haves s)) then
        Some {| store := store s; completed := completed s; blocks := blocks s; attempts := attempts s; hashing := hashing s;
                curs := curs s; conns := conns s; pmark := None; haves := i :: haves s; done := done s; failc := failc s |}
      else None
  | None, EDone =>
      if all_completed s && negb (done s) then
        Some {| store := store s; completed := completed s; blocks := blocks s; attempts := attempts s; hashing := hashing s;
                curs := curs s; conns := conns s; pmark := None; haves := haves s; done := true; failc := failc s |}
      else None
  | None, EProbe i d => if list_eqb (H (piece s i)) d then Some s else None
  | None, ECorrupt p => Some (corrupt s p)
  end.

Fixpoint run (s : state) (tr : list event) : option state :=
  match tr with
  | [] => Some s
  | e :: tr' => match accept s e with Some s' => run s' tr' | None => None end
  end.

(* initial state: nothing listed; [st0] is what the files contain after the initial hash check, [c0] what it verified *)
Definition init (st0 : list (list N)) (c0 : list N) : state :=
  {| store := st0; completed := c0; blocks := []; attempts := []; hashing := []; curs := []; conns := [];
     pmark := None; haves := []; done := false; failc := [] |}.

(* ---------- the internal_error checks of the modelled functions, as a predicate on (state, event) ---------- *)
Definition fatal (s : state) (e : event) : bool :=
  match e with
  | EData p d =>
      match get_cur s p with
      | Some (CValid i b) =>
          match find_block s i b with
          | Some x =>
              match find_tr p (b_trans x), b_leader x with
              | Some t, Some q =>
                  if q =? p then false
                  else
                    (* down_chunk_skip_process: "block is not transferring, yet we have non-leaders" /
                       "transfer is past the Block's position" *)
                    finished x || (leader_pos x <? t_pos t)
              | Some _, None => true
              | None, _ => true
              end
          | None => true
          end
      | _ => false
      end
  | EMark i => memN i (completed s)                     (* FileList::mark_completed: already finished *)
              || negb (all_finished s i)                (* TransferList::hash_succeeded: finished blocks *)
  | EHashDone i false => negb (listed s i) || negb (all_finished s i)   (* TransferList::hash_failed *)
  | ENew i => listed s i                                (* TransferList::insert: already delegated *)
  | _ => false
  end.

End Model.
