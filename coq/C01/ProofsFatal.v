(* C01 — follower / leader invariants: unique peers per block, positions inside the block, queued empty when finished,
   the leader has a LEADER entry, every follower is behind an unfinished leader, and the transfer a connection is
   receiving is a live entry of its block.  Consequence: the internal_error checks of down_chunk_skip_process and
   Block::completed (Model.fatal on Data events) cannot fire. *)
From Coq Require Import NArith List Bool Lia Permutation.
From LTV.C01 Require Import ParamsGen Model Proofs ProofsInv ProofsHash.
Import ListNotations.
Open Scope N_scope.

Lemma perm_partition : forall {A} (f : A -> bool) l, Permutation (filter f l ++ filter (fun x => negb (f x)) l) l.
Proof.
  intros A f l. induction l as [|a l IH]; simpl; [constructor|].
  destruct (f a); simpl.
  - constructor. exact IH.
  - apply Permutation_sym. apply Permutation_cons_app. apply Permutation_sym. exact IH.
Qed.

Lemma take_leaders_all : forall l a b, take_leaders l = (a, b) -> forall t, In t a -> is_leader_t t = true.
Proof.
  induction l as [|u l IH]; intros a b E t Hin; simpl in E.
  - inversion E; subst. destruct Hin.
  - destruct (is_leader_t u) eqn:L.
    + destruct (take_leaders l) as [a' b'] eqn:E2. inversion E; subst. destruct Hin as [<-|Hin]; [exact L | eapply IH; eauto].
    + inversion E; subst. destruct Hin.
Qed.

Lemma max_pos_tr_spec : forall l best t, max_pos_tr l best = Some t ->
  (In t l \/ best = Some t) /\ (forall u, In u l -> t_pos u <= t_pos t) /\ (forall b, best = Some b -> t_pos b <= t_pos t).
Proof.
  induction l as [|a l IH]; intros best t E; simpl in E.
  - subst. repeat split; auto. + intros u []. + intros b Eb. inversion Eb. lia.
  - destruct best as [b|].
    + destruct (t_pos b <? t_pos a) eqn:C.
      * apply IH in E. destruct E as (E1 & E2 & E3). apply N.ltb_lt in C. repeat split.
        -- destruct E1 as [E1|E1]; [left; right; exact E1 | inversion E1; subst; left; left; reflexivity].
        -- intros u [<-|Hu]; [apply E3; reflexivity | apply E2; exact Hu].
        -- intros b0 Eb. inversion Eb; subst. specialize (E3 a eq_refl). lia.
      * apply IH in E. destruct E as (E1 & E2 & E3). apply N.ltb_ge in C. repeat split.
        -- destruct E1 as [E1|E1]; [left; right; exact E1 | right; exact E1].
        -- intros u [<-|Hu]; [specialize (E3 b eq_refl); lia | apply E2; exact Hu].
        -- exact E3.
    + apply IH in E. destruct E as (E1 & E2 & E3). repeat split.
      * destruct E1 as [E1|E1]; [left; right; exact E1 | inversion E1; subst; left; left; reflexivity].
      * intros u [<-|Hu]; [apply E3; reflexivity | apply E2; exact Hu].
      * intros b Eb. discriminate.
Qed.

Lemma max_pos_tr_none : forall l, max_pos_tr l None = None -> l = [].
Proof.
  intros [|a l] E; [reflexivity|]. simpl in E. exfalso.
  assert (G : forall l b, max_pos_tr l (Some b) <> None).
  { induction l0 as [|u l0 IH]; intros b; simpl; [discriminate|]. destruct (t_pos b <? t_pos u); apply IH. }
  eapply G. exact E.
Qed.

(* per-block invariant *)
Definition BI (x : block) : Prop :=
  NoDup (map t_peer (b_trans x))
  /\ (forall t, In t (b_trans x) -> t_pos t <= b_len x)
  /\ (finished x = true -> b_queued x = [])
  /\ (forall q, b_leader x = Some q -> exists t, In t (b_trans x) /\ t_peer t = q /\ t_state t = TLeader)
  /\ (forall t, In t (b_trans x) -> t_state t = TNotLeader ->
        exists q tq, b_leader x = Some q /\ q <> t_peer t /\ In tq (b_trans x) /\ t_peer tq = q /\
                     t_pos tq < b_len x /\ t_pos t <= t_pos tq).

(* the transfer connection p is receiving is a live entry of block x *)
Definition CB (x : block) (p : N) : Prop :=
  exists t, In t (b_trans x) /\ t_peer t = p /\ ((b_leader x = Some p /\ t_state t = TLeader) \/ t_state t = TNotLeader).

Definition CV (s : state) : Prop :=
  forall p i b, In (p, CValid i b) (curs s) -> exists x, find_block s i b = Some x /\ CB x p.

Definition K (s : state) : Prop := (forall x, In x (blocks s) -> BI x) /\ CV s.

Lemma BI_leader : forall x q tq, BI x -> b_leader x = Some q -> In tq (b_trans x) -> t_peer tq = q ->
  find_tr q (b_trans x) = Some tq /\ leader_pos x = t_pos tq /\ finished x = (t_pos tq =? b_len x).
Proof.
  intros x q tq (U & _) L Hin E. assert (F : find_tr q (b_trans x) = Some tq) by (apply find_tr_iff; auto).
  unfold leader_pos, finished. rewrite L, F. auto.
Qed.

Lemma BI_follower_unfinished : forall x t, BI x -> In t (b_trans x) -> t_state t = TNotLeader ->
  finished x = false /\ t_pos t <= leader_pos x /\ exists q, b_leader x = Some q /\ q <> t_peer t.
Proof.
  intros x t B Hin St. pose proof B as (_ & _ & _ & _ & NL).
  destruct (NL t Hin St) as (q & tq & L & Hne & Htq & Eq & Lt & Le).
  destruct (BI_leader x q tq B L Htq Eq) as (_ & E1 & E2). rewrite E1, E2. repeat split; auto.
  - apply N.eqb_neq. lia.
  - exists q. auto.
Qed.

(* what fatal needs on a Data event *)
Lemma CB_not_fatal : forall x p, BI x -> CB x p ->
  exists t q, find_tr p (b_trans x) = Some t /\ b_leader x = Some q /\
              (q = p \/ (finished x = false /\ t_pos t <= leader_pos x)).
Proof.
  intros x p B (t & Hin & Ep & [[L St]|St]).
  - exists t, p. repeat split; auto. apply find_tr_iff; [apply B | auto].
  - destruct (BI_follower_unfinished x t B Hin St) as (F & Le & q & L & Hne).
    exists t, q. repeat split; auto. apply find_tr_iff; [apply B | auto].
Qed.

(* ---------- set_pos ---------- *)
Lemma peers_set_pos : forall p st pos l, map t_peer (set_pos p st pos l) = map t_peer l.
Proof.
  intros. unfold set_pos, upd_tr. rewrite map_map. apply map_ext. intro t. destruct (t_peer t =? p) eqn:E; [|reflexivity].
  apply N.eqb_eq in E. simpl. auto.
Qed.
Lemma peers_upd_state : forall q st l, map t_peer (upd_tr q (fun u => {| t_peer := t_peer u; t_state := st; t_pos := t_pos u |}) l) = map t_peer l.
Proof. intros. unfold upd_tr. rewrite map_map. apply map_ext. intro t. destruct (t_peer t =? q); reflexivity. Qed.

Lemma in_set_pos : forall p st pos l t', In t' (set_pos p st pos l) ->
  (t' = {| t_peer := p; t_state := st; t_pos := pos |} /\ exists u, In u l /\ t_peer u = p) \/ (In t' l /\ t_peer t' <> p).
Proof.
  intros p st pos l t' Hin. unfold set_pos in Hin. apply in_upd_tr in Hin. destruct Hin as (u & Hu & E).
  destruct (t_peer u =? p) eqn:Eq; subst t'.
  - left. split; [reflexivity|]. exists u. apply N.eqb_eq in Eq. auto.
  - right. apply N.eqb_neq in Eq. auto.
Qed.
Lemma in_set_pos_intro_p : forall p st pos l u, In u l -> t_peer u = p -> In {| t_peer := p; t_state := st; t_pos := pos |} (set_pos p st pos l).
Proof.
  intros p st pos l u Hu E. unfold set_pos. pose proof (in_upd_tr_intro p (fun _ => {| t_peer := p; t_state := st; t_pos := pos |}) l u Hu) as X.
  rewrite E, N.eqb_refl in X. exact X.
Qed.
Lemma in_set_pos_intro_o : forall p st pos l u, In u l -> t_peer u <> p -> In u (set_pos p st pos l).
Proof.
  intros p st pos l u Hu E. unfold set_pos. pose proof (in_upd_tr_intro p (fun _ => {| t_peer := p; t_state := st; t_pos := pos |}) l u Hu) as X.
  apply N.eqb_neq in E. rewrite E in X. exact X.
Qed.
Lemma in_upd_state : forall q st l t', In t' (upd_tr q (fun u => {| t_peer := t_peer u; t_state := st; t_pos := t_pos u |}) l) ->
  (exists u, In u l /\ t_peer u = q /\ t' = {| t_peer := q; t_state := st; t_pos := t_pos u |}) \/ (In t' l /\ t_peer t' <> q).
Proof.
  intros q st l t' Hin. apply in_upd_tr in Hin. destruct Hin as (u & Hu & E). destruct (t_peer u =? q) eqn:Eq; subst t'.
  - left. apply N.eqb_eq in Eq. exists u. subst q. auto.
  - right. apply N.eqb_neq in Eq. auto.
Qed.

(* ---------- block functions preserve BI ---------- *)
Lemma BI_set_queued : forall x q, BI x -> (finished x = true -> q = []) -> BI (set_queued x q).
Proof. intros x q (U & P & Q & LD & NL) Hq. repeat split; auto. Qed.
Lemma BI_set_failed : forall x f c, BI x -> BI (set_failed x f c).
Proof. intros x f c (U & P & Q & LD & NL). repeat split; auto. Qed.

Lemma BI_queued_unfinished : forall x p, BI x -> In p (b_queued x) -> finished x = false.
Proof. intros x p (_ & _ & Q & _) Hin. destruct (finished x); [|reflexivity]. rewrite (Q eq_refl) in Hin. destruct Hin. Qed.

(* Block::completed *)
Lemma BI_complete : forall y,
  NoDup (map t_peer (b_trans y)) -> (forall t, In t (b_trans y) -> t_pos t <= b_len y) ->
  (forall q, b_leader y = Some q -> exists t, In t (b_trans y) /\ t_peer t = q /\ t_state t = TLeader) ->
  BI (complete_block y).
Proof.
  intros y U P LD. unfold BI, complete_block. cbn [b_trans b_leader b_queued b_len]. repeat split.
  - apply NoDup_map_filter. exact U.
  - intros t Ht. apply filter_In in Ht. apply P. apply Ht.
  - intros q L. destruct (LD q L) as (t & Ht & E & St). exists t. repeat split; auto. apply filter_In. split; [exact Ht|].
    unfold is_leader_t. rewrite St. reflexivity.
  - intros t Ht St. apply filter_In in Ht. destruct Ht as [_ Ht]. unfold is_leader_t in Ht. rewrite St in Ht. discriminate.
Qed.

(* Block::transfering *)
Lemma BI_start : forall x p, BI x -> 0 < b_len x -> In p (b_queued x) -> has_tr p (b_trans x) = false ->
  BI (set_trans (set_queued x (removeN p (b_queued x)))
        (b_trans x ++ [ {| t_peer := p; t_state := match b_leader x with None => TLeader | Some _ => TNotLeader end; t_pos := 0 |} ])
        (match b_leader x with None => Some p | Some q => Some q end)).
Proof.
  intros x p B Hlen Hq Hh. pose proof (BI_queued_unfinished x p B Hq) as Fx. pose proof B as (U & P & Q & LD & NL).
  assert (Hp : forall t, In t (b_trans x) -> t_peer t <> p) by (intros t Ht; eapply has_tr_false; eassumption).
  unfold BI. cbn [b_trans b_leader b_queued b_len set_trans set_queued]. repeat split.
  - rewrite map_app. simpl. apply NoDup_app_intro; [exact U | constructor; [intros []|constructor]|].
    intros k H1 [<-|[]]. apply in_map_iff in H1. destruct H1 as (t & E & Ht). eapply Hp; eassumption.
  - intros t Ht. apply in_app_or in Ht. destruct Ht as [Ht|[<-|[]]]; [apply P; exact Ht | simpl; lia].
  - intro F. exfalso. unfold finished in F. cbn [b_trans b_leader b_len set_trans set_queued] in F.
    destruct (b_leader x) as [q|] eqn:L.
    + destruct (LD q eq_refl) as (tq & Htq & Eq & _). destruct (BI_leader x q tq B L Htq Eq) as (Ff & _ & E2).
      rewrite (find_tr_app_some _ _ _ _ Ff) in F. congruence.
    + assert (Fn : find_tr p (b_trans x ++ [{| t_peer := p; t_state := TLeader; t_pos := 0 |}]) = Some {| t_peer := p; t_state := TLeader; t_pos := 0 |}).
      { apply find_tr_iff; [rewrite map_app; simpl; apply NoDup_app_intro; [exact U | constructor; [intros []|constructor]|];
          intros k H1 [<-|[]]; apply in_map_iff in H1; destruct H1 as (t & E & Ht); eapply Hp; eassumption|].
        split; [apply in_or_app; right; left; reflexivity | reflexivity]. }
      rewrite Fn in F. cbn [t_pos] in F. apply N.eqb_eq in F. lia.
  - intros q L. destruct (b_leader x) as [q0|] eqn:L0.
    + inversion L; subst q0. destruct (LD q eq_refl) as (t & Ht & E & St). exists t. repeat split; auto. apply in_or_app. left. exact Ht.
    + inversion L; subst q. exists {| t_peer := p; t_state := TLeader; t_pos := 0 |}. repeat split; auto. apply in_or_app. right. left. reflexivity.
  - intros t Ht St. apply in_app_or in Ht. destruct Ht as [Ht|[<-|[]]].
    + destruct (NL t Ht St) as (q & tq & L & Hne & Htq & Eq & Lt & Le). rewrite L. exists q, tq. repeat split; auto. apply in_or_app. left. exact Htq.
    + simpl in St. destruct (b_leader x) as [q|] eqn:L; [|discriminate].
      destruct (LD q eq_refl) as (tq & Htq & Eq & _). destruct (BI_leader x q tq B L Htq Eq) as (_ & _ & E2).
      exists q, tq. simpl. repeat split; auto.
      * intro X. apply (Hp tq Htq). congruence.
      * apply in_or_app. left. exact Htq.
      * rewrite E2 in Fx. apply N.eqb_neq in Fx. specialize (P tq Htq). lia.
      * lia.
Qed.
