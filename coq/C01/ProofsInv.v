(* C01 — structural invariants of the mechanism automaton: unique block keys, positive block lengths, the transfer a
   connection is receiving is unfinished (its position is below the block length), and every block of a piece that
   is being hashed / marked is finished.  Consequences: a piece that is being hashed accepts no write
   (hashing_never_written) and the "all blocks finished" internal_error checks of hash_succeeded / hash_failed cannot fire. *)
From Coq Require Import NArith List Bool Lia.
From LTV.C01 Require Import ParamsGen Model Proofs.
Import ListNotations.
Open Scope N_scope.

(* ---------- transfers ---------- *)
Lemma find_tr_in : forall p l t, find_tr p l = Some t -> In t l /\ t_peer t = p.
Proof. unfold find_tr. intros p l t E. apply find_some in E. destruct E as [A B]. apply N.eqb_eq in B. auto. Qed.

Lemma find_tr_iff : forall l p t, NoDup (map t_peer l) -> (find_tr p l = Some t <-> In t l /\ t_peer t = p).
Proof.
  induction l as [|a l IH]; intros p t ND; simpl; split.
  - discriminate.
  - intros [[] _].
  - inversion ND as [|? ? Hn ND']; subst. destruct (t_peer a =? p) eqn:E.
    + intro X; inversion X; subst. apply N.eqb_eq in E. auto.
    + intro X. apply IH in X; [|exact ND']. tauto.
  - inversion ND as [|? ? Hn ND']; subst. intros [[<-|Hin] Ep].
    + subst. rewrite N.eqb_refl. reflexivity.
    + destruct (t_peer a =? p) eqn:E.
      * apply N.eqb_eq in E. exfalso. apply Hn. rewrite E, <- Ep. apply in_map. exact Hin.
      * apply IH; auto.
Qed.

Lemma map_peer_upd_tr : forall p f l, (forall t, t_peer (f t) = t_peer t) -> map t_peer (upd_tr p f l) = map t_peer l.
Proof. intros p f l Hf. unfold upd_tr. rewrite map_map. apply map_ext. intro t. destruct (t_peer t =? p); [apply Hf | reflexivity]. Qed.

Lemma NoDup_map_filter : forall {A B} (g : A -> B) (P : A -> bool) l, NoDup (map g l) -> NoDup (map g (filter P l)).
Proof.
  induction l as [|a l IH]; simpl; intro ND; [constructor|]. inversion ND as [|? ? Hn ND']; subst.
  destruct (P a); simpl; [constructor|]; auto. intro Hin. apply Hn. apply in_map_iff in Hin. destruct Hin as [y [E Hy]].
  apply filter_In in Hy. rewrite <- E. apply in_map. apply Hy.
Qed.

Lemma in_upd_tr : forall p f l t, In t (upd_tr p f l) -> exists u, In u l /\ t = (if t_peer u =? p then f u else u).
Proof. unfold upd_tr. intros p f l t Hin. apply in_map_iff in Hin. destruct Hin as [u [E Hu]]. exists u. auto. Qed.

Lemma in_upd_tr_intro : forall p f l u, In u l -> In (if t_peer u =? p then f u else u) (upd_tr p f l).
Proof. unfold upd_tr. intros. apply in_map_iff. exists u. auto. Qed.

(* ---------- blocks ---------- *)
Definition key (x : block) : N * N := (b_idx x, b_no x).

Lemma is_block_key : forall i b x y, key x = key y -> is_block i b x = is_block i b y.
Proof. unfold key, is_block. intros i b x y E. inversion E. reflexivity. Qed.

Lemma find_map_key : forall (g : block -> block) i b l, (forall x, key (g x) = key x) ->
  find (is_block i b) (map g l) = option_map g (find (is_block i b) l).
Proof.
  intros g i b l Hg. induction l as [|a l IH]; simpl; [reflexivity|].
  rewrite (is_block_key i b (g a) a (Hg a)). destruct (is_block i b a); [reflexivity | exact IH].
Qed.

Lemma find_block_unique : forall l x, NoDup (map key l) -> In x l -> find (is_block (b_idx x) (b_no x)) l = Some x.
Proof.
  induction l as [|a l IH]; intros x ND Hin; [destruct Hin|]. inversion ND as [|? ? Hn ND']; subst. simpl.
  destruct Hin as [<-|Hin].
  - unfold is_block. rewrite !N.eqb_refl. reflexivity.
  - destruct (is_block (b_idx x) (b_no x) a) eqn:E.
    + exfalso. apply Hn. unfold is_block in E. apply andb_true_iff in E. destruct E as [E1 E2]. apply N.eqb_eq in E1. apply N.eqb_eq in E2.
      replace (key a) with (key x) by (unfold key; congruence). apply in_map. exact Hin.
    + apply IH; auto.
Qed.

Lemma finished_queued : forall x q, finished (set_queued x q) = finished x. Proof. reflexivity. Qed.
Lemma finished_failed : forall x f c, finished (set_failed x f c) = finished x. Proof. reflexivity. Qed.


Lemma find_tr_upd_other : forall p q f l, q <> p -> (forall u, t_peer u = p -> t_peer (f u) = p) ->
  find_tr q (upd_tr p f l) = find_tr q l.
Proof.
  intros p q f l Hne Hf. unfold find_tr, upd_tr. induction l as [|a l IH]; simpl; [reflexivity|].
  destruct (t_peer a =? p) eqn:E.
  - apply N.eqb_eq in E. rewrite (Hf a E). destruct (p =? q) eqn:E2; [apply N.eqb_eq in E2; congruence|].
    rewrite E. rewrite E2. exact IH.
  - destruct (t_peer a =? q); [reflexivity | exact IH].
Qed.

Lemma find_tr_rm_other : forall p q l, q <> p -> find_tr q (rm_tr p l) = find_tr q l.
Proof.
  intros p q l Hne. unfold find_tr, rm_tr. induction l as [|a l IH]; simpl; [reflexivity|].
  destruct (t_peer a =? p) eqn:E; simpl.
  - apply N.eqb_eq in E. destruct (t_peer a =? q) eqn:E2; [apply N.eqb_eq in E2; congruence | exact IH].
  - destruct (t_peer a =? q); [reflexivity | exact IH].
Qed.

(* entries of l' that do not belong to peer p come from entries of l with the same peer and the same position *)
Definition ents (p : N) (l l' : list transfer) : Prop :=
  forall t', In t' l' -> t_peer t' = p \/ exists u, In u l /\ t_peer u = t_peer t' /\ t_pos u = t_pos t'.

Lemma ents_refl : forall p l, ents p l l.
Proof. intros p l t' Ht. right. exists t'. auto. Qed.
Lemma ents_trans : forall p l1 l2 l3, ents p l1 l2 -> ents p l2 l3 -> ents p l1 l3.
Proof.
  intros p l1 l2 l3 A B t' Ht. destruct (B t' Ht) as [E|(u & Hu & E1 & E2)]; [left; exact E|].
  destruct (A u Hu) as [E|(v & Hv & E3 & E4)]; [left; congruence|]. right. exists v. repeat split; auto; congruence.
Qed.
Lemma ents_filter : forall p P l, ents p l (filter P l).
Proof. intros p P l t' Ht. apply filter_In in Ht. right. exists t'. tauto. Qed.
Lemma ents_sub : forall p l l', (forall t, In t l' -> In t l) -> ents p l l'.
Proof. intros p l l' S t' Ht. right. exists t'. auto. Qed.
(* updating the entries of peer q: the position is kept, or q is the acting peer *)
Lemma ents_upd : forall p q f l, (forall u, t_peer u = q -> t_peer (f u) = q /\ (q = p \/ t_pos (f u) = t_pos u)) -> ents p l (upd_tr q f l).
Proof.
  intros p q f l Hf t' Ht. apply in_upd_tr in Ht. destruct Ht as (u & Hu & E).
  destruct (t_peer u =? q) eqn:Eq; subst t'.
  - apply N.eqb_eq in Eq. destruct (Hf u Eq) as [A [B|B]].
    + left. congruence.
    + right. exists u. repeat split; auto; congruence.
  - right. exists u. auto.
Qed.
Lemma ents_app_new : forall p l a, t_peer a = p -> ents p l (l ++ [a]).
Proof. intros p l a E t' Ht. apply in_app_or in Ht. destruct Ht as [Ht|[<-|[]]]; [right; exists t'; auto | left; exact E]. Qed.

Lemma take_leaders_app : forall l a b, take_leaders l = (a, b) -> l = a ++ b.
Proof.
  induction l as [|t l IH]; intros a b E; simpl in E.
  - inversion E. reflexivity.
  - destruct (is_leader_t t).
    + destruct (take_leaders l) as [a' b'] eqn:E2. inversion E; subst. simpl. f_equal. apply IH. reflexivity.
    + inversion E. reflexivity.
Qed.

Lemma erase_tr_facts : forall p x,
  key (erase_tr p x) = key x /\ b_len (erase_tr p x) = b_len x /\ ents p (b_trans x) (b_trans (erase_tr p x)) /\
  (forall q, b_leader x = Some q -> q <> p -> finished (erase_tr p x) = finished x).
Proof.
  intros p x. unfold erase_tr.
  assert (RM : forall t', In t' (rm_tr p (b_trans x)) -> In t' (b_trans x)) by (intros t' Ht; apply filter_In in Ht; apply Ht).
  destruct (b_leader x) as [q|] eqn:L.
  - destruct (q =? p) eqn:E.
    + destruct (take_leaders (rm_tr p (b_trans x))) as [pre rest] eqn:TL. apply take_leaders_app in TL.
      assert (SUB : forall t', In t' (pre ++ filter is_notleader_t rest ++ filter (fun t => negb (is_notleader_t t)) rest) -> In t' (b_trans x)).
      { intros t' Ht. apply RM. rewrite TL. apply in_app_or in Ht. apply in_or_app. destruct Ht as [Ht|Ht]; [left; exact Ht|right].
        apply in_app_or in Ht. destruct Ht as [Ht|Ht]; apply filter_In in Ht; apply Ht. }
      apply N.eqb_eq in E. subst q.
      destruct (max_pos_tr (filter is_notleader_t rest) None) as [t|]; simpl; (repeat split; try reflexivity).
      * eapply ents_trans; [apply ents_sub; exact SUB|]. apply ents_upd. intros u Eu. simpl. auto.
      * intros q Hq Hne. inversion Hq; subst. contradiction.
      * apply ents_sub. intros t' Ht. apply filter_In in Ht. apply SUB. apply Ht.
      * intros q Hq Hne. inversion Hq; subst. contradiction.
    + simpl. repeat split; try reflexivity.
      * apply ents_sub. exact RM.
      * intros q0 Hq Hne. inversion Hq; subst q0. unfold finished. simpl. rewrite L. rewrite find_tr_rm_other; auto.
  - simpl. repeat split; try reflexivity.
    + apply ents_sub. exact RM.
    + intros q Hq. discriminate.
Qed.

Section Inv.

(* the transfer a connection is receiving has not reached the end of its block *)
Definition CL (s : state) : Prop :=
  forall p i b x t, In (p, CValid i b) (curs s) -> In x (blocks s) -> is_block i b x = true ->
                    In t (b_trans x) -> t_peer t = p -> t_pos t < b_len x.

Definition J (s : state) : Prop :=
  NoDup (map key (blocks s))
  /\ (forall x, In x (blocks s) -> 0 < b_len x)
  /\ CL s
  /\ (forall i, In i (hashing s) \/ pmark s = Some i -> all_finished s i = true).

Lemma get_cur_in : forall s p c, get_cur s p = Some c -> In (p, c) (curs s).
Proof.
  unfold get_cur. intros s p c E. destruct (find (fun c0 => fst c0 =? p) (curs s)) as [[p0 c0]|] eqn:F; [|discriminate].
  inversion E; subst. apply find_some in F. destruct F as [Hin E2]. simpl in E2. apply N.eqb_eq in E2. subst. exact Hin.
Qed.
Lemma get_cur_none : forall s p c, get_cur s p = None -> ~ In (p, c) (curs s).
Proof.
  unfold get_cur. intros s p c E Hin. destruct (find (fun c0 => fst c0 =? p) (curs s)) eqn:F; [discriminate|].
  eapply find_none in F; [|exact Hin]. simpl in F. rewrite N.eqb_refl in F. discriminate.
Qed.
Lemma in_del_cur : forall l p q c, In (q, c) (del_cur l p) <-> In (q, c) l /\ q <> p.
Proof. intros. unfold del_cur. rewrite filter_In. simpl. rewrite negb_true_iff, N.eqb_neq. tauto. Qed.
Lemma in_set_cur : forall l p c0 q c, In (q, c) (set_cur l p c0) -> (In (q, c) l /\ q <> p) \/ (q = p /\ c = c0).
Proof.
  unfold set_cur. intros l p c0 q c Hin. apply in_app_or in Hin. destruct Hin as [Hin|[E|[]]].
  - left. apply in_del_cur. exact Hin.
  - inversion E. auto.
Qed.
Lemma all_finished_block : forall s i x, all_finished s i = true -> In x (blocks s) -> b_idx x = i -> finished x = true.
Proof.
  unfold all_finished. intros s i x AF Hin E. rewrite forallb_forall in AF. specialize (AF x Hin).
  rewrite E, N.eqb_refl in AF. exact AF.
Qed.
Lemma all_finished_intro : forall s i, (forall x, In x (blocks s) -> b_idx x = i -> finished x = true) -> all_finished s i = true.
Proof.
  intros s i Hx. unfold all_finished. apply forallb_forall. intros x Hin. destruct (b_idx x =? i) eqn:E; [|reflexivity].
  apply N.eqb_eq in E. simpl. apply Hx; auto.
Qed.

(* with unique keys, upd_block changes exactly the block found by find_block *)
Lemma in_upd_block_unique : forall l i b f x y, NoDup (map key l) -> find (is_block i b) l = Some x ->
  In y (upd_block l i b f) -> y = f x \/ (In y l /\ is_block i b y = false).
Proof.
  intros l i b f x y ND F Hin. unfold upd_block in Hin. apply in_map_iff in Hin. destruct Hin as [z [E Hz]].
  destruct (is_block i b z) eqn:B.
  - left. subst y. f_equal. apply find_some in F. destruct F as [Hx Bx].
    pose proof (find_block_unique l z ND Hz) as U1.
    unfold is_block in B, Bx. apply andb_true_iff in B. destruct B as [B1 B2]. apply andb_true_iff in Bx. destruct Bx as [Bx1 Bx2].
    apply N.eqb_eq in B1. apply N.eqb_eq in B2. apply N.eqb_eq in Bx1. apply N.eqb_eq in Bx2.
    pose proof (find_block_unique l x ND Hx) as U2. rewrite B1, B2 in U1. rewrite Bx1, Bx2 in U2. congruence.
  - right. subst y. auto.
Qed.

Lemma keys_upd_block : forall l i b f, (forall x, key (f x) = key x) -> map key (upd_block l i b f) = map key l.
Proof. intros. unfold upd_block. rewrite map_map. apply map_ext. intro x. destruct (is_block i b x); auto. Qed.

End Inv.

(* ---------- results that need no global invariant ---------- *)
Section Local.
Variable H : list N -> list N.
Variable expected : N -> list N.
Variable npieces : N.
Variable psize : N -> N.
Variable repaired : bool.
Notation accept := (accept H expected npieces psize repaired).
Notation run := (run H expected npieces psize repaired).

(* a Data event that changes the store writes into a block that is NOT finished *)
Lemma dv_write_unfinished : forall s p i b d s' x,
  data_valid s p i b d = Some s' -> find_block s i b = Some x -> finished x = true -> forall j, piece s' j = piece s j.
Proof.
  intros s p i b d s' x E Fx Fin j. unfold data_valid in E. rewrite Fx in E.
  destruct (find_tr p (b_trans x)) as [t|] eqn:Ft; [|discriminate].
  destruct ((lenN d =? 0) || (b_len x - t_pos t <? lenN d)) eqn:G; [discriminate|].
  apply orb_false_iff in G. destruct G as [G1 G2]. apply N.eqb_neq in G1. apply N.ltb_ge in G2.
  destruct (b_leader x) as [q|] eqn:L; [|discriminate].
  destruct (q =? p) eqn:Eq.
  - exfalso. apply N.eqb_eq in Eq. subst q. unfold finished in Fin. rewrite L, Ft in Fin. apply N.eqb_eq in Fin. lia.
  - destruct (leader_pos x <? t_pos t) eqn:LP; [discriminate|]. apply N.ltb_ge in LP.
    destruct (negb (list_eqb _ _)).
    + inversion E; subst s'. reflexivity.
    + destruct (N.min (lenN d) (leader_pos x - t_pos t) =? lenN d) eqn:M.
      * inversion E; subst s'. rewrite after_data_piece. reflexivity.
      * exfalso. apply N.eqb_neq in M. unfold finished in Fin. unfold leader_pos in *. rewrite L in *.
        destruct (find_tr q (b_trans x)) as [tq|]; [|discriminate]. apply N.eqb_eq in Fin. lia.
Qed.

(* "a piece that is being hashed accepts no write", proved part: a Data event never changes a piece whose blocks are
   all finished. MISSING: the invariant that every piece in the hash queue has all blocks finished in every reachable
   state (it needs: unique block keys, and that the transfer a connection is receiving is below its block length, so
   that a disconnect never erases a finished leader; scaffolding for it is in this file: CL, J, erase_tr_facts). *)
Theorem hashing_never_written_partial : forall s p d s' i,
  accept s (EData p d) = Some s' -> all_finished s i = true -> piece s' i = piece s i.
Proof.
  intros s p d s' i A AF. unfold Model.accept in A. destruct (pmark s); [discriminate|].
  destruct (get_cur s p) as [[i0 b|pos len]|]; [| |discriminate].
  - destruct (data_valid_spec _ _ _ _ _ _ A) as (P1 & [x Fx] & _).
    destruct (N.eq_dec i i0) as [->|Hne]; [|apply P1; exact Hne].
    destruct (find_block_some _ _ _ _ Fx) as (Hx & Ex & _).
    eapply dv_write_unfinished; [exact A | exact Fx |]. 
    unfold all_finished in AF. rewrite forallb_forall in AF. specialize (AF x Hx). rewrite Ex, N.eqb_refl in AF. exact AF.
  - destruct (_ || _); [discriminate|]. destruct (pos + lenN d =? len); inversion A; subst s'; reflexivity.
Qed.

(* hostile peers are disconnected after max_failed: no connected peer has a failed counter above max_failed, and a
   peer above it cannot (re)connect *)
Definition FC (s : state) : Prop := forall p, In p (conns s) -> failc_of s p <= max_failed.

Lemma disc_conns : forall s p q, In q (conns (disc s p)) -> In q (conns s) /\ q <> p.
Proof. intros s p q Hin. unfold disc in Hin. simpl in Hin. apply removeN_In in Hin. exact Hin. Qed.
Lemma disc_failc : forall s p, failc (disc s p) = failc s. Proof. reflexivity. Qed.

Lemma after_data_cf : forall s p i b, conns (after_data s p i b) = conns s /\ failc (after_data s p i b) = failc s.
Proof.
  intros. unfold after_data. destruct (find_block s i b) as [x|]; [|auto].
  destruct (find_tr p (b_trans x)) as [t|]; [|auto]. destruct (t_pos t =? b_len x); [|auto]. destruct (is_leader_t t); auto.
Qed.

Lemma data_valid_cf : forall s p i b d s', data_valid s p i b d = Some s' -> conns s' = conns s /\ failc s' = failc s.
Proof.
  intros s p i b d s' E. unfold data_valid in E.
  destruct (find_block s i b) as [x|]; [|discriminate]. destruct (find_tr p (b_trans x)) as [t|]; [|discriminate].
  destruct (_ || _); [discriminate|]. destruct (b_leader x) as [q|]; [|discriminate].
  destruct (q =? p).
  - inversion E; subst s'. match goal with |- context [after_data ?S _ _ _] => destruct (after_data_cf S p i b) as [A1 A2]; rewrite A1, A2; auto end.
  - destruct (leader_pos x <? t_pos t); [discriminate|]. destruct (negb _).
    + inversion E; subst s'. auto.
    + destruct (_ =? _); inversion E; subst s'; match goal with |- context [after_data ?S _ _ _] => destruct (after_data_cf S p i b) as [A1 A2]; rewrite A1, A2; auto end.
Qed.

Theorem fc_step : forall s e s', FC s -> accept s e = Some s' -> FC s'.
Proof.
  intros s e s' F A. unfold Model.accept in A. destruct (pmark s) as [m|].
  - destruct e; try discriminate. destruct (m =? i); [|discriminate]. inversion A; subst s'. exact F.
  - destruct e; try discriminate.
    + destruct (memN p (conns s) || (max_failed <? failc_of s p)) eqn:G; [discriminate|]. inversion A; subst s'.
      apply orb_false_iff in G. destruct G as [_ G]. apply N.ltb_ge in G.
      intros q [<-|Hq]; [exact G | apply F; exact Hq].
    + destruct (memN p (conns s)); inversion A; subst s'; [|exact F].
      intros q Hq. apply disc_conns in Hq. unfold failc_of. rewrite disc_failc. apply F. apply Hq.
    + destruct (_ && _); [|discriminate]. inversion A; subst s'. exact F.
    + destruct (find_block s i b); [|discriminate]. destruct (_ && _); [|discriminate]. inversion A; subst s'. exact F.
    + destruct (find_block s i b); [|discriminate]. destruct (memN p (b_queued b0)); [|discriminate]. inversion A; subst s'. exact F.
    + destruct (negb (memN p (conns s))); [discriminate|]. destruct (get_cur s p); [discriminate|]. destruct start.
      * destruct (find_block s i (off / bs)); [|discriminate]. destruct (_ && _); [|discriminate]. inversion A; subst s'. exact F.
      * destruct (len =? 0); inversion A; subst s'; exact F.
    + destruct (get_cur s p) as [[i b|pos len]|]; [| |discriminate].
      * destruct (data_valid_cf _ _ _ _ _ _ A) as [C1 C2]. intros q Hq. unfold failc_of. rewrite C2. rewrite C1 in Hq. apply F. exact Hq.
      * destruct (_ || _); [discriminate|]. destruct (pos + lenN d =? len); inversion A; subst s'; exact F.
    + destruct (memN p (conns s)); inversion A; subst s'; exact F.
    + destruct (memN p (conns s)); inversion A; subst s'; exact F.
    + destruct (_ && _); [|discriminate]. inversion A; subst s'. exact F.
    + destruct (_ && _); [|discriminate]. destruct ok; inversion A; subst s'; [exact F|].
      intros q Hq. destruct (hash_failed_spec (with_hashing s (removeN i (hashing s))) i) as (_ & _ & _ & _ & _ & _ & F7 & _).
      rewrite F7 in Hq. simpl in Hq. specialize (F q Hq).
      unfold failc_of in *. unfold Model.hash_failed. destruct (attempt_of _ i =? 0); [|exact F].
      destruct (retry_blocks _ _ _). exact F.
    + destruct (memN i (hashing s)); [|discriminate]. inversion A; subst s'. exact F.
    + destruct (_ && _); [|discriminate]. inversion A; subst s'. exact F.
    + destruct (_ && _); [|discriminate]. inversion A; subst s'. exact F.
    + destruct (list_eqb _ _); inversion A; subst s'. exact F.
    + (* ECorrupt: the counter goes up; above max_failed the connection is erased *)
      inversion A; subst s'; clear A. unfold corrupt.
      match goal with |- context [disc ?S p] => set (s1 := S) end.
      assert (F1 : forall q, q <> p -> failc_of s1 q = failc_of s q).
      { intros q Hne. unfold failc_of, s1. simpl. destruct (p =? q) eqn:E; [apply N.eqb_eq in E; congruence|].
        clear - Hne. induction (failc s) as [|a l IH]; simpl; [reflexivity|].
        destruct (fst a =? p) eqn:E1; simpl.
        - apply N.eqb_eq in E1. destruct (fst a =? q) eqn:E2; [apply N.eqb_eq in E2; congruence | exact IH].
        - destruct (fst a =? q); [reflexivity | exact IH]. }
      assert (Fp : failc_of s1 p = failc_of s p + 1) by (unfold failc_of at 1, s1; simpl; rewrite N.eqb_refl; reflexivity).
      destruct ((max_failed <? failc_of s p + 1) && memN p (conns s)) eqn:G.
      * intros q Hq. apply disc_conns in Hq. destruct Hq as [Hq Hne]. unfold failc_of. rewrite disc_failc.
        fold (failc_of s1 q). rewrite (F1 q Hne). apply F. exact Hq.
      * intros q Hq. destruct (N.eq_dec q p) as [->|Hne].
        -- rewrite Fp. apply andb_false_iff in G. destruct G as [G|G]; [apply N.ltb_ge in G; exact G|].
           apply memN_In in Hq. simpl in Hq. congruence.
        -- rewrite (F1 q Hne). apply F. exact Hq.
Qed.

Theorem hostile_disconnected_after_max_failed : forall st0 c0 tr s,
  run (init st0 c0) tr = Some s ->
  (forall p, In p (conns s) -> failc_of s p <= max_failed) /\
  (forall p, max_failed < failc_of s p -> accept s (EConn p) = None).
Proof.
  intros st0 c0 tr s R. split.
  - assert (G : forall tr s0 s1, FC s0 -> run s0 tr = Some s1 -> FC s1).
    { induction tr0 as [|e tr0 IH]; intros s0 s1 F0 R0; simpl in R0; [inversion R0; subst; exact F0|].
      destruct (accept s0 e) as [s2|] eqn:A; [|discriminate]. eapply IH; [|exact R0]. eapply fc_step; eassumption. }
    eapply G; [|exact R]. intros p [].
  - intros p Hp. unfold Model.accept. destruct (pmark s); [reflexivity|].
    apply N.ltb_lt in Hp. rewrite Hp. rewrite orb_true_r. reflexivity.
Qed.
End Local.
