#!/usr/bin/env python3
"""Regenerates MANIFEST.json from the table below. A property is listed under `checks` only when
its check is known to exit 0 on the unchanged tree (READY); the others go to not_applicable with the
reason they are not claimed yet."""
import json, os
HERE = os.path.dirname(os.path.dirname(os.path.abspath(__file__)))

READY = {
 "C07": ("Coq theorems over an executable model of the bencode encoder and the buffer/stream/skip decoders — round trip (all three readers), canonical and injective encoding, totality and in-range reads on arbitrary input, faithful (never wrapped) decoding, decoder agreement — for ALL trees and byte strings; tied to /repo by differential execution of the extracted model and the real codec on generated + exhaustive small inputs under ASan/UBSan, plus an independent python reference oracle on the implementation's outputs",
         "modelled not verified: libstdc++ operator>> number parsing, std::map ordering; static-map reader: totality and memory safety, segment-level faithfulness and raw-reader exactness proved for all key tables with table_ok (the four real tables checked); static-map round trip proved for all tables with table_rt_ok (nested dictionaries of any depth, all leaf kinds; the four real tables checked) with list rows empty, filled list rows by instances only (partial); writer total for all tables with table_ww_ok"),
}
PENDING_REASON = "check not yet registered in this round (being built: see DESIGN.md section 6); nothing is claimed for it"

def main():
    extra = {}
    p = os.path.join(HERE, "tools", "manifest_extra.json")
    if os.path.exists(p):
        extra = json.load(open(p))
    ready = dict(READY)
    for k, v in extra.get("ready", {}).items():
        ready[k] = tuple(v)
    checks = []
    import re
    for pid in sorted(ready):
        text, note = ready[pid]
        # live theorem list (Properties*.v) and the assumptions of the last evidence file
        names = []
        for f in ("Properties.v", "PropertiesSM.v"):
            pv = os.path.join(HERE, "coq", pid, f)
            if os.path.exists(pv):
                t = re.sub(r"\(\*.*?\*\)", "", open(pv).read(), flags=re.S)
                names += re.findall(r"^\s*(?:Theorem|Corollary)\s+(\w+)", t, flags=re.M)
        if names:
            text += " || Theorems currently stated and proved in coq/%s/Properties*.v (%d; names ending in _partial / _refuted say what is not or cannot be proved): %s" % (pid, len(names), ", ".join(names))
        ev = os.path.join(HERE, "evidence", pid + ".json")
        if os.path.exists(ev):
            try:
                a = json.load(open(ev)).get("assumptions", [])
                if a:
                    note += " || assumptions recorded by the last run: " + "; ".join(a)[:1500]
            except Exception:
                pass
        checks.append({
            "property_id": pid,
            "quick_cmd": "./check %s --tier quick" % pid,
            "thorough_cmd": "./check %s --tier thorough" % pid,
            "evidence_file": "evidence/%s.json" % pid,
            "replay_cmd_template": "./check %s --replay {path}" % pid,
            "engine": "ltv",
            "level_claimed": {"category": "proof", "text": text, "design_ref": "DESIGN.md section 6, %s" % pid},
            "level_note": "trusted: Coq 8.16.1 kernel, ExtrOcamlBasic extraction, the hand-written model tied to the code only by the correspondence run (harness, generators, canonicalisation), constants translator gen/params.py; " + note,
            "technique": "Coq proof + model/implementation correspondence",
        })
    na = [{"property_id": "C%02d" % i, "reason": extra.get("na", {}).get("C%02d" % i, PENDING_REASON)}
          for i in range(1, 21) if "C%02d" % i not in ready]
    m = {
        "version": 1,
        "setup_cmd": "./setup.sh",
        "hooks": {"guard": "LT_VERIF",
                  "enable": "lib/ltv.py build_lib(): g++ -std=c++20 -DHAVE_CONFIG_H -DLT_VERIF -DDEBUG ... over /repo/src/**/*.cc (out of tree, into /verif/build)",
                  "baseline_off_cmd": "make -C /repo -j16 && make -C /repo/test check -j8",
                  "source_commits": extra.get("hook_commits", []), "add_only": True},
        "engines": [{"name": "ltv", "path": "lib/ltv.py", "serves_properties": sorted(ready),
                     "kind_free_text": "Coq 8.16 proof development (coq/) + extracted OCaml model drivers + ASan/UBSan C++ harnesses over the real library; differential correspondence + property oracle; constants translator"}],
        "checks": checks,
        "not_applicable": na,
        "notes": "See DESIGN.md. known_findings.txt lists repaired defects (fixed:) and recorded findings (finding:).",
    }
    json.dump(m, open(os.path.join(HERE, "MANIFEST.json"), "w"), indent=1)
    print("checks:", [c["property_id"] for c in checks])

main()
