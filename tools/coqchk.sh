#!/bin/sh
# usage: tools/coqchk.sh [Cxx ...]   — independent re-check (coqchk -o) of every property's compiled Properties.vo
# (and PropertiesSM.vo for C07) with everything it depends on; writes coqchk/<Cxx>.txt (context summary: axioms,
# type-in-type, unsafe fixpoints, assumed positivity).  Needs a built coq/ tree (./setup.sh or any ./check run).
cd "$(dirname "$0")/../coq" || exit 2
mkdir -p ../coqchk
props="$*"
[ -n "$props" ] || props=$(ls -d C[0-9][0-9] | tr '\n' ' ')
rc=0
run_one() {
  p=$1
  mods="LTV.$p.Properties"
  [ -f $p/PropertiesSM.vo ] && mods="$mods LTV.$p.PropertiesSM"
  out=../coqchk/$p.txt
  { echo "# coqchk -o -silent -Q . LTV $mods   (coq $(coqc --version | head -n1 | sed 's/.*version //'))"
    timeout 3000 coqchk -o -silent -Q . LTV $mods 2>&1; echo "exit=$?"; } > $out
  grep -q '^exit=0' $out || { echo "coqchk FAILED for $p (see coqchk/$p.txt)"; return 1; }
  echo "$p: $(grep -A1 '^\* Axioms' $out | tail -n 1 | sed 's/^ *//')"
}
for p in $props; do run_one $p & 
  while [ $(jobs -r | wc -l) -ge 6 ]; do sleep 2; done
done
wait
grep -L '^exit=0' ../coqchk/C*.txt | grep -q . && rc=1
exit $rc
