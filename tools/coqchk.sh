#!/bin/bash
# usage: tools/coqchk.sh [Cxx ...]   — independent re-check (coqchk -o) of every property's compiled Properties.vo
# (and PropertiesSM.vo for C07) with everything it depends on; writes coqchk/<Cxx>.txt (context summary: axioms,
# type-in-type, unsafe fixpoints, assumed positivity).
# Under the build lock the property's .vo files are brought up to date and snapshotted (other checks regenerate
# ParamsGen files concurrently); coqchk then runs on the snapshot without holding the lock.
V="$(cd "$(dirname "$0")/.." && pwd)"
cd "$V/coq" || exit 2
mkdir -p "$V/coqchk" "$V/build/coqchk"
props="$*"
[ -n "$props" ] || props=$(ls -d C[0-9][0-9] | tr '\n' ' ')
run_one() {
  p=$1
  snap="$V/build/coqchk/$p"
  out="$V/coqchk/$p.txt"
  mods="LTV.$p.Properties"
  (
    flock 9
    [ -f Makefile ] && make -k -j8 $p/Properties.vo $( [ -f $p/PropertiesSM.v ] && echo $p/PropertiesSM.vo ) > /dev/null 2>&1
    rm -rf "$snap"; mkdir -p "$snap"
    rsync -a --include='*/' --include='*.vo' --exclude='*' --exclude='extracted/' ./ "$snap"/
  ) 9> "$V/build/coq.lock"
  [ -f "$snap/$p/PropertiesSM.vo" ] && mods="$mods LTV.$p.PropertiesSM"
  { echo "# coqchk -o -silent -Q . LTV $mods   (coq $(coqc --version | head -n1 | sed 's/.*version //'))"
    ( cd "$snap" && timeout 3000 coqchk -o -silent -Q . LTV $mods 2>&1 ); echo "exit=$?"; } > "$out"
  rm -rf "$snap"
  if grep -q '^exit=0' "$out"; then
    echo "$p: $(grep "^\* Axioms" "$out")"
  else
    echo "coqchk FAILED for $p (see coqchk/$p.txt)"; return 1
  fi
}
rc=0
for p in $props; do
  run_one $p &
  while [ "$(jobs -r | wc -l)" -ge 5 ]; do sleep 2; done
done
for j in $(jobs -p); do wait $j || rc=1; done
exit $rc
