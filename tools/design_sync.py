#!/usr/bin/env python3
"""Regenerates the generated blocks of DESIGN.md (section 11.2 / 11.3) from known_findings.txt and
refreshes DESIGN_STATUS.md."""
import os, re, subprocess
H = os.path.dirname(os.path.dirname(os.path.abspath(__file__)))
kf = [l.strip() for l in open(os.path.join(H, "known_findings.txt")) if l.strip() and not l.startswith("#")]
fixes, finds = {}, {}
for l in kf:
    m = re.match(r"fixed:\s+property=(C\d+)\s+(\S+)\s+(.*)", l)
    if m:
        fixes.setdefault(m.group(1), []).append((m.group(2), m.group(3)))
    m = re.match(r"finding:\s+property=(C\d+)\s+class=(\S+)\s+(.*)", l)
    if m:
        finds.setdefault(m.group(1), []).append((m.group(2), m.group(3)))
def short(t, n=230):
    t = re.sub(r"\s*\(witness.*", "", t)
    return t if len(t) <= n else t[:n - 1] + "…"
fx = []
for p in sorted(fixes):
    fx.append("* **%s** (%d)" % (p, len(fixes[p])))
    for h, t in fixes[p]:
        fx.append("  * `%s` %s" % (h, short(t)))
fd = []
for p in sorted(finds):
    for k, t in finds[p]:
        fd.append("* **%s** `%s` — %s" % (p, k, short(t, 300)))
p = os.path.join(H, "DESIGN.md")
s = open(p).read()
def put(s, tag, lines):
    a = "<!-- BEGIN-GENERATED:%s -->" % tag
    b = "<!-- END-GENERATED:%s -->" % tag
    i, j = s.index(a) + len(a), s.index(b)
    return s[:i] + "\n" + "\n".join(lines) + "\n" + s[j:]
s = put(s, "fixes", ["Total: %d repaired defects." % sum(len(v) for v in fixes.values()), ""] + fx)
s = put(s, "findings", ["Total: %d recorded findings." % sum(len(v) for v in finds.values()), ""] + fd)
open(p, "w").write(s)
subprocess.call(["python3", os.path.join(H, "tools", "status_table.py")], stdout=subprocess.DEVNULL)
print("fixes", sum(len(v) for v in fixes.values()), "findings", sum(len(v) for v in finds.values()))
