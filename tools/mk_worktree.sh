#!/bin/sh
# usage: mk_worktree.sh <dir>   — scratch git worktree of /repo's HEAD with /repo's build state copied in,
# so that `make -j8 && make -C test check` there is incremental. Remove with:
#   git -C /repo worktree remove --force <dir>
set -e
d="$1"
[ -n "$d" ] || { echo "usage: $0 <dir>"; exit 2; }
git -C /repo worktree add -q --detach "$d" HEAD
rsync -a --exclude .git /repo/ "$d"/
# libtool/automake record absolute paths of the original tree in a few generated files
grep -rlI --include=Makefile --include=libtool --include='*.la' --include=config.status '/repo' "$d" 2>/dev/null | \
  xargs -r sed -i "s#/repo\b#$d#g"
echo "worktree ready: $d"
