#!/usr/bin/env python3
"""usage: tools/keep_seed.py <Cxx> <rt-out-dir/k> <seed-name> <caught: yes|no|partial> "<how the check reports it>"
Copies a confirmed red-team change into /verif/seeded/<seed-name>/ (patch.diff, demonstration, meta.json)."""
import json, os, shutil, sys
prop, src, name, caught, how = sys.argv[1:6]
dst = os.path.join("/verif/seeded", name)
os.makedirs(dst, exist_ok=True)
for f in os.listdir(src):
    p = os.path.join(src, f)
    if os.path.isfile(p) and os.path.getsize(p) < 2_000_000 and f not in ("confirm.json",):
        shutil.copy(p, dst)
meta = json.load(open(os.path.join(src, "meta.json")))
conf = json.load(open(os.path.join(src, "confirm.json"))) if os.path.exists(os.path.join(src, "confirm.json")) else {}
meta.update({
    "property": prop,
    "origin": "independent sub-agent given only the property text and a scratch worktree (nothing from /verif)",
    "confirmed_by_integrator": conf,
    "what_i_ran": ["tools/confirm_seed.sh %s (scratch worktree with build state: demo on clean tree, git apply, make, make -C test check, demo again)" % src,
                   "tools/try_patch.sh %s %s/patch.diff (scratch worktree + LTV_REPO; equivalent to git -C /repo apply / check / git -C /repo checkout -- .)" % (prop, dst)],
    "caught_by_check": caught,
    "how_reported": how,
})
json.dump(meta, open(os.path.join(dst, "meta.json"), "w"), indent=1)
print("kept", dst)
