#!/bin/bash
# usage: tools/run_patches_lanes.sh <kind: seeded|benign> <out.txt> <Cxx> [<Cxx> ...]
# Like tools/run_patches.sh, but only for the named properties and with ONE lane per property (the patches of one
# property run one after the other, different properties in parallel), so that two checks of the same property never
# run at the same time. Lines for other properties already in <out.txt> are kept.
V="$(cd "$(dirname "$0")/.." && pwd)"; cd "$V"
kind="$1"; out="$2"; shift 2
tmp="build/lanes.$$"; mkdir -p "$tmp"
lane() {
  p="$1"
  for d in $kind/$p-*/; do
    d="${d%/}"; [ -f "$d/patch.diff" ] || continue
    name=$(basename "$d")
    r=$(tools/try_patch.sh "$p" "$d/patch.diff" 2>&1)
    last=$(echo "$r" | grep -E "^(VIOLATION|OK|PATCH-DOES-NOT-APPLY)" | tail -n 1 | cut -c1-160)
    first=$(echo "$r" | grep -E "^  violation" | head -n 1 | cut -c1-260)
    echo "$name | ${last:-NO-VERDICT} | $first" >> "$tmp/$p.txt"
  done
}
for p in "$@"; do lane "$p" & done
wait
touch "$out"
pat=$(printf '%s|' "$@"); pat="^(${pat%|})-"
{ grep -Ev "$pat" "$out"; cat "$tmp"/*.txt 2>/dev/null; } | sort > "$tmp/all.txt"
mv "$tmp/all.txt" "$out"; rm -rf "$tmp"
echo "done: $(wc -l < "$out") patches; $(grep -c '| OK' "$out") OK, $(grep -c 'no-failing-input-found' "$out") no-failing-input-found, $(grep '| VIOLATION' "$out" | grep -vc 'no-failing-input-found') with input"
