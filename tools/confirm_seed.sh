#!/bin/sh
# usage: tools/confirm_seed.sh <dir with patch.diff + run_demo.sh> <out.json>
# Confirms, in a scratch worktree with build state: demo passes on the clean tree; with the patch applied the
# library builds, the existing test suite passes, and the demo fails.
d="$(cd "$1" && pwd)"; out="$2"
wt="/tmp/cs-$$"
lt_mk_worktree "$wt" >/dev/null 2>&1 || { echo '{"error":"worktree"}' > "$out"; exit 2; }
cd "$wt"
( bash "$d/run_demo.sh" "$wt" ) > "$wt.clean.log" 2>&1; clean_rc=$?
git apply "$d/patch.diff"; apply_rc=$?
make -j8 > "$wt.make.log" 2>&1; make_rc=$?
make -C test check -j8 > "$wt.test.log" 2>&1; test_rc=$?
tests_ok=$(grep -c "All 8 tests passed" "$wt.test.log")
( bash "$d/run_demo.sh" "$wt" ) > "$wt.patched.log" 2>&1; patched_rc=$?
cd /
git -C /repo worktree remove --force "$wt"
printf '{"demo_rc_clean": %s, "patch_applies": %s, "make_rc": %s, "test_rc": %s, "all_8_tests_passed": %s, "demo_rc_patched": %s}\n' \
  "$clean_rc" "$apply_rc" "$make_rc" "$test_rc" "$tests_ok" "$patched_rc" > "$out"
cat "$out"
rm -f "$wt".*.log
