#!/bin/sh
# usage: tools/try_patch.sh <Cxx> <patch.diff> [tier]   — run a check against a scratch worktree of /repo with the
# patch applied (the registered way is `git -C /repo apply` + check + `git -C /repo checkout -- .`; this variant does
# not disturb /repo while other work is using it).
set -e
prop="$1"; patch="$(readlink -f "$2")"; tier="${3:-quick}"
wt="/tmp/try-$prop-$$"
git -C /repo worktree add -q --detach "$wt" HEAD
cp /repo/config.h "$wt"/
( cd "$wt" && git apply "$patch" ) || { git -C /repo worktree remove --force "$wt"; echo "PATCH-DOES-NOT-APPLY"; exit 3; }
cd /verif
set +e
LTV_REPO="$wt" ./check "$prop" --tier "$tier" > "/tmp/try-$prop-$$.log" 2>&1
rc=$?
set -e
grep -E "^(KNOWN-FINDING|  violation)" "/tmp/try-$prop-$$.log" | cut -c1-300 | head -6
grep -E "^(VIOLATION|OK)" "/tmp/try-$prop-$$.log" | cut -c1-300 | tail -n 2
echo "exit=$rc log=/tmp/try-$prop-$$.log"
git -C /repo worktree remove --force "$wt"
git -C /verif checkout -- "evidence/$prop.json" 2>/dev/null || true
exit $rc
