#!/bin/bash
# usage: tools/run_patches.sh <kind: seeded|benign> <out.txt> [jobs]
# Runs every kept patch (seeded/<Cxx>-*/patch.diff or benign/<Cxx>-k/patch.diff) through its property's quick check
# with tools/try_patch.sh (scratch worktree + LTV_REPO; /repo untouched) and records one line per patch.
V="$(cd "$(dirname "$0")/.." && pwd)"; cd "$V"
kind="$1"; out="$2"; jobs="${3:-4}"
: > "$out"
run() {
  d="$1"; name=$(basename "$d"); p=${name%%-*}
  r=$(tools/try_patch.sh "$p" "$d/patch.diff" 2>&1)
  last=$(echo "$r" | grep -E "^(VIOLATION|OK|PATCH-DOES-NOT-APPLY)" | tail -n 1 | cut -c1-160)
  first=$(echo "$r" | grep -E "^  violation" | head -n 1 | cut -c1-260)
  echo "$name | ${last:-NO-VERDICT} | $first" >> "$out"
}
for d in $kind/C*/; do
  [ -f "$d/patch.diff" ] || continue
  run "${d%/}" &
  while [ "$(jobs -r | wc -l)" -ge "$jobs" ]; do sleep 3; done
done
wait
sort -o "$out" "$out"
echo "done: $(wc -l < "$out") patches; $(grep -c '| OK' "$out") OK, $(grep -c 'no-failing-input-found' "$out") no-failing-input-found, $(grep '| VIOLATION' "$out" | grep -vc 'no-failing-input-found') with input"
