#!/bin/sh
# usage: tools/sweep.sh [tier]  — run every registered check once on the current trees, print a summary.
cd "$(dirname "$0")/.."
tier="${1:-quick}"
mkdir -p build/sweep
for p in $(python3 -c "import json;print(' '.join(c['property_id'] for c in json.load(open('MANIFEST.json'))['checks']))"); do
  s=$(date +%s)
  ./check $p --tier $tier > build/sweep/$p.log 2>&1
  rc=$?
  e=$(date +%s)
  echo "$p rc=$rc $((e-s))s $(grep -E '^(VIOLATION|OK)' build/sweep/$p.log | tail -n 1 | cut -c1-120)"
done
