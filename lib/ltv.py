"""Common machinery for the /verif checks (see DESIGN.md section 2).

Everything here is deterministic given (/repo working tree, /verif tree, VERIF_SEED).
Nothing a registered command needs lives under /tmp: build products are under /verif/build.
"""
import concurrent.futures as cf
import fcntl
import glob
import hashlib
import json
import os
import re
import shutil
import subprocess
import sys
import time

VERIF = os.path.dirname(os.path.dirname(os.path.abspath(__file__)))
REPO = os.environ.get("LTV_REPO", "/repo")
BUILD = os.path.join(VERIF, "build")
COQ = os.path.join(VERIF, "coq")
NCPU = os.cpu_count() or 4
GUARD = "LT_VERIF"

CXX = "g++"
BASE_FLAGS = ["-std=c++20", "-DHAVE_CONFIG_H", "-D" + GUARD, "-DDEBUG", "-pthread",
              "-I" + REPO, "-I" + REPO + "/src", "-I" + REPO + "/src/torrent"]
VARIANTS = {
    "asan": ["-O1", "-g1", "-fsanitize=address,undefined", "-fno-sanitize-recover=undefined",
             "-fno-omit-frame-pointer"],
    "tsan": ["-O1", "-g1", "-fsanitize=thread"],
    "plain": ["-O1", "-g1"],
}
LINK_LIBS = ["-lcurl", "-lpthread", "-lz", "-lcrypto"]


def log(*a):
    print("[ltv]", *a, file=sys.stderr, flush=True)


def sh(cmd, **kw):
    return subprocess.run(cmd, stdout=subprocess.PIPE, stderr=subprocess.STDOUT, text=True, **kw)


class Lock:
    def __init__(self, name):
        os.makedirs(BUILD, exist_ok=True)
        self.path = os.path.join(BUILD, name + ".lock")

    def __enter__(self):
        self.f = open(self.path, "w")
        fcntl.flock(self.f, fcntl.LOCK_EX)
        return self

    def __exit__(self, *a):
        fcntl.flock(self.f, fcntl.LOCK_UN)
        self.f.close()


# ------------------------------------------------------------------ repo tree

def repo_sources():
    out = []
    for root, _, files in os.walk(os.path.join(REPO, "src")):
        for f in files:
            if f.endswith(".cc") and f != "poll_kqueue.cc":
                out.append(os.path.join(root, f))
    return sorted(out)


def repo_tree_hash():
    h = hashlib.sha1()
    paths = [os.path.join(REPO, "config.h")]
    for root, _, files in os.walk(os.path.join(REPO, "src")):
        for f in files:
            if f.endswith((".cc", ".h")):
                paths.append(os.path.join(root, f))
    for p in sorted(paths):
        h.update(p.encode())
        h.update(b"\0")
        with open(p, "rb") as fh:
            h.update(fh.read())
        h.update(b"\0")
    return h.hexdigest()[:16]


def _prune(dirpath, keep, key=os.path.getmtime):
    ents = [os.path.join(dirpath, e) for e in os.listdir(dirpath)] if os.path.isdir(dirpath) else []
    ents.sort(key=key, reverse=True)
    for e in ents[keep:]:
        if os.path.isdir(e):
            shutil.rmtree(e, ignore_errors=True)
        else:
            try:
                os.unlink(e)
            except OSError:
                pass


def _compile_one(src, flags, objdir):
    """Compile one TU through a content-addressed object cache (key: preprocessed text + flags)."""
    pre = subprocess.run([CXX] + flags + ["-E", "-P", src], stdout=subprocess.PIPE, stderr=subprocess.PIPE)
    if pre.returncode != 0:
        return src, None, pre.stderr.decode(errors="replace")
    key = hashlib.sha1(pre.stdout + b"\0" + " ".join(flags).encode()).hexdigest()
    obj = os.path.join(objdir, key + ".o")
    if os.path.exists(obj):
        os.utime(obj)
        return src, obj, ""
    tmp = obj + ".%d.tmp" % os.getpid()
    r = subprocess.run([CXX] + flags + ["-c", src, "-o", tmp], stdout=subprocess.PIPE, stderr=subprocess.STDOUT)
    if r.returncode != 0:
        return src, None, r.stdout.decode(errors="replace")
    os.replace(tmp, obj)
    return src, obj, ""


class BuildError(Exception):
    pass


def build_lib(variant="asan"):
    """Static library of all of /repo/src (current working tree) with the hook guard ON."""
    th = repo_tree_hash()
    libdir = os.path.join(BUILD, "lib", variant)
    lib = os.path.join(libdir, th, "libltv.a")
    if os.path.exists(lib):
        os.utime(os.path.dirname(lib))
        return lib
    with Lock("lib-" + variant):
        if os.path.exists(lib):
            return lib
        t0 = time.time()
        objdir = os.path.join(BUILD, "obj", variant)
        os.makedirs(objdir, exist_ok=True)
        flags = BASE_FLAGS + VARIANTS[variant]
        srcs = repo_sources()
        objs, errs = [], []
        with cf.ThreadPoolExecutor(NCPU) as ex:
            for src, obj, err in ex.map(lambda s: _compile_one(s, flags, objdir), srcs):
                if obj is None:
                    errs.append((src, err))
                else:
                    objs.append(obj)
        if errs:
            raise BuildError("repo does not compile with -D%s:\n" % GUARD +
                             "\n".join("%s\n%s" % e for e in errs[:3]))
        os.makedirs(os.path.dirname(lib), exist_ok=True)
        tmp = lib + ".tmp"
        if os.path.exists(tmp):
            os.unlink(tmp)
        r = sh(["ar", "rcs", tmp] + objs)
        if r.returncode != 0:
            raise BuildError(r.stdout)
        os.replace(tmp, lib)
        _prune(libdir, 10)
        # object cache: keep the most recently used ~1500 objects (about 10 trees' worth of changes)
        _prune(objdir, 1500, key=os.path.getatime)
        log("built %s in %.1fs" % (lib, time.time() - t0))
        return lib


def build_harness(name, sources, variant="asan", extra=(), libs=()):
    """Compile harness TUs (-fno-access-control: private state is read, never written, by
    observers) and link against the freshly built library. Cached on tree hash + harness text."""
    lib = build_lib(variant)
    srcs = [s if os.path.isabs(s) else os.path.join(VERIF, "harness", s) for s in sources]
    h = hashlib.sha1()
    h.update(repo_tree_hash().encode())
    h.update(" ".join(extra).encode())
    hdrs = sorted(glob.glob(os.path.join(VERIF, "harness", "common", "*.h")))
    for p in srcs + hdrs:
        h.update(open(p, "rb").read())
    bindir = os.path.join(BUILD, "bin")
    os.makedirs(bindir, exist_ok=True)
    out = os.path.join(bindir, "%s-%s-%s" % (name, variant, h.hexdigest()[:12]))
    if os.path.exists(out):
        os.utime(out)
        return out
    with Lock("bin-" + name):
        if os.path.exists(out):
            return out
        t0 = time.time()
        flags = BASE_FLAGS + VARIANTS[variant] + ["-fno-access-control", "-I" + os.path.join(VERIF, "harness")] + list(extra)
        objs = []

        def comp(s):
            o = out + "." + hashlib.sha1(s.encode()).hexdigest()[:8] + ".o"
            r = sh([CXX] + flags + ["-c", s, "-o", o])
            return o, r

        with cf.ThreadPoolExecutor(NCPU) as ex:
            for o, r in ex.map(comp, srcs):
                if r.returncode != 0:
                    raise BuildError("harness %s does not compile:\n%s" % (name, r.stdout[-4000:]))
                objs.append(o)
        r = sh([CXX] + VARIANTS[variant] + ["-pthread", "-o", out + ".tmp"] + objs + [lib] + LINK_LIBS + list(libs))
        for o in objs:
            os.unlink(o)
        if r.returncode != 0:
            raise BuildError("harness %s does not link:\n%s" % (name, r.stdout[-4000:]))
        os.replace(out + ".tmp", out)
        for old in glob.glob(os.path.join(bindir, name + "-" + variant + "-*")):
            if old != out and time.time() - os.path.getmtime(old) > 3600:
                os.unlink(old)
        log("built harness %s in %.1fs" % (name, time.time() - t0))
        return out


# ------------------------------------------------------------------ Coq

ALLOWED_AXIOMS = {
    # standard-library axioms only; named in evidence when they appear
    "functional_extensionality_dep", "FunctionalExtensionality.functional_extensionality_dep",
    "proof_irrelevance", "ProofIrrelevance.proof_irrelevance", "classic", "Classical_Prop.classic",
    "JMeq_eq", "JMeq.JMeq_eq", "Eqdep.Eq_rect_eq.eq_rect_eq", "eq_rect_eq",
    "propositional_extensionality", "PropExtensionality.propositional_extensionality",
}

FORBIDDEN_RE = re.compile(
    r"\b(Admitted|admit|Axiom|Axioms|Parameter|Parameters|Conjecture|Admit\s+Obligations|"
    r"Unset\s+Guard\s+Checking|Unset\s+Positivity\s+Checking|Unset\s+Universe\s+Checking|"
    r"bypass_check|type-in-type|impredicative-set|native_compute)\b")


def coq_lint(files):
    """Refuse forbidden vernacular anywhere in the development (comments are stripped first)."""
    bad = []
    for f in files:
        txt = open(f).read()
        txt = re.sub(r"\(\*.*?\*\)", "", txt, flags=re.S)
        for m in FORBIDDEN_RE.finditer(txt):
            line = txt.count("\n", 0, m.start()) + 1
            bad.append("%s:%d: %s" % (f, line, m.group(0)))
        # Variable/Hypothesis outside a Section
        depth = 0
        for i, l in enumerate(txt.split("\n")):
            s = l.strip()
            if re.match(r"Section\s+\w+", s):
                depth += 1
            elif re.match(r"End\s+\w+\s*\.", s) and depth > 0:
                depth -= 1
            elif depth == 0 and re.match(r"(Variable|Variables|Hypothesis|Hypotheses|Context)\b", s):
                bad.append("%s:%d: %s outside a Section" % (f, i + 1, s.split()[0]))
    return bad


def coq_files():
    fs = []
    for root, _, files in os.walk(COQ):
        for f in files:
            if f.endswith(".v"):
                fs.append(os.path.relpath(os.path.join(root, f), COQ))
    return sorted(fs)


def coq_prepare(only=None):
    """(Re)generate Params_gen.v / <prop>/ParamsGen.v from the repo and the _CoqProject/Makefile.
    Caller holds the lock. With `only` = a property name, only that property's ParamsGen.v is
    rewritten (a check against a scratch tree via LTV_REPO must not disturb other properties)."""
    sys.path.insert(0, os.path.join(VERIF, "gen"))
    import params as P
    txt = P.generate(REPO)
    pg = os.path.join(COQ, "Params_gen.v")
    old = open(pg).read() if os.path.exists(pg) else None
    if old != txt and (only is None or REPO == "/repo"):
        with open(pg, "w") as f:
            f.write(txt)
    for prop, ptxt in P.generate_per_property(REPO).items():
        d = os.path.join(COQ, prop)
        if only is not None and prop != only:
            if os.path.exists(os.path.join(d, "ParamsGen.v")):
                continue
        if os.path.isdir(d):
            pp = os.path.join(d, "ParamsGen.v")
            if not os.path.exists(pp) or open(pp).read() != ptxt:
                with open(pp, "w") as f:
                    f.write(ptxt)
    files = coq_files()
    proj = "-Q . LTV\n-arg -w -arg -notation-overridden,-deprecated-hint-without-locality,-deprecated-instance-without-locality,-ambiguous-paths,-deprecated\n" + "\n".join(files) + "\n"
    pj = os.path.join(COQ, "_CoqProject")
    if not os.path.exists(pj) or open(pj).read() != proj or not os.path.exists(os.path.join(COQ, "Makefile")):
        with open(pj, "w") as f:
            f.write(proj)
        r = sh(["coq_makefile", "-f", "_CoqProject", "-o", "Makefile"], cwd=COQ)
        if r.returncode != 0:
            raise BuildError("coq_makefile failed: " + r.stdout)
    return files


def coq_build(prop, timeout=1500):
    """Build the property's Properties.vo and Extract.vo (make -k), then re-run coqc on
    Properties.v alone to capture Print Assumptions output.
    Returns dict(obligations, discharged, theorems, axioms, ok, log, params_ok)."""
    with Lock("coq"):
        files = coq_prepare(only=prop)
        mine = [f for f in files if (f.startswith(prop + "/") and not f.endswith("/ParamsGen.v")) or f.startswith("Common/")]
        lint = coq_lint([os.path.join(COQ, f) for f in mine])
        targets = [prop + "/Properties.vo"]
        if os.path.exists(os.path.join(COQ, prop, "Extract.v")):
            targets.append(prop + "/Extract.vo")
        t0 = time.time()
        r = sh(["timeout", str(timeout), "make", "-k", "-j%d" % NCPU] + targets, cwd=COQ)
        mk_ok = r.returncode == 0
        props_v = os.path.join(COQ, prop, "Properties.v")
        ptxt = re.sub(r"\(\*.*?\*\)", "", open(props_v).read(), flags=re.S)
        thms = re.findall(r"^\s*(?:Theorem|Corollary)\s+(\w+)", ptxt, flags=re.M)
        r2 = sh(["timeout", "600", "coqc", "-Q", ".", "LTV", "-w", "-all", os.path.join(prop, "Properties.v")], cwd=COQ)
        out = r2.stdout
        axioms = {}
        # Print Assumptions output blocks appear in order of the theorems
        blocks = re.findall(r"(Closed under the global context|Axioms:\n(?:.+\n?(?:\s+.+\n?)*)+?)(?=\n\S|\Z)", out)
        cur = 0
        pa = re.findall(r"Print\s+Assumptions\s+(\w+)", ptxt)
        chunks = re.split(r"(?m)^(?=Closed under the global context|Axioms:)", out)
        chunks = [c for c in chunks if c.startswith("Closed under") or c.startswith("Axioms:")]
        for name, c in zip(pa, chunks):
            if c.startswith("Closed"):
                axioms[name] = []
            else:
                axioms[name] = sorted(set(re.findall(r"^([A-Za-z_][\w.']*)\s*:", c, flags=re.M)))
        ok = mk_ok and r2.returncode == 0 and not lint
        discharged = len(thms) if ok else 0
        if not ok and r2.returncode != 0:
            m = re.search(r'Properties\.v", line (\d+)', out)
            if m:
                ln = int(m.group(1))
                full = open(props_v).read().split("\n")
                before = "\n".join(full[:ln - 1])
                discharged = len(re.findall(r"^\s*(?:Theorem|Corollary)\s+\w+", before, flags=re.M))
                discharged = max(0, discharged - 1)
        bad_ax = sorted({a for axs in axioms.values() for a in axs if a not in ALLOWED_AXIOMS and a.split(".")[-1] not in ALLOWED_AXIOMS})
        if bad_ax or len(axioms) < len(thms):
            ok = ok and not bad_ax and len(axioms) >= len(thms)
        return dict(obligations=len(thms), discharged=discharged, theorems=thms, axioms=axioms,
                    ok=ok, lint=lint, bad_axioms=bad_ax,
                    log=(r.stdout[-6000:] if not mk_ok else "") + (out[-6000:] if r2.returncode != 0 else ""),
                    wall=time.time() - t0,
                    checker_cmd="cd /verif/coq && coq_makefile -f _CoqProject -o Makefile && make -k -j%d %s && coqc -Q . LTV %s/Properties.v" % (NCPU, " ".join(targets), prop))


def build_model(prop, driver=None):
    """Compile the extracted OCaml (coq/extracted/<prop>_model.ml, produced by <prop>/Extract.v)
    with the driver  = 'module BZ = Z; open <Model>' + ocaml/conv.ml + ocaml/<prop>_driver.ml.
    zarith is used by conv.ml for decimal I/O only. Returns the binary path."""
    low = prop.lower()
    ml = os.path.join(COQ, "extracted", low + "_model.ml")
    mli = os.path.join(COQ, "extracted", low + "_model.mli")
    drv = driver or os.path.join(VERIF, "ocaml", low + "_driver.ml")
    conv = os.path.join(VERIF, "ocaml", "conv.ml")
    if not os.path.exists(ml):
        raise BuildError("no extracted model %s (did %s/Extract.v build?)" % (ml, prop))
    h = hashlib.sha1()
    for p in (ml, mli, drv, conv):
        h.update(open(p, "rb").read())
    bindir = os.path.join(BUILD, "bin")
    os.makedirs(bindir, exist_ok=True)
    out = os.path.join(bindir, "%s_model-%s" % (low, h.hexdigest()[:12]))
    if os.path.exists(out):
        return out
    with Lock("ocaml-" + low):
        if os.path.exists(out):
            return out
        wd = os.path.join(BUILD, "ocaml", low)
        shutil.rmtree(wd, ignore_errors=True)
        os.makedirs(wd)
        for p in (ml, mli):
            shutil.copy(p, wd)
        with open(os.path.join(wd, "driver.ml"), "w") as f:
            f.write("module BZ = Z\nopen %s_model\n" % low.capitalize())
            f.write("# 1 \"conv.ml\"\n" + open(conv).read())
            f.write("\n# 1 \"%s\"\n" % os.path.basename(drv) + open(drv).read())
        r = sh(["ocamlfind", "ocamlopt", "-package", "zarith", "-linkpkg", "-O2", "-w", "-a", "-o", out + ".tmp",
                low + "_model.mli", low + "_model.ml", "driver.ml"], cwd=wd)
        if r.returncode != 0:
            raise BuildError("ocaml build failed:\n" + r.stdout[-4000:])
        os.replace(out + ".tmp", out)
        for old in glob.glob(os.path.join(bindir, low + "_model-*")):
            if old != out and time.time() - os.path.getmtime(old) > 3600:
                os.unlink(old)
        return out


# ------------------------------------------------------------------ running

def run_lines(binary, lines, timeout=600, env=None, args=()):
    """Feed one case per line on stdin, expect one result line per case on stdout.
    Returns (results, stderr, returncode). A crash leaves fewer result lines than cases."""
    e = dict(os.environ)
    e.setdefault("ASAN_OPTIONS", "detect_leaks=0:abort_on_error=0:allocator_may_return_null=1")
    e.setdefault("UBSAN_OPTIONS", "print_stacktrace=1:halt_on_error=1")
    if env:
        e.update(env)
    data = ("\n".join(lines) + "\n").encode()
    pre = None
    if "_model-" in os.path.basename(binary):
        # extracted list functions (app, firstn, map) are not tail recursive: give the model a big stack
        def pre():
            import resource
            try:
                resource.setrlimit(resource.RLIMIT_STACK, (resource.RLIM_INFINITY, resource.RLIM_INFINITY))
            except (ValueError, OSError):
                pass
    try:
        r = subprocess.run([binary] + list(args), input=data, stdout=subprocess.PIPE, stderr=subprocess.PIPE,
                           timeout=timeout, env=e, preexec_fn=pre)
        return r.stdout.decode(errors="replace").split("\n")[:-1], r.stderr.decode(errors="replace"), r.returncode
    except subprocess.TimeoutExpired as ex:
        out = (ex.stdout or b"").decode(errors="replace").split("\n")[:-1]
        return out, "TIMEOUT after %ds" % timeout, -9


def run_sharded(binary, lines, shards=NCPU, **kw):
    """run_lines over contiguous shards in parallel; a shard that dies is completed case by case
    so that the crashing case is identified (result 'CRASH <first stderr line>')."""
    n = len(lines)
    if n == 0:
        return []
    shards = max(1, min(shards, n))
    step = (n + shards - 1) // shards
    parts = [lines[i:i + step] for i in range(0, n, step)]

    def one(part):
        res, err, rc = run_lines(binary, part, **kw)
        if len(res) == len(part) and rc == 0:
            return res
        out = list(res[:len(part)])
        # resume after the crashing case
        while len(out) < len(part):
            i = len(out)
            r1, e1, rc1 = run_lines(binary, [part[i]], **kw)
            if len(r1) == 1 and rc1 == 0:
                out.append(r1[0])
            else:
                out.append("CRASH " + crash_kind(e1, rc1))
            if len(out) < len(part):
                r2, e2, rc2 = run_lines(binary, part[len(out):], **kw)
                out.extend(r2[:len(part) - len(out)] if rc2 == 0 or r2 else [])
                if rc2 == 0:
                    break
        return out

    with cf.ThreadPoolExecutor(shards) as ex:
        outs = list(ex.map(one, parts))
    return [x for p in outs for x in p]


def crash_kind(stderr, rc):
    m = re.search(r"(ERROR: AddressSanitizer: [\w-]+|runtime error: [^\n]{0,80}|terminate called[^\n]*\n[^\n]*what\(\):[^\n]{0,120}|TIMEOUT[^\n]*)", stderr)
    k = m.group(1).replace("\n", " ") if m else "rc=%s" % rc
    return re.sub(r"\s+", " ", k)


# ------------------------------------------------------------------ reporting

def known_findings():
    """known_findings.txt lines:  finding: property=C07 class=<token> <text>   |   fixed: property=... <commit> <text>"""
    out = {}
    p = os.path.join(VERIF, "known_findings.txt")
    if os.path.exists(p):
        for l in open(p):
            m = re.match(r"finding:\s+property=(C\d+)\s+class=(\S+)\s+(.*)", l.strip())
            if m:
                out.setdefault(m.group(1), {})[m.group(2)] = m.group(3)
    return out


class Report:
    """Collects what a run covered, prints VIOLATION / KNOWN-FINDING lines, writes evidence."""

    def __init__(self, prop, tier, seed, level="proof"):
        self.prop, self.tier, self.seed, self.level = prop, tier, seed, level
        self.t0 = time.time()
        self.cov = {}
        self.assumptions = []
        self.violations = []  # (replay_path, summary, found_input)
        self.known_hits = {}
        self.known = known_findings().get(prop, {})
        self._n = 0

    def replay_path(self, tag="case"):
        d = os.path.join(VERIF, "replays", self.prop)
        os.makedirs(d, exist_ok=True)
        self._n += 1
        return os.path.join(d, "%d-%s-%d.json" % (self.seed, tag, self._n))

    def violation(self, what, case=None, model=None, impl=None, theorem=None, klass=None, found_input=True):
        """A concrete failing input (found_input=True) or a proof/correspondence that no longer
        checks without one. klass: finding class token; suppressed iff listed in known_findings.txt."""
        if klass is not None and klass in self.known:
            self.known_hits.setdefault(klass, 0)
            self.known_hits[klass] += 1
            return False
        if len(self.violations) >= 20:
            # past the cap only the summary is kept -- except that a violation WITH a concrete failing input is
            # still written out while fewer than 5 such replays exist (a flood of correspondence-only reports
            # from early cases must not hide the failing input a later case provides)
            if not (found_input and sum(1 for v in self.violations if v[0] and v[2]) < 5):
                self.violations.append((None, what, found_input))
                return True
        p = self.replay_path("violation")
        with open(p, "w") as f:
            json.dump(dict(property=self.prop, what=what, case=case, model=model, impl=impl,
                           theorem_or_correspondence=theorem, klass=klass, seed=self.seed,
                           tier=self.tier, failing_input_found=found_input), f, indent=1)
        self.violations.append((p, what, found_input))
        return True

    def _sanitize_coverage(self):
        """Keep the evidence file valid against EVIDENCE.schema.json whatever a property's glue put in."""
        c = self.cov
        if "exhaustive" in c and not isinstance(c["exhaustive"], bool):
            c["exhaustive_scope"] = str(c["exhaustive"])
            c["exhaustive"] = bool(c["exhaustive"])
        for k in ("evaluations", "distinct_nontrivial", "states", "transitions", "traces_validated_against_impl",
                  "obligations", "discharged", "programs", "disagreements_checked"):
            if k in c and not isinstance(c[k], int):
                try:
                    c[k] = int(c[k])
                except (TypeError, ValueError):
                    c[k + "_raw"] = str(c.pop(k))
        if "samples" in c and not isinstance(c["samples"], list):
            c["samples"] = [c["samples"]]
        if "trusted_base" in c:
            c["trusted_base"] = [str(x) for x in (c["trusted_base"] if isinstance(c["trusted_base"], list) else [c["trusted_base"]])]
        if "checker_cmd" in c:
            c["checker_cmd"] = str(c["checker_cmd"])
        if "explanation" in c:
            c["explanation"] = str(c["explanation"])
        self.assumptions = [str(a) for a in self.assumptions]

    def finish(self):
        for k, n in sorted(self.known_hits.items()):
            print("KNOWN-FINDING: property=%s %s [class=%s, %d case(s) this run]" % (self.prop, self.known[k], k, n))
        real = [v for v in self.violations if v[0]]
        # a violation with a concrete input outranks one without
        real.sort(key=lambda v: not v[2])
        self._sanitize_coverage()
        ev = dict(property_id=self.prop, tier=self.tier, seed=self.seed, level=self.level,
                  coverage=self.cov, assumptions=self.assumptions,
                  wall_s=round(time.time() - self.t0, 2), violations=len(self.violations))
        if getattr(self, "write_evidence", True):
            os.makedirs(os.path.join(VERIF, "evidence"), exist_ok=True)
            with open(os.path.join(VERIF, "evidence", self.prop + ".json"), "w") as f:
                json.dump(ev, f, indent=1, sort_keys=True)
                f.write("\n")
        if real:
            for p, what, found in real[:5]:
                print("  violation: %s" % what[:300])
            p, what, found = real[0]
            print("VIOLATION property=%s replay=%s%s" % (self.prop, p, "" if found else " no-failing-input-found"))
            return 1
        print("OK property=%s tier=%s seed=%d wall=%.1fs" % (self.prop, self.tier, self.seed, time.time() - self.t0))
        return 0


def std_trusted_base(coq, extra=()):
    ax = sorted({a for v in coq["axioms"].values() for a in v})
    tb = ["Coq 8.16.1 kernel (coqc; vm_compute used for finite sweeps; no native_compute)",
          "axioms reported by Print Assumptions: " + (", ".join(ax) if ax else "none (all property theorems closed under the global context)"),
          "extraction to OCaml with ExtrOcamlBasic only (bool/option/unit/prod/list/sumbool mapped; N/Z/positive/nat stay inductive; no Extract Constant)",
          "correspondence check: hand-written model vs implementation on identical cases (harness C++, generators, canonicalisation are trusted)",
          "gen/params.py: constants extracted from /repo sources into Params_gen.v by anchored regex"]
    return tb + list(extra)
