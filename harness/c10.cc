// C10 (first part only): two-lifetime replay of resume data against perturbed files, REAL code.
// build:  ltv.build_harness("c10", ["c10.cc", "common/session.cc"])
//
// Case line:  <piece_len> <len> <len> ... | <post-crash perturbation per file>
//   lifetime 1: files written complete, download_add, open, full hash_check (all pieces valid),
//               resume_save_progress while stopped (real mtimes saved), torrent removed ("crash").
//   perturbation token per file:  =  untouched    D  deleted    T<n> truncated to n bytes
//                                 W  rewritten in place with other content, same size, mtime + 7 s
//   lifetime 2: download_add of the same torrent, open, resume_load_progress, hash_check(false)
//               driven to completion.
// Output:  saved=<mtime kinds> load_ranges=<membership> bits=<after check> ssl=<valid on disk by OpenSSL>
//          sound=<1 iff every set bit is valid on disk>
// No model side yet (C10 is unfinished): this is the replay tool for the stale-FileStat finding
// (corpus/C10/stale_stat.case) and the skeleton of the two-lifetime correspondence.
#include "config.h"

#include <filesystem>
#include <fstream>
#include <fcntl.h>
#include <sys/stat.h>
#include <unistd.h>

#include <openssl/sha.h>

#include "common/session.h"
#include "data/hash_torrent.h"
#include "download/download_wrapper.h"
#include "torrent/bitfield.h"
#include "torrent/data/file.h"
#include "torrent/data/file_list.h"
#include "torrent/download_info.h"
#include "torrent/exceptions.h"
#include "torrent/object.h"
#include "torrent/torrent.h"
#include "torrent/utils/resume.h"

using namespace ltv;

static std::string run_case(Session& S, const std::string& line, unsigned serial) {
  size_t bar = line.find('|');
  if (bar == std::string::npos) return "BADCASE";
  auto lay = split_ws(line.substr(0, bar)), pert = split_ws(line.substr(bar + 1));
  if (lay.size() < 2 || pert.size() != lay.size() - 1) return "BADCASE";
  TorrentSpec spec;
  spec.name = "r" + std::to_string(serial);
  spec.piece_length = (uint32_t)std::stoul(lay[0]);
  for (size_t i = 1; i < lay.size(); i++) spec.files.push_back({"f" + std::to_string(i - 1), std::stoull(lay[i])});
  Torrent* T = S.add_torrent(spec);
  if (!T->dl.is_hash_checked()) return "BADCASE lifetime1";
  torrent::Object resume = torrent::Object::create_map();
  torrent::resume_save_progress(T->dl, resume);
  std::string saved;
  for (auto& f : resume.get_key_list("files")) {
    int64_t m = f.get_key_value("mtime");
    saved += m == ~int64_t{0} ? '0' : m == ~int64_t{1} ? '1' : m == ~int64_t{2} ? '2' : m == ~int64_t{3} ? 'A' : 'R';
  }
  std::string info = T->info_bytes, root = T->root, content = T->content;
  std::vector<std::string> hashes = T->piece_hashes;
  uint32_t np = T->piece_count(), pl = spec.piece_length;
  S.remove(T);

  for (size_t k = 0; k < pert.size(); k++) {
    std::string p = root + "/f" + std::to_string(k);
    char c = pert[k][0];
    if (c == 'D') ::unlink(p.c_str());
    else if (c == 'T') { if (::truncate(p.c_str(), std::stoll(pert[k].substr(1))) != 0) return "BADCASE truncate"; }
    else if (c == 'W') {
      struct stat st;
      if (::stat(p.c_str(), &st) != 0) return "BADCASE stat";
      std::string junk(st.st_size, 'j');
      std::ofstream(p, std::ios::binary | std::ios::trunc).write(junk.data(), (std::streamsize)junk.size());
      struct timespec ts[2] = {{st.st_atim.tv_sec, 0}, {st.st_mtim.tv_sec + 7, 0}};
      utimensat(AT_FDCWD, p.c_str(), ts, 0);
    }
  }
  // reference verdict
  std::string ssl(np, '0');
  {
    std::string disk;
    std::vector<std::pair<uint64_t, uint64_t>> have;   // [global begin, global end) present on disk
    uint64_t off = 0;
    for (size_t k = 0; k < pert.size(); k++) {
      std::ifstream f(root + "/f" + std::to_string(k), std::ios::binary);
      std::string c;
      if (f) c.assign(std::istreambuf_iterator<char>(f), std::istreambuf_iterator<char>());
      uint64_t len = spec.files[k].length;
      std::string padded = c.substr(0, len);
      uint64_t got = f ? padded.size() : 0;
      padded.resize(len, '\0');
      disk += padded;
      have.push_back({off, off + (f ? got : 0)});
      off += len;
    }
    for (uint32_t i = 0; i < np; i++) {
      uint64_t a = (uint64_t)i * pl, b = std::min<uint64_t>(a + pl, disk.size());
      bool ok = true;
      uint64_t fo = 0;
      for (size_t k = 0; k < pert.size(); k++) {
        uint64_t fe = fo + spec.files[k].length;
        uint64_t lo = std::max(a, fo), hi = std::min(b, fe);
        if (lo < hi && hi > have[k].second) ok = false;
        fo = fe;
      }
      unsigned char md[20];
      SHA1((const unsigned char*)disk.data() + a, b - a, md);
      if (ok && memcmp(md, hashes[i].data(), 20) == 0) ssl[i] = '1';
    }
  }

  torrent::Download d = S.add_raw("d4:info" + info + "e");
  d.file_list()->set_root_dir(root);
  d.open(0);
  std::string err;
  try {
    torrent::resume_load_progress(d, resume);
  } catch (torrent::base_error& e) {
    err = e.what();
  }
  uint32_t n = d.file_list()->size_chunks();
  std::string ranges;
  for (uint32_t i = 0; i < n; i++) ranges.push_back(d.ptr()->hash_checker()->hashing_ranges().has(i) ? '1' : '0');
  d.hash_check(false);
  S.settle([d]() { return d.is_hash_checked() || !d.info()->is_open(); }, 20000);
  std::string bits;
  const torrent::Bitfield* bf = d.file_list()->bitfield();
  if (bf->empty()) bits = "-";
  else for (uint32_t i = 0; i < bf->size_bits(); i++) bits.push_back(bf->get(i) ? '1' : '0');
  bool sound = true;
  for (size_t i = 0; i < bits.size() && bits != "-"; i++) if (bits[i] == '1' && ssl[i] != '1') sound = false;
  d.close(0);
  S.step();
  torrent::download_remove(d);
  S.step();
  std::error_code ec;
  std::filesystem::remove_all(std::filesystem::path(root).parent_path(), ec);
  return "saved=" + saved + " load_ranges=" + ranges + " bits=" + bits + " ssl=" + ssl + " sound=" + (sound ? "1" : "0") +
         (err.empty() ? "" : " load_exception=" + err);
}

int main() {
  std_setup();
  std::unique_ptr<Session> S;
  std::string line;
  unsigned serial = 0;
  while (std::getline(std::cin, line)) {
    try {
      if (!S) S = std::make_unique<Session>();
      std::cout << run_case(*S, line, serial++) << "\n";
    } catch (torrent::internal_error& e) {
      std::cout << "ERR:internal || " << e.what() << "\n";
      std::cout.flush();
      _exit(3);
    } catch (std::exception& e) {
      std::cout << "ERR:other " << e.what() << "\n";
      std::cout.flush();
      _exit(4);
    }
  }
  S.reset();
  return 0;
}
