// C10: resume data against perturbed files, REAL code. Two kinds of case lines:
//   L ...   one lifetime: a generated resume object is loaded over generated on-disk files (see run_load)
//   T ...   two lifetimes: save with the real resume_save_progress, perturb, load (below)
// build:  ltv.build_harness("c10", ["c10.cc", "common/session.cc"])
//
// T case line:  T <piece_len> <len> <len> ... | <post-crash perturbation per file>
//   lifetime 1: files written complete, download_add, open, full hash_check (all pieces valid),
//               resume_save_progress while stopped (real mtimes saved), torrent removed ("crash").
//   perturbation token per file:  =  untouched    D  deleted    T<n> truncated to n bytes
//                                 W  rewritten in place with other content, same size, mtime + 7 s
//   lifetime 2: download_add of the same torrent, open, resume_load_progress, hash_check(false)
//               driven to completion.
// Output:  saved=<mtime kinds> load_ranges=<membership> bits=<after check> ssl=<valid on disk by OpenSSL>
//          sound=<1 iff every set bit is valid on disk>
#include "config.h"

#include <filesystem>
#include <fstream>
#include <fcntl.h>
#include <sys/stat.h>
#include <unistd.h>

#include <openssl/sha.h>

#include "common/session.h"
#include "common/supervise.h"
#include "common/wirepeer.h"
#include "data/hash_torrent.h"
#include "download/download_wrapper.h"
#include "torrent/bitfield.h"
#include "torrent/data/file.h"
#include "torrent/data/file_list.h"
#include "torrent/data/transfer_list.h"
#include "torrent/download_info.h"
#include "torrent/exceptions.h"
#include "torrent/object.h"
#include "torrent/torrent.h"
#include "torrent/utils/resume.h"

using namespace ltv;

// T case (two lifetimes, real save):
//   T <piece_len> <len>[s] ... (s: that data file is a symbolic link) | <pieces missing at start: i,i or - or * (all)> | <history ops> | <post-crash: per-file perturbation ...> [lose=i,i]
//   lifetime 1: files written (listed pieces corrupt on disk), download_add, open, full hash_check; then the ops:
//       start | stop | dl (a scripted seeder serves every request until nothing is missing) | dl=i,i (serves only these
//       pieces) | dlhold=i,i (same, connection stays up: other requested pieces remain in flight) | drop | adv<minutes> |
//       close | reopen (open + full hash_check) | openonly (open, hash_check started but not driven) | finishcheck |
//       save (resume_save_progress + resume_save_uncertain_pieces, at any moment while open)
//     then the torrent is removed ("crash").
//   post-crash per file:  =  untouched   D  deleted   T<n>  truncated   W  rewritten in place, same size, mtime + 7 s
//     resave | resave2 (last token): an intermediate lifetime loads the data and saves again before the requested check is
//       done (resave2: check started), then dies; the final lifetime loads what that save left
//     lose=i,i | lose=%k (every k-th piece): the bytes of these pieces are overwritten, file sizes and mtimes stay as they were
//   Lq / Tq instead of L / T: the second lifetime checks the way rtorrent does (quick check first, then stop + full check)
//   lifetime 2: 10 s later: download_add, open, resume_load_progress of the saved object, hash_check(false).
// Output:  saved=<per file R|0|1|2|A, or -> sbf=<V<n>|S<hex>|-> unc=<i,i|none> cl=<completed-list length at the last save>
//          load_ranges=<membership> bits=<after check>
//          ||  ssl=<valid on disk by OpenSSL> sound=<0|1>
// how the second lifetime runs "the check the resume data requests": directly (hash_check(false)), or the way rtorrent does at
// start-up: hash_check(true) first and, when that reports there is something to hash, hash_stop() + hash_check(false)
static bool g_quick_first = false;

static void requested_check(Session& S, torrent::Download d) {
  if (g_quick_first) {
    if (!d.hash_check(true)) {
      d.hash_stop();
      d.hash_check(false);
    }
  } else {
    d.hash_check(false);
  }
  S.settle([d]() { return d.is_hash_checked() || !d.info()->is_open(); }, 20000);
}

static std::vector<uint32_t> parse_list(const std::string& s) {
  std::vector<uint32_t> v;
  if (s == "-" || s.empty()) return v;
  size_t a = 0;
  while (a <= s.size()) {
    size_t b = s.find(',', a);
    v.push_back((uint32_t)std::stoul(s.substr(a, b == std::string::npos ? std::string::npos : b - a)));
    if (b == std::string::npos) break;
    a = b + 1;
  }
  return v;
}

// a scripted seeder: answers the library's requests for the pieces in `only` (all pieces when empty) until those are
// complete; with hold the connection stays up afterwards (the other requested pieces stay in flight in TransferList)
static std::unique_ptr<WirePeer> g_held;

static void serve(Session& S, Torrent* T, const std::vector<uint32_t>& only, bool hold) {
  g_held.reset();
  auto Pp = std::make_unique<WirePeer>();
  WirePeer& P = *Pp;
  static unsigned ipn = 0;
  ipn++;
  std::string ip = "127.0." + std::to_string(1 + (ipn / 200) % 200) + "." + std::to_string(2 + ipn % 200);
  if (!P.connect_to(S.listen_port(), ip.c_str())) throw std::runtime_error("peer connect");
  uint32_t np = T->piece_count();
  char idbuf[21];
  snprintf(idbuf, sizeof idbuf, "-LV0001-c10%09u", ipn);
  // the seeder advertises only the pieces it is going to serve, so the library asks for exactly those
  std::string adv(np, only.empty() ? '1' : '0');
  for (uint32_t i : only) if (i < np) adv[i] = '1';
  P.send_bytes(WirePeer::handshake(T->info_hash, std::string(idbuf, 20)) + WirePeer::bitfield(adv));
  pump(S, {&P});
  HandshakeIn h;
  if (!P.take_handshake(h)) throw std::runtime_error("no handshake from the library");
  P.send_bytes(WirePeer::unchoke());
  auto wanted_done = [&]() {
    const torrent::Bitfield* bf = T->dl.file_list()->bitfield();
    if (only.empty()) return bf->is_all_set();
    for (uint32_t i : only) if (i < np && !bf->get(i)) return false;
    return true;
  };
  int stall = 0;
  for (int round = 0; round < 100000 && stall < 60 && !wanted_done(); round++) {
    pump(S, {&P});
    WireMsg m;
    bool any = false;
    while (P.next_message(m)) {
      if (m.id == WirePeer::REQUEST && m.body.size() == 12) {
        uint32_t idx = m.u32(0);
        if (only.empty() || std::find(only.begin(), only.end(), idx) != only.end()) {
          P.send_bytes(WirePeer::piece(idx, m.u32(4), T->range(idx, m.u32(4), m.u32(8))));
          any = true;
        }
      }
    }
    pump(S, {&P});
    if (!any) {
      stall++;
      S.settle([&]() { return wanted_done(); }, 100);
      if (P.eof) break;
    } else stall = 0;
  }
  if (hold) {
    // now offer every other piece too and leave the requests for them unanswered: pieces in flight
    std::string haves;
    for (uint32_t i = 0; i < np; i++) if (adv[i] == '0') haves += WirePeer::have(i);
    if (!haves.empty()) P.send_bytes(haves);
    for (int k = 0; k < 40 && T->dl.transfer_list()->size() == 0 && !haves.empty(); k++) { P.send_bytes(WirePeer::keepalive()); pump(S, {&P}); S.advance_us(100000); }
    g_held = std::move(Pp);
  } else { P.close_all(); S.step(); }
}

static std::string run_case(Session& S, const std::string& line, unsigned serial) {
  std::vector<std::string> sec;
  {
    size_t p = 0;
    while (true) {
      size_t q = line.find('|', p);
      sec.push_back(line.substr(p, q == std::string::npos ? std::string::npos : q - p));
      if (q == std::string::npos) break;
      p = q + 1;
    }
  }
  if (sec.size() == 2) { sec.insert(sec.begin() + 1, " - "); sec.insert(sec.begin() + 2, " save "); }   // old short form
  if (sec.size() != 4) return "BADCASE";
  auto lay = split_ws(sec[0]), miss = split_ws(sec[1]), ops = split_ws(sec[2]), pert = split_ws(sec[3]);
  std::vector<uint32_t> lose;
  std::string lose_spec;
  int resave = 0;      // resave / resave2: an intermediate lifetime that loads and saves again before the check is done (2: check started)
  if (!pert.empty() && pert.back().rfind("resave", 0) == 0) { resave = pert.back() == "resave2" ? 2 : 1; pert.pop_back(); }
  if (!pert.empty() && pert.back().rfind("lose=", 0) == 0) { lose_spec = pert.back().substr(5); pert.pop_back(); }
  if (lay.size() < 2 || pert.size() != lay.size() - 1 || miss.size() != 1) return "BADCASE";
  TorrentSpec spec;
  spec.name = "r" + std::to_string(serial);
  spec.piece_length = (uint32_t)std::stoul(lay[0]);
  std::vector<bool> linked;
  uint64_t total_len = 0;
  for (size_t i = 1; i < lay.size(); i++) {
    bool sl = !lay[i].empty() && lay[i].back() == 's';      // <len>s: the data file is a symbolic link to the real file
    linked.push_back(sl);
    uint64_t len = std::stoull(sl ? lay[i].substr(0, lay[i].size() - 1) : lay[i]);
    spec.files.push_back({"f" + std::to_string(i - 1), len});
    total_len += len;
  }
  uint32_t np0 = (uint32_t)((total_len + spec.piece_length - 1) / spec.piece_length);
  if (miss[0] == "*") { for (uint32_t i = 0; i < np0; i++) spec.corrupt_pieces.push_back(i); }     // nothing valid at the start
  else spec.corrupt_pieces = parse_list(miss[0]);
  if (!lose_spec.empty() && lose_spec[0] == '%') {       // lose=%k: every k-th piece
    uint32_t k = (uint32_t)std::stoul(lose_spec.substr(1));
    for (uint32_t i = 0; i < np0; i += k) lose.push_back(i);
  } else if (!lose_spec.empty()) lose = parse_list(lose_spec);
  Torrent* T = S.add_torrent(spec);
  if (!T->dl.is_hash_checked()) return "BADCASE lifetime1";
  for (size_t k = 0; k < linked.size(); k++) {
    if (!linked[k]) continue;
    // move the file into ../st and leave a link; where the length allows it the link text is exactly as long as the file
    std::string p = T->root + "/f" + std::to_string(k);
    std::string st = std::filesystem::path(T->root).parent_path().string() + "/st";
    std::filesystem::create_directories(st);
    uint64_t len = spec.files[k].length;
    std::string name = std::to_string(k % 10) + ((len >= 12 && len <= 200) ? std::string((size_t)len - 7, 'x') : std::string("f"));
    if (::rename(p.c_str(), (st + "/" + name).c_str()) != 0) return "BADCASE rename";
    if (::symlink(("../st/" + name).c_str(), p.c_str()) != 0) return "BADCASE symlink";
  }
  torrent::Object resume = torrent::Object::create_map();
  bool have_save = false;
  size_t cl_at_save = 0, tl_at_save = 0;
  for (auto& o : ops) {
    if (o == "start") { if (T->dl.info()->is_open() && T->dl.is_hash_checked() && !T->dl.info()->is_active()) S.start(T); }
    else if (o == "stop") S.stop(T);
    else if (o == "dl") { if (T->dl.info()->is_active() && !T->dl.file_list()->bitfield()->is_all_set()) serve(S, T, {}, false); }
    else if (o.rfind("dl=", 0) == 0) { if (T->dl.info()->is_active()) serve(S, T, parse_list(o.substr(3)), false); }
    else if (o.rfind("dlhold=", 0) == 0) { if (T->dl.info()->is_active()) serve(S, T, parse_list(o.substr(7)), true); }
    else if (o == "drop") { if (g_held) { g_held->close_all(); g_held.reset(); S.step(); } }
    else if (o == "openonly") { if (!T->dl.info()->is_open()) { T->dl.open(0); T->dl.hash_check(false); } }     // check started, not driven
    else if (o == "finishcheck") {
      torrent::Download d = T->dl;
      if (T->dl.info()->is_open() && !T->dl.is_hash_checked() && !S.settle([d]() { return d.is_hash_checked(); }, 20000)) return "BADCASE finishcheck";
    }
    else if (o.rfind("adv", 0) == 0) S.advance_us((int64_t)std::stoll(o.substr(3)) * 60 * 1000000ll);
    else if (o == "close") { S.stop(T); T->dl.close(0); S.step(); }
    else if (o == "reopen") {
      if (!T->dl.info()->is_open()) {
        T->dl.open(0);
        T->dl.hash_check(false);
        torrent::Download d = T->dl;
        if (!S.settle([d]() { return d.is_hash_checked(); }, 20000)) return "BADCASE reopen";
      }
    } else if (o == "save") {
      if (T->dl.info()->is_open()) {
        // what a client does at any moment: both calls; resume_save_progress itself declines while hashing
        torrent::resume_save_progress(T->dl, resume);
        torrent::resume_save_uncertain_pieces(T->dl, resume);
        have_save = true;
        cl_at_save = T->dl.transfer_list()->completed_list().size();
        tl_at_save = std::max<size_t>(tl_at_save, T->dl.transfer_list()->size());   // most pieces in flight at any save
      }
    } else return "BADCASE op";
  }
  g_held.reset();
  S.step();
  std::string root = T->root, content = T->content;
  // what was saved
  std::string saved = "-", sbf = "-", unc = "none";
  std::vector<int64_t> saved_m;
  if (have_save && resume.has_key_list("files")) {
    saved.clear();
    for (auto& f : resume.get_key_list("files")) {
      int64_t m = f.get_key_value("mtime");
      saved += m == ~int64_t{0} ? '0' : m == ~int64_t{1} ? '1' : m == ~int64_t{2} ? '2' : m == ~int64_t{3} ? 'A' : 'R';
    }
    if (resume.has_key_value("bitfield")) sbf = "V" + std::to_string(resume.get_key_value("bitfield"));
    else if (resume.has_key_string("bitfield")) sbf = "S" + hex(resume.get_key_string("bitfield"));
  }
  if (have_save && resume.has_key_string("uncertain_pieces")) {
    const std::string& u = resume.get_key_string("uncertain_pieces");
    unc.clear();
    for (size_t i = 0; i + 4 <= u.size(); i += 4) {
      uint32_t v = (uint32_t((unsigned char)u[i]) << 24) | (uint32_t((unsigned char)u[i + 1]) << 16) |
                   (uint32_t((unsigned char)u[i + 2]) << 8) | (unsigned char)u[i + 3];
      if (!unc.empty()) unc += ",";
      unc += std::to_string(v);
    }
    if (unc.empty()) unc = "empty";
    if (!resume.has_key_value("uncertain_pieces.timestamp")) unc += "!nots";
  }
  std::string cl = have_save ? std::to_string(cl_at_save) : std::string("-");
  std::string inflight = have_save ? std::to_string(tl_at_save) : std::string("-");
  std::string info = T->info_bytes;
  std::vector<std::string> hashes = T->piece_hashes;
  uint32_t np = T->piece_count(), pl = spec.piece_length;
  S.remove(T);

  // ---- crash: lost pieces (sizes and mtimes unchanged), then the perturbations
  {
    uint64_t off = 0;
    for (size_t k = 0; k < pert.size(); k++) {
      uint64_t len = spec.files[k].length;
      std::string p = root + "/f" + std::to_string(k);
      struct stat st;
      if (::stat(p.c_str(), &st) == 0 && !lose.empty()) {
        std::fstream f(p, std::ios::binary | std::ios::in | std::ios::out);
        for (uint32_t i : lose) {
          uint64_t a = std::max<uint64_t>((uint64_t)i * pl, off), b = std::min<uint64_t>((uint64_t)(i + 1) * pl, off + len);
          if (a >= b) continue;
          std::string junk(b - a, 'L');
          f.seekp((std::streamoff)(a - off));
          f.write(junk.data(), (std::streamsize)junk.size());
        }
        f.close();
        struct timespec ts[2] = {st.st_atim, st.st_mtim};
        utimensat(AT_FDCWD, p.c_str(), ts, 0);
      }
      off += len;
    }
  }
  for (size_t k = 0; k < pert.size(); k++) {
    std::string p = root + "/f" + std::to_string(k);
    char c = pert[k][0];
    if (c == 'D') ::unlink(p.c_str());
    else if (c == 'T') { if (::truncate(p.c_str(), std::stoll(pert[k].substr(1))) != 0) return "BADCASE truncate"; }
    else if (c == 'W') {
      struct stat st;
      if (::stat(p.c_str(), &st) != 0) return "BADCASE stat";
      std::string junk(st.st_size, 'j');
      std::ofstream(p, std::ios::binary | std::ios::trunc).write(junk.data(), (std::streamsize)junk.size());
      struct timespec ts[2] = {{st.st_atim.tv_sec, 0}, {st.st_mtim.tv_sec + 7, 0}};
      utimensat(AT_FDCWD, p.c_str(), ts, 0);
    }
  }
  // reference verdict
  std::string ssl(np, '0');
  {
    std::string disk;
    std::vector<std::pair<uint64_t, uint64_t>> have;   // [global begin, global end) present on disk
    uint64_t off = 0;
    for (size_t k = 0; k < pert.size(); k++) {
      std::ifstream f(root + "/f" + std::to_string(k), std::ios::binary);
      std::string c;
      if (f) c.assign(std::istreambuf_iterator<char>(f), std::istreambuf_iterator<char>());
      uint64_t len = spec.files[k].length;
      std::string padded = c.substr(0, len);
      uint64_t got = f ? padded.size() : 0;
      padded.resize(len, '\0');
      disk += padded;
      have.push_back({off, off + (f ? got : 0)});
      off += len;
    }
    for (uint32_t i = 0; i < np; i++) {
      uint64_t a = (uint64_t)i * pl, b = std::min<uint64_t>(a + pl, disk.size());
      bool ok = true;
      uint64_t fo = 0;
      for (size_t k = 0; k < pert.size(); k++) {
        uint64_t fe = fo + spec.files[k].length;
        uint64_t lo = std::max(a, fo), hi = std::min(b, fe);
        if (lo < hi && hi > have[k].second) ok = false;
        fo = fe;
      }
      unsigned char md[20];
      SHA1((const unsigned char*)disk.data() + a, b - a, md);
      if (ok && memcmp(md, hashes[i].data(), 20) == 0) ssl[i] = '1';
    }
  }

  std::string resaved = "-";
  if (resave) {
    // an intermediate lifetime: the resume data is loaded, the client saves the session (progress + uncertain pieces on the
    // SAME object, rtorrent's order) before the requested check has completed, and dies again
    S.advance_us(10 * 1000000ll);
    torrent::Download m = S.add_raw("d4:info" + info + "e");
    m.file_list()->set_root_dir(root);
    const_cast<torrent::DownloadInfo*>(m.info())->set_load_date((uint32_t)(S.now_us() / 1000000));
    m.open(0);
    try { torrent::resume_load_progress(m, resume); } catch (torrent::base_error&) {}
    if (resave == 2) m.hash_check(false);      // check started, not driven
    torrent::resume_save_progress(m, resume);
    torrent::resume_save_uncertain_pieces(m, resume);
    resaved = resume.has_key_string("uncertain_pieces") ? "kept" : "erased";
    m.close(0);
    S.step();
    torrent::download_remove(m);
    S.step();
  }
  S.advance_us(10 * 1000000ll);
  torrent::Download d = S.add_raw("d4:info" + info + "e");
  d.file_list()->set_root_dir(root);
  const_cast<torrent::DownloadInfo*>(d.info())->set_load_date((uint32_t)(S.now_us() / 1000000));
  d.open(0);
  std::string err;
  try {
    torrent::resume_load_progress(d, resume);
  } catch (torrent::base_error& e) {
    err = e.what();
  }
  uint32_t n = d.file_list()->size_chunks();
  std::string ranges;
  for (uint32_t i = 0; i < n; i++) ranges.push_back(d.ptr()->hash_checker()->hashing_ranges().has(i) ? '1' : '0');
  requested_check(S, d);
  std::string bits;
  const torrent::Bitfield* bf = d.file_list()->bitfield();
  if (bf->empty()) bits = "-";
  else for (uint32_t i = 0; i < bf->size_bits(); i++) bits.push_back(bf->get(i) ? '1' : '0');
  bool sound = true;
  for (size_t i = 0; i < bits.size() && bits != "-"; i++) if (bits[i] == '1' && ssl[i] != '1') sound = false;
  d.close(0);
  S.step();
  torrent::download_remove(d);
  S.step();
  std::error_code ec;
  std::filesystem::remove_all(std::filesystem::path(root).parent_path(), ec);
  return "saved=" + saved + " sbf=" + sbf + " unc=" + unc + " cl=" + cl + (resave ? " resaved_unc=" + resaved : std::string()) +
         " load_ranges=" + ranges + " bits=" + bits + " || ssl=" + ssl +
         " sound=" + (sound ? "1" : "0") + " inflight=" + inflight + (err.empty() ? "" : " load_exception=" + err);
}

// ------------------------------------------------------------------------------------------
// L case:  L <piece_len> <load_date> | <len>,<size on disk or -1>,<mtime>[,p = padding file] ... | <resume spec> | <bad pieces or ->
//   resume spec tokens:  top=m|x   files=none|notlist|str|map|empty|<e>,<e>,..  (e: x/xi/xl entry is a string/int/list,
//                        n map without mtime, s/l/m mtime is a string/list/map, <int> mtime value)
//                        bf=none|L|M|V<int>|S<hex>   unc=none|V|L|<hex>|-   ts=none|str|L|<int>
//                        comp=<v>,<v>,.. prio=<v>,.. per-file 'completed' / 'priority' for resume_load_file_priorities (n absent, s string)
//   bad pieces: their bytes on disk are overwritten (piece does not verify)
// Output:  out=<Ignored|Loaded|Threw> bits=<after load> ranges=<after load> flags=<create,resize per file>
//          final=<bits after hash_check(false)>  ||  ssl=<valid on disk by OpenSSL> sound=<0|1> exc=<message>
static std::string bits_str(torrent::Download d) {
  const torrent::Bitfield* bf = d.file_list()->bitfield();
  if (bf->empty()) return "-";
  std::string s;
  for (uint32_t i = 0; i < bf->size_bits(); i++) s.push_back(bf->get(i) ? '1' : '0');
  return s;
}

static std::string run_load(Session& S, const std::string& line, unsigned serial) {
  std::vector<std::string> sec;
  size_t p = 0;
  while (true) {
    size_t q = line.find('|', p);
    sec.push_back(line.substr(p, q == std::string::npos ? std::string::npos : q - p));
    if (q == std::string::npos) break;
    p = q + 1;
  }
  if (sec.size() != 4) return "BADCASE";
  auto head = split_ws(sec[0]), fl = split_ws(sec[1]), rs = split_ws(sec[2]), bad = split_ws(sec[3]);
  if (head.size() != 3) return "BADCASE";
  TorrentSpec spec;
  spec.name = "l" + std::to_string(serial);
  spec.piece_length = (uint32_t)std::stoul(head[1]);
  uint32_t load_date = (uint32_t)std::stoul(head[2]);
  std::vector<int64_t> dsize, dmtime;
  for (size_t k = 0; k < fl.size(); k++) {
    size_t a = fl[k].find(','), b = fl[k].find(',', a + 1), c = fl[k].find(',', b + 1);
    FileSpec fsp;
    fsp.path = "f" + std::to_string(k);
    fsp.length = std::stoull(fl[k].substr(0, a));
    fsp.padding = c != std::string::npos && fl[k].substr(c + 1) == "p";   // BEP 47 padding file: never on disk, zeros
    spec.files.push_back(fsp);
    dsize.push_back(fsp.padding ? -1 : std::stoll(fl[k].substr(a + 1, b - a - 1)));
    dmtime.push_back(std::stoll(fl[k].substr(b + 1, c == std::string::npos ? std::string::npos : c - b - 1)));
  }
  auto T = Session::make_metainfo(spec);
  uint32_t np = T->piece_count(), pl = spec.piece_length;
  std::string disk = T->content;
  for (auto& bp : bad) {
    if (bp == "-") continue;
    uint64_t i = std::stoull(bp);
    for (uint64_t g = i * pl; g < std::min<uint64_t>((i + 1) * pl, disk.size()); g++) disk[g] = char(disk[g] ^ 0x77);
  }
  std::string base = S.scratch() + "/L" + std::to_string(serial), root = base + "/t";
  std::filesystem::create_directories(root);
  std::string ssl(np, '0');
  {
    std::vector<uint64_t> have(fl.size(), 0);
    std::string ondisk = disk;
    uint64_t off = 0;
    for (size_t k = 0; k < fl.size(); k++) {
      uint64_t len = spec.files[k].length;
      if (spec.files[k].padding) have[k] = len;
      if (dsize[k] >= 0) {
        std::string c = disk.substr(off, std::min<uint64_t>(len, (uint64_t)dsize[k]));
        have[k] = c.size();
        if ((uint64_t)dsize[k] > len) c.append((size_t)(dsize[k] - len), char(0xa5));
        std::string path = root + "/f" + std::to_string(k);
        std::ofstream(path, std::ios::binary | std::ios::trunc).write(c.data(), (std::streamsize)c.size());
        struct timespec ts[2] = {{dmtime[k], 0}, {dmtime[k], 0}};
        if (utimensat(AT_FDCWD, path.c_str(), ts, 0) != 0) return "BADCASE utimensat";
      }
      off += len;
    }
    for (uint32_t i = 0; i < np; i++) {
      uint64_t a = (uint64_t)i * pl, b = std::min<uint64_t>(a + pl, disk.size());
      bool ok = true;
      uint64_t fo = 0;
      for (size_t k = 0; k < fl.size(); k++) {
        uint64_t fe = fo + spec.files[k].length;
        uint64_t lo = std::max(a, fo), hi = std::min(b, fe);
        if (lo < hi && hi - fo > have[k]) ok = false;
        fo = fe;
      }
      unsigned char md[20];
      SHA1((const unsigned char*)disk.data() + a, b - a, md);
      if (ok && memcmp(md, T->piece_hashes[i].data(), 20) == 0) ssl[i] = '1';
    }
  }
  // the resume object
  torrent::Object resume = torrent::Object::create_map();
  for (auto& tk : rs) {
    size_t e = tk.find('=');
    std::string key = tk.substr(0, e), v = tk.substr(e + 1);
    if (key == "top") { if (v == "x") resume = torrent::Object::create_list(); }
    else if (!resume.is_map()) continue;
    else if (key == "files") {
      if (v == "none") continue;
      if (v == "notlist") { resume.insert_key("files", torrent::Object(int64_t(5))); continue; }
      if (v == "str") { resume.insert_key("files", torrent::Object(std::string("abc"))); continue; }
      if (v == "map") { resume.insert_key("files", torrent::Object::create_map()); continue; }
      if (v == "empty") { resume.insert_key("files", torrent::Object::create_list()); continue; }
      torrent::Object& l = resume.insert_key("files", torrent::Object::create_list());
      size_t a = 0;
      while (a <= v.size()) {
        size_t b = v.find(',', a);
        std::string x = v.substr(a, b == std::string::npos ? std::string::npos : b - a);
        if (x == "x") l.as_list().push_back(torrent::Object(std::string("junk")));
        else if (x == "xi") l.as_list().push_back(torrent::Object(int64_t(7)));
        else if (x == "xl") l.as_list().push_back(torrent::Object::create_list());
        else {
          torrent::Object m = torrent::Object::create_map();
          if (x == "s") m.insert_key("mtime", torrent::Object(std::string("12")));
          else if (x == "l") m.insert_key("mtime", torrent::Object::create_list());
          else if (x == "m") m.insert_key("mtime", torrent::Object::create_map());
          else if (x != "n") m.insert_key("mtime", torrent::Object(int64_t(std::stoll(x))));
          l.as_list().push_back(m);
        }
        if (b == std::string::npos) break;
        a = b + 1;
      }
    } else if (key == "comp" || key == "prio") {
      // per-file 'completed' / 'priority' values for resume_load_file_priorities (n = key absent, s = a string)
      if (!resume.has_key_list("files")) continue;
      auto& lst = resume.get_key_list("files");
      size_t a = 0;
      auto it = lst.begin();
      while (a <= v.size() && it != lst.end()) {
        size_t b = v.find(',', a);
        std::string x = v.substr(a, b == std::string::npos ? std::string::npos : b - a);
        if (it->is_map() && x != "n") {
          if (x == "s") it->insert_key(key == "comp" ? "completed" : "priority", torrent::Object(std::string("3")));
          else it->insert_key(key == "comp" ? "completed" : "priority", torrent::Object(int64_t(std::stoll(x))));
        }
        ++it;
        if (b == std::string::npos) break;
        a = b + 1;
      }
    } else if (key == "bf") {
      if (v == "none") continue;
      if (v == "L") resume.insert_key("bitfield", torrent::Object::create_list());
      else if (v == "M") resume.insert_key("bitfield", torrent::Object::create_map());
      else if (v[0] == 'V') resume.insert_key("bitfield", torrent::Object(int64_t(std::stoll(v.substr(1)))));
      else resume.insert_key("bitfield", torrent::Object(unhex(v.size() > 1 ? v.substr(1) : std::string("-"))));
    } else if (key == "unc") {
      if (v == "V") resume.insert_key("uncertain_pieces", torrent::Object(int64_t(3)));
      else if (v == "L") resume.insert_key("uncertain_pieces", torrent::Object::create_list());
      else if (v != "none") resume.insert_key("uncertain_pieces", torrent::Object(unhex(v)));
    } else if (key == "ts") {
      if (v == "str") resume.insert_key("uncertain_pieces.timestamp", torrent::Object(std::string("7")));
      else if (v == "L") resume.insert_key("uncertain_pieces.timestamp", torrent::Object::create_list());
      else if (v != "none") resume.insert_key("uncertain_pieces.timestamp", torrent::Object(int64_t(std::stoll(v))));
    }
  }
  torrent::Download d = S.add_raw("d4:info" + T->info_bytes + "e");
  d.file_list()->set_root_dir(root);
  const_cast<torrent::DownloadInfo*>(d.info())->set_load_date(load_date);
  // per-file priorities / completed counters are restored before the download is opened (a client's order)
  std::string fp = "ok";
  try {
    torrent::resume_load_file_priorities(d, resume);
  } catch (torrent::internal_error&) {
    throw;
  } catch (torrent::base_error& e) {
    fp = "exc";
  }
  d.open(0);
  std::string exc, outcome;
  bool had_bits = !d.file_list()->bitfield()->empty();
  (void)had_bits;
  try {
    torrent::resume_load_progress(d, resume);
    outcome = d.file_list()->bitfield()->empty() ? "Ignored" : "Loaded";
  } catch (torrent::internal_error&) {
    throw;
  } catch (torrent::base_error& e) {
    exc = e.what();
    outcome = "Threw";
  }
  std::string out = "out=" + outcome + " bits=" + bits_str(d) + " ranges=";
  uint32_t n = d.file_list()->size_chunks();
  for (uint32_t i = 0; i < n; i++) out.push_back(d.ptr()->hash_checker()->hashing_ranges().has(i) ? '1' : '0');
  out += " flags=";
  bool first = true;
  for (auto& f : *d.file_list()) {
    if (!first) out += ",";
    first = false;
    out.push_back(f->is_create_queued() ? '1' : '0');
    out.push_back(f->is_resize_queued() ? '1' : '0');
  }
  requested_check(S, d);
  std::string fin = d.info()->is_open() ? bits_str(d) : "closed";
  bool sound = true;
  if (fin != "closed" && fin != "-")
    for (size_t i = 0; i < fin.size(); i++) if (fin[i] == '1' && ssl[i] != '1') sound = false;
  out += " final=" + fin + " || ssl=" + ssl + " sound=" + (sound ? "1" : "0") + " fp=" + fp + " exc=" + exc;
  d.close(0);
  S.step();
  torrent::download_remove(d);
  S.step();
  std::error_code ec;
  std::filesystem::remove_all(base, ec);
  return out;
}

static int worker_main() {
  std_setup();
  std::unique_ptr<Session> S;
  std::string line;
  unsigned serial = 0;
  while (std::getline(std::cin, line)) {
    try {
      if (!S) S = std::make_unique<Session>();
      g_quick_first = line.size() > 2 && line[1] == 'q';
      if (g_quick_first) line.erase(1, 1);
      if (line.rfind("L ", 0) == 0) std::cout << run_load(*S, line, serial++) << "\n";
      else if (line.rfind("T ", 0) == 0) std::cout << run_case(*S, line.substr(2), serial++) << "\n";
      else std::cout << "BADCASE\n";
    } catch (torrent::internal_error& e) {
      std::cout << "ERR:internal || " << e.what() << "\n";
      std::cout.flush();
      _exit(0);
    } catch (std::exception& e) {
      std::cout << "ERR:other " << e.what() << "\n";
      std::cout.flush();
      _exit(0);
    }
  }
  S.reset();
  return 0;
}

// ------------------------------------------------------------------------------------------
// --probe: constants and repairs measured on the COMPILED code (no source text involved)
static std::vector<int> probe_prune(Session& S, unsigned serial, const std::vector<int>& ages_min) {
  // a torrent with one missing piece; synthetic completed-list entries of the given ages (index = age); then ONE real
  // completion, whose TransferList::hash_succeeded runs the pruning; returns the ages that survive
  TorrentSpec spec;
  spec.name = "q" + std::to_string(serial);
  spec.piece_length = 2048;
  spec.files = {{"f0", 4096}};
  spec.corrupt_pieces = {1};
  Torrent* T = S.add_torrent(spec);
  auto* tl = const_cast<torrent::TransferList*>(T->dl.transfer_list());
  for (int a : ages_min) tl->m_completedList.emplace_back(S.now_us() - (int64_t)a * 60 * 1000000ll, (uint32_t)(1000 + a));
  S.start(T);
  serve(S, T, {}, false);
  std::vector<int> left;
  for (auto& e : tl->completed_list()) if (e.second >= 1000) left.push_back((int)e.second - 1000);
  S.remove(T);
  return left;
}

static int probe_main() {
  std_setup();
  Session S;
  unsigned serial = 0;
  auto field = [](const std::string& out, const std::string& key) {
    size_t p = out.find(key + "=");
    if (p == std::string::npos) return std::string();
    size_t e = out.find(' ', p);
    return out.substr(p + key.size() + 1, e == std::string::npos ? std::string::npos : e - p - key.size() - 1);
  };
  // repairs, decided by behaviour
  std::string o1 = run_load(S, "L 2048 1000 | 8192,8192,500 8192,-1,0 | top=m files=500,500 bf=V8 unc=none ts=none | -", serial++);
  std::string o2 = run_load(S, "L 2048 1000 | 8192,8192,500 8192,8192,500 | top=m files=500,x bf=V8 unc=none ts=none | -", serial++);
  std::string o3 = run_load(S, "L 2048 1000 | 8192,8192,500 8192,8192,500 | top=m files=-4,-4 bf=V8 unc=ffffffff00000002 ts=900 | -", serial++);
  int checks_exists = field(o1, "ranges") == "00001111" ? 1 : 0;
  int validates = field(o2, "out") == "Ignored" ? 1 : 0;
  int skips = field(o3, "out") == "Loaded" ? 1 : 0;
  // uncertain window: which synthetic completion ages does resume_save_uncertain_pieces write
  int window = 0;
  {
    TorrentSpec spec;
    spec.name = "w";
    spec.piece_length = 2048;
    spec.files = {{"f0", 4096}};
    Torrent* T = S.add_torrent(spec);
    auto* tl = const_cast<torrent::TransferList*>(T->dl.transfer_list());
    for (int a = 240; a >= 1; a--) tl->m_completedList.emplace_back(S.now_us() - (int64_t)a * 60 * 1000000ll + 1000000, (uint32_t)a);
    torrent::Object r = torrent::Object::create_map();
    torrent::resume_save_uncertain_pieces(T->dl, r);
    if (r.has_key_string("uncertain_pieces")) {
      const std::string& u = r.get_key_string("uncertain_pieces");
      for (size_t i = 0; i + 4 <= u.size(); i += 4) {
        int v = (int)((uint32_t((unsigned char)u[i]) << 24) | (uint32_t((unsigned char)u[i + 1]) << 16) | (uint32_t((unsigned char)u[i + 2]) << 8) | (unsigned char)u[i + 3]);
        window = std::max(window, v);
      }
    }
    tl->m_completedList.clear();
    S.remove(T);
  }
  // pruning: keep = oldest age that survives a prune; prune_after = smallest age of the oldest entry that triggers one
  int keep = 0, prune_after = 0;
  {
    std::vector<int> ages;
    for (int a = 480; a >= 1; a--) ages.push_back(a);
    auto left = probe_prune(S, serial++, ages);
    for (int a : left) keep = std::max(keep, a);
    int lo = 0, hi = 480;    // an only entry of age a (> keep) is erased iff a > prune_after
    while (hi - lo > 1) {
      int mid = (lo + hi) / 2;
      auto l2 = probe_prune(S, serial++, {mid});
      if (l2.empty()) hi = mid; else lo = mid;
    }
    prune_after = lo;
  }
  // does a save while the download is not hash checked keep the stored uncertain list?
  int unc_kept = 0;
  {
    TorrentSpec spec;
    spec.name = "u";
    spec.piece_length = 2048;
    spec.files = {{"f0", 4096}};
    auto T = Session::make_metainfo(spec);
    std::string root = S.scratch() + "/u/t";
    std::filesystem::create_directories(root);
    std::ofstream(root + "/f0", std::ios::binary).write(T->content.data(), (std::streamsize)T->content.size());
    torrent::Download d = S.add_raw("d4:info" + T->info_bytes + "e");
    d.file_list()->set_root_dir(root);
    d.open(0);
    torrent::Object r = torrent::Object::create_map();
    r.insert_key("uncertain_pieces", torrent::Object(std::string("\0\0\0\1", 4)));
    r.insert_key("uncertain_pieces.timestamp", torrent::Object(int64_t(5)));
    torrent::resume_save_uncertain_pieces(d, r);
    unc_kept = r.has_key_string("uncertain_pieces") ? 1 : 0;
    d.close(0);
    S.step();
    torrent::download_remove(d);
    S.step();
  }
  std::cout << "{\"unc_kept_while_unchecked\": " << unc_kept << ", \"load_checks_exists\": " << checks_exists << ", \"load_validates_entries\": " << validates
            << ", \"unc_skips_out_of_range\": " << skips << ", \"uncertain_window_min\": " << window
            << ", \"completed_keep_min\": " << keep << ", \"completed_prune_after_min\": " << prune_after << "}\n";
  return 0;
}

int main(int argc, char** argv) {
  if (argc > 1 && std::strcmp(argv[1], "--probe") == 0) return probe_main();
  return ltv::supervise(argc, argv, worker_main);
}
