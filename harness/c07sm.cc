// C07 static-map implementation driver: same case protocol as ocaml/c07sm_driver.ml.
// The four REAL tables are used through the real static_map_type instantiations
// (ExtHandshakeMessage, ExtPEXMessage, ExtMetadataMessage from protocol/extensions.h here, DhtMessage
// from dht/dht_transaction.h in c07sm_dht.cc) and the template entry points static_map_read_bencode /
// static_map_write_bencode_c; inline tables go through the exported pointer interface
// static_map_read_bencode_c / static_map_write_bencode_c_wrap with exact-size heap arrays for the
// key table, the value array and the input (a one-element over-read/over-write hits an ASan redzone).
#include "config.h"
#include "common/util.h"

#include <memory>

#include "torrent/exceptions.h"
#include "torrent/object.h"
#include "torrent/object_raw_bencode.h"
#include "torrent/object_static_map.h"
#include "torrent/object_stream.h"
#include "protocol/extensions.h"
#include "c07sm_table.h"

using namespace ltv;
using torrent::Object;

static Object parse_tree(const std::vector<std::string>& t, size_t& i) {
  const std::string& k = t.at(i++);
  if (k == "I") return Object((int64_t)std::stoll(t.at(i++)));
  if (k == "S") return Object(unhex(t.at(i++)));
  if (k == "L") {
    int n = std::stoi(t.at(i++));
    Object o = Object::create_list();
    for (int j = 0; j < n; j++) o.as_list().push_back(parse_tree(t, i));
    return o;
  }
  if (k == "M") {
    int n = std::stoi(t.at(i++));
    Object o = Object::create_map();
    for (int j = 0; j < n; j++) {
      std::string key = unhex(t.at(i++));
      o.as_map()[key] = parse_tree(t, i);
    }
    return o;
  }
  throw std::runtime_error("tree");
}

static void print_tree(std::string& b, const Object& o) {
  switch (o.type()) {
  case Object::TYPE_VALUE: b += "I " + std::to_string(o.as_value()); break;
  case Object::TYPE_STRING: b += "S " + hex(o.as_string()); break;
  case Object::TYPE_LIST:
    b += "L " + std::to_string(o.as_list().size());
    for (auto& x : o.as_list()) { b += ' '; print_tree(b, x); }
    break;
  case Object::TYPE_MAP:
    b += "M " + std::to_string(o.as_map().size());
    for (auto& kv : o.as_map()) { b += ' '; b += hex(kv.first); b += ' '; print_tree(b, kv.second); }
    break;
  default: b += "?type" + std::to_string(o.type()); break;
  }
}

static std::string show_sval(const Object& o) {
  switch (o.type()) {
  case Object::TYPE_NONE: return "-";
  case Object::TYPE_RAW_BENCODE: return "B " + hex(o.as_raw_bencode().data(), o.as_raw_bencode().size());
  case Object::TYPE_RAW_STRING: return "S " + hex(o.as_raw_string().data(), o.as_raw_string().size());
  case Object::TYPE_RAW_LIST: return "L " + hex(o.as_raw_list().data(), o.as_raw_list().size());
  case Object::TYPE_RAW_MAP: return "M " + hex(o.as_raw_map().data(), o.as_raw_map().size());
  default: {
    std::string b = (o.flags() & Object::flag_unordered) ? "V u " : "V o ";
    print_tree(b, o);
    return b;
  }
  }
}

struct InlineTable : Table {
  size_t n;
  static_map_mapping_type* k;
  static_map_entry_type* v;
  explicit InlineTable(const std::string& body) {
    std::vector<std::pair<uint32_t, std::string>> items;
    size_t p = 0;
    while (p < body.size()) {
      size_t q = body.find(',', p);
      if (q == std::string::npos) q = body.size();
      std::string it = body.substr(p, q - p);
      size_t d = it.find('.');
      if (d == std::string::npos) throw std::runtime_error("tspec");
      items.emplace_back((uint32_t)std::stoul(it.substr(0, d)), unhex(it.substr(d + 1)));
      p = q + 1;
    }
    n = items.size();
    k = new static_map_mapping_type[n];
    v = new static_map_entry_type[n];
    for (size_t i = 0; i < n; i++) {
      if (items[i].second.size() >= static_map_mapping_type::max_key_size) throw std::runtime_error("key too long");
      k[i].index = items[i].first;
      memset(k[i].key, 0, static_map_mapping_type::max_key_size);
      memcpy(k[i].key, items[i].second.data(), items[i].second.size());
    }
  }
  ~InlineTable() override { delete[] k; delete[] v; }
  size_t size() const override { return n; }
  const static_map_mapping_type* keys() const override { return k; }
  static_map_entry_type* values() override { return v; }
  const char* read(const char* f, const char* l) override { return torrent::static_map_read_bencode_c(f, l, v, k, k + n); }
  torrent::object_buffer_t write(char* f, char* l) override {
    return torrent::static_map_write_bencode_c_wrap(torrent::object_write_to_buffer, NULL, std::make_pair(f, l), v, k, k + n);
  }
};

static std::unique_ptr<Table> make_table(const std::string& s) {
  if (s == "H") return std::make_unique<RealTable<torrent::ExtHandshakeMessage>>();
  if (s == "P") return std::make_unique<RealTable<torrent::ExtPEXMessage>>();
  if (s == "M") return std::make_unique<RealTable<torrent::ExtMetadataMessage>>();
  if (s == "D") return make_dht_table();
  if (s.size() >= 2 && s.compare(0, 2, "t=") == 0) return std::make_unique<InlineTable>(s.substr(2));
  throw std::runtime_error("tspec");
}

static std::string do_read(Table& t, const std::string& in) {
  exact_buf buf(in);
  try {
    const char* e = t.read(buf.p, buf.p + buf.n);
    std::string out = "OK " + std::to_string(e - buf.p);
    // raw_* objects point into buf: print before it is released
    for (size_t i = 0; i < t.size(); i++)
      out += " | " + std::to_string(i) + "=" + show_sval(t.values()[i].object);
    return out;
  } catch (torrent::bencode_error&) { return "REJECT";
  } catch (torrent::internal_error&) { return "ERR:internal";
  } catch (std::exception& e) { return std::string("ERR:other:") + e.what(); }
}

int main() {
  std_setup();
  std::string line;
  while (std::getline(std::cin, line)) {
    auto t = split_ws(line);
    try {
      if (t.size() == 2 && t[0] == "T") {
        auto tb = make_table(t[1]);
        std::string out = "TABLE " + std::to_string(tb->size());
        for (size_t i = 0; i < tb->size(); i++) {
          const auto& m = tb->keys()[i];
          out += " " + std::to_string(m.index) + "." + hex(m.key, strnlen(m.key, static_map_mapping_type::max_key_size));
        }
        std::cout << out << "\n";
      } else if (t.size() == 3 && t[0] == "R") {
        auto tb = make_table(t[1]);
        std::cout << do_read(*tb, unhex(t[2])) << "\n";
      } else if (t.size() >= 3 && (t[0] == "W" || t[0] == "RI")) {
        auto tb = make_table(t[1]);
        int k = std::stoi(t[2]);
        size_t i = 3;
        std::vector<std::unique_ptr<std::string>> keep;  // backing store of the raw views
        for (int j = 0; j < k; j++) {
          size_t idx = std::stoul(t.at(i++));
          std::string kind = t.at(i++);
          Object o;
          if (kind == "V") {
            o = parse_tree(t, i);
          } else if (kind == "U") {
            o = parse_tree(t, i);   // the flag is set on the stored copy below (copy assignment drops internal flags)
          } else {
            keep.push_back(std::make_unique<std::string>(unhex(t.at(i++))));
            const std::string& s = *keep.back();
            if (kind == "B") o = torrent::raw_bencode(s.data(), s.size());
            else if (kind == "S") o = torrent::raw_string(s.data(), s.size());
            else if (kind == "L") o = torrent::raw_list(s.data(), s.size());
            else if (kind == "M") o = torrent::raw_map(s.data(), s.size());
            else throw std::runtime_error("sval");
          }
          if (idx < tb->size()) {
            tb->values()[idx].object = o;
            if (kind == "U") tb->values()[idx].object.set_internal_flags(Object::flag_unordered);
          }
        }
        if (t[0] == "RI") {
          // destination independence: read INTO the map that already holds (stale) values
          if (i + 1 != t.size()) { std::cout << "BADCASE\n"; continue; }
          std::cout << do_read(*tb, unhex(t[i])) << "\n";
          continue;
        }
        std::string enc;
        {
          size_t cap = 1 << 20;
          std::unique_ptr<char[]> buffer(new char[cap]);
          try {
            auto r = tb->write(buffer.get(), buffer.get() + cap);
            enc.assign(buffer.get(), r.second - buffer.get());
          } catch (torrent::internal_error&) {
            std::cout << "ERR:internal\n";
            continue;
          }
        }
        auto tb2 = make_table(t[1]);
        std::cout << "enc:" << hex(enc) << " | " << do_read(*tb2, enc) << "\n";
      } else {
        std::cout << "BADCASE\n";
      }
    } catch (torrent::internal_error& e) {
      std::cout << "ERR:internal " << e.what() << "\n";
    } catch (torrent::bencode_error& e) {
      std::cout << "ERR:bencode " << e.what() << "\n";
    } catch (std::exception& e) {
      std::cout << "ERR:other " << e.what() << "\n";
    }
  }
  return 0;
}
