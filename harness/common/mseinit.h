// Minimal MSE *initiator* (role A: the library's INCOMING peer) on top of msepeer.h (MseEnd: DH,
// SHA-1, own RC4 -- nothing from libtorrent) and wirepeer.h, for drivers that just need an RC4
// stream to the library (C05 upload path). Offers crypto_provide = 2 (RC4 only), no PadA/PadC, no IA.
// The full token-level MSE scripting (both roles, malformed variants) is harness/c06.cc's business.
//
//   WirePeer P; P.connect_to(S.listen_port(), ip);
//   MseInitiator M(P, seed);
//   if (!M.negotiate(S, T->info_hash)) ...          // after this everything both ways is RC4
//   M.send(WirePeer::handshake(T->info_hash, id) + WirePeer::keepalive());
//   pump(S, {&P}); M.absorb();                      // decrypts P.rx into M.plain.rx
//   HandshakeIn h; M.plain.take_handshake(h); WireMsg m; while (M.plain.next_message(m)) ...
//   M.keystream_in_used()                           // bytes of the library's keystream consumed so far
#pragma once

#include "common/msepeer.h"
#include "common/wirepeer.h"

namespace ltv {

struct MseInitiator {
  WirePeer& w;
  MseEnd e;
  WirePeer plain;          // never connected: only its rx buffer + parsers are used (decrypted stream)
  bool established = false;
  unsigned selected = 0;

  MseInitiator(WirePeer& wire, uint64_t seed) : w(wire), e(seed, true) {}

  static std::string be16(unsigned v) { char b[2] = {char(v >> 8), char(v)}; return std::string(b, 2); }

  template <class S>
  bool negotiate(S& session, const std::string& info_hash) {
    w.send_bytes(e.pubkey());
    pump(session, {&w});
    if (w.rx.size() < 96) return false;
    e.set_remote_key(w.rx.substr(0, 96));
    e.start_ciphers(info_hash);
    w.send_bytes(e.req1() + e.req2xor3(info_hash) +
                 e.enc(std::string(8, '\0') + WirePeer::be32(2) + be16(0) + be16(0)));
    pump(session, {&w});
    std::string pat = e.vc_pattern_in();
    size_t p = w.rx.find(pat, 96);
    if (p == std::string::npos || w.rx.size() < p + 14) return false;
    std::string neg = e.dec(w.rx.substr(p, 14));
    if (neg.compare(0, 8, std::string(8, '\0')) != 0) return false;
    selected = (unsigned char)neg[11];
    unsigned pad = ((unsigned char)neg[12] << 8) | (unsigned char)neg[13];
    if (selected != 2 || w.rx.size() < p + 14 + pad) return false;
    e.dec(w.rx.substr(p + 14, pad));
    w.rx.erase(0, p + 14 + pad);
    established = true;
    absorb();
    return true;
  }
  // encrypt exactly once, then hand to the socket (WirePeer queues what the kernel does not take)
  void send(const std::string& plaintext) { w.send_bytes(e.enc(plaintext)); }
  std::string seal(const std::string& plaintext) { return e.enc(plaintext); }
  void absorb() {
    if (!established || w.rx.empty()) return;
    plain.rx += e.dec(w.rx);
    plain.rx_total += w.rx.size();
    w.rx.clear();
  }
  uint64_t keystream_in_used() const { return e.dec_index; }
};

}  // namespace ltv
