// Minimal MSE *initiator* (role A: the library's INCOMING peer) on top of msepeer.h (MseEnd: DH,
// SHA-1, own RC4 -- nothing from libtorrent) and wirepeer.h, for drivers that just need an RC4
// stream to the library (C05 upload path). Offers crypto_provide = 2 (RC4 only), no PadA/PadC, no IA.
// The full token-level MSE scripting (both roles, malformed variants) is harness/c06.cc's business.
//
//   WirePeer P; P.connect_to(S.listen_port(), ip);
//   MseInitiator M(P, seed);
//   if (!M.negotiate(S, T->info_hash)) ...          // after this everything both ways is RC4
//   M.send(WirePeer::handshake(T->info_hash, id) + WirePeer::keepalive());
//   pump(S, {&P}); M.absorb();                      // decrypts P.rx into M.plain.rx
//   HandshakeIn h; M.plain.take_handshake(h); WireMsg m; while (M.plain.next_message(m)) ...
//   M.keystream_in_used()                           // bytes of the library's keystream consumed so far
#pragma once

#include "common/msepeer.h"
#include "common/wirepeer.h"

namespace ltv {

struct MseInitiator {
  WirePeer& w;
  MseEnd e;
  WirePeer plain;          // never connected: only its rx buffer + parsers are used (decrypted stream)
  bool established = false;
  unsigned selected = 0;   // crypto_select of the library: 1 plaintext stream after the MSE handshake, 2 RC4

  MseInitiator(WirePeer& wire, uint64_t seed) : w(wire), e(seed, true) {}

  static std::string be16(unsigned v) { char b[2] = {char(v >> 8), char(v)}; return std::string(b, 2); }

  // provide: crypto_provide bit field offered to the library (1 plaintext, 2 RC4, 3 both)
  template <class S>
  bool negotiate(S& session, const std::string& info_hash, unsigned provide = 2) {
    w.send_bytes(e.pubkey());
    pump(session, {&w});
    if (w.rx.size() < 96) return false;
    e.set_remote_key(w.rx.substr(0, 96));
    e.start_ciphers(info_hash);
    w.send_bytes(e.req1() + e.req2xor3(info_hash) +
                 e.enc(std::string(8, '\0') + WirePeer::be32(provide) + be16(0) + be16(0)));
    pump(session, {&w});
    std::string pat = e.vc_pattern_in();
    size_t p = w.rx.find(pat, 96);
    if (p == std::string::npos || w.rx.size() < p + 14) return false;
    std::string neg = e.dec(w.rx.substr(p, 14));
    if (neg.compare(0, 8, std::string(8, '\0')) != 0) return false;
    selected = (unsigned char)neg[11];
    unsigned pad = ((unsigned char)neg[12] << 8) | (unsigned char)neg[13];
    if ((selected != 2 && selected != 1) || (selected & provide) == 0 || w.rx.size() < p + 14 + pad) return false;
    e.dec(w.rx.substr(p + 14, pad));
    w.rx.erase(0, p + 14 + pad);
    established = true;
    absorb();
    return true;
  }
  // encrypt exactly once, then hand to the socket (WirePeer queues what the kernel does not take)
  bool rc4() const { return selected == 2; }
  void send(const std::string& plaintext) { w.send_bytes(seal(plaintext)); }
  std::string seal(const std::string& plaintext) { return rc4() ? e.enc(plaintext) : plaintext; }
  void absorb() {
    if (!established || w.rx.empty()) return;
    plain.rx += rc4() ? e.dec(w.rx) : w.rx;
    plain.rx_total += w.rx.size();
    w.rx.clear();
  }
  uint64_t keystream_in_used() const { return e.dec_index; }
};

// Minimal MSE *responder* (role B: the library's OUTGOING peer; the library must be configured to
// prefer/require encrypted handshakes, Session::Config::enc_handshake_mode = 2). No PadB/PadD.
//   WirePeer P; uint16_t port = P.listen_on(ip); S.connect_out(T, ip, port);
//   MseResponder M(P, seed); M.negotiate(S, T->info_hash, /*crypto_select=*/2);
//   HandshakeIn h; M.plain.take_handshake(h);      // the library's BT handshake arrived as IA
//   M.send(WirePeer::handshake(...) + WirePeer::keepalive()); ...
struct MseResponder {
  WirePeer& w;
  MseEnd e;
  WirePeer plain;
  bool established = false;
  unsigned provide = 0, selected = 0;

  MseResponder(WirePeer& wire, uint64_t seed) : w(wire), e(seed, false) {}

  template <class S>
  bool negotiate(S& session, const std::string& info_hash, unsigned select = 2) {
    pump(session, {&w});                       // accept; the library sends Ya + PadA
    if (w.fd == -1 || w.rx.size() < 96) return false;
    e.set_remote_key(w.rx.substr(0, 96));
    w.send_bytes(e.pubkey());
    pump(session, {&w});
    size_t p = w.rx.find(e.req1(), 96);
    if (p == std::string::npos || w.rx.size() < p + 40 + 14) return false;
    if (w.rx.compare(p + 20, 20, e.req2xor3(info_hash)) != 0) return false;
    e.start_ciphers(info_hash);
    std::string neg = e.dec(w.rx.substr(p + 40, 14));
    if (neg.compare(0, 8, std::string(8, '\0')) != 0) return false;
    provide = (unsigned char)neg[11];
    unsigned padc = ((unsigned char)neg[12] << 8) | (unsigned char)neg[13];
    size_t q = p + 40 + 14;
    if (w.rx.size() < q + padc + 2) return false;
    e.dec(w.rx.substr(q, padc));
    std::string l = e.dec(w.rx.substr(q + padc, 2));
    unsigned ia = ((unsigned char)l[0] << 8) | (unsigned char)l[1];
    if (w.rx.size() < q + padc + 2 + ia) return false;
    plain.rx += e.dec(w.rx.substr(q + padc + 2, ia));   // initial payload: the library's BT handshake
    w.rx.erase(0, q + padc + 2 + ia);
    if ((provide & select) == 0) return false;
    selected = select;
    w.send_bytes(e.enc(std::string(8, '\0') + WirePeer::be32(select) + MseInitiator::be16(0)));
    established = true;
    absorb();
    return true;
  }
  bool rc4() const { return selected == 2; }
  void send(const std::string& plaintext) { w.send_bytes(seal(plaintext)); }
  std::string seal(const std::string& plaintext) { return rc4() ? e.enc(plaintext) : plaintext; }
  void absorb() {
    if (!established || w.rx.empty()) return;
    plain.rx += rc4() ? e.dec(w.rx) : w.rx;
    plain.rx_total += w.rx.size();
    w.rx.clear();
  }
};

}  // namespace ltv
