// Supervisor for session-based drivers (header only, owner: c09/c10 builder).
//
//   int main(int argc, char** argv) { return ltv::supervise(argc, argv, worker_main); }
//
// Without arguments the process only supervises: it re-executes itself as "--worker", hands it one
// case line at a time and copies the one result line back.  When a worker ends (it must exit after an
// internal_error, because the library session is unusable then; or it is killed by a sanitizer
// report) the next case gets a fresh worker.  So exactly one result line is printed per case, in
// order, whatever happens to a worker, and the supervisor itself always exits 0:
//   - the worker printed a line and then exited  -> that line is the result (e.g. "ERR:internal ...")
//   - the worker died without printing           -> "CRASH <signal or exit code>" (its stderr, with the
//                                                   sanitizer report, goes to the supervisor's stderr)
//   - the worker did not answer within 30 s      -> it is killed, the case is answered "HANG ..."
#pragma once
#include <cstdio>
#include <cstring>
#include <iostream>
#include <string>
#include <algorithm>
#include <cerrno>
#include <csignal>
#include <cstdlib>
#include <poll.h>
#include <sys/wait.h>
#include <unistd.h>
#include <vector>

namespace ltv {

// read one line from fd with a deadline; 1 = line, 0 = EOF/error, -1 = timeout
inline int read_line_timeout(int fd, std::string& carry, std::string& line, int timeout_ms) {
  for (;;) {
    size_t nl = carry.find('\n');
    if (nl != std::string::npos) {
      line = carry.substr(0, nl);
      carry.erase(0, nl + 1);
      return 1;
    }
    struct pollfd pf{fd, POLLIN, 0};
    int r = poll(&pf, 1, timeout_ms);
    if (r == 0) return -1;
    if (r < 0) { if (errno == EINTR) continue; return 0; }
    char buf[65536];
    ssize_t n = read(fd, buf, sizeof buf);
    if (n <= 0) {
      if (!carry.empty()) { line = carry; carry.clear(); return 1; }
      return 0;
    }
    carry.append(buf, (size_t)n);
  }
}

inline int supervise(int argc, char** argv, int (*worker_main)()) {
  if (argc > 1 && std::strcmp(argv[1], "--worker") == 0) return worker_main();
  signal(SIGPIPE, SIG_IGN);
  // per-case wall watchdog: a worker that does not answer a case within this time is killed, the case is
  // answered "HANG ..." and the next case gets a fresh worker (LTV_CASE_TIMEOUT_S overrides; default 30 s)
  int timeout_ms = 30000;
  if (const char* e = getenv("LTV_CASE_TIMEOUT_S")) timeout_ms = std::max(1, atoi(e)) * 1000;
  std::vector<std::string> lines;
  std::string l;
  while (std::getline(std::cin, l)) lines.push_back(l);
  size_t idx = 0;
  size_t last_silent_exit = (size_t)-1;
  int hangs = 0;
  while (idx < lines.size()) {
    if (hangs >= 3) {   // the tree hangs repeatedly: three replays are enough, keep the run inside its time budget
      printf("SKIPPED-AFTER-HANGS\n");
      idx++;
      continue;
    }
    int to[2], from[2];
    if (pipe(to) != 0 || pipe(from) != 0) return 2;
    pid_t pid = fork();
    if (pid == 0) {
      dup2(to[0], 0);
      dup2(from[1], 1);
      close(to[0]); close(to[1]); close(from[0]); close(from[1]);
      execl("/proc/self/exe", argv[0], "--worker", (char*)nullptr);
      _exit(127);
    }
    close(to[0]);
    close(from[1]);
    std::string carry;
    bool alive = true, hung = false;
    while (alive && idx < lines.size()) {
      std::string msg = lines[idx] + "\n";
      if (write(to[1], msg.data(), msg.size()) != (ssize_t)msg.size()) { alive = false; break; }
      std::string out;
      int r = read_line_timeout(from[0], carry, out, timeout_ms);
      if (r == 1) {
        printf("%s\n", out.c_str());
        idx++;
      } else if (r == -1) {
        hung = true;
        alive = false;
      } else {
        alive = false;
      }
    }
    close(to[1]);
    if (hung) kill(pid, SIGKILL);
    close(from[0]);
    int st = 0;
    waitpid(pid, &st, 0);
    if (hung) {
      printf("HANG no answer within %d s (worker killed)\n", timeout_ms / 1000);
      idx++;
      hangs++;
    } else if (!alive && idx < lines.size()) {
      // the worker ended without answering lines[idx]: a worker that answered the previous case and then left
      // with exit 0 (after an internal_error) is normal; anything else is a crash of this case
      bool clean_exit = WIFEXITED(st) && WEXITSTATUS(st) == 0;
      if (!clean_exit || last_silent_exit == idx) {
        if (WIFSIGNALED(st)) printf("CRASH signal=%d\n", WTERMSIG(st));
        else printf("CRASH exit=%d\n", WIFEXITED(st) ? WEXITSTATUS(st) : -1);
        idx++;
      }
      last_silent_exit = idx;
    }
    fflush(stdout);
  }
  return 0;
}

}  // namespace ltv
