// Supervisor for session-based drivers (header only, owner: c09/c10 builder).
//
//   int main(int argc, char** argv) { return ltv::supervise(argc, argv, worker_main); }
//
// Without arguments the process only supervises: it re-executes itself as "--worker", hands it one
// case line at a time and copies the one result line back.  When a worker ends (it must exit after an
// internal_error, because the library session is unusable then; or it is killed by a sanitizer
// report) the next case gets a fresh worker.  So exactly one result line is printed per case, in
// order, whatever happens to a worker, and the supervisor itself always exits 0:
//   - the worker printed a line and then exited  -> that line is the result (e.g. "ERR:internal ...")
//   - the worker died without printing           -> "CRASH <signal or exit code>" (its stderr, with the
//                                                   sanitizer report, goes to the supervisor's stderr)
#pragma once
#include <cstdio>
#include <cstring>
#include <iostream>
#include <string>
#include <sys/wait.h>
#include <unistd.h>
#include <vector>

namespace ltv {

inline int supervise(int argc, char** argv, int (*worker_main)()) {
  if (argc > 1 && std::strcmp(argv[1], "--worker") == 0) return worker_main();
  signal(SIGPIPE, SIG_IGN);
  std::vector<std::string> lines;
  std::string l;
  while (std::getline(std::cin, l)) lines.push_back(l);
  size_t idx = 0;
  while (idx < lines.size()) {
    int to[2], from[2];
    if (pipe(to) != 0 || pipe(from) != 0) return 2;
    pid_t pid = fork();
    if (pid == 0) {
      dup2(to[0], 0);
      dup2(from[1], 1);
      close(to[0]); close(to[1]); close(from[0]); close(from[1]);
      execl("/proc/self/exe", argv[0], "--worker", (char*)nullptr);
      _exit(127);
    }
    close(to[0]);
    close(from[1]);
    FILE* in = fdopen(from[0], "r");
    bool alive = true;
    while (alive && idx < lines.size()) {
      std::string msg = lines[idx] + "\n";
      if (write(to[1], msg.data(), msg.size()) != (ssize_t)msg.size()) alive = false;
      char* buf = nullptr;
      size_t cap = 0;
      ssize_t n = alive ? getline(&buf, &cap, in) : -1;
      if (n > 0) {
        fwrite(buf, 1, (size_t)n, stdout);
        if (buf[n - 1] != '\n') fputc('\n', stdout);
        idx++;
      } else {
        alive = false;
      }
      free(buf);
    }
    close(to[1]);
    fclose(in);
    int st = 0;
    waitpid(pid, &st, 0);
    if (!alive && idx < lines.size()) {
      // the worker ended: if it ended while a case was being processed without an answer, that case crashed
      // (a worker that answered and then exited has already advanced idx)
      static size_t last_reported = (size_t)-1;
      bool answered_then_exited = WIFEXITED(st) && WEXITSTATUS(st) == 0;
      if (!answered_then_exited || last_reported == idx) {
        if (WIFSIGNALED(st)) printf("CRASH signal=%d\n", WTERMSIG(st));
        else printf("CRASH exit=%d\n", WIFEXITED(st) ? WEXITSTATUS(st) : -1);
        idx++;
      }
      last_reported = idx;
    }
    fflush(stdout);
  }
  return 0;
}

}  // namespace ltv
