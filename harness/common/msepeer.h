// Independent implementation of Message Stream Encryption (the "MSE/PE" BitTorrent obfuscation
// handshake) for scripted harness peers: both roles (initiator A = the library's INCOMING peer,
// responder B = the library's OUTGOING peer). Nothing here uses libtorrent code:
//   * DH over the standard 768-bit MSE prime with OpenSSL BIGNUM arithmetic (BN_mod_exp), g = 2,
//     private exponent derived from a caller-supplied seed (deterministic public key);
//   * SHA-1 from OpenSSL (EVP); RC4 implemented here (OpenSSL 3 only has it in the legacy provider).
//
//   MseEnd e(seed, /*initiator=*/true);
//   std::string ya = e.pubkey();                       // 96 bytes, send followed by PadA
//   e.set_remote_key(yb96);                            // S = Yb^xa mod p
//   e.start_ciphers(skey);                             // keyA/keyB RC4 with the 1024-byte discard
//   e.req1(), e.req2xor3(skey)                         // HASH('req1',S), HASH('req2',SKEY)^HASH('req3',S)
//   e.enc(bytes) / e.dec(bytes)                        // this end's send / receive keystreams
//   e.enc_index / e.dec_index                          // bytes processed after the discard
//   e.vc_pattern_in()                                  // what ENCRYPT(VC) of the OTHER side looks like on
//                                                      // the wire (first 8 bytes of its keystream); does not
//                                                      // advance dec
#pragma once

#include <cstdint>
#include <cstring>
#include <openssl/bn.h>
#include <openssl/evp.h>
#include <string>

namespace ltv {

struct Rc4Own {
  unsigned char S[256];
  unsigned i = 0, j = 0;
  uint64_t index = 0;   // bytes produced after init (including a discard, if the caller did one)
  void init(const std::string& key) {
    for (unsigned k = 0; k < 256; k++) S[k] = (unsigned char)k;
    unsigned jj = 0;
    for (unsigned k = 0; k < 256; k++) {
      jj = (jj + S[k] + (unsigned char)key[k % key.size()]) & 255;
      std::swap(S[k], S[jj]);
    }
    i = j = 0;
    index = 0;
  }
  unsigned char next() {
    i = (i + 1) & 255;
    j = (j + S[i]) & 255;
    std::swap(S[i], S[j]);
    index++;
    return S[(S[i] + S[j]) & 255];
  }
  std::string crypt(const std::string& in) {
    std::string out = in;
    for (auto& c : out) c = char((unsigned char)c ^ next());
    return out;
  }
  void discard(unsigned n) { while (n--) next(); }
};

inline std::string mse_sha1(const std::string& s) {
  unsigned char md[EVP_MAX_MD_SIZE];
  unsigned int n = 0;
  EVP_Digest(s.data(), s.size(), md, &n, EVP_sha1(), nullptr);
  return std::string((char*)md, 20);
}

inline const unsigned char* mse_prime() {
  static const unsigned char p[96] = {
      0xFF, 0xFF, 0xFF, 0xFF, 0xFF, 0xFF, 0xFF, 0xFF, 0xC9, 0x0F, 0xDA, 0xA2, 0x21, 0x68, 0xC2, 0x34, 0xC4, 0xC6, 0x62, 0x8B,
      0x80, 0xDC, 0x1C, 0xD1, 0x29, 0x02, 0x4E, 0x08, 0x8A, 0x67, 0xCC, 0x74, 0x02, 0x0B, 0xBE, 0xA6, 0x3B, 0x13, 0x9B, 0x22,
      0x51, 0x4A, 0x08, 0x79, 0x8E, 0x34, 0x04, 0xDD, 0xEF, 0x95, 0x19, 0xB3, 0xCD, 0x3A, 0x43, 0x1B, 0x30, 0x2B, 0x0A, 0x6D,
      0xF2, 0x5F, 0x14, 0x37, 0x4F, 0xE1, 0x35, 0x6D, 0x6D, 0x51, 0xC2, 0x45, 0xE4, 0x85, 0xB5, 0x76, 0x62, 0x5E, 0x7E, 0xC6,
      0xF4, 0x4C, 0x42, 0xE9, 0xA6, 0x3A, 0x36, 0x21, 0x00, 0x00, 0x00, 0x00, 0x00, 0x09, 0x05, 0x63};
  return p;
}

class MseEnd {
public:
  bool initiator;
  std::string S;            // 96-byte shared secret (big endian, zero padded)
  Rc4Own enc_c, dec_c;
  uint64_t enc_index = 0, dec_index = 0;
  bool ciphers = false;

  MseEnd(uint64_t seed, bool is_initiator) : initiator(is_initiator) {
    m_p = BN_bin2bn(mse_prime(), 96, nullptr);
    m_g = BN_new();
    BN_set_word(m_g, 2);
    // 160-bit private exponent from the seed
    std::string x = mse_sha1("mse-private-" + std::to_string(seed));
    m_x = BN_bin2bn((const unsigned char*)x.data(), 20, nullptr);
    m_y = BN_new();
    BN_CTX* ctx = BN_CTX_new();
    BN_mod_exp(m_y, m_g, m_x, m_p, ctx);
    BN_CTX_free(ctx);
  }
  ~MseEnd() { BN_free(m_p); BN_free(m_g); BN_free(m_x); BN_free(m_y); }
  MseEnd(const MseEnd&) = delete;

  static std::string pad96(const BIGNUM* b) {
    std::string out(96, '\0');
    int n = BN_num_bytes(b);
    BN_bn2bin(b, (unsigned char*)out.data() + 96 - n);
    return out;
  }
  std::string pubkey() const { return pad96(m_y); }
  void set_remote_key(const std::string& y96) {
    BIGNUM* y = BN_bin2bn((const unsigned char*)y96.data(), 96, nullptr);
    BIGNUM* s = BN_new();
    BN_CTX* ctx = BN_CTX_new();
    BN_mod_exp(s, y, m_x, m_p, ctx);
    BN_CTX_free(ctx);
    S = pad96(s);
    BN_free(y);
    BN_free(s);
  }
  // Choose a new private exponent such that the shared secret with the (already known) remote key
  // y96 starts with a zero byte (1 in 256 exchanges in the wild): exercises the left-padding of S.
  // Returns false if none was found within the try budget.
  bool rekey_leading_zero(const std::string& y96, uint64_t seed, int tries = 20000) {
    BIGNUM* y = BN_bin2bn((const unsigned char*)y96.data(), 96, nullptr);
    BIGNUM* s = BN_new();
    BN_CTX* ctx = BN_CTX_new();
    bool found = false;
    for (int i = 0; i < tries && !found; i++) {
      std::string x = mse_sha1("mse-private-lz-" + std::to_string(seed) + "-" + std::to_string(i));
      BIGNUM* bx = BN_bin2bn((const unsigned char*)x.data(), 20, nullptr);
      BN_mod_exp(s, y, bx, m_p, ctx);
      if (BN_num_bytes(s) < 96) {
        BN_free(m_x);
        m_x = bx;
        BN_mod_exp(m_y, m_g, m_x, m_p, ctx);
        S = pad96(s);
        found = true;
      } else BN_free(bx);
    }
    BN_CTX_free(ctx);
    BN_free(y);
    BN_free(s);
    return found;
  }
  // Choose a new private exponent such that the public key starts with byte b (a legal key: 1 in 256).
  bool rekey_first_byte(unsigned char b, uint64_t seed, int tries = 20000) {
    BN_CTX* ctx = BN_CTX_new();
    BIGNUM* y = BN_new();
    bool found = false;
    for (int i = 0; i < tries && !found; i++) {
      std::string x = mse_sha1("mse-private-fb-" + std::to_string(seed) + "-" + std::to_string(i));
      BIGNUM* bx = BN_bin2bn((const unsigned char*)x.data(), 20, nullptr);
      BN_mod_exp(y, m_g, bx, m_p, ctx);
      if ((unsigned char)pad96(y)[0] == b) {
        BN_free(m_x);
        m_x = bx;
        BN_copy(m_y, y);
        found = true;
      } else BN_free(bx);
    }
    BN_free(y);
    BN_CTX_free(ctx);
    return found;
  }
  std::string req1() const { return mse_sha1("req1" + S); }
  std::string req2xor3(const std::string& skey) const {
    std::string a = mse_sha1("req2" + skey), b = mse_sha1("req3" + S);
    for (int i = 0; i < 20; i++) a[i] ^= b[i];
    return a;
  }
  // A encrypts with keyA and decrypts with keyB; B the other way round.
  void start_ciphers(const std::string& skey) {
    std::string ka = mse_sha1("keyA" + S + skey), kb = mse_sha1("keyB" + S + skey);
    enc_c.init(initiator ? ka : kb);
    dec_c.init(initiator ? kb : ka);
    enc_c.discard(1024);
    dec_c.discard(1024);
    enc_index = dec_index = 0;
    ciphers = true;
  }
  std::string enc(const std::string& s) { enc_index += s.size(); return enc_c.crypt(s); }
  std::string dec(const std::string& s) { dec_index += s.size(); return dec_c.crypt(s); }
  // wire image of the other side's ENCRYPT(VC): 8 zero bytes under its keystream positions 0..7
  std::string vc_pattern_in() const {
    Rc4Own c = dec_c;
    return c.crypt(std::string(8, '\0'));
  }

private:
  BIGNUM *m_p, *m_g, *m_x, *m_y;
};

}  // namespace ltv
