// Include in exactly ONE translation unit of a scheduler-driven harness.
//
// std::atomic<T>::wait / notify_one / notify_all (libstdc++ <bits/atomic_wait.h>, compiled into the library objects) end
// in syscall(SYS_futex, addr, FUTEX_WAIT_PRIVATE / FUTEX_WAKE_PRIVATE, ...). This definition of syscall() takes
// precedence over libc's for every reference linked into the executable, so the controller SEES each real notify and
// each real block of a controlled thread: with Controller::futex_emulation set, a waiter whose futex word is unchanged
// is parked as "blocked in wait" (never hung in the kernel) until a controlled thread really notifies that address.
// Calls of uncontrolled threads, and every other system call, are forwarded to libc.
#pragma once
#include <dlfcn.h>
#include <stdarg.h>
#include <sys/syscall.h>
#include <linux/futex.h>

#include "common/sched.h"

extern "C" __attribute__((no_sanitize_address)) long syscall(long n, ...) noexcept {
  va_list ap;
  va_start(ap, n);
  long a[6];
  for (auto& x : a) x = va_arg(ap, long);
  va_end(ap);
  if (n == SYS_futex) {
    int  op = static_cast<int>(a[1]) & FUTEX_CMD_MASK;
    long ret;
    if (op == FUTEX_WAIT && ltv::Controller::futex_wait(reinterpret_cast<const void*>(a[0]), static_cast<uint32_t>(a[2]), ret)) return ret;
    if (op == FUTEX_WAKE && ltv::Controller::futex_wake(reinterpret_cast<const void*>(a[0]), ret)) return ret;
  }
  static auto real = reinterpret_cast<long (*)(long, ...)>(dlsym(RTLD_NEXT, "syscall"));
  return real(n, a[0], a[1], a[2], a[3], a[4], a[5]);
}
