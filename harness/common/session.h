// Common in-process SESSION HARNESS for the /verif property drivers (DESIGN.md 4.1).
//
// ============================ USAGE GUIDE (read this first) ============================
//
//   #include "common/session.h"      // + "common/wirepeer.h" for scripted peers
//   build:  ltv.build_harness("cxx", ["cxx.cc", "common/session.cc"], libs=["-lcrypto"])
//
//   int main() {
//     ltv::std_setup();                          // SIGPIPE ignored, stdout line buffered
//     ltv::Session S;                            // real library up: main thread object, Manager,
//                                                // disk/net/tracker threads, listener on loopback
//     ltv::TorrentSpec spec;                     // what the .torrent describes
//     spec.name = "t1"; spec.piece_length = 32768;
//     spec.files = {{"a.bin", 50000}, {"d/b.bin", 70001}};
//     spec.corrupt_pieces = {2};                 // on-disk piece 2 will NOT verify (-> leeching)
//     ltv::Torrent* T = S.add_torrent(spec);     // files written, download_add, open, full
//                                                // hash_check driven to completion, NOT started
//     S.start(T);                                // Download::start (seeding iff all pieces verified)
//
//     ltv::WirePeer P;                           // scripted BEP-3 peer, non-blocking loopback TCP
//     P.connect_to(S.listen_port());             // -> the library's own listener
//     P.send_bytes(ltv::WirePeer::handshake(T->info_hash, "-XX0000-abcdefghijkl") +
//                  ltv::WirePeer::interested());
//     ltv::pump(S, {&P});                        // step library <-> read peer until nothing moves
//     ltv::HandshakeIn h; P.take_handshake(h);   // library's 68 bytes
//     P.send_bytes(ltv::WirePeer::request(0, 0, 16384));
//     ltv::pump(S, {&P});
//     ltv::WireMsg m; while (P.next_message(m)) { ... m.id, m.body ... }
//     torrent::PeerConnectionBase* pcb = S.find_connection(T, P.local_port());
//     std::cout << S.dump_connection(pcb) << "\n";   // canonical text, no addresses/times
//     S.remove(T);
//   }                                            // ~Session: orderly library cleanup, scratch removed
//
// FACTS / RULES
//  * One Session per process. The main thread is never given to event_loop(): step() does what
//    one loop iteration does (set_cached_time, call_events/process_callbacks, do_poll(0),
//    scheduler perform) under the VIRTUAL clock now_us(). advance_us(dt) moves the clock and
//    fires main-thread timers in due order. Virtual time starts at Config::t0_us (>= 365 days is
//    required by Scheduler). Disk/net/tracker threads run for real on the real clock; use
//    settle(pred) to wait (bounded real time) for something they produce (hash results, ...).
//  * Manager's 30 s tick (choke balancing, keep-alives every 4th tick, connect attempts) fires
//    when virtual time passes it. Nothing happens "by itself" between your calls.
//  * Scripted peers MUST be loopback TCP: connect_to(S.listen_port()) for incoming; for outgoing
//    make a WirePeer listener (listen_on) and S.connect_out(T, ip, port). AF_UNIX socketpairs are
//    refused by HandshakeManager. All peers from 127.0.0.1 share one PeerInfo address key; give
//    simultaneous peers different local addresses (127.0.0.2, ...) via connect_to(port, "127.0.0.2").
//  * Determinism of WRITE segmentation: this library interposes ::send/::recv (the only calls
//    SocketStream uses). Session::set_send_budget(peer_port, n) makes the library-side socket
//    whose remote port is peer_port accept at most n more bytes and then report EAGAIN;
//    set_recv_chunk(peer_port, k) caps each recv() at k bytes (read-side segmentation);
//    clear_io_limits() removes all. WirePeer itself uses read()/write(), so it is never limited.
//    (SO_SNDBUF/SO_RCVBUF can additionally be made tiny: Config::lib_sndbuf / connect_to(..,rcvbuf).)
//    step() detects quiescence by "no bytes moved through send/recv/accept for 3 rounds", so a
//    budget-blocked writer (EPOLLOUT level-triggered forever) does not spin.
//  * Handshake hand-over: bytes that follow the peer's handshake in the same segment are handed to
//    the new PeerConnection as "unread" data. Since /repo commit 5c4764e complete messages among
//    them are dispatched at once (before that fix they were parsed only when MORE data arrived).
//    An INCOMPLETE trailing message still waits for the rest. The library's handshake phase ends at
//    the first keep-alive or non-bitfield/extension/port message: sending handshake + keepalive()
//    first, pump, then the scenario keeps "what the handshake consumed" out of your byte accounting.
//  * Ephemeral ports collide across source addresses (127.0.0.2:40000 and 127.0.0.3:40000 can both
//    exist): identify a peer by ADDRESS AND PORT -- find_connection(T, P.local_ip(), P.local_port()),
//    set_send_budget(P.local_ip(), P.local_port(), n). The port-only forms remain (they match any
//    address; an exact (address, port) limit takes precedence over a port-only one).
//  * WirePeer re-arms TCP_QUICKACK after every read: otherwise Nagle on the library's socket +
//    delayed ACKs make small writes arrive tens of ms (REAL time) late and pump() would stop early.
//  * NetworkConfig setters (block_ipv6, buffer sizes, bind address, ...) schedule a delayed change
//    notification that makes ThreadMain restart -- i.e. with no client "network initialized" flag,
//    CLOSE -- the listener. Session::init applies Config and lets that fire BEFORE listen_open. If
//    your driver changes network_config later, call advance_us(1000000) and re-open the listener
//    (torrent::runtime::network_manager()->listen_open(lo, hi)) yourself.
//  * Manager ticks: see next_tick_in_us()/avoid_tick_within(). A scenario that must not see a
//    choke cycle / keep-alive calls avoid_tick_within(<virtual time it will consume>) first.
//  * choke_queue facts: INTERESTED unchokes at once when slots allow (they do by default) and
//    >10 s (virtual) passed since the connection's last choke change; Peer::set_snubbed(true) chokes at
//    once. Since /repo d278df5 the snub keeps the peer's interest: set_snubbed(false) re-queues it and
//    unchokes at once when the 10 s have passed (before that fix a fresh INTERESTED was needed).
//    See harness/c05.cc for a recipe that works with both.
//  * Robustness (ROBUSTNESS.md): reach private containers generically (auto, range-for, .size()); never spell a
//    private container's type in a driver; read constants from the compiled code (probe), not from source text;
//    wrap every case in a CaseWatchdog.
//  * Observers (dump_*) only READ private state (-fno-access-control); never write it.
//  * Content of a torrent is a pure function of (content_seed, global offset): content_byte().
//    T->content holds it; T->piece(i) / T->piece_size(i) slice it; on-disk deviations are listed
//    in the spec (corrupt_pieces, missing_files, write_files=false).
//  * Everything lives under /verif/build/scratch/<pid>/ and is removed at exit.
//  * `torrent::system` exists: write ::system(...) if you ever need it. SHA-1 here is OpenSSL's.
//  * An internal_error escaping step() is a finding for most properties: catch it in the driver
//    and print ERR:internal (the session is unusable afterwards: exit/restart the process).
// =======================================================================================
#pragma once

#include <cstdint>
#include <functional>
#include <map>
#include <memory>
#include <string>
#include <vector>

#include "common/util.h"
#include "torrent/download.h"

namespace torrent {
class PeerConnectionBase;
class DownloadMain;
class DownloadWrapper;
}

namespace ltv {

// ----- deterministic content --------------------------------------------------------------
// byte at global offset g of a torrent with content_seed s (also implemented in OCaml/python
// by the property drivers that need it):  x = (g + 1000003*s) mod 2^32;
// b = ((x * 2654435761 mod 2^32) >> 24) xor (x & 0xff)
inline unsigned char content_byte(uint32_t seed, uint64_t g) {
  uint32_t x = uint32_t(g + 1000003ull * seed);
  return (unsigned char)(((uint32_t)(x * 2654435761u) >> 24) ^ (x & 0xff));
}

struct FileSpec {
  std::string path;      // relative, '/' separated ("d/b.bin")
  uint64_t length = 0;
  bool padding = false;  // BEP 47 'attr' = "p"; content is zeros
};

struct TorrentSpec {
  std::string name = "t";
  uint32_t piece_length = 16384;        // library accepts (1024, 512 MiB]
  std::vector<FileSpec> files;
  bool single_file = false;             // true: files must have exactly one entry ('length' form)
  bool priv = true;                     // private: no dht:// tracker is added
  uint32_t content_seed = 1;
  std::string announce;                 // empty: no tracker
  // on-disk deviations from what the torrent describes:
  bool write_files = true;              // false: download directory left empty
  std::vector<uint32_t> corrupt_pieces; // first byte of each listed piece is flipped on disk
  std::vector<uint32_t> junk_pieces;    // every byte of each listed piece is replaced on disk (content byte xor a non-zero byte): differs from the content at every offset
  std::vector<uint32_t> missing_files;  // indices into files: not created on disk
  std::vector<std::pair<uint32_t, uint64_t>> truncated_files;  // (file index, on-disk length)
};

struct Torrent {
  TorrentSpec spec;
  std::string info_bytes;    // bencoded info dictionary
  std::string info_hash;     // 20 raw bytes (OpenSSL SHA-1 of info_bytes)
  std::string content;       // the full content the torrent describes
  std::vector<std::string> piece_hashes;  // 20 raw bytes each
  std::string root;          // directory (multi-file) or file path parent on disk
  torrent::Download dl;
  bool removed = false;

  uint64_t size() const { return content.size(); }
  uint32_t piece_count() const { return (uint32_t)piece_hashes.size(); }
  uint32_t piece_size(uint32_t i) const;
  std::string piece(uint32_t i) const { return content.substr((uint64_t)i * spec.piece_length, piece_size(i)); }
  std::string range(uint32_t i, uint32_t begin, uint32_t len) const {
    return content.substr((uint64_t)i * spec.piece_length + begin, len);
  }
  torrent::DownloadMain* main();     // private library object (observers)
  torrent::DownloadWrapper* wrapper();
  std::string completed_bits() const;   // "1101..." one char per piece, from the library
};

// Per-case watchdog (ROBUSTNESS.md rule 5): put one on the stack around each case. If the case is still
// running after `seconds` of REAL time (default 30; env LTV_CASE_TIMEOUT overrides) the process prints
// "TIMEOUT watchdog ..." to stderr and exits with code 4: ltv.run_sharded records that case as
// CRASH TIMEOUT... (report it as a `hang` violation with the case as replay) and continues with the rest.
class CaseWatchdog {
public:
  explicit CaseWatchdog(int seconds = 30);
  ~CaseWatchdog();
  CaseWatchdog(const CaseWatchdog&) = delete;
private:
  struct Impl;
  Impl* m_impl;
};

class Session {
public:
  struct Config {
    int64_t t0_us = 1000000000000000ll;  // virtual epoch time at start (31.7 years)
    uint32_t lib_sndbuf = 0;             // network_config send_buffer_size (0 = kernel default)
    uint32_t lib_rcvbuf = 0;
    bool block_ipv6 = true;
    int conn_type = 0;                   // default for start(): 0 leech (library default), 1 seed, 2 initial seed
    int enc_handshake_mode = -1;         // network_config encryption modes (torrent::encryption_mode: 0 deny,
    int enc_stream_mode = -1;            //  1 allow, 2 prefer, 3 require); -1 = leave the library default (allow/allow)
  };

  Session();
  explicit Session(const Config& cfg);
  ~Session();
  Session(const Session&) = delete;

  // ----- clock & stepping
  int64_t now_us() const { return m_now; }
  // One or more main-loop iterations at the current virtual time until nothing moves.
  // Returns true if anything happened (bytes moved, callbacks ran, timers fired, events handled).
  bool step();
  // Move virtual time forward, firing timers at their due times (steps in between).
  void advance_us(int64_t dt);
  // Manager's periodic tick (every 30 s of virtual time: choke cycle, connect attempts; every 4th
  // tick also keep-alives and the 240 s read timeout): time until the next one, ticks so far,
  // and a helper that moves the clock just past the next tick if it would fall inside the next
  // window_us (so a scripted scenario that needs window_us of virtual time sees no tick).
  int64_t next_tick_in_us() const;
  unsigned tick_count() const;
  void avoid_tick_within(int64_t window_us);
  // step() + short real sleeps until pred() or real_ms elapsed. For results from other threads.
  bool settle(const std::function<bool()>& pred, int real_ms = 10000);

  uint16_t listen_port() const { return m_port; }
  const std::string& scratch() const { return m_scratch; }

  // ----- torrents
  // Builds content + .torrent object, writes files (per spec deviations), download_add, sets the
  // root dir under scratch, open, hash_check(false) driven to completion. Throws std::runtime_error
  // with the library's message on input_error etc.
  Torrent* add_torrent(const TorrentSpec& spec);
  // Only builds the metainfo (info_bytes, info_hash, content, piece_hashes); nothing touches the library.
  static std::unique_ptr<Torrent> make_metainfo(const TorrentSpec& spec);
  // download_add of an arbitrary bencoded .torrent (hostile metadata for C08): returns the
  // Download or throws the library's exception unchanged.
  torrent::Download add_raw(const std::string& bencoded_torrent);
  void start(Torrent* t, int flags = 0);   // connection type from Config::conn_type / set_conn_type
  void stop(Torrent* t, int flags = 0);
  void remove(Torrent* t);                 // stop, close, download_remove
  void set_conn_type(Torrent* t, int type);

  // ----- peers
  // Connection of torrent t whose remote TCP port is peer_port (i.e. WirePeer::local_port()), or null.
  // Port-only form: first connection with that remote port whatever its address (ambiguous when
  // peers use several source addresses); prefer the (address, port) form.
  torrent::PeerConnectionBase* find_connection(Torrent* t, uint16_t peer_port);
  torrent::PeerConnectionBase* find_connection(Torrent* t, const std::string& peer_ip, uint16_t peer_port);
  size_t connection_count(Torrent* t);
  size_t handshake_count();
  // Outgoing: feed ip:port through PeerList::insert_available and trigger receive_connect_peers.
  void connect_out(Torrent* t, const std::string& ip, uint16_t port);
  // Choke decision through the real choke_queue (Peer::set_snubbed): choke=true snubs (chokes at
  // once if unchoked); choke=false un-snubs; the queue unchokes only if the peer is interested,
  // slots allow, and >10 s (virtual) passed since the last (un)choke: advance_us first.
  void force_choke(torrent::PeerConnectionBase* pcb, bool choke);

  // ----- observers (canonical text; sorted; no addresses, fds or times)
  std::string dump_connection(torrent::PeerConnectionBase* pcb);
  std::string dump_upload_queue(torrent::PeerConnectionBase* pcb);   // "i:b:l,i:b:l"
  std::string dump_torrent(Torrent* t);
  // ChunkList reference counts of torrent t: "<index>:<references>,..." for nodes with references != 0, "-" if none;
  // and their sum (mapped-chunk leak detection for C05/C16)
  std::string dump_chunk_refs(Torrent* t);
  int chunk_refs_total(Torrent* t);
  std::string dump_global();   // sockets, handshakes, open files, mapped chunks, scheduler size

  // ----- I/O interposition (static: the hooks are process-global)
  static void set_send_budget(uint16_t peer_port, int64_t bytes);   // <0: unlimited
  static void add_send_budget(uint16_t peer_port, int64_t bytes);
  static int64_t send_budget(uint16_t peer_port);
  static void set_recv_chunk(uint16_t peer_port, uint32_t max_per_call);   // 0: unlimited
  // (address, port) forms; ip "" = any address (same as the port-only forms)
  static void set_send_budget(const std::string& peer_ip, uint16_t peer_port, int64_t bytes);
  static void add_send_budget(const std::string& peer_ip, uint16_t peer_port, int64_t bytes);
  static int64_t send_budget(const std::string& peer_ip, uint16_t peer_port);
  static void set_recv_chunk(const std::string& peer_ip, uint16_t peer_port, uint32_t max_per_call);
  static void clear_io_limits();
  static uint64_t io_bytes_moved();     // total successful send+recv bytes of the library

private:
  void init(const Config& cfg);
  bool iterate();   // one loop iteration; true if something happened
  Config m_cfg;
  int64_t m_now = 0;
  uint16_t m_port = 0;
  std::string m_scratch;
  std::vector<std::unique_ptr<Torrent>> m_torrents;
  uint32_t m_counter = 0;
};

}  // namespace ltv
