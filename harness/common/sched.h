// Deterministic scheduler over REAL threads (DESIGN.md 4.3). Header only.
//
// The library is built with -DLT_VERIF and contains schedule points
//   LT_VERIF_SCHED("label") / LT_VERIF_SCHED_WAIT("label", addr, old)
// (src/utils/verif_hooks.h, hooks/c17.patch) before each atomic operation, lock acquisition and
// blocking wait of the modelled functions. A Controller installs torrent::verif::sched_hook; a
// thread registered with the controller parks at every schedule point until the controller grants
// it one step (= run up to the next schedule point). Exactly one registered thread runs at any
// time, so a schedule (list of thread indices) determines the execution completely.
//
// A thread parked before atomic::wait(old) is enabled only if *addr != old, hence the real wait
// that follows returns immediately. Threads not registered with a controller (index -1) pass
// through schedule points untouched, and with no controller installed the hook pointer is null.
#pragma once
#include <algorithm>
#include <atomic>
#include <cerrno>
#include <chrono>
#include <condition_variable>
#include <cstdint>
#include <functional>
#include <mutex>
#include <thread>
#include <vector>

#include "utils/verif_hooks.h"

namespace ltv {

struct AbortCase {};  // thrown out of a schedule point at case end to unwind a parked thread

class Controller {
public:
  enum State { RUNNING, PARKED, DONE };
  enum StepResult { STEPPED, BLOCKED, FINISHED, HUNG };

  struct Slot {
    State                        st{RUNNING};
    const char*                  label{""};
    const std::atomic<uint32_t>* waddr{nullptr};
    uint32_t                     wold{0};
    bool                         grant{false};
    bool                         abort{false};
    // futex emulation: the thread is inside atomic::wait(), blocked in the (emulated) FUTEX_WAIT on faddr; it becomes
    // enabled only when a FUTEX_WAKE on faddr has been issued since it blocked
    bool                         fblk{false};
    const void*                  faddr{nullptr};
    bool                         fwoken{false};
  };

  // When set (by the harness, before launch), a schedule point before atomic<uint32_t>::wait(old) is ALWAYS enabled:
  // the granted thread enters the real std::atomic::wait; if the value still equals [old] it ends up in the harness'
  // interposed futex syscall (futex_wait below), where it parks as "blocked in wait" (label "fx_wake") until some
  // thread really issues notify_one/notify_all on that address (futex_wake below). A changed value without a notify
  // does NOT wake it - exactly the atomic-wait contract, so lost wake-ups are observable.
  bool futex_emulation{false};

  // called on the stepping thread right after it passed a schedule point (before it touches memory)
  std::function<void(int)> after_grant;
  // optional harness-supplied enabledness test for plain schedule points (e.g. "the mutex this point is
  // about to take is free"); returning false makes the thread not enabled at that point
  std::function<bool(int, const char*)> extra_enabled;
  // a granted thread that does not reach its next schedule point within this time is reported as hung
  int hang_timeout_ms{8000};
  // called by finish() before parked threads are unwound, when some thread is blocked inside an (emulated) atomic wait:
  // the harness makes the waited-for condition true so that the wait returns (needed for waits through libstdc++'s
  // proxy word, e.g. atomic<bool>; for a directly waited 32-bit word finish() flips its top bit itself)
  std::function<void()> before_abort;

  Controller() {
    current() = this;
    torrent::verif::sched_hook.store(&Controller::hook, std::memory_order_release);
  }
  ~Controller() {
    finish();
    torrent::verif::sched_hook.store(nullptr, std::memory_order_release);
    current() = nullptr;
  }

  // start n threads running body(i); returns when each of them is parked at its first schedule
  // point or has finished
  void launch(int n, std::function<void(int)> body) {
    m_slots.assign(n, Slot{});
    for (int i = 0; i < n; i++)
      m_threads.emplace_back([this, i, body]() {
        my_index() = i;
        try {
          body(i);
        } catch (const AbortCase&) {
        }
        std::unique_lock<std::mutex> l(m_lock);
        m_slots[i].st = DONE;
        m_cv.notify_all();
      });
    std::unique_lock<std::mutex> l(m_lock);
    m_cv.wait(l, [&] {
      for (auto& s : m_slots)
        if (s.st == RUNNING) return false;
      return true;
    });
  }

  // label of the schedule point thread t is parked at (valid until the next step(t))
  const char* label(int t) {
    std::unique_lock<std::mutex> l(m_lock);
    return m_slots[t].st == PARKED ? m_slots[t].label : nullptr;
  }

  bool enabled(int t) {
    std::unique_lock<std::mutex> l(m_lock);
    return enabled_locked(t);
  }

  StepResult step(int t) {
    std::unique_lock<std::mutex> l(m_lock);
    auto& s = m_slots[t];
    if (s.st == DONE) return FINISHED;
    if (!enabled_locked(t)) return BLOCKED;
    s.grant = true;
    s.st    = RUNNING;
    m_cv.notify_all();
    if (!m_cv.wait_for(l, std::chrono::milliseconds(hang_timeout_ms), [&] { return s.st != RUNNING; })) return HUNG;
    return STEPPED;
  }

  bool is_done(int t) {
    std::unique_lock<std::mutex> l(m_lock);
    return m_slots[t].st == DONE;
  }

  // unwind every parked thread (AbortCase) and join
  void finish() {
    {
      std::unique_lock<std::mutex> l(m_lock);
      std::vector<const void*> poked;
      bool                     any_blk = false;
      for (auto& s : m_slots) any_blk = any_blk || (s.st == PARKED && s.fblk);
      if (any_blk && before_abort) before_abort();
      for (auto& s : m_slots)
        if (s.st == PARKED) {
          s.abort = true;
          // a thread blocked inside atomic::wait() leaves it only when the word differs from what it waits for: flip the
          // top bit of each waited word ONCE (two waiters on one word must not undo each other's flip)
          if (s.fblk && std::find(poked.begin(), poked.end(), s.faddr) == poked.end()) {
            poked.push_back(s.faddr);
            const_cast<std::atomic<uint32_t>*>(static_cast<const std::atomic<uint32_t>*>(s.faddr))->fetch_xor(0x80000000u);
          }
        }
      m_cv.notify_all();
    }
    for (auto& t : m_threads)
      if (t.joinable()) t.join();
    m_threads.clear();
  }

  // a harness-level schedule point (same parking as the library's)
  static void point(const char* label) { hook(label, nullptr, 0); }

private:
  static Controller*& current() {
    static Controller* c = nullptr;
    return c;
  }
  static int& my_index() {
    static thread_local int i = -1;
    return i;
  }

  bool enabled_locked(int t) {
    auto& s = m_slots[t];
    if (s.st != PARKED) return false;
    if (s.fblk) return s.fwoken;
    if (extra_enabled && !extra_enabled(t, s.label)) return false;
    if (s.waddr != nullptr) {
      // label prefix selects what the point waits for: "m:" a std::mutex that must be free (some
      // other thread holds it across its own schedule points), "b:" an atomic<bool>::wait(old),
      // none: an atomic<uint32_t>::wait(old)
      if (s.label[0] == 'm' && s.label[1] == ':') {
        auto* mtx = const_cast<std::mutex*>(reinterpret_cast<const std::mutex*>(s.waddr));
        if (!mtx->try_lock()) return false;
        mtx->unlock();
        return true;
      }
      if (s.label[0] == 'b' && s.label[1] == ':')
        return reinterpret_cast<const std::atomic<bool>*>(s.waddr)->load(std::memory_order_seq_cst) != (s.wold != 0);
      if (futex_emulation) return true;
      if (s.waddr->load(std::memory_order_seq_cst) == s.wold) return false;
    }
    return true;
  }

public:
  // called from the harness' interposed syscall(SYS_futex, addr, FUTEX_WAIT, val): returns false if the call is not
  // ours to emulate (no controller / unregistered thread / emulation off)
  static bool futex_wait(const void* addr, uint32_t val, long& ret) {
    Controller* c = current();
    int         i = my_index();
    if (c == nullptr || i < 0 || !c->futex_emulation) return false;
    if (static_cast<const std::atomic<uint32_t>*>(addr)->load(std::memory_order_seq_cst) != val) {
      errno = EAGAIN;
      ret   = -1;
      return true;
    }
    c->park_futex(i, addr);
    ret = 0;
    return true;
  }
  static bool futex_wake(const void* addr, long& ret) {
    Controller* c = current();
    int         i = my_index();
    if (c == nullptr || i < 0 || !c->futex_emulation) return false;
    std::unique_lock<std::mutex> l(c->m_lock);
    ret = 0;
    for (auto& s : c->m_slots)
      if (s.fblk && s.faddr == addr && !s.fwoken) {
        s.fwoken = true;
        ret++;
      }
    return true;
  }
  bool futex_blocked(int t) {
    std::unique_lock<std::mutex> l(m_lock);
    return m_slots[t].st == PARKED && m_slots[t].fblk && !m_slots[t].fwoken;
  }

private:
  // the frames above us (std::atomic::wait, __platform_wait) are noexcept: at case end the thread cannot be unwound
  // from here; finish() changes the waited word instead, the wait returns and the next schedule point throws
  void park_futex(int i, const void* addr) {
    {
      std::unique_lock<std::mutex> l(m_lock);
      auto& s  = m_slots[i];
      s.label  = "fx_wake";
      s.waddr  = nullptr;
      s.fblk   = true;
      s.faddr  = addr;
      s.fwoken = false;
      s.st     = PARKED;
      m_cv.notify_all();
      m_cv.wait(l, [&] { return s.grant || s.abort; });
      s.fblk = false;
      if (s.abort) {
        s.st = RUNNING;
        return;
      }
      s.grant = false;
    }
    if (after_grant) after_grant(i);
  }

  static void hook(const char* label, const void* addr, uint32_t old) {
    Controller* c = current();
    int         i = my_index();
    if (c == nullptr || i < 0) return;
    c->park(i, label, static_cast<const std::atomic<uint32_t>*>(addr), old);
  }

  void park(int i, const char* label, const std::atomic<uint32_t>* addr, uint32_t old) {
    {
      std::unique_lock<std::mutex> l(m_lock);
      auto& s = m_slots[i];
      s.label = label;
      s.waddr = addr;
      s.wold  = old;
      s.st    = PARKED;
      m_cv.notify_all();
      m_cv.wait(l, [&] { return s.grant || s.abort; });
      if (s.abort) {
        s.st = RUNNING;
        throw AbortCase{};
      }
      s.grant = false;
      // s.st was set to RUNNING by the controller
    }
    if (after_grant) after_grant(i);
  }

  std::mutex               m_lock;
  std::condition_variable  m_cv;
  std::vector<Slot>        m_slots;
  std::vector<std::thread> m_threads;
};

// Per-case wall-clock watchdog: if the case is not finished (destructor not reached) within [ms], [fire] runs on the
// watchdog thread (harnesses print one "ERR:hang ..." result line for the case and _exit, the runner resumes with the
// next case).
class SchedWatchdog {
public:
  SchedWatchdog(int ms, std::function<void()> fire)
    : m_thread([this, ms, fire]() {
        std::unique_lock<std::mutex> l(m_lock);
        if (!m_cv.wait_for(l, std::chrono::milliseconds(ms), [this] { return m_done; })) fire();
      }) {}
  ~SchedWatchdog() {
    {
      std::unique_lock<std::mutex> l(m_lock);
      m_done = true;
    }
    m_cv.notify_all();
    m_thread.join();
  }

private:
  std::mutex              m_lock;
  std::condition_variable m_cv;
  bool                    m_done{false};
  std::thread             m_thread;
};

} // namespace ltv
