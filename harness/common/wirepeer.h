// Scripted wire peer: an independent, minimal implementation of BEP 3 framing (+ BEP 10 envelope)
// for the session harness. Plain-text mode only (MSE is to be added by the C06 builder as a
// filter over send_bytes/recv_available). Header only. Uses read()/write() on non-blocking
// loopback TCP sockets, so the ::send/::recv interposition of session.cc never applies to it.
//
//   WirePeer p; p.connect_to(S.listen_port());             // incoming for the library
//   WirePeer l; uint16_t port = l.listen_on("127.0.0.3");  // outgoing: S.connect_out(T,"127.0.0.3",port);
//                                                          //           pump(S,{}); l.accept_one();
//   p.send_bytes(WirePeer::handshake(ih, id) + WirePeer::bitfield(bits) + WirePeer::interested());
//   pump(S, {&p});  HandshakeIn h; p.take_handshake(h);  WireMsg m; while (p.next_message(m)) ...
//   p.recv_available(k) reads at most k bytes (write-side segmentation control together with
//   Session::set_send_budget and small SO_RCVBUF given to connect_to()).
#pragma once

#include <arpa/inet.h>
#include <cerrno>
#include <cstdint>
#include <cstring>
#include <fcntl.h>
#include <initializer_list>
#include <netinet/in.h>
#include <netinet/tcp.h>
#include <string>
#include <sys/socket.h>
#include <unistd.h>
#include <vector>

namespace ltv {

struct WireMsg {
  int id = -1;        // -1: keep-alive
  std::string body;   // bytes after the id byte
  uint32_t u32(size_t off) const {
    if (body.size() < off + 4) return 0;
    const unsigned char* p = (const unsigned char*)body.data() + off;
    return (uint32_t(p[0]) << 24) | (uint32_t(p[1]) << 16) | (uint32_t(p[2]) << 8) | p[3];
  }
};

struct HandshakeIn {
  std::string reserved, info_hash, peer_id;
};

class WirePeer {
public:
  enum { CHOKE = 0, UNCHOKE, INTERESTED, NOT_INTERESTED, HAVE, BITFIELD, REQUEST, PIECE, CANCEL, PORT, EXTENDED = 20 };

  int fd = -1;
  int lfd = -1;             // listening socket (outgoing scenario)
  std::string rx;           // everything received and not yet consumed by take_*/next_message
  uint64_t rx_total = 0;    // bytes ever received
  uint64_t tx_total = 0;
  bool eof = false;         // orderly close or reset seen
  std::string tx_pending;   // bytes the kernel has not accepted yet

  WirePeer() = default;
  WirePeer(const WirePeer&) = delete;
  ~WirePeer() { close_all(); }

  void close_all() {
    if (fd != -1) ::close(fd);
    if (lfd != -1) ::close(lfd);
    fd = lfd = -1;
  }
  // Half close / reset helpers for C16.
  void shutdown_write() { if (fd != -1) ::shutdown(fd, SHUT_WR); }
  void reset() {
    if (fd == -1) return;
    struct linger lg = {1, 0};
    setsockopt(fd, SOL_SOCKET, SO_LINGER, &lg, sizeof lg);
    ::close(fd);
    fd = -1;
  }

  // Delayed ACKs + Nagle on the library's side would make small writes arrive tens of ms late
  // (real time). TCP_QUICKACK is not sticky, so it is re-armed after every read.
  void quickack() { int one = 1; if (fd != -1) setsockopt(fd, IPPROTO_TCP, TCP_QUICKACK, &one, sizeof one); }
  static void set_nonblock(int f) { fcntl(f, F_SETFL, fcntl(f, F_GETFL, 0) | O_NONBLOCK); }

  // Connect to 127.0.0.1:port from local_ip. sndbuf/rcvbuf > 0 set tiny kernel buffers before connect.
  bool connect_to(uint16_t port, const char* local_ip = "127.0.0.1", int sndbuf = 0, int rcvbuf = 0) {
    fd = ::socket(AF_INET, SOCK_STREAM, 0);
    if (fd == -1) return false;
    if (sndbuf > 0) setsockopt(fd, SOL_SOCKET, SO_SNDBUF, &sndbuf, sizeof sndbuf);
    if (rcvbuf > 0) setsockopt(fd, SOL_SOCKET, SO_RCVBUF, &rcvbuf, sizeof rcvbuf);
    int one = 1;
    setsockopt(fd, IPPROTO_TCP, TCP_NODELAY, &one, sizeof one);
    sockaddr_in la{};
    la.sin_family = AF_INET;
    inet_pton(AF_INET, local_ip, &la.sin_addr);
    if (::bind(fd, (sockaddr*)&la, sizeof la) != 0) { ::close(fd); fd = -1; return false; }
    sockaddr_in sa{};
    sa.sin_family = AF_INET;
    sa.sin_port = htons(port);
    inet_pton(AF_INET, "127.0.0.1", &sa.sin_addr);
    // blocking connect on loopback completes at once (the listener's backlog accepts it)
    if (::connect(fd, (sockaddr*)&sa, sizeof sa) != 0) { ::close(fd); fd = -1; return false; }
    set_nonblock(fd);
    quickack();
    return true;
  }

  // Outgoing scenario: listen on ip:0, returns the port.
  uint16_t listen_on(const char* ip = "127.0.0.1") {
    lfd = ::socket(AF_INET, SOCK_STREAM, 0);
    sockaddr_in la{};
    la.sin_family = AF_INET;
    inet_pton(AF_INET, ip, &la.sin_addr);
    if (::bind(lfd, (sockaddr*)&la, sizeof la) != 0 || ::listen(lfd, 8) != 0) { ::close(lfd); lfd = -1; return 0; }
    set_nonblock(lfd);
    socklen_t n = sizeof la;
    getsockname(lfd, (sockaddr*)&la, &n);
    return ntohs(la.sin_port);
  }
  bool accept_one() {
    if (lfd == -1 || fd != -1) return false;
    int f = ::accept(lfd, nullptr, nullptr);
    if (f == -1) return false;
    fd = f;
    set_nonblock(fd);
    int one = 1;
    setsockopt(fd, IPPROTO_TCP, TCP_NODELAY, &one, sizeof one);
    quickack();
    return true;
  }

  // local (source) address of the connection, "" if not connected; with local_port() it identifies
  // the peer to Session::find_connection / set_send_budget
  std::string local_ip() const {
    sockaddr_in a{};
    socklen_t n = sizeof a;
    if (fd == -1 || getsockname(fd, (sockaddr*)&a, &n) != 0) return std::string();
    char buf[INET_ADDRSTRLEN] = {0};
    inet_ntop(AF_INET, &a.sin_addr, buf, sizeof buf);
    return buf;
  }
  uint16_t local_port() const {
    sockaddr_in a{};
    socklen_t n = sizeof a;
    if (fd == -1 || getsockname(fd, (sockaddr*)&a, &n) != 0) return 0;
    return ntohs(a.sin_port);
  }

  // Queue + try to write. Returns bytes accepted by the kernel in this call.
  size_t send_bytes(const std::string& s) {
    tx_pending += s;
    return flush();
  }
  size_t flush() {
    size_t done = 0;
    while (fd != -1 && !tx_pending.empty()) {
      ssize_t r = ::write(fd, tx_pending.data(), tx_pending.size());
      if (r > 0) { tx_pending.erase(0, r); done += r; tx_total += r; continue; }
      if (r < 0 && errno == EINTR) continue;
      if (r < 0 && (errno == EAGAIN || errno == EWOULDBLOCK)) break;
      eof = true;   // EPIPE / ECONNRESET
      tx_pending.clear();
      break;
    }
    return done;
  }

  // Read at most max bytes that are available now. Returns bytes read.
  size_t recv_available(size_t max = SIZE_MAX) {
    size_t got = 0;
    char buf[65536];
    while (fd != -1 && got < max) {
      size_t want = std::min(sizeof buf, max - got);
      ssize_t r = ::read(fd, buf, want);
      quickack();
      if (r > 0) { rx.append(buf, r); got += r; rx_total += r; continue; }
      if (r == 0) { eof = true; break; }
      if (errno == EINTR) continue;
      if (errno == EAGAIN || errno == EWOULDBLOCK) break;
      eof = true;   // ECONNRESET
      break;
    }
    return got;
  }

  // ----- parsing of rx
  bool take_handshake(HandshakeIn& h) {
    if (rx.size() < 68 || (unsigned char)rx[0] != 19) return false;
    h.reserved = rx.substr(20, 8);
    h.info_hash = rx.substr(28, 20);
    h.peer_id = rx.substr(48, 20);
    rx.erase(0, 68);
    return true;
  }
  // One complete length-prefixed message, or false (incomplete; rx untouched).
  bool next_message(WireMsg& m) {
    if (rx.size() < 4) return false;
    const unsigned char* p = (const unsigned char*)rx.data();
    uint64_t len = (uint32_t(p[0]) << 24) | (uint32_t(p[1]) << 16) | (uint32_t(p[2]) << 8) | p[3];
    if (rx.size() < 4 + len) return false;
    if (len == 0) { m.id = -1; m.body.clear(); }
    else { m.id = p[4]; m.body = rx.substr(5, len - 1); }
    rx.erase(0, 4 + len);
    return true;
  }

  // ----- builders
  static std::string be32(uint32_t v) {
    char b[4] = {char(v >> 24), char(v >> 16), char(v >> 8), char(v)};
    return std::string(b, 4);
  }
  static std::string handshake(const std::string& info_hash, const std::string& peer_id,
                               const std::string& reserved = std::string(8, '\0')) {
    return std::string("\x13" "BitTorrent protocol", 20) + reserved.substr(0, 8) + info_hash + peer_id;
  }
  static std::string reserved_ext() { std::string r(8, '\0'); r[5] = 0x10; return r; }
  static std::string msg(uint8_t id, const std::string& body = std::string()) {
    return be32(1 + body.size()) + std::string(1, char(id)) + body;
  }
  // arbitrary (possibly lying) length prefix
  static std::string raw(uint32_t len, const std::string& rest) { return be32(len) + rest; }
  static std::string keepalive() { return be32(0); }
  static std::string choke() { return msg(CHOKE); }
  static std::string unchoke() { return msg(UNCHOKE); }
  static std::string interested() { return msg(INTERESTED); }
  static std::string not_interested() { return msg(NOT_INTERESTED); }
  static std::string have(uint32_t i) { return msg(HAVE, be32(i)); }
  static std::string bitfield(const std::string& bits01) {   // "1011..." -> packed, MSB first
    std::string b((bits01.size() + 7) / 8, '\0');
    for (size_t i = 0; i < bits01.size(); i++)
      if (bits01[i] == '1') b[i / 8] |= char(0x80 >> (i % 8));
    return msg(BITFIELD, b);
  }
  static std::string request(uint32_t i, uint32_t b, uint32_t l) { return msg(REQUEST, be32(i) + be32(b) + be32(l)); }
  static std::string cancel(uint32_t i, uint32_t b, uint32_t l) { return msg(CANCEL, be32(i) + be32(b) + be32(l)); }
  static std::string piece(uint32_t i, uint32_t b, const std::string& data) { return msg(PIECE, be32(i) + be32(b) + data); }
  static std::string port(uint16_t p) { char b[2] = {char(p >> 8), char(p)}; return msg(PORT, std::string(b, 2)); }
  static std::string extended(uint8_t ext_id, const std::string& payload) { return msg(EXTENDED, std::string(1, char(ext_id)) + payload); }
};

// Alternate stepping the library and reading/flushing the peers until nothing moves.
// read_cap: max bytes each peer reads per round (SIZE_MAX = everything). Returns rounds that moved.
template <class S>
inline int pump(S& session, std::initializer_list<WirePeer*> peers, size_t read_cap = SIZE_MAX, int max_rounds = 100000) {
  int moved_rounds = 0, idle = 0;
  for (int r = 0; r < max_rounds && idle < 2; r++) {
    bool moved = false;
    for (WirePeer* p : peers) {
      if (p->flush() > 0) moved = true;
      if (p->lfd != -1 && p->fd == -1 && p->accept_one()) moved = true;
    }
    if (session.step()) moved = true;
    for (WirePeer* p : peers)
      if (p->recv_available(read_cap) > 0) moved = true;
    if (moved) { moved_rounds++; idle = 0; } else idle++;
  }
  return moved_rounds;
}

}  // namespace ltv
