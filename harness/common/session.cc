// Implementation of the common session harness (see session.h for the usage guide).
#include "config.h"

#include "common/session.h"

#include <algorithm>
#include <arpa/inet.h>
#include <atomic>
#include <cerrno>
#include <csignal>
#include <chrono>
#include <condition_variable>
#include <cstdlib>
#include <cstring>
#include <filesystem>
#include <fstream>
#include <mutex>
#include <netinet/in.h>
#include <stdexcept>
#include <sys/socket.h>
#include <sys/syscall.h>
#include <thread>
#include <unistd.h>

#include <openssl/sha.h>

#include "data/chunk_list.h"
#include "data/chunk_list_node.h"
#include "data/chunk_manager.h"
#include "data/hash_queue.h"
#include "download/download_main.h"
#include "download/download_wrapper.h"
#include "manager.h"
#include "net/address_list.h"
#include "protocol/handshake_manager.h"
#include "protocol/peer_connection_base.h"
#include "protocol/request_list.h"
#include "thread_main.h"
#include "torrent/data/file_list.h"
#include "torrent/data/file_manager.h"
#include "torrent/download/choke_group.h"
#include "torrent/download/choke_queue.h"
#include "torrent/download/resource_manager.h"
#include "torrent/download_info.h"
#include "torrent/exceptions.h"
#include "torrent/object.h"
#include "torrent/object_stream.h"
#include "torrent/peer/connection_list.h"
#include "torrent/peer/peer.h"
#include "torrent/peer/peer_list.h"
#include "torrent/runtime/network_config.h"
#include "torrent/runtime/network_manager.h"
#include "torrent/runtime/socket_manager.h"
#include "torrent/system/poll.h"
#include "torrent/system/scheduler.h"
#include "torrent/torrent.h"

#ifndef LTV_SCRATCH_ROOT
#define LTV_SCRATCH_ROOT "/verif/build/scratch"
#endif

using namespace std::chrono_literals;
namespace fs = std::filesystem;

// ------------------------------------------------------------------------------------------
// I/O interposition. SocketStream::{read,write}_stream call ::recv / ::send; defining them in
// the executable makes the statically linked library use these. Limits are keyed by the REMOTE
// port of the socket (= the scripted peer's local port), so they follow the connection from
// Handshake to PeerConnection. The real work is a raw syscall (no libc/ASan interceptor needed;
// buffers are library memory already under ASan's eye in the callers).
namespace {
// key: (remote IPv4 address in host order, remote port); address 0 = "any address" (the port-only API)
using io_key = std::pair<uint32_t, uint16_t>;
std::mutex g_io_lock;
std::map<io_key, int64_t> g_send_budget;   // -> bytes still allowed (absent: unlimited)
std::map<io_key, uint32_t> g_recv_chunk;   // -> max bytes per recv call
std::atomic<bool> g_io_limits{false};
std::atomic<uint64_t> g_io_moved{0};

io_key remote_end(int fd) {
  sockaddr_storage ss{};
  socklen_t n = sizeof ss;
  if (getpeername(fd, (sockaddr*)&ss, &n) != 0) return {0, 0};
  if (ss.ss_family == AF_INET) return {ntohl(((sockaddr_in*)&ss)->sin_addr.s_addr), ntohs(((sockaddr_in*)&ss)->sin_port)};
  if (ss.ss_family == AF_INET6) {
    auto* a = (sockaddr_in6*)&ss;
    uint32_t v4 = 0;
    if (IN6_IS_ADDR_V4MAPPED(&a->sin6_addr)) { memcpy(&v4, a->sin6_addr.s6_addr + 12, 4); v4 = ntohl(v4); }
    return {v4, ntohs(a->sin6_port)};
  }
  return {0, 0};
}
uint16_t remote_port(int fd) { return remote_end(fd).second; }
uint32_t ip_of(const std::string& ip) {
  in_addr a{};
  if (ip.empty() || inet_pton(AF_INET, ip.c_str(), &a) != 1) return 0;
  return ntohl(a.s_addr);
}
// exact (address, port) entry first, then the port-only wildcard
template <class M> typename M::iterator io_find(M& m, io_key k) {
  auto it = m.find(k);
  if (it == m.end() && k.first != 0) it = m.find({0, k.second});
  return it;
}
}  // namespace

extern "C" ssize_t send(int fd, const void* buf, size_t len, int flags) {
  size_t allow = len;
  io_key key{0, 0};
  bool limited = false;
  if (g_io_limits.load(std::memory_order_relaxed)) {
    key = remote_end(fd);
    std::lock_guard<std::mutex> g(g_io_lock);
    auto it = io_find(g_send_budget, key);
    if (it != g_send_budget.end()) {
      if (it->second <= 0) { errno = EAGAIN; return -1; }
      allow = (size_t)std::min<int64_t>((int64_t)len, it->second);
      limited = true;
    }
  }
  long r = syscall(SYS_sendto, fd, buf, allow, flags | MSG_NOSIGNAL, nullptr, 0);
  if (r > 0) {
    g_io_moved.fetch_add((uint64_t)r, std::memory_order_relaxed);
    if (limited) {
      std::lock_guard<std::mutex> g(g_io_lock);
      auto it = io_find(g_send_budget, key);
      if (it != g_send_budget.end()) it->second -= r;
    }
  }
  return r;
}

extern "C" ssize_t recv(int fd, void* buf, size_t len, int flags) {
  size_t allow = len;
  if (g_io_limits.load(std::memory_order_relaxed)) {
    io_key key = remote_end(fd);
    std::lock_guard<std::mutex> g(g_io_lock);
    auto it = io_find(g_recv_chunk, key);
    if (it != g_recv_chunk.end() && it->second != 0) allow = std::min<size_t>(len, it->second);
  }
  long r = syscall(SYS_recvfrom, fd, buf, allow, flags, nullptr, nullptr);
  if (r > 0) g_io_moved.fetch_add((uint64_t)r, std::memory_order_relaxed);
  if (r == 0) g_io_moved.fetch_add(1, std::memory_order_relaxed);   // EOF is progress too
  return r;
}

namespace ltv {

void Session::set_send_budget(const std::string& ip, uint16_t port, int64_t bytes) {
  std::lock_guard<std::mutex> g(g_io_lock);
  io_key k{ip_of(ip), port};
  if (bytes < 0) g_send_budget.erase(k); else g_send_budget[k] = bytes;
  g_io_limits = !g_send_budget.empty() || !g_recv_chunk.empty();
}
void Session::add_send_budget(const std::string& ip, uint16_t port, int64_t bytes) {
  std::lock_guard<std::mutex> g(g_io_lock);
  g_send_budget[{ip_of(ip), port}] += bytes;
  g_io_limits = true;
}
int64_t Session::send_budget(const std::string& ip, uint16_t port) {
  std::lock_guard<std::mutex> g(g_io_lock);
  auto it = g_send_budget.find({ip_of(ip), port});
  return it == g_send_budget.end() ? -1 : it->second;
}
void Session::set_recv_chunk(const std::string& ip, uint16_t port, uint32_t n) {
  std::lock_guard<std::mutex> g(g_io_lock);
  io_key k{ip_of(ip), port};
  if (n == 0) g_recv_chunk.erase(k); else g_recv_chunk[k] = n;
  g_io_limits = !g_send_budget.empty() || !g_recv_chunk.empty();
}
void Session::set_send_budget(uint16_t port, int64_t bytes) { set_send_budget(std::string(), port, bytes); }
void Session::add_send_budget(uint16_t port, int64_t bytes) { add_send_budget(std::string(), port, bytes); }
int64_t Session::send_budget(uint16_t port) { return send_budget(std::string(), port); }
void Session::set_recv_chunk(uint16_t port, uint32_t n) { set_recv_chunk(std::string(), port, n); }
void Session::clear_io_limits() {
  std::lock_guard<std::mutex> g(g_io_lock);
  g_send_budget.clear();
  g_recv_chunk.clear();
  g_io_limits = false;
}
uint64_t Session::io_bytes_moved() { return g_io_moved.load(); }

// ------------------------------------------------------------------------------------------
uint32_t Torrent::piece_size(uint32_t i) const {
  uint64_t off = (uint64_t)i * spec.piece_length;
  if (off >= content.size()) return 0;
  return (uint32_t)std::min<uint64_t>(spec.piece_length, content.size() - off);
}
torrent::DownloadWrapper* Torrent::wrapper() { return dl.ptr(); }
torrent::DownloadMain* Torrent::main() { return dl.ptr()->main(); }
std::string Torrent::completed_bits() const {
  std::string s;
  const torrent::Bitfield* bf = dl.file_list()->bitfield();
  for (uint32_t i = 0; i < bf->size_bits(); i++) s.push_back(bf->empty() ? '0' : (bf->get(i) ? '1' : '0'));
  return s;
}

static std::string benc_str(const std::string& s) { return std::to_string(s.size()) + ":" + s; }
static std::string benc_int(int64_t v) { return "i" + std::to_string(v) + "e"; }

std::unique_ptr<Torrent> Session::make_metainfo(const TorrentSpec& spec) {
  auto t = std::make_unique<Torrent>();
  t->spec = spec;
  if (spec.files.empty()) throw std::runtime_error("TorrentSpec without files");
  uint64_t total = 0;
  for (auto& f : spec.files) total += f.length;
  t->content.resize(total);
  uint64_t g = 0;
  for (auto& f : spec.files)
    for (uint64_t k = 0; k < f.length; k++, g++)
      t->content[g] = f.padding ? '\0' : (char)content_byte(spec.content_seed, g);
  uint32_t pl = spec.piece_length;
  std::string pieces;
  for (uint64_t off = 0; off < total; off += pl) {
    unsigned char md[20];
    size_t n = (size_t)std::min<uint64_t>(pl, total - off);
    SHA1((const unsigned char*)t->content.data() + off, n, md);
    t->piece_hashes.emplace_back((char*)md, 20);
    pieces.append((char*)md, 20);
  }
  // info dictionary, keys sorted
  std::string info = "d";
  if (spec.single_file) {
    info += benc_str("length") + benc_int((int64_t)spec.files[0].length);
  } else {
    info += benc_str("files") + "l";
    for (auto& f : spec.files) {
      info += "d";
      if (f.padding) info += benc_str("attr") + benc_str("p");
      info += benc_str("length") + benc_int((int64_t)f.length);
      info += benc_str("path") + "l";
      size_t p = 0;
      while (true) {
        size_t q = f.path.find('/', p);
        info += benc_str(f.path.substr(p, q == std::string::npos ? std::string::npos : q - p));
        if (q == std::string::npos) break;
        p = q + 1;
      }
      info += "ee";
    }
    info += "e";
  }
  info += benc_str("name") + benc_str(spec.single_file ? spec.files[0].path : spec.name);
  info += benc_str("piece length") + benc_int(pl);
  info += benc_str("pieces") + benc_str(pieces);
  if (spec.priv) info += benc_str("private") + benc_int(1);
  info += "e";
  t->info_bytes = info;
  unsigned char md[20];
  SHA1((const unsigned char*)info.data(), info.size(), md);
  t->info_hash.assign((char*)md, 20);
  return t;
}

// ------------------------------------------------------------------------------------------
static Session* g_session = nullptr;
static std::string g_scratch_for_exit;
static void remove_scratch_at_exit() {
  if (!g_scratch_for_exit.empty()) {
    std::error_code ec;
    fs::remove_all(g_scratch_for_exit, ec);
  }
}

static torrent::ThreadMain* mt() { return torrent::ThreadMain::thread_main(); }

Session::Session() { init(Config()); }
Session::Session(const Config& cfg) { init(cfg); }

void Session::init(const Config& cfg) {
  if (g_session != nullptr) throw std::runtime_error("one Session per process");
  g_session = this;
  m_cfg = cfg;
  std_setup();
  m_scratch = std::string(LTV_SCRATCH_ROOT) + "/" + std::to_string(getpid());
  std::error_code ec;
  // prune scratch directories of processes that no longer exist (crashed or killed drivers)
  for (auto it = fs::directory_iterator(LTV_SCRATCH_ROOT, ec); !ec && it != fs::directory_iterator(); it.increment(ec)) {
    std::string n = it->path().filename().string();
    if (n.empty() || n.find_first_not_of("0123456789") != std::string::npos) continue;
    pid_t pid = (pid_t)atol(n.c_str());
    if (pid > 0 && pid != getpid() && kill(pid, 0) != 0 && errno == ESRCH) {
      std::error_code ec2;
      fs::remove_all(it->path(), ec2);
    }
  }
  ec.clear();
  fs::remove_all(m_scratch, ec);
  fs::create_directories(m_scratch);
  g_scratch_for_exit = m_scratch;
  atexit(remove_scratch_at_exit);

  torrent::initialize_main_thread();
  m_now = cfg.t0_us;
  mt()->set_cached_time(std::chrono::microseconds(m_now));
  torrent::initialize();

  auto nc = torrent::runtime::network_config();
  if (cfg.block_ipv6) nc->set_block_ipv6(true);
  if (cfg.lib_sndbuf) nc->set_send_buffer_size(cfg.lib_sndbuf);
  if (cfg.lib_rcvbuf) nc->set_receive_buffer_size(cfg.lib_rcvbuf);
  nc->set_bind_inet_address_str("127.0.0.1");
  if (cfg.enc_handshake_mode >= 0 || cfg.enc_stream_mode >= 0)
    nc->set_encryption_modes((torrent::encryption_mode)(cfg.enc_handshake_mode >= 0 ? cfg.enc_handshake_mode : 1),
                             (torrent::encryption_mode)(cfg.enc_stream_mode >= 0 ? cfg.enc_stream_mode : 1));
  // NetworkConfig setters schedule a delayed (200 ms) change notification whose subscriber
  // (ThreadMain) restarts the listener; with the network "not initialized" that restart only
  // CLOSES it. Let the notification fire now, before the listener exists.
  advance_us(1000000);

  // listener: a pid-derived window first (many shards run in parallel), then anything
  uint16_t base = 20000 + (uint16_t)((getpid() * 37u) % 30000);
  bool ok = false;
  for (int attempt = 0; attempt < 8 && !ok; attempt++) {
    try {
      uint16_t lo = (uint16_t)(base + attempt * 101), hi = (uint16_t)std::min<int>(lo + 100, 65000);
      ok = torrent::runtime::network_manager()->listen_open(lo, hi);
    } catch (torrent::base_error&) {
      ok = false;
    }
  }
  if (!ok) throw std::runtime_error("could not open a listening port");
  m_port = torrent::runtime::network_manager()->listen_port();
  step();
}

Session::~Session() {
  try {
    clear_io_limits();
    for (auto& t : m_torrents)
      if (!t->removed) remove(t.get());
    step();
    torrent::cleanup();
  } catch (std::exception& e) {
    fprintf(stderr, "[session] cleanup: %s\n", e.what());
  }
  remove_scratch_at_exit();
  g_session = nullptr;
}

bool Session::iterate() {
  auto* m = mt();
  auto t = std::chrono::microseconds(m_now);
  uint64_t before = g_io_moved.load();
  bool had_cb = m->has_any_callbacks();
  m->set_cached_time(t);
  m->call_events();
  unsigned ev = m->m_poll->do_poll(0us);
  m->set_cached_time(t);
  size_t heap_before = m->m_scheduler->m_heap.size();
  bool due = !m->m_scheduler->m_heap.empty() && m->m_scheduler->m_heap.front()->time <= t;
  m->m_scheduler->perform(t);
  (void)heap_before;
  (void)ev;
  return had_cb || due || g_io_moved.load() != before || m->has_any_callbacks();
}

bool Session::step() {
  bool any = false;
  int idle = 0;
  for (int i = 0; i < 200000 && idle < 3; i++) {
    if (iterate()) { any = true; idle = 0; } else idle++;
  }
  return any;
}

void Session::advance_us(int64_t dt) {
  int64_t target = m_now + dt;
  auto* sch = mt()->m_scheduler.get();
  for (int guard = 0; guard < 1000000; guard++) {
    step();
    if (m_now >= target) break;
    auto d = sch->next_timeout(std::chrono::microseconds(target - m_now));
    m_now += std::max<int64_t>(d.count(), 0);
    mt()->set_cached_time(std::chrono::microseconds(m_now));
    if (d.count() == 0) {
      // timers due now: step() runs them; if they keep rescheduling at 'now' do not spin forever
      if (guard > 100000) break;
    }
  }
  step();
}

int64_t Session::next_tick_in_us() const {
  auto t = torrent::manager->m_task_tick.time_or_zero();
  return t.count() == 0 ? -1 : std::max<int64_t>(0, t.count() - m_now);
}
unsigned Session::tick_count() const { return torrent::manager->m_ticks; }
void Session::avoid_tick_within(int64_t window_us) {
  int64_t d = next_tick_in_us();
  if (d >= 0 && d <= window_us) advance_us(d + 1000000);
}

bool Session::settle(const std::function<bool()>& pred, int real_ms) {
  auto t0 = std::chrono::steady_clock::now();
  while (true) {
    step();
    if (pred()) return true;
    if (std::chrono::steady_clock::now() - t0 > std::chrono::milliseconds(real_ms)) return false;
    std::this_thread::sleep_for(200us);
  }
}

// ------------------------------------------------------------------------------------------
static void write_file(const std::string& path, const char* p, size_t n) {
  fs::create_directories(fs::path(path).parent_path());
  std::ofstream f(path, std::ios::binary | std::ios::trunc);
  f.write(p, (std::streamsize)n);
  if (!f) throw std::runtime_error("cannot write " + path);
}

torrent::Download Session::add_raw(const std::string& bencoded) {
  auto obj = std::make_unique<torrent::Object>();
  const char* e = torrent::object_read_bencode_c(bencoded.data(), bencoded.data() + bencoded.size(), obj.get());
  if (e != bencoded.data() + bencoded.size()) throw torrent::bencode_error("trailing bytes after torrent");
  torrent::Download d = torrent::download_add(obj.get(), 0);
  obj.release();   // owned by the download now
  return d;
}

Torrent* Session::add_torrent(const TorrentSpec& spec_in) {
  TorrentSpec spec = spec_in;
  // names must be unique per session (root directories, single-file paths)
  std::string uniq = "s" + std::to_string(m_counter++);
  auto t = make_metainfo(spec);
  std::string tfile = "d4:info" + t->info_bytes;
  if (!spec.announce.empty()) tfile = "d8:announce" + benc_str(spec.announce) + "4:info" + t->info_bytes;
  tfile += "e";

  std::string base = m_scratch + "/" + uniq;
  t->root = spec.single_file ? base : base + "/" + spec.name;
  if (spec.write_files) {
    std::string disk = t->content;
    for (uint32_t pi : spec.corrupt_pieces) {
      uint64_t off = (uint64_t)pi * spec.piece_length;
      if (off < disk.size()) disk[off] = char(disk[off] ^ 0x5a);
    }
    for (uint32_t pi : spec.junk_pieces) {
      uint64_t off = (uint64_t)pi * spec.piece_length;
      for (uint64_t k = off; k < off + spec.piece_length && k < disk.size(); k++)
        disk[k] = char((unsigned char)t->content[k] ^ (unsigned char)(1 + k % 255));   // xor with a non-zero byte: differs everywhere
    }
    uint64_t g = 0;
    for (size_t i = 0; i < spec.files.size(); i++) {
      auto& f = spec.files[i];
      bool missing = std::find(spec.missing_files.begin(), spec.missing_files.end(), (uint32_t)i) != spec.missing_files.end();
      uint64_t len = f.length;
      for (auto& tr : spec.truncated_files) if (tr.first == i) len = std::min(len, tr.second);
      if (!missing)
        write_file(spec.single_file ? base + "/" + f.path : t->root + "/" + f.path, disk.data() + g, (size_t)len);
      g += f.length;
    }
  } else {
    fs::create_directories(spec.single_file ? base : t->root);
  }

  try {
    t->dl = add_raw(tfile);
  } catch (torrent::base_error& e) {
    throw std::runtime_error(std::string("download_add: ") + e.what());
  }
  t->dl.file_list()->set_root_dir(spec.single_file ? base : t->root);
  t->dl.open(0);
  bool done = t->dl.hash_check(false);
  (void)done;
  torrent::Download d = t->dl;
  if (!settle([d]() { return d.is_hash_checked(); }, 30000))
    throw std::runtime_error("hash check did not complete: " + t->dl.hash_error_message());
  Torrent* raw = t.get();
  m_torrents.push_back(std::move(t));
  return raw;
}

void Session::set_conn_type(Torrent* t, int type) {
  t->dl.set_connection_type((torrent::Download::ConnectionType)type);
}

void Session::start(Torrent* t, int flags) {
  if (m_cfg.conn_type != 0) set_conn_type(t, m_cfg.conn_type);
  t->dl.start(flags);
  step();
}

void Session::stop(Torrent* t, int flags) {
  t->dl.stop(flags);
  step();
}

void Session::remove(Torrent* t) {
  if (t->removed) return;
  t->dl.stop(torrent::Download::stop_skip_tracker);
  t->dl.close(0);
  step();
  torrent::download_remove(t->dl);
  t->removed = true;
  step();
}

torrent::PeerConnectionBase* Session::find_connection(Torrent* t, const std::string& peer_ip, uint16_t peer_port) {
  uint32_t want = ip_of(peer_ip);
  for (auto* p : *t->dl.connection_list()) {   // element type not spelled: survives container refactors
    torrent::PeerConnectionBase* pcb = p->m_ptr();
    if (pcb->file_descriptor() < 0) continue;
    io_key k = remote_end(pcb->file_descriptor());
    if (k.second == peer_port && (want == 0 || k.first == want)) return pcb;
  }
  return nullptr;
}
torrent::PeerConnectionBase* Session::find_connection(Torrent* t, uint16_t peer_port) {
  return find_connection(t, std::string(), peer_port);
}
size_t Session::connection_count(Torrent* t) { return t->dl.connection_list()->size(); }
size_t Session::handshake_count() { return torrent::manager->handshake_manager()->size(); }

void Session::connect_out(Torrent* t, const std::string& ip, uint16_t port) {
  torrent::AddressList al;
  torrent::sa_inet_union su{};
  su.inet.sin_family = AF_INET;
  inet_pton(AF_INET, ip.c_str(), &su.inet.sin_addr);
  su.inet.sin_port = htons(port);
  al.push_back(su);
  al.sort();
  t->dl.peer_list()->insert_available(&al);
  t->main()->receive_connect_peers();
  step();
}

void Session::force_choke(torrent::PeerConnectionBase* pcb, bool choke) {
  reinterpret_cast<torrent::Peer*>(pcb)->set_snubbed(choke);
}

// ------------------------------------------------------------------------------------------
static const char* state_name(int s) {
  static const char* n[] = {"IDLE", "MSG", "READ_PIECE", "READ_SKIP_PIECE", "READ_EXTENSION", "WRITE_PIECE", "WRITE_EXTENSION", "INTERNAL_ERROR"};
  return (s >= 0 && s < 8) ? n[s] : "?";
}

std::string Session::dump_upload_queue(torrent::PeerConnectionBase* pcb) {
  std::string s;
  for (const auto& p : *pcb->m_peer_chunks.upload_queue()) {
    if (!s.empty()) s += ",";
    s += std::to_string(p.index()) + ":" + std::to_string(p.offset()) + ":" + std::to_string(p.length());
  }
  return s.empty() ? "-" : s;
}

std::string Session::dump_connection(torrent::PeerConnectionBase* pcb) {
  if (pcb == nullptr) return "conn=none";
  std::ostringstream o;
  o << "up_choked=" << pcb->m_up_choke.choked() << " up_queued=" << pcb->m_up_choke.queued()
    << " up_snubbed=" << pcb->m_up_choke.snubbed() << " send_choked=" << pcb->m_send_choked
    << " up_state=" << state_name(pcb->m_up->get_state()) << " up_buf=" << pcb->m_up->buffer()->remaining()
    << " up_piece=" << pcb->m_up_piece.index() << ":" << pcb->m_up_piece.offset() << ":" << pcb->m_up_piece.length()
    << " up_chunk=" << (pcb->m_up_chunk.is_valid() ? std::to_string(pcb->m_up_chunk.index()) : std::string("-"))
    << " upq=" << dump_upload_queue(pcb)
    << " down_choked=" << pcb->m_down_choke.choked() << " down_queued=" << pcb->m_down_choke.queued()
    << " down_interested=" << pcb->m_down_interested << " down_unchoked=" << pcb->m_down_unchoked
    << " down_state=" << state_name(pcb->m_down->get_state()) << " down_buf=" << pcb->m_down->buffer()->remaining()
    << " down_chunk=" << (pcb->m_down_chunk.is_valid() ? std::to_string(pcb->m_down_chunk.index()) : std::string("-"))
    << " reqq=" << pcb->m_request_list.queued_size() << " encrypted=" << pcb->is_encrypted();
  return o.str();
}

std::string Session::dump_torrent(Torrent* t) {
  std::ostringstream o;
  auto* info = t->dl.info();
  o << "open=" << info->is_open() << " active=" << info->is_active() << " checked=" << t->dl.is_hash_checked()
    << " done=" << t->dl.file_list()->is_done() << " completed=" << t->completed_bits()
    << " conns=" << t->dl.connection_list()->size()
    << " up_unchoked=" << info->upload_unchoked() << " down_unchoked=" << info->download_unchoked()
    << " chunks_mapped=" << t->main()->chunk_list()->queue_size();
  return o.str();
}

// ChunkList is a (privately derived) sequence of nodes: iterate it generically, never spell the base type
std::string Session::dump_chunk_refs(Torrent* t) {
  std::string o;
  size_t i = 0;
  for (auto& node : *t->main()->chunk_list()) {
    if (node.references() != 0) o += (o.empty() ? "" : ",") + std::to_string(i) + ":" + std::to_string(node.references());
    i++;
  }
  return o.empty() ? "-" : o;
}
int Session::chunk_refs_total(Torrent* t) {
  int n = 0;
  for (auto& node : *t->main()->chunk_list()) n += node.references();
  return n;
}

// ---- per-case watchdog (ROBUSTNESS.md rule 5)
struct CaseWatchdog::Impl {
  std::mutex m;
  std::condition_variable cv;
  bool done = false;
  std::thread th;
};
CaseWatchdog::CaseWatchdog(int seconds) : m_impl(new Impl) {
  if (const char* e = getenv("LTV_CASE_TIMEOUT")) { int v = atoi(e); if (v > 0) seconds = v; }
  Impl* im = m_impl;
  im->th = std::thread([im, seconds]() {
    std::unique_lock<std::mutex> lk(im->m);
    if (!im->cv.wait_for(lk, std::chrono::seconds(seconds), [im]() { return im->done; })) {
      // ltv.crash_kind recognises "TIMEOUT..."; run_sharded then records this case and goes on with the rest
      fprintf(stderr, "TIMEOUT watchdog: case exceeded %d s (hang)\n", seconds);
      fflush(stderr);
      fflush(stdout);
      _exit(4);
    }
  });
}
CaseWatchdog::~CaseWatchdog() {
  { std::lock_guard<std::mutex> g(m_impl->m); m_impl->done = true; }
  m_impl->cv.notify_all();
  m_impl->th.join();
  delete m_impl;
}

std::string Session::dump_global() {
  std::ostringstream o;
  o << "sockets=" << torrent::runtime::socket_manager()->size()
    << " handshakes=" << torrent::manager->handshake_manager()->size()
    << " open_files=" << torrent::manager->file_manager()->open_files()
    << " hash_queue=" << mt()->hash_queue()->size()
    << " timers=" << mt()->m_scheduler->m_heap.size();
  return o.str();
}

}  // namespace ltv
