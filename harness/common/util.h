// Small helpers shared by the harness drivers (header only).
#pragma once
#include <cstdint>
#include <cstdio>
#include <cstring>
#include <csignal>
#include <iostream>
#include <sstream>
#include <string>
#include <vector>

namespace ltv {

inline std::string hex(const char* p, size_t n) {
  if (n == 0) return "-";
  static const char* d = "0123456789abcdef";
  std::string s;
  s.reserve(n * 2);
  for (size_t i = 0; i < n; i++) {
    unsigned char c = p[i];
    s.push_back(d[c >> 4]);
    s.push_back(d[c & 15]);
  }
  return s;
}
inline std::string hex(const std::string& s) { return hex(s.data(), s.size()); }

inline std::string unhex(const std::string& h) {
  if (h == "-") return std::string();
  std::string s;
  s.reserve(h.size() / 2);
  auto v = [](char c) { return c <= '9' ? c - '0' : (c | 32) - 'a' + 10; };
  for (size_t i = 0; i + 1 < h.size(); i += 2)
    s.push_back(char(v(h[i]) * 16 + v(h[i + 1])));
  return s;
}

inline std::vector<std::string> split_ws(const std::string& line) {
  std::vector<std::string> out;
  std::istringstream ss(line);
  std::string t;
  while (ss >> t) out.push_back(t);
  return out;
}

inline void std_setup() {
  signal(SIGPIPE, SIG_IGN);
  setvbuf(stdout, nullptr, _IOLBF, 0);
}

// A heap copy with no slack: a one-byte over-read hits the ASan redzone.
struct exact_buf {
  char* p;
  size_t n;
  explicit exact_buf(const std::string& s) : p(new char[s.size()]), n(s.size()) { memcpy(p, s.data(), n); }
  ~exact_buf() { delete[] p; }
  exact_buf(const exact_buf&) = delete;
};

} // namespace ltv
