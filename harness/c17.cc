// C17 implementation driver: real torrent::system::Thread objects driven by real OS threads under the
// deterministic scheduler (harness/common/sched.h + schedule points of hooks/c17.patch).
// Same case protocol and output as ocaml/c17_driver.ml.
//
//   <nthreads> <nids> / body ; body ; ... / prog ; prog ; ... / <schedule digits>
//   cmd tokens: P:<tgt>:<n|i>:<id|->:<body>  C:<id>  W:<id>  X:<id>  D:<0|1>
#include "config.h"
#include "common/util.h"
#include "common/sched.h"
#include "common/futex_interpose.h"

#include <chrono>
#include <memory>
#include <unistd.h>

#include "torrent/exceptions.h"
#include "torrent/system/callbacks.h"
#include "torrent/system/poll.h"
#include "torrent/system/thread.h"

using namespace ltv;
using namespace std::chrono_literals;

namespace {

struct Cmd {
  char kind;  // P C W X D
  int  tgt{}, id{-1}, body{};
  bool intr{};
  bool oi{};
};

class HThread : public torrent::system::Thread {
public:
  const char* name() const override { return "ltv-c17"; }
  void        call_events() override {}
  std::chrono::microseconds next_timeout() override { return 0us; }
};

struct Case {
  int                                         nthreads{}, nids{};
  std::vector<std::vector<Cmd>>               bodies, progs;
  std::string                                 sched;
  std::vector<std::unique_ptr<HThread>>       threads;
  std::vector<torrent::system::callback_id>   ids;
  std::vector<int>                            nposted;
  std::vector<std::vector<std::string>>       pending;  // per thread: "begin" events, flushed when its next step starts
  std::vector<std::string>                    step_events;
  std::atomic<bool>                           crashed{false};
};

thread_local int t_self = -1;

Cmd parse_cmd(const std::string& tok) {
  std::vector<std::string> f;
  size_t                   p = 0;
  while (true) {
    auto q = tok.find(':', p);
    f.push_back(tok.substr(p, q == std::string::npos ? q : q - p));
    if (q == std::string::npos) break;
    p = q + 1;
  }
  Cmd c;
  c.kind = f.at(0).at(0);
  switch (c.kind) {
  case 'P':
    c.tgt  = std::stoi(f.at(1));
    c.intr = f.at(2) == "i";
    c.id   = f.at(3) == "-" ? -1 : std::stoi(f.at(3));
    c.body = std::stoi(f.at(4));
    break;
  case 'C': case 'W': case 'X': c.id = std::stoi(f.at(1)); break;
  case 'D': c.oi = f.at(1) == "1"; break;  // an optional third field (observed dispatch choices) is for the model only
  case 'L': break;
  default: throw std::runtime_error("cmd");
  }
  return c;
}

std::vector<std::string> split_on(const std::string& s, char ch) {
  std::vector<std::string> out;
  size_t                   p = 0;
  while (true) {
    auto q = s.find(ch, p);
    out.push_back(s.substr(p, q == std::string::npos ? q : q - p));
    if (q == std::string::npos) break;
    p = q + 1;
  }
  return out;
}

std::vector<Cmd> parse_list(const std::string& s) {
  std::vector<Cmd> out;
  for (auto& t : split_ws(s)) out.push_back(parse_cmd(t));
  return out;
}

std::string us(int a, int b) { return std::to_string(a) + "." + std::to_string(b); }

void exec_list(Case& cs, const std::vector<Cmd>& cmds, bool in_cb);

void exec_cmd(Case& cs, const Cmd& c, bool in_cb) {
  int  t    = t_self;
  auto self = cs.threads[t].get();
  auto oth  = cs.threads[(t + 1) % cs.nthreads].get();
  switch (c.kind) {
  case 'P': {
    int         seq = cs.nposted[t]++;
    std::string u   = us(t, seq);
    cs.pending[t].push_back("p" + u + ">" + std::to_string(c.tgt) + (c.intr ? "i" : "n") + (c.id < 0 ? "-" : std::to_string(c.id)));
    int  body = c.body;
    auto fn   = [&cs, u, body]() {
      Controller::point("run");
      cs.step_events.push_back("R" + u + "@" + std::to_string(t_self));
      static const std::vector<Cmd> empty;
      exec_list(cs, body < (int)cs.bodies.size() ? cs.bodies[body] : empty, true);
      Controller::point("ret");
      cs.step_events.push_back("E" + u);
    };
    auto tgt = cs.threads.at(c.tgt).get();
    if (c.id < 0) {
      if (c.intr) tgt->callback_interrupt(std::move(fn)); else tgt->callback(std::move(fn));
    } else {
      if (c.intr) tgt->callback_interrupt(cs.ids.at(c.id), std::move(fn)); else tgt->callback(cs.ids.at(c.id), std::move(fn));
    }
    cs.step_events.push_back("r" + u);
    break;
  }
  case 'C': oth->cancel_callback(cs.ids.at(c.id)); break;
  case 'W':
    cs.pending[t].push_back("b" + std::to_string(t) + "i" + std::to_string(c.id));
    oth->cancel_callback_and_wait(cs.ids.at(c.id));
    cs.step_events.push_back("e" + std::to_string(t) + "i" + std::to_string(c.id));
    break;
  case 'X':
    cs.pending[t].push_back("b" + std::to_string(t) + "i" + std::to_string(c.id));
    self->cancel_callback_and_wait(cs.ids.at(c.id), oth);
    cs.step_events.push_back("e" + std::to_string(t) + "i" + std::to_string(c.id));
    break;
  case 'D':
    if (in_cb) Controller::point("nop"); else self->process_callbacks(c.oi);
    break;
  case 'L':
    // one pass of Poll::do_poll with a zero timeout: fetch_or(flag_polling), the timeout decision (visible as the
    // label of the schedule point before epoll_wait), epoll_wait(0), fetch_and
    self->m_poll->do_poll(0us);
    break;
  }
}

void exec_list(Case& cs, const std::vector<Cmd>& cmds, bool in_cb) {
  for (auto& c : cmds) exec_cmd(cs, c, in_cb);
}

std::string words(Case& cs) {
  std::string s;
  for (size_t i = 0; i < cs.ids.size(); i++) s += (i ? "," : "") + std::to_string(cs.ids[i]->load());
  return s;
}
std::string intr_bits(Case& cs) {
  std::string s;
  for (auto& t : cs.threads) s += std::to_string(t->m_poll->m_polling_state.load() & torrent::system::Poll::flag_state_mask);
  return s;
}

// per thread: <normal queue size>.<interrupt queue size>.<has_callbacks><has_interrupt_callbacks>
std::string queue_state(Case& cs) {
  std::string s;
  for (size_t i = 0; i < cs.threads.size(); i++) {
    auto& t = cs.threads[i];
    s += (i ? "," : "") + std::to_string(std::size(t->m_callbacks)) + "." + std::to_string(std::size(t->m_interrupt_callbacks)) + "." +
         (t->m_has_callbacks.load() ? "1" : "0") + (t->m_has_interrupt_callbacks.load() ? "1" : "0");
  }
  return s;
}

std::string run_case(const std::string& line) {
  auto parts = split_on(line, '/');
  if (parts.size() != 4) return "BADCASE";
  Case cs;
  auto hd = split_ws(parts[0]);
  cs.nthreads = std::stoi(hd.at(0));
  cs.nids     = std::stoi(hd.at(1));
  if (!split_ws(parts[1]).empty() || parts[1].find(';') != std::string::npos)
    for (auto& b : split_on(parts[1], ';')) cs.bodies.push_back(parse_list(b));
  for (auto& p : split_on(parts[2], ';')) cs.progs.push_back(parse_list(p));
  cs.nthreads = cs.progs.size();
  cs.sched    = parts[3];
  for (int i = 0; i < cs.nthreads; i++) {
    cs.threads.push_back(std::make_unique<HThread>());
  }
  for (int i = 0; i < cs.nids; i++) cs.ids.push_back(torrent::system::make_callback_id());
  cs.nposted.assign(cs.nthreads, 0);
  cs.pending.assign(cs.nthreads, {});

  std::string out = "S";
  std::string final_words;
  SchedWatchdog wd(20000, [&line] {
    std::cout << "ERR:hang case did not complete within 20 s (a thread is blocked outside the scheduler's control)" << std::endl;
    _exit(3);
  });
  {
    Controller ctrl;
    ctrl.futex_emulation = getenv("LTV_NO_FUTEX_EMU") == nullptr;   // the switch exists to exercise the hang watchdog path
    ctrl.after_grant = [&cs](int i) {
      for (auto& e : cs.pending[i]) cs.step_events.push_back(e);
      cs.pending[i].clear();
    };
    ctrl.launch(cs.nthreads, [&cs](int i) {
      t_self                          = i;
      torrent::system::Thread::m_self = cs.threads[i].get();
      try {
        exec_list(cs, cs.progs[i], false);
      } catch (const torrent::internal_error&) {
        cs.crashed = true;
      }
      torrent::system::Thread::m_self = nullptr;
    });
    for (char ch : cs.sched) {
      if (ch < '0' || ch > '9') continue;
      int t = ch - '0';
      if (t >= cs.nthreads) { out += " " + std::to_string(t) + ":-"; continue; }
      const char* lab = ctrl.label(t);
      std::string l   = lab ? lab : "";
      cs.step_events.clear();
      auto sr = ctrl.step(t);
      if (sr == Controller::HUNG) { std::cout << "ERR:hang thread " << t << " after " << l << std::endl; _exit(3); }
      if (sr != Controller::STEPPED) { out += " " + std::to_string(t) + ":-"; continue; }
      out += " " + std::to_string(t) + ":" + l + ":" + words(cs) + ":" + intr_bits(cs) + ":" + queue_state(cs);
      for (size_t i = 0; i < cs.step_events.size(); i++) out += (i ? "+" : ":") + cs.step_events[i];
    }
    std::string fin;
    for (int i = 0; i < cs.nthreads; i++) fin += ctrl.is_done(i) ? "1" : "0";
    final_words = words(cs);   // finish() perturbs the word a blocked waiter sleeps on
    ctrl.finish();
    out += " | F " + fin + " C " + (cs.crashed ? "1" : "0") + " Q ";
  }
  for (int i = 0; i < cs.nthreads; i++)
    out += (i ? "," : "") + std::to_string(cs.threads[i]->m_callbacks.size()) + "." + std::to_string(cs.threads[i]->m_interrupt_callbacks.size());
  out += " H ";
  for (int i = 0; i < cs.nthreads; i++)
    out += std::string(i ? "," : "") + (cs.threads[i]->m_has_callbacks.load() ? "1" : "0") + (cs.threads[i]->m_has_interrupt_callbacks.load() ? "1" : "0");
  out += " W " + final_words;
  return out;
}

} // namespace

// --params: constants of the COMPILED code, measured by behaviour (no source text involved)
static uint32_t g_probe_or = 0;
static std::atomic<uint32_t>* g_probe_word = nullptr;
static void probe_hook(const char*, const void*, uint32_t) { if (g_probe_word) g_probe_or |= g_probe_word->load(); }

static int params_main() {
  using namespace torrent::system;
  HThread a, b;
  Thread::m_self = &a;
  {
    auto id = make_callback_id();
    a.cancel_callback(id);
    std::cout << "c17_cancel_increment " << id->load() << "\n";
    id->store(0);
    a.cancel_callback_and_wait(id);
    std::cout << "c17_cw_increment " << id->load() << "\n";
    std::cout << "c17_id_word_bits " << sizeof(id->load()) * 8 << "\n";
  }
  uint32_t mask = 0;
  for (uint32_t k = 1; k < 64 && mask == 0; k++) {
    auto id = make_callback_id();
    id->store(k);
    try { b.callback(id, [] {}); } catch (const torrent::internal_error&) { mask = k; }
  }
  std::cout << "c17_count_mask " << mask << "\n";
  {
    // is bit 3 part of the expected value a queued callback remembers?  post with the bit set, clear it, dispatch
    auto id = make_callback_id();
    bool ran = false;
    id->store(8);
    a.callback(id, [&ran] { ran = true; });
    id->store(0);
    a.process_callbacks();
    std::cout << "c17_expected_mask_inv " << (ran ? (mask | 8) : mask) << "\n";
  }
  {
    // the flag the two-thread form sets transiently: OR of every value the id word takes at a schedule point
    // during cancel_callback_and_wait(id, other) called from inside a callback of id, minus what is left afterwards
    auto id = make_callback_id();
    uint32_t after = 0;
    g_probe_word = id.get();
    torrent::verif::sched_hook.store(&probe_hook);
    a.callback(id, [&] { a.cancel_callback_and_wait(id, &b); after = id->load(); });
    a.process_callbacks();
    torrent::verif::sched_hook.store(nullptr);
    g_probe_word = nullptr;
    std::cout << "c17_deadlock_flag " << (g_probe_or & ~after & ~mask) << "\n";
  }
  Thread::m_self = nullptr;
  return 0;
}

int main(int argc, char** argv) {
  std_setup();
  if (argc > 1 && std::string(argv[1]) == "--params") return params_main();
  std::string line;
  while (std::getline(std::cin, line)) {
    std::string r;
    try {
      r = run_case(line);
    } catch (const torrent::internal_error& e) {
      r = "ERR:internal";
    } catch (const std::exception& e) {
      r = std::string("ERR:input ") + e.what();
    }
    std::cout << r << "\n";
  }
  return 0;
}
