// C16 implementation driver: FAULT ENUMERATION on the real library through the session harness.
//
// One case = one scripted session (scenario), cut after k bytes of the scripted peers' streams, then
// one fault, then stop, restart and a healthy peer.  After every stage the resource LEDGER is read
// from the library's private state, the kernel (/proc/self/fd, epoll fdinfo) and a close() counter.
//
// Case:   sc=<hin|hout|seed|leech|dis|pex|multi> k=<bytes> f=<X|R|H|T|S|C|D|M|Q> tgt=<peer>
//         sc=<..> info=1          -> prints the byte layout of the scenario (N, item boundaries)
//   faults: X close(FIN)  R reset(RST)  H shutdown(SHUT_WR)  of peer tgt;   M: every peer closes at once;
//           T: 500 s of virtual time without a byte from any peer;   S Download::stop   C Download::close
//           D torrent::download_remove on the ACTIVE torrent;   Q library shutdown (~Session; last case of a process)
// Output: ev=<events> pre=<ledger> post=<ledger> stop=<ledger> fin=<ledger> || <oracle verdict> ;; <stats>
//   events: what the scripted peers did (from the script) and what the library put on the wire
//           (parsed from the peers' sockets) -- the op list of the Coq ledger model (ocaml/c16_driver.ml)
//   ledger: one row per scripted peer + the global counters (see row()/glob() below)
#include "config.h"

#include <atomic>
#include <deque>
#include <dirent.h>
#include <filesystem>
#include <fstream>
#include <map>
#include <mutex>
#include <set>
#include <sstream>
#include <sys/stat.h>
#include <sys/syscall.h>

#include "common/session.h"
#include "common/wirepeer.h"
#include "data/chunk_list.h"
#include "data/chunk_list_node.h"
#include "data/hash_queue.h"
#include "download/delegator.h"
#include "download/download_main.h"
#include "download/download_wrapper.h"
#include "manager.h"
#include "net/throttle_list.h"
#include "protocol/extensions.h"
#include "protocol/handshake.h"
#include "protocol/handshake_manager.h"
#include "protocol/peer_connection_base.h"
#include "protocol/request_list.h"
#include "thread_main.h"
#include "torrent/data/block.h"
#include "torrent/data/block_list.h"
#include "torrent/data/block_transfer.h"
#include "torrent/data/file_list.h"
#include "torrent/data/transfer_list.h"
#include "torrent/download/choke_group.h"
#include "torrent/download/choke_queue.h"
#include "torrent/download/group_entry.h"
#include "torrent/download/resource_manager.h"
#include "torrent/download_info.h"
#include "torrent/exceptions.h"
#include "torrent/net/socket_address.h"
#include "torrent/peer/connection_list.h"
#include "torrent/peer/peer.h"
#include "torrent/peer/peer_info.h"
#include "torrent/peer/peer_list.h"
#include "torrent/runtime/socket_manager.h"
#include "torrent/throttle.h"
#include "torrent/torrent.h"

using namespace ltv;
namespace fs = std::filesystem;

// ---- close() interposition: how often is each descriptor closed, and does any close fail with EBADF ----
static std::mutex g_close_lock;
static std::map<uint64_t, int> g_close_count;   // socket inode -> successful closes
static std::atomic<int> g_close_ebadf{0};
static std::atomic<bool> g_close_track{false};

static uint64_t sock_inode(int fd) {
  struct stat st;
  if (fd < 0 || fstat(fd, &st) != 0 || !S_ISSOCK(st.st_mode)) return 0;
  return (uint64_t)st.st_ino;
}
extern "C" int close(int fd) {
  bool track = g_close_track.load(std::memory_order_relaxed);
  uint64_t ino = track ? sock_inode(fd) : 0;
  long r = syscall(SYS_close, fd);
  if (track) {
    int e = errno;
    if (r != 0 && e == EBADF) g_close_ebadf.fetch_add(1);
    if (r == 0 && ino != 0) {
      std::lock_guard<std::mutex> g(g_close_lock);
      g_close_count[ino]++;
    }
    errno = e;
  }
  return (int)r;
}
static void close_window_begin() {
  std::lock_guard<std::mutex> g(g_close_lock);
  g_close_count.clear();
  g_close_ebadf = 0;
  g_close_track = true;
}
static int closes_of(uint64_t ino) {
  std::lock_guard<std::mutex> g(g_close_lock);
  auto it = g_close_count.find(ino);
  return it == g_close_count.end() ? 0 : it->second;
}

static uint32_t g_case_no = 0;

// ---- kernel view -----------------------------------------------------------------------------------------
struct KernelView { int sockets = 0; int epoll_entries = 0; std::set<int> epolled; int fds = 0; };
static KernelView kernel_view() {
  KernelView v;
  DIR* d = opendir("/proc/self/fd");
  if (!d) return v;
  std::vector<int> eps;
  std::set<int> socks, peer_socks;
  while (dirent* e = readdir(d)) {
    if (e->d_name[0] == '.') continue;
    int fd = atoi(e->d_name);
    char link[256];
    std::string p = std::string("/proc/self/fd/") + e->d_name;
    ssize_t n = readlink(p.c_str(), link, sizeof link - 1);
    if (n <= 0) continue;
    link[n] = 0;
    v.fds++;
    if (!strncmp(link, "socket:", 7)) {
      socks.insert(fd);
      // library-side descriptors of scripted peers: TCP sockets whose REMOTE address is a scripted peer's (127.16.* / 127.9.*);
      // the harness's own ends have 127.0.0.1 as remote, unrelated sockets of other threads are not counted
      sockaddr_in a{};
      socklen_t n = sizeof a;
      if (getpeername(fd, (sockaddr*)&a, &n) == 0 && a.sin_family == AF_INET) {
        uint32_t ip = ntohl(a.sin_addr.s_addr);
        uint32_t third = 1 + g_case_no % 200;   // this case's scripted peers only (a straggler of an earlier case is not ours)
        if (((ip >> 16) == ((127u << 8) | 16u) || (ip >> 16) == ((127u << 8) | 9u)) && ((ip >> 8) & 255) == third) { v.sockets++; peer_socks.insert(fd); }
      }
    }
    if (strstr(link, "eventpoll")) eps.push_back(fd);
  }
  closedir(d);
  v.fds--;   // the directory handle itself
  for (int ep : eps) {
    std::ifstream in("/proc/self/fdinfo/" + std::to_string(ep));
    std::string l;
    while (std::getline(in, l))
      // only sockets: other threads register their own wake-up descriptors whenever they like
      if (!l.compare(0, 4, "tfd:") && peer_socks.count(atoi(l.c_str() + 4))) { v.epoll_entries++; v.epolled.insert(atoi(l.c_str() + 4)); }
  }
  return v;
}

// ---- scripted peers ---------------------------------------------------------------------------------------
struct Req { uint32_t idx, off, len; };
struct SPeer {
  WirePeer w;
  int id = 0;
  bool outgoing = false, ext = false, connected_h = false;
  std::string ip;
  uint16_t port = 0;        // remote port as the library sees it
  bool got_hs = false;
  std::deque<Req> pending;
  int lib_fd = -1;          // library-side descriptor seen at the 'pre' observation
  uint64_t lib_ino = 0;     // ... and its socket inode (descriptor numbers are reused)
  bool partial_reported = false;
  bool eof_reported = false;
};

struct Step {
  char type;            // 'B' bytes of an item, 'A' action
  int peer;
  std::string kind;     // hs bf0 bf1 ka in ni un ch rq:i ca:i pc pp:n pr xh bad   |  conn out budget:n tick
  uint32_t len = 0;
};

struct Ctx {
  Session* S = nullptr;
  Torrent* T = nullptr;
  TorrentSpec spec;
  std::vector<std::unique_ptr<SPeer>> peers;
  std::vector<std::string> ev;
  std::vector<std::string> viol;
  KernelView base;
  uint32_t base_sm = 0;
  int harness_socks_base = 0;
  bool removed = false;
  std::string cur_piece_msg[4];   // the PIECE message a peer is in the middle of (pp then pr)
  uint32_t cur_piece_idx[4] = {0, 0, 0, 0};
  uint32_t cur_piece_off[4] = {0, 0, 0, 0};
  std::string completed;          // completed bitfield as last seen (public API)
  uint32_t filler = 0;            // SocketManager::add_unmanaged_socket() calls to undo
  std::set<uint32_t> hashing;     // pieces seen in the hash queue
  bool dq_hold = false;           // a delayed disconnect was queued and nothing has been pumped since
  size_t dq_last = 0;             // m_disconnectQueue size as last observed (to report when the library ran the queue)
};

static int harness_sockets(Ctx& c) {
  int n = 0;
  for (auto& p : c.peers) n += (p->w.fd != -1) + (p->w.lfd != -1);
  return n;
}

// Private containers are reached generically (ROBUSTNESS.md rule 2): range-for + these helpers, so that a change of the
// container or of the smart pointer type does not break the harness.
template <class T> static T* raw(T* p) { return p; }
template <class T, class D> static T* raw(const std::unique_ptr<T, D>& p) { return p.get(); }
template <class T> static T* raw(const std::shared_ptr<T>& p) { return p.get(); }
template <class E> static auto* elem_ptr(E& e) {
  if constexpr (requires { e.second; }) return raw(e.second); else return raw(e);
}

static torrent::HandshakeManager* hm() { return torrent::manager->handshake_manager(); }

static bool fd_remote_is(int fd, const std::string& ip, uint16_t port) {
  sockaddr_in a{};
  socklen_t n = sizeof a;
  if (fd < 0 || getpeername(fd, (sockaddr*)&a, &n) != 0 || a.sin_family != AF_INET) return false;
  char buf[64];
  inet_ntop(AF_INET, &a.sin_addr, buf, sizeof buf);
  return ntohs(a.sin_port) == port && ip == buf;
}
static torrent::Handshake* find_handshake(const std::string& ip, uint16_t port) {
  auto* base = (torrent::HandshakeManager::base_type*)hm();   // private base (read only)
  for (auto& h : *base)
    if (raw(h) != nullptr && raw(h)->file_descriptor() >= 0 && fd_remote_is(raw(h)->file_descriptor(), ip, port)) return raw(h);
  return nullptr;
}

// The leader transfer of a COMPLETED block stays in the block, with its peer reference, until the piece is hashed or the
// torrent closed (it names the sender if the hash fails): by design, not a leak. Counted separately.
static int finished_leaders(Ctx& c, torrent::PeerInfo* pi) {
  int n = 0;
  for (torrent::BlockList* l : *c.T->main()->delegator()->transfer_list())
    for (auto& b : *l)
      if (b.is_finished() && b.leader() != nullptr && (pi == nullptr || const_cast<torrent::BlockTransfer*>(b.leader())->peer_info() == pi)) n++;
  return n;
}

static std::string pi_str(Ctx& c, SPeer& p) {
  if (c.removed) return "x";
  std::vector<std::string> v;
  for (auto& kvp : *c.T->dl.peer_list()) {
    torrent::PeerInfo* pi = elem_ptr(kvp);
    if (torrent::sa_addr_str(pi->socket_address()) != p.ip) continue;
    std::string s;
    if (pi->is_connected()) s += "c";
    if (pi->is_handshake()) s += "h";
    if (pi->is_unwanted()) s += "u";
    if (s.empty()) s = "-";
    s += ":" + std::to_string((int)pi->transfer_counter() - finished_leaders(c, pi));
    v.push_back(s);
  }
  std::sort(v.begin(), v.end());
  std::string o;
  for (auto& s : v) o += (o.empty() ? "" : "+") + s;
  return o.empty() ? "none" : o;
}

// One ledger row.  N = nothing in the library for this peer;  H = Handshake object;  C = PeerConnection.
//  compared with the model:  kind, pe (registered with Poll), ui/uu (upload choke: interested-queued / unchoked),
//  di/du (download choke), px (ut_pex locally enabled), tu/td (node in upload / download throttle list),
//  uc/dc (m_up_chunk / m_down_chunk valid), tr (BlockTransfers owned by the request list), pi (PeerInfo flags:counter)
//  oracle only (after '~'): ke (descriptor in a kernel epoll set)
static std::string row(Ctx& c, SPeer& p, const KernelView& kv, bool remember_fd) {
  std::ostringstream o;
  o << "p" << p.id << "=";
  torrent::PeerConnectionBase* pcb = (c.removed || p.port == 0) ? nullptr : c.S->find_connection(c.T, p.ip, p.port);
  torrent::Handshake* h = p.port == 0 ? nullptr : find_handshake(p.ip, p.port);
  if (pcb != nullptr) {
    int fd = pcb->file_descriptor();
    if (remember_fd) { p.lib_fd = fd; p.lib_ino = sock_inode(fd); }
    auto* rl = &pcb->m_request_list;
    size_t tr = rl->queued_size() + rl->unordered_size() + rl->stalled_size() + rl->choked_size() + (rl->transfer() != nullptr ? 1 : 0);
    bool px = !pcb->m_extensions->is_default() && pcb->m_extensions->is_local_enabled(torrent::ProtocolExtension::UT_PEX);
    o << "C:pe" << (pcb->is_polling() ? 1 : 0)
      << ",ui" << pcb->m_up_choke.queued() << ",uu" << pcb->m_up_choke.unchoked() << ",us" << pcb->m_up_choke.snubbed()
      << ",di" << pcb->m_down_choke.queued() << ",du" << pcb->m_down_choke.unchoked()
      << ",px" << px
      << ",tu" << pcb->m_up->throttle()->is_throttled(pcb->m_peer_chunks.upload_throttle())
      << ",td" << pcb->m_down->throttle()->is_throttled(pcb->m_peer_chunks.download_throttle())
      << ",uc" << pcb->m_up_chunk.is_valid() << ",dc" << pcb->m_down_chunk.is_valid()
      << ",tr" << tr << ";pi=" << pi_str(c, p) << "~ke" << kv.epolled.count(fd);
  } else if (h != nullptr) {
    int fd = h->file_descriptor();
    if (remember_fd) { p.lib_fd = fd; p.lib_ino = sock_inode(fd); }
    o << "H:dl" << (h->download() != nullptr ? 1 : 0) << ",pe" << (h->is_polling() ? 1 : 0) << ";pi=" << pi_str(c, p) << "~ke" << kv.epolled.count(fd);
  } else {
    if (remember_fd) p.lib_fd = -1;
    o << "N;pi=" << pi_str(c, p) << "~ke0";
  }
  return o.str();
}

static torrent::download_data* hq_id(Torrent* T) { return const_cast<torrent::download_data*>(T->dl.data()); }
static int hash_queue_count(Ctx& c) {
  int n = 0;
  for (uint32_t i = 0; i < c.T->piece_count(); i++)
    if (torrent::ThreadMain::thread_main()->hash_queue()->has(hq_id(c.T), i)) n++;
  return n;
}

// Global counters.  Torrent level (0 once the torrent is removed) then session level.
static std::string glob(Ctx& c, const KernelView& kv) {
  std::ostringstream o;
  auto* cg = torrent::manager->resource_manager()->group_back();
  auto* rm = torrent::manager->resource_manager();
  o << "G:";
  if (!c.removed) {
    auto* m = c.T->main();
    int refs = 0, wr = 0, bl = 0;
    for (auto& n : *m->chunk_list()) { refs += n.references(); wr += n.writable(); bl += n.blocking(); }
    // written chunks wait in the ChunkList sync queue with one reference + one writable each (by design, until synced/closed)
    refs -= (int)m->chunk_list()->queue_size();
    wr -= (int)m->chunk_list()->queue_size();
    size_t bt = 0;
    for (torrent::BlockList* l : *m->delegator()->transfer_list())
      for (auto& b : *l) bt += b.queued()->size() + b.transfers()->size();
    size_t bf = finished_leaders(c, nullptr);
    bt -= bf;
    // a piece whose last block arrived waits in the hash queue with one chunk reference until the verdict (or close) comes
    int hqn = hash_queue_count(c);
    refs -= hqn;
    bl -= hqn;
    o << "cn" << c.T->dl.connection_list()->size() << ",hs" << hm()->size()
      << ",uu" << m->info()->upload_unchoked() << ",du" << m->info()->download_unchoked()
      << ",geu" << m->up_group_entry()->unchoked()->size() << "/" << m->up_group_entry()->queued()->size()
      << ",ged" << m->down_group_entry()->unchoked()->size() << "/" << m->down_group_entry()->queued()->size()
      << ",px" << m->info()->size_pex()
      << ",cr" << refs << ",cw" << wr << ",cb" << bl
      << ",tl" << m->delegator()->transfer_list()->size() << ",bt" << bt << ",bf" << bf << ",hq" << hqn;
  } else {
    o << "cn0,hs" << hm()->size() << ",uu0,du0,geu0/0,ged0/0,px0,cr0,cw0,cb0,tl0,bt0,bf0,hq0";
  }
  o << ",cqu" << cg->up_queue()->size_unchoked() << "/" << cg->up_queue()->size_queued()
    << ",cqd" << cg->down_queue()->size_unchoked() << "/" << cg->down_queue()->size_queued()
    << ",rm" << rm->currently_upload_unchoked() << "/" << rm->currently_download_unchoked()
    << ",tu" << torrent::manager->upload_throttle()->throttle_list()->size()
    << ",td" << torrent::manager->download_throttle()->throttle_list()->size()
    << ",sk" << (int)torrent::runtime::socket_manager()->category_managed_size(torrent::runtime::category_generic) - (int)c.base_sm
    << "~ks" << kv.sockets - c.base.sockets
    << ",ke" << kv.epoll_entries - c.base.epoll_entries
    << ",qu" << torrent::manager->upload_throttle()->throttle_list()->outstanding_quota()
    << ",qd" << torrent::manager->download_throttle()->throttle_list()->outstanding_quota();
  return o.str();
}

static size_t disc_queue_size(Ctx& c) {
  if (c.removed || c.T == nullptr) return 0;
  size_t n = 0;
  for (auto& id : c.T->main()->connection_list()->m_disconnectQueue) { (void)id; n++; }
  return n;
}

static std::string ledger(Ctx& c, bool remember_fd = false) {
  KernelView kv = kernel_view();
  std::string s;
  for (auto& p : c.peers) s += row(c, *p, kv, remember_fd) + " ";
  // ConnectionList::m_disconnectQueue (ids queued by erase(.., disconnect_delayed)); kept out of the G: part: a stale id
  // after a stop is not a resource
  if (!c.removed) s += "DQ" + std::to_string(disc_queue_size(c)) + " ";
  return s + glob(c, kv);
}

// ---- pumping and wire parsing --------------------------------------------------------------------------
static void parse_wire(Ctx& c) {
  for (auto& pp : c.peers) {
    SPeer& p = *pp;
    if (!p.got_hs) {
      HandshakeIn h;
      if (!p.w.take_handshake(h)) continue;
      p.got_hs = true;
      c.ev.push_back("L" + std::to_string(p.id) + ":H");
    }
    WireMsg m;
    while (p.w.next_message(m)) {
      std::string e = "L" + std::to_string(p.id) + ":";
      switch (m.id) {
      case -1: e += "ka"; break;
      case WirePeer::CHOKE: e += "ch"; break;
      case WirePeer::UNCHOKE: e += "un"; break;
      case WirePeer::INTERESTED: e += "in"; break;
      case WirePeer::NOT_INTERESTED: e += "ni"; break;
      case WirePeer::HAVE: e += "hv:" + std::to_string(m.u32(0)); break;
      case WirePeer::BITFIELD: e += "bf"; break;
      case WirePeer::REQUEST:
        e += "rq:" + std::to_string(m.u32(0)) + ":" + std::to_string(m.u32(4));
        p.pending.push_back({m.u32(0), m.u32(4), m.u32(8)});
        break;
      case WirePeer::CANCEL:
        e += "ca:" + std::to_string(m.u32(0)) + ":" + std::to_string(m.u32(4));
        for (auto it = p.pending.begin(); it != p.pending.end(); ++it)
          if (it->idx == m.u32(0) && it->off == m.u32(4)) { p.pending.erase(it); break; }
        break;
      case WirePeer::PIECE: {
        uint32_t i = m.u32(0), b = m.u32(4), l = (uint32_t)m.body.size() - 8;
        if (!p.partial_reported) c.ev.push_back("L" + std::to_string(p.id) + ":ps:" + std::to_string(i) + ":" + std::to_string(b));
        p.partial_reported = false;
        bool ok = i < c.T->piece_count() && (uint64_t)b + l <= c.T->piece_size(i) && m.body.compare(8, l, c.T->range(i, b, l)) == 0;
        e += "pc:" + std::to_string(i) + ":" + std::to_string(b) + (ok ? "" : ":BAD");
        if (!ok) c.viol.push_back("served-wrong-bytes");
        break;
      }
      case WirePeer::EXTENDED: e += "x"; break;
      default: e += "m" + std::to_string(m.id); break;
      }
      c.ev.push_back(e);
    }
    // the first 13 bytes of a PIECE message are on the wire: the library has mapped the chunk it serves from
    if (!p.partial_reported && p.w.rx.size() >= 13 && (unsigned char)p.w.rx[4] == WirePeer::PIECE) {
      const unsigned char* q = (const unsigned char*)p.w.rx.data() + 5;
      uint32_t i = (uint32_t(q[0]) << 24) | (uint32_t(q[1]) << 16) | (uint32_t(q[2]) << 8) | q[3];
      uint32_t b = (uint32_t(q[4]) << 24) | (uint32_t(q[5]) << 16) | (uint32_t(q[6]) << 8) | q[7];
      c.ev.push_back("L" + std::to_string(p.id) + ":ps:" + std::to_string(i) + ":" + std::to_string(b));
      p.partial_reported = true;
    }
  }
  if (!c.removed) {
    for (uint32_t i = 0; i < c.T->piece_count(); i++)
      if (!c.hashing.count(i) && torrent::ThreadMain::thread_main()->hash_queue()->has(hq_id(c.T), i)) {
        c.hashing.insert(i);
        c.ev.push_back("Q:" + std::to_string(i));    // the piece's chunk handle is held by the hash queue
      }
    std::string bits = c.T->completed_bits();
    if (c.completed.size() == bits.size())
      for (size_t i = 0; i < bits.size(); i++)
        if (bits[i] == '1' && c.completed[i] != '1') c.ev.push_back("D:" + std::to_string(i));
    c.completed = bits;
  }
}

#include <sys/ioctl.h>
static bool lib_has_unread(Ctx& c) {
  for (auto& p : c.peers) {
    if (p->port == 0) continue;
    int fd = -1;
    torrent::PeerConnectionBase* pcb = c.removed ? nullptr : c.S->find_connection(c.T, p->ip, p->port);
    if (pcb != nullptr) fd = pcb->file_descriptor();
    else if (torrent::Handshake* h = find_handshake(p->ip, p->port)) fd = h->file_descriptor();
    int n = 0;
    if (fd >= 0 && ioctl(fd, FIONREAD, &n) == 0 && n > 0) return true;
  }
  return false;
}

static int lib_unread_bytes(Ctx& c, SPeer& p) {
  int fd = -1, n = 0;
  torrent::PeerConnectionBase* pcb = (c.removed || p.port == 0) ? nullptr : c.S->find_connection(c.T, p.ip, p.port);
  if (pcb != nullptr) fd = pcb->file_descriptor();
  else if (torrent::Handshake* h = p.port ? find_handshake(p.ip, p.port) : nullptr) fd = h->file_descriptor();
  if (fd >= 0 && ioctl(fd, FIONREAD, &n) == 0 && n > 0) return n;
  return 0;
}

static void pump_all(Ctx& c) {
  int idle = 0, settle_tries = 0;
  c.dq_hold = false;
  for (int r = 0; r < 100000 && idle < 2; r++) {
    bool moved = false;
    for (auto& p : c.peers) {
      if (p->w.fd != -1 && p->w.flush() > 0) moved = true;
      if (p->w.lfd != -1 && p->w.fd == -1 && !p->connected_h && p->w.accept_one()) {
        moved = true;
        p->connected_h = true;
        c.ev.push_back("C" + std::to_string(p->id) + "o");
      }
    }
    if (c.S->step()) moved = true;
    for (auto& p : c.peers) if (p->w.fd != -1 && p->w.recv_available() > 0) moved = true;
    if (!moved) {
      usleep(200);   // real-time slack for loopback delivery
      if (c.S->step()) moved = true;
      for (auto& p : c.peers) if (p->w.fd != -1 && p->w.recv_available() > 0) moved = true;
    }
    if (moved) idle = 0; else idle++;
    if (idle >= 2 && settle_tries < 60 && lib_has_unread(c)) {
      // bytes a peer sent are still in the library-side socket's receive queue: loopback delivery lagged (loaded machine)
      settle_tries++;
      usleep(300);
      idle = 0;
    }
  }
  parse_wire(c);
  // the scheduler ran DownloadMain::m_delay_disconnect_peers (ConnectionList::disconnect_queued) during this pump
  // (also when it ran inside Session::advance_us just before this pump)
  {
    size_t dq_now = disc_queue_size(c);
    if (c.dq_last > 0 && dq_now == 0 && !c.removed) c.ev.push_back("A:dfire");
    c.dq_last = dq_now;
  }
}

static void wait_hash(Ctx& c) {
  Torrent* T = c.T;
  c.S->settle([T]() { return !torrent::ThreadMain::thread_main()->hash_queue()->has(hq_id(T)); }, 10000);
  pump_all(c);
}

// ---- scenarios ---------------------------------------------------------------------------------------------
static const uint32_t NP = 8;
static uint32_t PLEN = 2048;   // piece length of the current scenario
static uint32_t BLEN = 2048;   // block length = min(PLEN, 16384)

struct Scenario {
  std::string have;       // completed pieces at start
  bool priv = true;
  int npeers = 1;
  std::vector<bool> outgoing, ext;
  std::vector<Step> steps;
  int maxconn = 0;
};

static Step B(int p, const std::string& k, uint32_t len) { return Step{'B', p, k, len}; }
static Step A(int p, const std::string& k) { return Step{'A', p, k, 0}; }
#define PIECE_MSG (13 + BLEN)

static bool make_scenario(const std::string& name, Scenario& s) {
  s.outgoing.assign(4, false);
  s.ext.assign(4, false);
  PLEN = name == "mblk" ? 32768 : 2048;
  BLEN = std::min<uint32_t>(PLEN, 16384);
  if (name == "hin") {
    s.have = std::string(NP, '1');
    s.steps = {A(0, "conn"), B(0, "hs", 68), B(0, "bf0", 6), B(0, "in", 5)};
  } else if (name == "hout") {
    s.have = std::string(NP, '0');
    s.outgoing[0] = true;
    s.steps = {A(0, "out"), B(0, "hs", 68), B(0, "bf1", 6), B(0, "un", 5)};
  } else if (name == "seed") {
    s.have = std::string(NP, '1');
    s.steps = {A(0, "conn"), B(0, "hs", 68), B(0, "bf0", 6), B(0, "in", 5), A(0, "budget:713"),
               B(0, "rq:0", 17), B(0, "rq:1", 17), B(0, "rq:2", 17), A(0, "budget:1900"), B(0, "ca:2", 17),
               A(0, "budget:4000"), B(0, "ni", 5)};
  } else if (name == "leech") {
    s.have = std::string(NP, '0');
    s.steps = {A(0, "conn"), B(0, "hs", 68), B(0, "bf1", 6), B(0, "un", 5), B(0, "pc", PIECE_MSG), B(0, "pc", PIECE_MSG),
               B(0, "ch", 5), B(0, "un", 5), B(0, "pc", PIECE_MSG)};
  } else if (name == "dis") {
    s.have = std::string(NP - 1, '1') + "0";
    s.npeers = 2;
    s.steps = {A(0, "conn"), B(0, "hs", 68), B(0, "bf1", 6), B(0, "un", 5), B(0, "pp", 113),
               A(1, "conn"), B(1, "hs", 68), B(1, "bf1", 6), B(1, "un", 5), B(1, "bad", PIECE_MSG),
               B(0, "pr", PIECE_MSG - 113)};
  } else if (name == "pex") {
    s.have = std::string(NP, '1');
    s.priv = false;
    s.ext[0] = true;
    s.steps = {A(0, "ptick"), A(0, "conn"), B(0, "hs", 68), B(0, "xh", 0), B(0, "ka", 4), A(0, "ptick"), B(0, "in", 5), B(0, "ni", 5)};
  } else if (name == "multi") {
    s.have = std::string(NP, '0');
    s.npeers = 3;
    s.steps = {A(0, "conn"), B(0, "hs", 68), B(0, "bf1", 6), B(0, "un", 5),
               A(1, "conn"), B(1, "hs", 68), B(1, "bf1", 6), B(1, "un", 5), B(0, "pp", 113),
               A(2, "conn"), B(2, "hs", 68), B(1, "pp", 113), B(2, "bf1", 6)};
  } else if (name == "mblk") {
    // multi-block pieces, pipelined requests: cuts on block boundaries inside a piece
    s.have = std::string(NP, '0');
    s.steps = {A(0, "conn"), B(0, "hs", 68), B(0, "bf1", 6), B(0, "un", 5), B(0, "pc", PIECE_MSG), B(0, "pc", PIECE_MSG), B(0, "pc", PIECE_MSG)};
  } else if (name == "hs3") {
    // several handshakes of the torrent in the table at the same time (incoming ones know their torrent from byte 48)
    s.have = std::string(NP, '1');
    s.npeers = 4;
    s.outgoing[3] = true;
    s.steps = {A(0, "conn"), B(0, "hsa", 60), A(1, "conn"), B(1, "hsa", 60), A(2, "conn"), B(2, "hsa", 60), A(3, "out"),
               B(0, "hsb", 8), B(1, "hsb", 8)};
  } else if (name == "full") {
    // connection list full: two handshakes race for the last slot, then a further peer connects
    s.have = std::string(NP, '1');
    s.npeers = 3;
    s.maxconn = 1;
    s.steps = {A(0, "max"), A(0, "conn"), B(0, "hsa", 60), A(1, "conn"), B(1, "hsa", 60), B(0, "hsb", 8), B(0, "bf0", 6),
               B(1, "hsb", 8), B(1, "bf0", 6), A(2, "conn"), B(2, "hs", 68), B(0, "in", 5)};
  } else if (name == "snub" || name == "snub2") {
    // the client snubs an interested (unchoked) peer -- and lifts the snub again in snub2 -- before the fault
    s.have = std::string(NP, '1');
    s.steps = {A(0, "conn"), B(0, "hs", 68), B(0, "bf0", 6), B(0, "in", 5), A(0, "snub")};
    if (name == "snub2") s.steps.push_back(A(0, "unsnub"));
    s.steps.push_back(B(0, "ka", 4));
    s.steps.push_back(B(0, "ni", 5));
  } else if (name == "ddis") {
    // the client disconnects an interested, unchoked peer with disconnect_delayed: the connection sits in
    // ConnectionList::m_disconnectQueue until the scheduler runs disconnect_queued (next pump)
    s.have = std::string(NP, '1');
    s.steps = {A(0, "conn"), B(0, "hs", 68), B(0, "bf0", 6), B(0, "in", 5), A(0, "ddis"), B(0, "ka", 4), B(0, "ni", 5)};
  } else if (name == "ddis2") {
    // the same connection queued twice: the second queue entry finds no connection (find() == end() branch)
    s.have = std::string(NP, '1');
    s.steps = {A(0, "conn"), B(0, "hs", 68), B(0, "bf0", 6), B(0, "in", 5), A(0, "ddis"), A(0, "ddis"), B(0, "ka", 4)};
  } else if (name == "ddisl") {
    // delayed disconnect of a peer in the middle of a PIECE (chunk mapped, transfer leading its block) while a second
    // peer stays connected
    s.have = std::string(NP, '0');
    s.npeers = 2;
    s.steps = {A(0, "conn"), B(0, "hs", 68), B(0, "bf1", 6), B(0, "un", 5), B(0, "pp", 113),
               A(1, "conn"), B(1, "hs", 68), B(1, "bf1", 6), B(1, "un", 5), A(0, "ddis"), B(1, "ka", 4), B(1, "ka", 4)};
  } else if (name == "sockfull") {
    // incoming connection while the socket budget is exhausted: refused at accept, the descriptor must be closed at once
    s.have = std::string(NP, '1');
    s.steps = {A(0, "sockmax"), A(0, "conn"), B(0, "hs", 68)};
  } else if (name == "hfail") {
    // incoming handshake from an address whose PeerInfo has failed_counter > HandshakeManager::max_failed:
    // the handshake is dropped right after the peer id was read (PeerList::connected already set flag_connected)
    s.have = std::string(NP, '1');
    s.steps = {A(0, "failpi"), A(0, "conn"), B(0, "hs", 68), B(0, "bf0", 6), B(0, "in", 5)};
  } else if (name == "thrd") {
    // small global DOWNLOAD rate limit: the connection runs out of quota inside the block and is parked in the
    // inactive part of the throttle list when the fault hits
    s.have = std::string(NP, '0');
    s.steps = {A(0, "dlimit"), A(0, "conn"), B(0, "hs", 68), B(0, "bf1", 6), B(0, "un", 5), B(0, "pc", PIECE_MSG)};
  } else if (name == "thru") {
    // small global UPLOAD rate limit: the piece being served stalls on quota
    s.have = std::string(NP, '1');
    s.steps = {A(0, "ulimit"), A(0, "conn"), B(0, "hs", 68), B(0, "bf0", 6), B(0, "in", 5), B(0, "rq:0", 17), B(0, "rq:1", 17), B(0, "ni", 5)};
  } else if (name == "fullx") {
    // the same with extension-protocol peers while PEX is active (size_pex is counted from the handshake on)
    s.have = std::string(NP, '1');
    s.priv = false;
    s.npeers = 3;
    s.maxconn = 1;
    s.ext[0] = s.ext[1] = s.ext[2] = true;
    s.steps = {A(0, "ptick"), A(0, "max"), A(0, "conn"), B(0, "hsa", 60), A(1, "conn"), B(1, "hsa", 60), B(0, "hsb", 8), B(0, "bf0", 6), B(0, "xh", 0),
               B(1, "hsb", 8), B(1, "bf0", 6), B(1, "xh", 0), A(2, "conn"), B(2, "hs", 68), B(0, "in", 5)};
  } else {
    return false;
  }
  return true;
}

static std::string ext_handshake_msg() {
  return WirePeer::extended(0, "d1:md6:ut_pexi1eee");
}

static std::string peer_id(int case_no, int p) {
  char idbuf[21];
  snprintf(idbuf, sizeof idbuf, "-LV0016-%06d%06d", case_no % 1000000, p);
  return std::string(idbuf, 20);
}


// bytes of a 'B' step, built when the step starts (PIECE answers depend on what the library requested)
static std::string step_bytes(Ctx& c, const Step& st) {
  SPeer& p = *c.peers[st.peer];
  Torrent* T = c.T;
  const std::string& k = st.kind;
  if (k == "hsa" || k == "hsb") {
    std::string h = WirePeer::handshake(T->info_hash, peer_id(g_case_no, st.peer), p.ext ? WirePeer::reserved_ext() : std::string(8, '\0'));
    return k == "hsa" ? h.substr(0, 60) : h.substr(60);
  }
  if (k == "hs") return WirePeer::handshake(T->info_hash, peer_id(g_case_no, st.peer), p.ext ? WirePeer::reserved_ext() : std::string(8, '\0'));
  if (k == "bf0") return WirePeer::bitfield(std::string(NP, '0'));
  if (k == "bf1") return WirePeer::bitfield(std::string(NP, '1'));
  if (k == "ka") return WirePeer::keepalive();
  if (k == "in") return WirePeer::interested();
  if (k == "ni") return WirePeer::not_interested();
  if (k == "un") return WirePeer::unchoke();
  if (k == "ch") return WirePeer::choke();
  if (k == "xh") return ext_handshake_msg();
  if (!k.compare(0, 3, "rq:")) return WirePeer::request(atoi(k.c_str() + 3), 0, BLEN);
  if (!k.compare(0, 3, "ca:")) return WirePeer::cancel(atoi(k.c_str() + 3), 0, BLEN);
  if (k == "pc" || k == "pp" || k == "bad") {
    Req r{0, 0, BLEN};
    if (!p.pending.empty()) { r = p.pending.front(); p.pending.pop_front(); }
    std::string d = T->range(r.idx, r.off, BLEN);
    if (k == "bad") d[10] = char(d[10] ^ 0x33);
    std::string m = WirePeer::piece(r.idx, r.off, d);
    c.cur_piece_idx[st.peer] = r.idx;
    c.cur_piece_off[st.peer] = r.off;
    if (k == "pp") { c.cur_piece_msg[st.peer] = m; return m.substr(0, 113); }
    return m;
  }
  if (k == "pr") return c.cur_piece_msg[st.peer].substr(113);
  return std::string();
}

static void to_pex_tick(Ctx& c) {
  do {
    int64_t d = c.S->next_tick_in_us();
    c.S->advance_us((d < 0 ? 0 : d) + 1);
    pump_all(c);
  } while (c.S->tick_count() % 4 != 0);
}

static bool do_action(Ctx& c, const Step& st) {
  SPeer& p = *c.peers[st.peer];
  if (st.kind == "conn") {
    if (!p.w.connect_to(c.S->listen_port(), p.ip.c_str(), 1 << 20, 1 << 20)) return false;
    p.port = p.w.local_port();
    p.connected_h = true;
    c.ev.push_back("C" + std::to_string(p.id) + (p.ext ? "ix" : "i"));
    pump_all(c);
  } else if (st.kind == "out") {
    p.port = p.w.listen_on(p.ip.c_str());
    if (p.port == 0) return false;
    c.ev.push_back("O" + std::to_string(p.id) + (p.ext ? "x" : ""));
    c.S->connect_out(c.T, p.ip, p.port);
    pump_all(c);
  } else if (!st.kind.compare(0, 7, "budget:")) {
    Session::set_send_budget(p.ip, p.port, atoll(st.kind.c_str() + 7));
    c.ev.push_back("A" + std::to_string(p.id) + ":" + st.kind);
    pump_all(c);
  } else if (st.kind == "failpi") {
    sockaddr_in sa{};
    sa.sin_family = AF_INET;
    inet_pton(AF_INET, p.ip.c_str(), &sa.sin_addr);
    sa.sin_port = htons(6881);
    torrent::PeerInfo* pi = c.T->dl.peer_list()->connected((sockaddr*)&sa, torrent::PeerList::connect_incoming);
    if (pi == nullptr) return false;
    pi->set_failed_counter(torrent::HandshakeManager::max_failed + 1);
    c.T->dl.peer_list()->disconnected(pi, 0);
    c.ev.push_back("A" + std::to_string(p.id) + ":failpi");
  } else if (st.kind == "snub" || st.kind == "unsnub") {
    torrent::PeerConnectionBase* pcb = c.S->find_connection(c.T, p.ip, p.port);
    if (pcb != nullptr) {
      c.S->force_choke(pcb, st.kind == "snub");     // Peer::set_snubbed
      c.ev.push_back("A" + std::to_string(p.id) + ":" + st.kind);
      pump_all(c);
    }
  } else if (st.kind == "ddis") {
    // Peer::disconnect(disconnect_delayed) = ConnectionList::erase(peer, disconnect_delayed): queued only; NOT pumped, so
    // that a fault can hit while the connection sits in the queue
    torrent::PeerConnectionBase* pcb = c.S->find_connection(c.T, p.ip, p.port);
    if (pcb != nullptr) {
      static_cast<torrent::Peer*>(pcb)->disconnect(torrent::ConnectionList::disconnect_delayed);
      c.ev.push_back("A" + std::to_string(p.id) + ":ddis");
      c.dq_hold = true;
      c.dq_last = disc_queue_size(c);
    }
  } else if (st.kind == "sockmax") {
    auto* sm = torrent::runtime::socket_manager();
    while (sm->size() < sm->max_size()) { sm->add_unmanaged_socket(); c.filler++; }
    c.ev.push_back("A:sockmax");
  } else if (st.kind == "dlimit") {
    torrent::down_throttle_global()->set_max_rate(1000);
    c.ev.push_back("A:dlimit");
  } else if (st.kind == "ulimit") {
    torrent::up_throttle_global()->set_max_rate(1000);
    c.ev.push_back("A:ulimit");
  } else if (st.kind == "max") {
    c.T->dl.connection_list()->set_max_size(1);
    c.ev.push_back("A:max:1");
  } else if (st.kind == "ptick") {
    to_pex_tick(c);
    c.ev.push_back("A:ptick");
  }
  return true;
}

// ---- healthy peer after the restart ------------------------------------------------------------------------
static std::string healthy(Ctx& c, bool leech) {
  Torrent* T = c.T;
  auto hp = std::make_unique<SPeer>();
  SPeer& p = *hp;
  p.id = 9;
  p.ip = "127.9." + std::to_string(1 + g_case_no % 200) + ".9";
  if (!p.w.connect_to(c.S->listen_port(), p.ip.c_str(), 1 << 20, 1 << 20)) return "noconnect";
  p.port = p.w.local_port();
  auto pump1 = [&]() {
    int idle = 0;
    for (int r = 0; r < 100000 && idle < 2; r++) {
      bool moved = p.w.flush() > 0;
      if (c.S->step()) moved = true;
      if (p.w.recv_available() > 0) moved = true;
      if (!moved) { usleep(200); if (c.S->step()) moved = true; if (p.w.recv_available() > 0) moved = true; }
      if (moved) idle = 0; else idle++;
    }
  };
  std::string res;
  if (leech) {
    p.w.send_bytes(WirePeer::handshake(T->info_hash, peer_id(g_case_no, 9)) + WirePeer::bitfield(std::string(NP, '1')));
    pump1();
    HandshakeIn h;
    if (!p.w.take_handshake(h)) return "nohandshake";
    p.w.send_bytes(WirePeer::unchoke());
    pump1();
    for (int round = 0; round < 200 && !T->dl.file_list()->is_done(); round++) {
      WireMsg m;
      bool any = false;
      while (p.w.next_message(m))
        if (m.id == WirePeer::REQUEST && m.body.size() == 12) {
          uint32_t i = m.u32(0), b = m.u32(4), l = m.u32(8);
          if (i < T->piece_count() && (uint64_t)b + l <= T->piece_size(i)) { p.w.send_bytes(WirePeer::piece(i, b, T->range(i, b, l))); any = true; }
        }
      pump1();
      Torrent* TT = T;
      c.S->settle([TT]() { return !torrent::ThreadMain::thread_main()->hash_queue()->has(hq_id(TT)); }, 10000);
      pump1();
      if (!any && p.w.rx.empty()) { c.S->advance_us(31 * 1000000); pump1(); }
      if (p.w.eof) break;
    }
    res = T->dl.file_list()->is_done() ? "done" : ("incomplete:" + T->completed_bits());
  } else {
    p.w.send_bytes(WirePeer::handshake(T->info_hash, peer_id(g_case_no, 9)) + WirePeer::bitfield(std::string(NP, '0')));
    pump1();
    HandshakeIn h;
    if (!p.w.take_handshake(h)) return "nohandshake";
    p.w.send_bytes(WirePeer::interested());
    pump1();
    p.w.send_bytes(WirePeer::request(3, 0, BLEN));
    pump1();
    WireMsg m;
    res = "notserved";
    while (p.w.next_message(m))
      if (m.id == WirePeer::PIECE && m.body.size() == 8 + BLEN && m.u32(0) == 3 && m.body.compare(8, BLEN, T->range(3, 0, BLEN)) == 0) res = "served";
  }
  p.w.close_all();
  pump1();
  return res;
}

static bool all_zero_glob(const std::string& g, std::string& why) {
  // every number in the G: part must be 0
  size_t i = g.find("G:");
  if (i == std::string::npos) { why = "noglob"; return false; }
  std::string s = g.substr(i + 2);
  size_t p = 0;
  while (p < s.size()) {
    if (isdigit((unsigned char)s[p]) || (s[p] == '-' && p + 1 < s.size() && isdigit((unsigned char)s[p + 1]))) {
      size_t q = p + 1;
      while (q < s.size() && isdigit((unsigned char)s[q])) q++;
      if (s.substr(p, q - p) != "0") {
        size_t a = s.rfind(',', p);
        size_t a2 = s.rfind('~', p);
        if (a == std::string::npos || (a2 != std::string::npos && a2 > a)) a = a2;
        why = s.substr(a == std::string::npos ? 0 : a + 1, q - (a == std::string::npos ? 0 : a + 1));
        // tl = pieces with partial data kept in the TransferList: retained by design until close(), no transfers attached (bt)
        if (why.compare(0, 2, "tl") == 0 || why.compare(0, 2, "bf") == 0 || why.compare(0, 2, "hq") == 0) { p = q; continue; }
        return false;
      }
      p = q;
    } else p++;
  }
  return true;
}

static std::string layout(const std::string& name) {
  Scenario s;
  if (!make_scenario(name, s)) return "BADCASE";
  std::ostringstream o;
  uint32_t n = 0;
  std::string b;
  for (auto& st : s.steps) {
    if (st.type != 'B') continue;
    uint32_t len = st.kind == "xh" ? (uint32_t)ext_handshake_msg().size() : st.len;
    b += (b.empty() ? "" : ",") + std::to_string(n) + ":" + st.kind + "@" + std::to_string(st.peer);
    n += len;
  }
  o << "N=" << n << " peers=" << s.npeers << " bounds=" << b;
  return o.str();
}

static std::unique_ptr<Session> g_S;

// print the result of the current case and leave: the session cannot be torn down (an assertion would fire)
[[noreturn]] static void abandon_session(const std::string& out) {
  std::cout << out << "\n";
  std::cout.flush();
  { std::error_code ec; if (g_S) fs::remove_all(g_S->scratch(), ec); }
  // rc 0 only if this was the last case on stdin (ltv.run_sharded resumes after a non-zero exit)
  _exit(std::cin.peek() == EOF ? 0 : 3);
}

// PEX slots (DownloadInfo::size_pex) held by live handshakes / connections of the torrent
static int live_pex_holders(Ctx& c) {
  int n = 0;
  for (torrent::Peer* p : *c.T->dl.connection_list()) {
    auto* e = p->m_ptr()->m_extensions;
    if (e != nullptr && !e->is_default() && e->is_local_enabled(torrent::ProtocolExtension::UT_PEX)) n++;
  }
  auto* base = (torrent::HandshakeManager::base_type*)hm();
  for (auto& h : *base)
    if (raw(h) != nullptr && raw(h)->download() == c.T->main() && !raw(h)->extensions()->is_default() && raw(h)->extensions()->is_local_enabled(torrent::ProtocolExtension::UT_PEX)) n++;
  return n;
}

static std::string run_case(const std::string& line) {
  std::map<std::string, std::string> kv;
  for (auto& tok : split_ws(line)) {
    size_t e = tok.find('=');
    if (e != std::string::npos) kv[tok.substr(0, e)] = tok.substr(e + 1);
  }
  if (kv.count("info")) return layout(kv["sc"]);
  if (kv.count("params")) {   // constants of the COMPILED code (ROBUSTNESS.md rule 3)
    torrent::DownloadInfo di;
    std::ostringstream o;
    o << "c16_hs_part1=" << torrent::Handshake::part1_size << " c16_hs_size=" << torrent::Handshake::handshake_size
      << " c16_piece_hdr=" << (unsigned)torrent::ProtocolBase::sizeof_piece << " c16_max_size_pex=" << di.max_size_pex();
    return o.str();
  }
  Scenario sc;
  if (!make_scenario(kv["sc"], sc)) return "BADCASE";
  uint32_t cut = (uint32_t)std::stoul(kv["k"]);
  char fault = kv["f"].empty() ? 'X' : kv["f"][0];
  int tgt = kv.count("tgt") ? atoi(kv["tgt"].c_str()) : 0;
  if (tgt < 0 || tgt >= sc.npeers) return "BADCASE";

  if (!g_S) g_S = std::make_unique<Session>();
  Session& S = *g_S;
  static std::unique_ptr<Ctx> hold;
  hold = std::make_unique<Ctx>();
  Ctx& c = *hold;
  c.S = &S;
  g_case_no++;

  bool leech = sc.have.find('0') != std::string::npos;
  TorrentSpec& spec = c.spec;
  spec.name = "c16_" + std::to_string(g_case_no);
  spec.piece_length = PLEN;
  spec.content_seed = 16;
  spec.priv = sc.priv;
  spec.files = {{"a.bin", (uint64_t)PLEN * NP - PLEN / 2 - 300}, {"d/b.bin", PLEN / 2 + 300}};
  if (sc.have.find('1') == std::string::npos) spec.write_files = false;
  else for (uint32_t i = 0; i < NP; i++) if (sc.have[i] != '1') spec.corrupt_pieces.push_back(i);
  g_close_track = false;
  Session::clear_io_limits();
  torrent::down_throttle_global()->set_max_rate(0);
  torrent::up_throttle_global()->set_max_rate(0);
  S.avoid_tick_within(20 * 1000000);
  c.T = S.add_torrent(spec);
  if (c.T->completed_bits() != sc.have) { S.remove(c.T); return "ERR:hashcheck " + c.T->completed_bits(); }
  S.start(c.T);
  c.completed = c.T->completed_bits();
  c.ev.push_back("A:maxpex:" + std::to_string(c.T->main()->info()->max_size_pex()));   // tuning constant, probed
  for (int i = 0; i < sc.npeers; i++) {
    auto p = std::make_unique<SPeer>();
    p->id = i;
    p->outgoing = sc.outgoing[i];
    p->ext = sc.ext[i];
    p->ip = "127.16." + std::to_string(1 + g_case_no % 200) + "." + std::to_string(2 + i);
    c.peers.push_back(std::move(p));
  }
  c.base = kernel_view();
  for (int i = 0; i < 6; i++) {   // the baseline must be a quiescent view (no transient descriptor of another thread)
    usleep(300);
    S.step();
    KernelView again = kernel_view();
    bool same = again.sockets == c.base.sockets && again.epoll_entries == c.base.epoll_entries;
    c.base = again;
    if (same) break;
  }
  c.base_sm = torrent::runtime::socket_manager()->category_managed_size(torrent::runtime::category_generic);
  c.harness_socks_base = harness_sockets(c);
  S.avoid_tick_within(20 * 1000000);

  // ---- scripted session up to the cut
  uint32_t consumed = 0;
  bool stopped = false, no_drain_hit = false;
  bool nowait = kv.count("nw") && kv["nw"] == "1";
  for (auto& st : sc.steps) {
    if (st.type == 'A') {
      if (!do_action(c, st)) return "ERR:action " + st.kind;
      continue;
    }
    if (consumed >= cut) break;
    SPeer& p = *c.peers[st.peer];
    std::string bytes = step_bytes(c, st);
    uint32_t allow = std::min<uint32_t>((uint32_t)bytes.size(), cut - consumed);
    if (p.w.fd == -1 || p.w.eof) {   // the library already dropped this peer: the rest of its script is void
      consumed += (uint32_t)bytes.size();
      c.ev.push_back("V" + std::to_string(p.id) + ":" + st.kind);
      continue;
    }
    p.w.send_bytes(bytes.substr(0, allow));
    {
      std::string kind = st.kind;
      uint32_t n = allow, len = (uint32_t)bytes.size();
      if (kind == "pc" || kind == "pp" || kind == "bad" || kind == "pr") {
        len = PIECE_MSG;
        if (kind == "pr") n += 113;
        kind += "@" + std::to_string(c.cur_piece_idx[st.peer]) + "." + std::to_string(c.cur_piece_off[st.peer]);
      }
      if (kind == "hsa") kind = "hs";
      if (kind == "hsb") { kind = "hs"; n += 60; len = 68; }
      if (st.kind == "hsa") len = 68;
      size_t pos = c.ev.size();
      consumed += allow;
      bool last_block_no_drain = nowait && allow == bytes.size() && consumed == cut &&
                                 (st.kind == "pc" || st.kind == "pr" || st.kind == "bad");
      if (last_block_no_drain) {
        // fault point: the block has been read off the socket (poll only), the main thread has NOT yet drained its
        // callbacks, so a piece completed by this block still sits in the hash queue when the fault hits
        auto* m = torrent::ThreadMain::thread_main();
        for (int i = 0; i < 200; i++) {
          p.w.flush();
          m->set_cached_time(std::chrono::microseconds(S.now_us()));
          m->m_poll->do_poll(std::chrono::microseconds(0));
          if (hash_queue_count(c) > 0) break;
          if (i > 20 && p.w.tx_pending.empty() && !lib_has_unread(c)) break;
          usleep(200);
        }
        for (auto& q : c.peers) if (q->w.fd != -1) q->w.recv_available();
        parse_wire(c);
        no_drain_hit = hash_queue_count(c) > 0;
      } else
      pump_all(c);
      if (st.kind == "pc" || st.kind == "pp" || st.kind == "bad" || st.kind == "pr") {
        // under a rate limit the library may have left part of the block in its socket's receive queue
        uint32_t unread = (uint32_t)lib_unread_bytes(c, p);
        n -= std::min(unread, std::min(n, allow));
      }
      c.ev.insert(c.ev.begin() + pos, "B" + std::to_string(p.id) + ":" + kind + ":" + std::to_string(n) + "/" + std::to_string(len));
    }
    if ((st.kind == "pc" || st.kind == "pr" || st.kind == "bad") && !no_drain_hit) wait_hash(c);
    if (allow < bytes.size()) { stopped = true; break; }
    if (no_drain_hit) break;
  }
  (void)stopped;
  if (!no_drain_hit && !c.dq_hold) pump_all(c);   // dq_hold: fault point 'queued for a delayed disconnect, queue not run yet'
  for (auto& p : c.peers)
    if (p->w.fd != -1 && p->w.eof) { c.ev.push_back("E" + std::to_string(p->id)); p->eof_reported = true; }   // the library hung up on the peer

  std::string pre = ledger(c, true);
  // a peer the library holds nothing for any more must have seen its connection closed (a descriptor kept open outside
  // every table shows up exactly like this: no row, but the remote never gets EOF)
  for (auto& p : c.peers)
    if (p->connected_h && !p->outgoing && p->w.fd != -1 && !p->w.eof && p->port != 0 &&
        c.S->find_connection(c.T, p->ip, p->port) == nullptr && find_handshake(p->ip, p->port) == nullptr)
      c.viol.push_back("remote-never-saw-close:p" + std::to_string(p->id));
  if ((int)c.T->main()->info()->size_pex() != live_pex_holders(c)) {
    // a PEX slot is counted that no live handshake or connection holds: it can never be given back
    std::string out = "ev=";
    for (auto& e : c.ev) out += e + ",";
    out += " pre=[" + pre + "] post=[-] stop=[-] fin=[-] || VIOL stop-not-zero:px-orphan" + std::to_string(c.T->main()->info()->size_pex() - live_pex_holders(c)) +
           " ;; restart=skipped cl=-";
    abandon_session(out);
  }
  c.ev.push_back("F");
  close_window_begin();

  // ---- the fault
  std::string fin, post, stop, restart = "-";
  auto drop_peer = [&](SPeer& p, char how) {
    if (how == 'R') { p.w.reset(); if (p.w.lfd != -1) { ::close(p.w.lfd); p.w.lfd = -1; } }
    else if (how == 'H') { p.w.shutdown_write(); if (p.w.lfd != -1) { ::close(p.w.lfd); p.w.lfd = -1; } }
    else p.w.close_all();
  };
  switch (fault) {
  case 'X': case 'R': case 'H': drop_peer(*c.peers[tgt], fault); pump_all(c); break;
  case 'M': for (auto& p : c.peers) drop_peer(*p, (p->id % 2) ? 'R' : 'X'); pump_all(c); break;
  case 'T':
    for (int i = 0; i < 50; i++) { S.advance_us(10 * 1000000); pump_all(c); }
    break;
  case 'S': c.T->dl.stop(0); pump_all(c); break;
  case 'C': c.T->dl.close(0); pump_all(c); break;
  case 'D': torrent::download_remove(c.T->dl); c.T->removed = true; c.removed = true; pump_all(c); break;
  case 'Q': break;
  default: return "BADCASE";
  }
  if (fault == 'Q') {
    // library shutdown with everything live: afterwards the process must hold no library socket
    (void)harness_sockets(c);
    for (; c.filler > 0; c.filler--) torrent::runtime::socket_manager()->remove_unmanaged_socket();   // our own accounting entries
    alarm(60);   // the shutdown (thread joins) gets its own watchdog budget, independent of the session set-up time
    g_S.reset();
    KernelView kv = kernel_view();
    int closes_bad = g_close_ebadf.load();
    std::string cl;
    for (auto& p : c.peers) if (p->lib_fd >= 0) cl += "p" + std::to_string(p->id) + ":" + std::to_string(closes_of(p->lib_ino)) + ",";
    std::string out = "ev=";
    for (auto& e : c.ev) out += e + ",";
    out += " pre=" + pre + " post=Q:socks" + std::to_string(kv.sockets) + ",epoll" + std::to_string(kv.epoll_entries) + " || ";
    std::string verdict = (kv.sockets == 0 && closes_bad == 0) ? "ok" : "VIOL shutdown-leaves-sockets:" + std::to_string(kv.sockets);
    if (closes_bad) verdict += " close-ebadf:" + std::to_string(closes_bad);
    for (auto& p : c.peers) if (p->lib_fd >= 0 && closes_of(p->lib_ino) != 1) verdict += " closed-not-once:p" + std::to_string(p->id) + "x" + std::to_string(closes_of(p->lib_ino));
    out += verdict + " ;; cl=" + cl;
    std::cout << out << "\n";
    std::cout.flush();
    _exit(0);
  }
  for (auto& p : c.peers)   // peers the library dropped by itself while the fault was handled (e.g. seeders once the download is done)
    if (p->w.fd != -1 && p->w.eof && !p->eof_reported) { c.ev.push_back("E" + std::to_string(p->id)); p->eof_reported = true; }
  post = ledger(c);
  c.ev.push_back("G");
  // descriptors: each library-side descriptor that existed before the fault and is gone now was closed exactly once
  std::string cl;
  {
    KernelView kv = kernel_view();
    for (auto& p : c.peers) {
      if (p->lib_fd < 0) continue;
      torrent::PeerConnectionBase* pcb = (p->port && !c.removed) ? S.find_connection(c.T, p->ip, p->port) : nullptr;
      torrent::Handshake* h = p->port ? find_handshake(p->ip, p->port) : nullptr;
      bool still = (pcb && sock_inode(pcb->file_descriptor()) == p->lib_ino) || (h && sock_inode(h->file_descriptor()) == p->lib_ino);
      int n = closes_of(p->lib_ino);
      cl += "p" + std::to_string(p->id) + ":" + (still ? "live" : std::to_string(n)) + ",";
      if (!still && n != 1) c.viol.push_back("closed-not-once:p" + std::to_string(p->id) + "x" + std::to_string(n));
      if (still && n != 0) c.viol.push_back("closed-while-live:p" + std::to_string(p->id));
    }
    if (g_close_ebadf.load() != 0) c.viol.push_back("close-ebadf:" + std::to_string(g_close_ebadf.load()));
  }
  g_close_track = false;

  // the aborted peers must have no row and a disconnected PeerInfo without transfers
  auto check_gone = [&](SPeer& p, const char* when) {
    KernelView kv = kernel_view();
    std::string r = row(c, p, kv, false);
    std::string want_prefix = "p" + std::to_string(p.id) + "=N;pi=";
    if (strcmp(when, "post") == 0 && fault != 'M' && fault != 'T' && fault != 'X' && fault != 'R' && fault != 'H') {
      torrent::Handshake* h = p.port ? find_handshake(p.ip, p.port) : nullptr;
      if (h != nullptr && h->download() == nullptr) return;   // an incoming handshake that has not named its torrent yet is nobody's
    }
    if (r.compare(0, want_prefix.size(), want_prefix) != 0) { c.viol.push_back(std::string("row-not-released:") + when + ":" + r); return; }
    std::string pi = r.substr(want_prefix.size(), r.find('~') - want_prefix.size());
    if (pi == "x" || pi == "none") return;
    std::stringstream ss(pi);
    std::string one;
    while (std::getline(ss, one, '+')) {
      if (one.find('c') != std::string::npos || one.find('h') != std::string::npos) c.viol.push_back(std::string("peerinfo-not-disconnected:") + when + ":" + one);
      // right after the abort an erased (dissimilar) transfer of the peer may still sit in a block another peer is
      // filling; it has to be gone once every connection is closed and the torrent stopped
      else if (strcmp(when, "stop") == 0 && one.substr(one.find(':') + 1) != "0")
        c.viol.push_back(std::string("peerinfo-transfer-counter:") + when + ":p" + std::to_string(p.id) + "=" + one);
    }
  };
  if (fault == 'X' || fault == 'R' || fault == 'H') check_gone(*c.peers[tgt], "post");
  else for (auto& p : c.peers) check_gone(*p, "post");

  // ---- stop: every counter zero
  for (auto& p : c.peers) p->w.close_all();
  pump_all(c);
  if (!c.removed) {
    c.T->dl.stop(0);
    pump_all(c);
  }
  stop = ledger(c);
  for (auto& p : c.peers) check_gone(*p, "stop");
  {
    std::string why;
    if (!all_zero_glob(stop, why)) c.viol.push_back("stop-not-zero:" + why);
    if (!c.removed && c.T->main()->info()->size_pex() != 0) {
      // ~DownloadMain asserts size_pex() == 0: report the leak instead of dying in the assertion; the session is abandoned
      std::string out = "ev=";
      for (auto& e : c.ev) out += e + ",";
      out += " pre=[" + pre + "] post=[" + post + "] stop=[" + stop + "] fin=[-] || VIOL";
      for (auto& v : c.viol) out += " " + v;
      out += " ;; restart=skipped cl=" + (cl.empty() ? "-" : cl);
      abandon_session(out);
    }
  }

  // ---- restart and finish / serve with a healthy peer
  for (; c.filler > 0; c.filler--) torrent::runtime::socket_manager()->remove_unmanaged_socket();
  Session::clear_io_limits();
  torrent::down_throttle_global()->set_max_rate(0);
  torrent::up_throttle_global()->set_max_rate(0);
  try {
    if (c.removed) {
      c.T = S.add_torrent(spec);
      c.removed = false;
    } else if (fault == 'C') {
      c.T->dl.open(0);
      c.T->dl.hash_check(false);
      torrent::Download d = c.T->dl;
      if (!S.settle([d]() { return d.is_hash_checked(); }, 30000)) c.viol.push_back("rehash-failed");
    }
    S.avoid_tick_within(20 * 1000000);
    S.start(c.T);
    restart = healthy(c, leech);
    if (restart != "done" && restart != "served") c.viol.push_back("restart:" + restart);
  } catch (std::runtime_error& e) {
    restart = std::string("failed:") + e.what();
    c.viol.push_back("restart:" + restart);
  }
  S.remove(c.T);
  c.removed = true;
  pump_all(c);
  fin = ledger(c);
  {
    std::string why;
    if (!all_zero_glob(fin, why)) c.viol.push_back("final-not-zero:" + why);
  }

  std::string out = "ev=";
  for (auto& e : c.ev) out += e + ",";
  if (c.ev.empty()) out += "-";
  out += " pre=[" + pre + "] post=[" + post + "] stop=[" + stop + "] fin=[" + fin + "] || ";
  std::string verdict = c.viol.empty() ? "ok" : "VIOL";
  for (auto& v : c.viol) verdict += " " + v;
  out += verdict + " ;; restart=" + restart + " cl=" + (cl.empty() ? "-" : cl);
  return out;
}

// per-case watchdog (ROBUSTNESS.md rule 5): a case that does not finish is reported as ERR:hang, the run goes on
static void on_alarm(int) {
  static const char msg[] = "ERR:hang\n";
  ssize_t r = write(1, msg, sizeof msg - 1);
  (void)r;
  _exit(3);
}

int main() {
  std_setup();
  signal(SIGALRM, on_alarm);
  std::string line;
  while (std::getline(std::cin, line)) {
    alarm(30);
    try {
      std::cout << run_case(line) << "\n";
    } catch (torrent::internal_error& e) {
      std::cout << "ERR:internal " << e.what() << "\n";
      std::cout.flush();
      { std::error_code ec; if (g_S) fs::remove_all(g_S->scratch(), ec); }
      _exit(3);
    } catch (std::exception& e) {
      std::cout << "ERR:other " << e.what() << "\n";
    }
  }
  g_S.reset();
  return 0;
}
