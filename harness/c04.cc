// C04 implementation driver: the real download path (Delegator, ChunkSelector, RequestList,
// PeerConnection<LEECH>) driven through the session harness by 1-4 scripted CONFORMING wire peers
// in LOCK STEP: one peer action, then the library is stepped to quiescence, then every peer reads
// what the library sent. The output is the mechanism-level event trace that coq/C04's `accept`
// automaton and the python property oracle are run over.
//
// Case:  plen=<n> files=<a,b,..> done=<01..> seed=<n> | op ...
//   J:p:<bits|->   peer p (0..3) connects from 127.0.0.(2+p), sends handshake + BITFIELD (or keep-alive for "-")
//   H:p:i          peer p sends HAVE i (skipped if it already has it)
//   B:p:n          the next n H/K/U messages of p are held back and delivered in ONE segment (message crossing)
//   PC:p:k / PK:p:k  PIECE for a request the client already cancelled / that p's own CHOKE voided
//   K:p / U:p      peer p sends CHOKE (and, being conforming, forgets the requests it held) / UNCHOKE
//   P:p:k          peer p serves its (k mod n)-th oldest held request with a full PIECE
//   PB:p:k         same, but only the PIECE header and half of the payload (until PE:p / X:p, p sends nothing else)
//   PE:p           the rest of the payload
//   X:p            peer p closes the connection
//   A:s            s seconds of virtual time pass (1 s sub-steps; peers send a keep-alive every 60 s)
//   W:f:prio       file f priority 0 off / 1 normal / 2 high, then Download::update_priorities
//   Q:p            completion phase: peer p announces every piece, unchokes, and serves FIFO while time passes
//                  (bounded); prints whether every wanted piece completed.
// Output: ev=<tok,tok,...> done=<0|1|-> amb=<n> || comp=<bits> nreq=<n> ...
// Trace tokens (see coq/C04/Model.v `event`):
//   T:<plen>:<total>:<completed bits>:<wanted bits>   first token
//   J:p:<bits> H:p:i K:p U:p P:p:i:o:l PB:p:i:o:l PE:p X:p A:s W:<wanted bits>      injected (Recv*) events
//   I:p N:p R:p:i:o:l C:p:i:o:l                                                     Sent* events, per peer order exact
//   E    Delegator switched to aggressive (endgame) mode
//   F:i  piece i passed its hash check     DC:p  choked bucket dropped by its timer
//   DU:p:n first n unordered dropped by timer     ST:p:t stall tick (t=1: current transfer stalled too)
//   LI:p interest dropped (nothing to request)   QC:p / QU:p own download choke queue choked / unchoked the connection
//   Z:p:<u>:<q>/<u>/<s>/<c>/<t>/<dint><dq><dun>  private snapshot of p's RequestList (entries i.o.v.s ; '.' separated, ';' between)
//   Y:<aggr>:<active pieces a.b.c>:<completed bits>  private snapshot of Delegator / completed set
#include "config.h"

#include <csignal>
#include <deque>
#include <filesystem>
#include <map>
#include <set>
#include <sstream>

#include "common/session.h"
#include "common/wirepeer.h"
#include "download/chunk_selector.h"
#include "download/chunk_statistics.h"
#include "download/delegator.h"
#include "protocol/peer_chunks.h"
#include "download/download_main.h"
#include "protocol/peer_connection_base.h"
#include "protocol/request_list.h"
#include "torrent/data/block.h"
#include "torrent/data/block_list.h"
#include "torrent/data/block_transfer.h"
#include "torrent/data/download_data.h"
#include "torrent/data/file.h"
#include "torrent/data/file_list.h"
#include "torrent/data/transfer_list.h"
#include "torrent/download/resource_manager.h"
#include "torrent/exceptions.h"
#include "torrent/torrent.h"
#include "torrent/peer/connection_list.h"
#include "torrent/peer/peer.h"

using namespace ltv;

namespace {

struct Req { uint32_t i, o, l; bool operator==(const Req& r) const { return i == r.i && o == r.o && l == r.l; } };

struct Ent { uint32_t i, o; bool valid; uint32_t stall; };
struct Snap {
  bool present = false;
  bool unchoked = false;
  bool dint = false, dq = false, dun = false;   // m_down_interested, m_down_choke.queued(), m_down_choke.unchoked()
  std::vector<Ent> b[4];
  bool has_t = false;
  Ent t{};
  std::string str() const {
    std::ostringstream s;
    s << (unchoked ? 1 : 0) << ":";
    for (int k = 0; k < 4; k++) {
      for (size_t j = 0; j < b[k].size(); j++)
        s << (j ? ";" : "") << b[k][j].i << "." << b[k][j].o << "." << (b[k][j].valid ? 1 : 0) << "." << (b[k][j].stall ? 1 : 0);
      s << "/";
    }
    if (has_t) s << t.i << "." << t.o << "." << (t.valid ? 1 : 0) << "." << (t.stall ? 1 : 0);
    s << "/" << (dint ? 1 : 0) << (dq ? 1 : 0) << (dun ? 1 : 0);
    return s.str();
  }
};

struct ScriptPeer {
  std::unique_ptr<WirePeer> w;
  bool connected = false;
  bool choking = true;          // what this peer last told the client
  std::string bits;             // what it announced
  std::deque<Req> inq;          // requests it holds (conforming: cleared by its own CHOKE, reduced by CANCEL)
  std::deque<Req> cancelled;    // requests the client cancelled (a PIECE already under way may still arrive: PC)
  std::deque<Req> voided;       // requests voided by this peer's last CHOKE (a PIECE sent around the choke: PK)
  int batch_left = 0;           // B:p:n -- the next n small messages (H/K/U) of this peer travel in ONE segment, later
  std::string batch_bytes;
  std::vector<std::string> batch_tokens;
  bool mid = false;             // between PB and PE
  Req midreq{};
  uint16_t port = 0;
  Snap last;                    // snapshot before the current op
  std::string last_emitted;     // last Z string emitted
  uint32_t conn_no = 0;
  bool fresh = false;           // joined in this step: no previous snapshot of this connection
  bool qc_unqueued = false;     // choked by our own queue (queued, uninterested), then taken out of the queue by the peer's CHOKE
  bool qc_state = false;        // currently choked by our own queue
  bool li_cancelled = false;    // interest was dropped while only cancelled (invalid) entries sat in the queued bucket
  bool nq_update = false;       // update_interested re-marked interest while the peer had us unchoked, without queueing
};

struct Case {
  Session& S;
  Torrent* T = nullptr;
  ScriptPeer peer[4];
  std::vector<std::string> ev;
  std::string comp;             // completed bits as last seen
  std::string lastY;
  int ambiguous = 0;
  bool aggr = false;
  int nreq = 0, ncancel = 0, nhave_out = 0, nother = 0;
  uint32_t conn_counter = 0;
  int64_t quiet_secs = 0;
  std::string stuck;
  std::set<uint32_t> prev_active;   // pieces listed in the transfer list at the end of the previous step
  explicit Case(Session& s) : S(s) {}
};

// Session::find_connection keys on the remote TCP port only; scripted peers use different source
// addresses, whose ephemeral ports can coincide, so match address AND port here.
torrent::PeerConnectionBase* find_conn(Session& S, Torrent* T, int p, uint16_t port) {
  for (torrent::Peer* pe : *T->dl.connection_list()) {
    torrent::PeerConnectionBase* pcb = pe->m_ptr();
    if (pcb->file_descriptor() < 0) continue;
    sockaddr_in a{};
    socklen_t n = sizeof a;
    if (getpeername(pcb->file_descriptor(), (sockaddr*)&a, &n) != 0 || a.sin_family != AF_INET) continue;
    if (ntohs(a.sin_port) == port && (ntohl(a.sin_addr.s_addr) & 0xff) == (uint32_t)(2 + p)) return pcb;
  }
  (void)S;
  return nullptr;
}

Ent ent_of(const torrent::BlockTransfer* t) { return Ent{t->piece().index(), t->piece().offset(), t->is_valid(), t->stall()}; }

Snap take_snap(Case& c, int p) {
  Snap s;
  ScriptPeer& sp = c.peer[p];
  if (!sp.connected) return s;
  torrent::PeerConnectionBase* pcb = find_conn(c.S, c.T, p, sp.port);
  if (pcb == nullptr) return s;
  s.present = true;
  s.unchoked = pcb->m_down_unchoked;
  s.dint = pcb->m_down_interested;
  s.dq = pcb->m_down_choke.queued();
  s.dun = pcb->m_down_choke.unchoked();
  auto& q = pcb->m_request_list.m_queues;
  for (int k = 0; k < 4; k++)
    for (auto it = q.begin(k); it != q.end(k); ++it) s.b[k].push_back(ent_of(*it));
  if (pcb->m_request_list.m_transfer != nullptr) {
    s.has_t = true;
    s.t = ent_of(pcb->m_request_list.m_transfer);
    // a dummy transfer (unknown piece) is not a request-list entry of the model
    if (pcb->m_request_list.m_transfer->state() == torrent::BlockTransfer::STATE_ERASED && !s.t.valid) s.t.stall = 0;
  }
  return s;
}

std::string wanted_bits(Case& c) {
  std::string s;
  auto* d = c.T->main()->file_list()->mutable_data();
  for (uint32_t i = 0; i < c.T->piece_count(); i++)
    s.push_back((d->normal_priority()->has(i) || d->high_priority()->has(i)) ? '1' : '0');
  return s;
}

std::string y_string(Case& c) {
  std::ostringstream s;
  torrent::Delegator* d = c.T->main()->delegator();
  s << (d->get_aggressive() ? 1 : 0) << ":";
  std::vector<uint32_t> act;
  for (torrent::BlockList* bl : *d->transfer_list()) act.push_back(bl->index());
  std::sort(act.begin(), act.end());
  for (size_t j = 0; j < act.size(); j++) s << (j ? "." : "") << act[j];
  s << ":" << c.T->completed_bits();
  return s.str();
}

std::vector<WirePeer*> live(Case& c) {
  std::vector<WirePeer*> v;
  for (auto& sp : c.peer) if (sp.connected) v.push_back(sp.w.get());
  return v;
}

void pump_all(Case& c) {
  std::vector<WirePeer*> v = live(c);
  int idle = 0;
  for (int r = 0; r < 100000 && idle < 2; r++) {
    bool moved = false;
    for (WirePeer* p : v) if (p->flush() > 0) moved = true;
    if (c.S.step()) moved = true;
    for (WirePeer* p : v) if (p->recv_available() > 0) moved = true;
    idle = moved ? 0 : idle + 1;
  }
}

// hash results come from the disk thread in real time: wait until no listed piece is fully downloaded
void settle_hash(Case& c) {
  auto pending = [&] {
    for (torrent::BlockList* bl : *c.T->main()->delegator()->transfer_list())
      if (bl->is_all_finished()) return true;
    return false;
  };
  if (!pending()) return;
  c.S.settle([&] { return !pending(); }, 10000);
}

void flush_quiet(Case& c) {
  if (c.quiet_secs > 0) c.ev.push_back("A:" + std::to_string(c.quiet_secs));
  c.quiet_secs = 0;
}

// everything each peer received from the library, in per-peer order
void collect(Case& c, std::vector<std::string>& out) {
  for (int p = 0; p < 4; p++) {
    ScriptPeer& sp = c.peer[p];
    if (!sp.connected) continue;
    WireMsg m;
    while (sp.w->next_message(m)) {
      std::string ps = std::to_string(p);
      if (m.id == WirePeer::INTERESTED) out.push_back("I:" + ps);
      else if (m.id == WirePeer::NOT_INTERESTED) out.push_back("N:" + ps);
      else if (m.id == WirePeer::REQUEST && m.body.size() == 12) {
        Req r{m.u32(0), m.u32(4), m.u32(8)};
        out.push_back("R:" + ps + ":" + std::to_string(r.i) + ":" + std::to_string(r.o) + ":" + std::to_string(r.l));
        if (sp.choking) sp.voided.push_back(r);   // crossed with this peer's CHOKE: a conforming peer ignores it
        else sp.inq.push_back(r);
        c.nreq++;
      } else if (m.id == WirePeer::CANCEL && m.body.size() == 12) {
        Req r{m.u32(0), m.u32(4), m.u32(8)};
        out.push_back("C:" + ps + ":" + std::to_string(r.i) + ":" + std::to_string(r.o) + ":" + std::to_string(r.l));
        for (auto it = sp.inq.begin(); it != sp.inq.end(); ++it)
          if (*it == r) { sp.cancelled.push_back(r); sp.inq.erase(it); break; }
        c.ncancel++;
      } else if (m.id == WirePeer::HAVE) c.nhave_out++;
      else c.nother++;
    }
  }
}

// Timer-driven changes of a RequestList between two snapshots (only called around time steps).
void timer_events(Case& c, int p, const Snap& a, const Snap& b, std::vector<std::string>& out) {
  if (!a.present || !b.present) return;
  std::string ps = std::to_string(p);
  // stall tick: entries that were queued/unordered are now in the stalled bucket (only a stall moves them there)
  auto in_list = [](const std::vector<Ent>& l, const Ent& e) {
    for (auto& x : l) if (x.i == e.i && x.o == e.o) return true;
    return false;
  };
  size_t moved = 0;
  for (int k = 0; k < 2; k++)
    for (auto& e : a.b[k]) if (in_list(b.b[2], e) && !in_list(a.b[2], e)) moved++;
  bool t_stalled = a.has_t && b.has_t && b.t.stall > a.t.stall;
  bool stall = moved > 0 || t_stalled;
  bool dropc = !a.b[3].empty() && b.b[3].empty();
  size_t dropu = 0;
  if (!stall && b.b[1].size() < a.b[1].size()) dropu = a.b[1].size() - b.b[1].size();
  if (stall && (moved != a.b[0].size() + a.b[1].size() || b.b[2].size() != a.b[2].size() + moved)) c.ambiguous++;   // stall and unordered drop in one second
  if (dropc) out.push_back("DC:" + ps);
  if (dropu) out.push_back("DU:" + ps + ":" + std::to_string(dropu));
  if (stall) out.push_back("ST:" + ps + ":" + (t_stalled ? "1" : "0"));
}

void after_op(Case& c, const std::vector<std::string>& inj_list, bool timed) {
  const std::string injected = inj_list.empty() ? std::string() : inj_list.back();
  auto has_inj = [&](const std::string& t) { for (auto& x : inj_list) if (x == t) return true; return false; };
  auto has_inj_prefix = [&](const std::string& t) { for (auto& x : inj_list) if (x.rfind(t, 0) == 0) return true; return false; };
  pump_all(c);
  settle_hash(c);
  pump_all(c);
  std::vector<std::string> tail;
  if (!c.aggr && c.T->main()->delegator()->get_aggressive()) { c.aggr = true; tail.push_back("E"); }
  // completed pieces
  std::string now = c.T->completed_bits();
  for (size_t i = 0; i < now.size(); i++)
    if (now[i] == '1' && c.comp[i] != '1') tail.push_back("F:" + std::to_string(i));
  c.comp = now;
  std::vector<std::string> timers;
  Snap snaps[4];
  for (int p = 0; p < 4; p++) {
    snaps[p] = take_snap(c, p);
    if (timed) timer_events(c, p, c.peer[p].last, snaps[p], timers);
    if (c.peer[p].connected && !snaps[p].present) {
      // the library dropped the connection by itself
      timers.push_back("X:" + std::to_string(p));
      c.peer[p].connected = false;
      c.peer[p].w->close_all();
      c.peer[p].inq.clear();
      c.peer[p].mid = false;
    }
  }
  std::vector<std::string> sent;
  collect(c, sent);
  // Decisions of the client's own download choke queue and the interest drop of fill_write_buffer, reconstructed
  // from the private flags. QU (own unchoke) goes BEFORE the REQUESTs of this step (it gates them); QC / LI after
  // them (the delegate relation is then evaluated on the state that includes every request of the step).
  std::vector<std::string> before_sent;
  for (int p = 0; p < 4; p++) {
    Snap a = c.peer[p].last;
    const Snap& b = snaps[p];
    if (!b.present) { c.peer[p].fresh = false; continue; }
    if (!a.present || c.peer[p].fresh) { a = Snap(); a.present = true; a.dint = b.dint; }
    c.peer[p].fresh = false;
    std::string ps = std::to_string(p);
    bool choke_inj = has_inj("K:" + ps);
    if (choke_inj) { a.dun = false; a.dq = false; }      // the peer's CHOKE takes the connection out of the queue first
    bool sent_int = false;     // an INTERESTED written in this step: the flag was up at some point of the step
    for (auto& x : sent) if (x == "I:" + ps) sent_int = true;
    bool was = a.dint || has_inj_prefix("W:") || sent_int;   // update_interested raises the flag of every connection first
    // the connection leaves the download choke queue without a CHOKE from the peer only through the interest drop
    // (possibly right after an own unchoke that raised the flag: queued+choked -> unchoked -> nothing to ask -> dropped)
    bool li = !b.dint && !b.dq && (was || (a.dq && !choke_inj));
    // interest is only dropped inside fill_write_buffer after should_request() held: the own unchoke came first
    if (!a.dun && (b.dun || li)) before_sent.push_back("QU:" + ps);
    if (b.dun || b.dint) { c.peer[p].qc_state = false; c.peer[p].qc_unqueued = false; }
    if (choke_inj && c.peer[p].qc_state && !b.dint && !b.dq) { c.peer[p].qc_unqueued = true; c.peer[p].qc_state = false; }
    if (!li && !b.dint && b.dq && !b.dun && ((a.dun && !choke_inj) || was)) c.peer[p].qc_state = true;
    if (b.dint) c.peer[p].li_cancelled = false;
    if (li) {
      bool only_cancelled = !a.b[0].empty();
      for (auto& e : a.b[0]) if (e.valid) only_cancelled = false;
      c.peer[p].li_cancelled = only_cancelled;
      // Position of the drop among this step's REQUESTs is not observable. It is put AFTER them (the delegate relation then
      // sees every block taken in this step) unless one of them lists a piece this peer announced and that was not listed
      // before (is_interested_in_active would then wrongly look true): then BEFORE them.
      bool newly_listed = false;
      for (auto& x : sent) {
        unsigned q, i;
        if (sscanf(x.c_str(), "R:%u:%u:", &q, &i) == 2 && (int)q != p && i < c.peer[p].bits.size() && c.peer[p].bits[i] == '1' &&
            !c.prev_active.count(i)) newly_listed = true;
      }
      if (newly_listed) before_sent.push_back("LI:" + ps); else sent.push_back("LI:" + ps);
    }
    else if (a.dun && !b.dun && !choke_inj) sent.push_back("QC:" + ps);
    else if (was && !b.dint && b.dq && !(a.dun && !b.dun)) sent.push_back("QC:" + ps);
  }
  bool any = !inj_list.empty() || !timers.empty() || !tail.empty() || !sent.empty() || !before_sent.empty();
  if (any) {
    flush_quiet(c);
    for (auto& x : inj_list) c.ev.push_back(x);
    for (auto& s : timers) c.ev.push_back(s);
    for (auto& s : tail) c.ev.push_back(s);
    for (auto& s : before_sent) c.ev.push_back(s);
    for (auto& s : sent) c.ev.push_back(s);
  }
  for (int p = 0; p < 4; p++) {
    c.peer[p].last = snaps[p];
    if (!snaps[p].present) { c.peer[p].last_emitted.clear(); continue; }
    std::string z = snaps[p].str();
    if (z != c.peer[p].last_emitted) {
      flush_quiet(c);
      c.ev.push_back("Z:" + std::to_string(p) + ":" + z);
      c.peer[p].last_emitted = z;
    }
  }
  if (getenv("LTV_C04_DEBUG"))
    for (int p = 0; p < 4; p++) {
      if (!c.peer[p].connected) continue;
      torrent::PeerConnectionBase* pcb = find_conn(c.S, c.T, p, c.peer[p].port);
      if (pcb == nullptr) continue;
      fprintf(stderr, "[dbg] t=%lld after '%s' p%d: down_choke(choked=%d queued=%d snub=%d) down_int=%d send_int=%d try=%d unch=%d stall=%u\n",
              (long long)(c.S.now_us() / 1000000), injected.c_str(), p, (int)pcb->m_down_choke.choked(), (int)pcb->m_down_choke.queued(),
              (int)pcb->m_down_choke.snubbed(), (int)pcb->m_down_interested, (int)pcb->m_send_interested, (int)pcb->m_tryRequest,
              (int)pcb->m_down_unchoked, (unsigned)pcb->m_down_stall);
    }
  for (int p = 0; p < 4; p++) {
    if (!c.peer[p].connected || !c.peer[p].nq_update) continue;
    torrent::PeerConnectionBase* pcb = find_conn(c.S, c.T, p, c.peer[p].port);
    if (pcb == nullptr || pcb->m_down_choke.queued()) c.peer[p].nq_update = false;
  }
  c.prev_active.clear();
  for (torrent::BlockList* bl : *c.T->main()->delegator()->transfer_list()) c.prev_active.insert(bl->index());
  std::string y = y_string(c);
  if (y != c.lastY) { flush_quiet(c); c.ev.push_back("Y:" + y); c.lastY = y; }
}

void after_op(Case& c, const std::string& injected, bool timed) {
  std::vector<std::string> v;
  if (!injected.empty()) v.push_back(injected);
  after_op(c, v, timed);
}

void send(Case& c, int p, const std::string& bytes) {
  ScriptPeer& sp = c.peer[p];
  sp.w->tx_pending += bytes;
  for (int i = 0; i < 1000 && !sp.w->tx_pending.empty(); i++) { sp.w->flush(); if (!sp.w->tx_pending.empty()) pump_all(c); }
}

void advance(Case& c, int64_t secs) {
  for (int64_t s = 0; s < secs; s++) {
    // keep-alives from the peers so that the 240 s read timeout never fires (not mid-piece: the stream is inside a message)
    if ((c.S.now_us() / 1000000) % 60 == 0)
      for (int p = 0; p < 4; p++)
        if (c.peer[p].connected && !c.peer[p].mid) send(c, p, WirePeer::keepalive());
    c.S.advance_us(1000000);
    c.quiet_secs++;
    after_op(c, "", true);
  }
}

std::string req_str(const Req& r) { return std::to_string(r.i) + ":" + std::to_string(r.o) + ":" + std::to_string(r.l); }

void flush_batch(Case& c, int p) {
  ScriptPeer& sp = c.peer[p];
  sp.batch_left = 0;
  if (sp.batch_tokens.empty() || !sp.connected) { sp.batch_tokens.clear(); sp.batch_bytes.clear(); return; }
  std::vector<std::string> toks;
  toks.swap(sp.batch_tokens);
  std::string bytes;
  bytes.swap(sp.batch_bytes);
  send(c, p, bytes);
  after_op(c, toks, false);
}

// H/K/U either go out at once (lock step) or join the peer's pending batch
void small_msg(Case& c, int p, const std::string& bytes, const std::string& token) {
  ScriptPeer& sp = c.peer[p];
  if (sp.batch_left > 0) {
    sp.batch_bytes += bytes;
    sp.batch_tokens.push_back(token);
    if (--sp.batch_left == 0) flush_batch(c, p);
    return;
  }
  send(c, p, bytes);
  after_op(c, token, false);
}

bool do_op(Case& c, const std::string& o, std::string& err) {
  std::vector<std::string> f;
  { std::stringstream ss(o); std::string t; while (std::getline(ss, t, ':')) f.push_back(t); }
  if (f.empty()) { err = "BADCASE"; return false; }
  const std::string& k = f[0];
  auto peer_ix = [&](size_t n) -> int { return n < f.size() ? std::stoi(f[n]) & 3 : 0; };
  if (k == "A") { advance(c, std::stoll(f.at(1))); return true; }
  if (k == "ZZ") { usleep((useconds_t)std::stoul(f.at(1)) * 1000); return true; }   // real-time sleep: only to test the per-case watchdog
  if (k == "W") {
    uint32_t fi = std::stoul(f.at(1));
    int pr = std::stoi(f.at(2));
    torrent::FileList* fl = c.T->dl.file_list();
    if (fi >= fl->size_files()) return true;
    (*fl)[fi]->set_priority(pr == 0 ? torrent::PRIORITY_OFF : pr == 2 ? torrent::PRIORITY_HIGH : torrent::PRIORITY_NORMAL);
    bool cand[4] = {false, false, false, false};
    for (int q = 0; q < 4; q++) {
      if (!c.peer[q].connected) continue;
      torrent::PeerConnectionBase* pcb = find_conn(c.S, c.T, q, c.peer[q].port);
      cand[q] = pcb != nullptr && !pcb->m_down_interested && pcb->m_down_unchoked && !pcb->m_down_choke.queued();
    }
    c.T->dl.update_priorities();
    for (int q = 0; q < 4; q++) {
      if (!cand[q]) continue;
      torrent::PeerConnectionBase* pcb = find_conn(c.S, c.T, q, c.peer[q].port);
      if (pcb != nullptr && pcb->m_down_interested && !pcb->m_down_choke.queued()) c.peer[q].nq_update = true;
    }
    after_op(c, "W:" + wanted_bits(c), false);
    return true;
  }
  int p = peer_ix(1);
  ScriptPeer& sp = c.peer[p];
  std::string ps = std::to_string(p);
  if (k == "J") {
    if (sp.connected) return true;
    sp = ScriptPeer();
    sp.w = std::make_unique<WirePeer>();
    std::string ip = "127.0.0." + std::to_string(2 + p);
    if (!sp.w->connect_to(c.S.listen_port(), ip.c_str(), 1 << 20, 1 << 20)) { err = "ERR:connect"; return false; }
    sp.conn_no = ++c.conn_counter;
    std::string bits = f.size() > 2 ? f[2] : "-";
    uint32_t n = c.T->piece_count();
    std::string full(n, '0');
    if (bits != "-") for (uint32_t i = 0; i < n && i < bits.size(); i++) full[i] = bits[i] == '1' ? '1' : '0';
    bool none = full.find('1') == std::string::npos;
    char idbuf[21];
    snprintf(idbuf, sizeof idbuf, "-LV0004-%06u%06u", (unsigned)getpid() % 1000000, sp.conn_no + 100 * (unsigned)p);
    sp.w->send_bytes(WirePeer::handshake(c.T->info_hash, std::string(idbuf, 20)) +
                     (none ? WirePeer::keepalive() : WirePeer::bitfield(full)));
    sp.connected = true;   // so that pump reads it
    pump_all(c);
    HandshakeIn hs;
    bool is_done = c.T->dl.file_list()->is_done();   // a finished download refuses / drops seeders: not an error
    if (!sp.w->take_handshake(hs) || hs.info_hash != c.T->info_hash) {
      sp.connected = false; sp.w->close_all();
      if (is_done) { pump_all(c); return true; }
      err = "ERR:handshake"; return false;
    }
    sp.port = sp.w->local_port();
    if (find_conn(c.S, c.T, p, sp.port) == nullptr) {
      sp.connected = false; sp.w->close_all();
      if (is_done) { pump_all(c); return true; }
      err = "ERR:noconn"; return false;
    }
    sp.bits = full;
    sp.choking = true;
    sp.fresh = true;
    after_op(c, "J:" + ps + ":" + full, false);
    return true;
  }
  if (!sp.connected) return true;   // op on an absent peer: nothing
  if (sp.mid && k != "PE" && k != "X") return true;   // stream is inside a PIECE message
  if (k == "B") {
    // the next n small messages of p are delayed and delivered together (crossing with whatever the client does meanwhile)
    if (sp.batch_left == 0 && sp.batch_tokens.empty()) sp.batch_left = std::max(1, std::min(8, std::stoi(f.at(2))));
    return true;
  }
  if (k != "H" && k != "K" && k != "U" && (sp.batch_left > 0 || !sp.batch_tokens.empty())) flush_batch(c, p);
  if (!sp.connected) return true;
  if (k == "H") {
    uint32_t i = std::stoul(f.at(2)) % c.T->piece_count();
    if (sp.bits[i] == '1') return true;
    sp.bits[i] = '1';
    small_msg(c, p, WirePeer::have(i), "H:" + ps + ":" + std::to_string(i));
  } else if (k == "K") {
    if (sp.choking) return true;
    sp.choking = true;
    sp.voided.clear();
    for (auto& r : sp.inq) sp.voided.push_back(r);
    sp.inq.clear();
    small_msg(c, p, WirePeer::choke(), "K:" + ps);
  } else if (k == "U") {
    if (!sp.choking) return true;
    sp.choking = false;
    small_msg(c, p, WirePeer::unchoke(), "U:" + ps);
  } else if (k == "PC" || k == "PK") {
    // a PIECE that crosses the client's CANCEL (PC) or that the peer sends for a request its own CHOKE voided (PK)
    std::deque<Req>& dq = k == "PC" ? sp.cancelled : sp.voided;
    if (dq.empty() || (k == "PC" && sp.choking)) return true;
    size_t ix = std::stoul(f.at(2)) % dq.size();
    Req r = dq[ix];
    dq.erase(dq.begin() + ix);
    send(c, p, WirePeer::piece(r.i, r.o, c.T->range(r.i, r.o, r.l)));
    after_op(c, "P:" + ps + ":" + req_str(r), false);
  } else if (k == "P" || k == "PB") {
    if (sp.inq.empty() || sp.choking) return true;
    size_t ix = std::stoul(f.at(2)) % sp.inq.size();
    Req r = sp.inq[ix];
    sp.inq.erase(sp.inq.begin() + ix);
    std::string msg = WirePeer::piece(r.i, r.o, c.T->range(r.i, r.o, r.l));
    if (k == "P") {
      send(c, p, msg);
      after_op(c, "P:" + ps + ":" + req_str(r), false);
    } else {
      size_t cut = 13 + r.l / 2;
      sp.mid = true;
      sp.midreq = r;
      sp.w->tx_pending += msg.substr(0, cut);
      for (int i = 0; i < 1000 && !sp.w->tx_pending.empty(); i++) { sp.w->flush(); pump_all(c); }
      after_op(c, "PB:" + ps + ":" + req_str(r), false);
    }
  } else if (k == "PE") {
    if (!sp.mid) return true;
    Req r = sp.midreq;
    std::string msg = WirePeer::piece(r.i, r.o, c.T->range(r.i, r.o, r.l));
    sp.mid = false;
    send(c, p, msg.substr(13 + r.l / 2));
    after_op(c, "PE:" + ps, false);
  } else if (k == "X") {
    sp.w->close_all();
    sp.connected = false;
    sp.inq.clear();
    sp.cancelled.clear();
    sp.voided.clear();
    sp.batch_left = 0; sp.batch_tokens.clear(); sp.batch_bytes.clear();
    sp.mid = false;
    pump_all(c);
    after_op(c, "X:" + ps, false);
  } else if (k == "Q") {
    // completion phase
    for (uint32_t i = 0; i < c.T->piece_count(); i++)
      if (sp.bits[i] != '1') {
        sp.bits[i] = '1';
        send(c, p, WirePeer::have(i));
        after_op(c, "H:" + ps + ":" + std::to_string(i), false);
        if (!sp.connected) return true;
      }
    if (sp.choking) {
      sp.choking = false;
      send(c, p, WirePeer::unchoke());
      after_op(c, "U:" + ps, false);
    }
    auto finished = [&] { return c.T->main()->file_list()->mutable_data()->wanted_chunks() == 0 || c.T->dl.file_list()->is_done(); };
    int64_t budget = 1500;   // virtual seconds
    while (!finished() && budget > 0 && sp.connected) {
      if (!sp.inq.empty()) {
        Req r = sp.inq.front();
        sp.inq.pop_front();
        send(c, p, WirePeer::piece(r.i, r.o, c.T->range(r.i, r.o, r.l)));
        after_op(c, "P:" + ps + ":" + req_str(r), false);
      } else {
        advance(c, 1);
        budget--;
      }
    }
    flush_quiet(c);
    if (!finished() && getenv("LTV_C04_DEBUG")) {
      auto* cs = c.T->main()->chunk_selector();
      auto* st = c.T->main()->chunk_statistics();
      auto* d = c.T->main()->file_list()->mutable_data();
      fprintf(stderr, "[dbg] stuck: position=%u complete=%u accounted=%u untouched=", cs->m_position, (unsigned)st->complete(), (unsigned)st->accounted());
      for (uint32_t i = 0; i < c.T->piece_count(); i++) fprintf(stderr, "%d", (int)d->untouched_bitfield()->get(i));
      fprintf(stderr, " rarity=");
      for (uint32_t i = 0; i < c.T->piece_count(); i++) fprintf(stderr, "%u.", (unsigned)st->rarity(i));
      torrent::PeerConnectionBase* pcb = find_conn(c.S, c.T, p, sp.port);
      if (pcb) fprintf(stderr, " seeder=%d cache_enabled=%d", (int)pcb->m_peer_chunks.is_seeder(), (int)pcb->m_peer_chunks.download_cache()->is_enabled());
      fprintf(stderr, "\n");
    }
    if (!finished()) {
      // diagnostics for the oracle's classification of a failed completion phase (private state, read only)
      torrent::PeerConnectionBase* pcb = sp.connected ? find_conn(c.S, c.T, p, sp.port) : nullptr;
      std::ostringstream d;
      if (pcb == nullptr) d << "noconn";
      else {
        auto* data = c.T->main()->file_list()->mutable_data();
        auto* tl = c.T->main()->delegator()->transfer_list();
        int nmiss = 0, nlisted = 0, nuntouched = 0;
        for (uint32_t i = 0; i < c.T->piece_count(); i++) {
          bool wanted = data->normal_priority()->has(i) || data->high_priority()->has(i);
          if (c.T->dl.file_list()->bitfield()->get(i) || !wanted || !pcb->m_peer_chunks.bitfield()->get(i)) continue;
          nmiss++;
          if (tl->find(i) != tl->end()) nlisted++;
          if (data->untouched_bitfield()->get(i)) nuntouched++;
        }
        Snap sn = take_snap(c, p);
        int valid_unheld = 0, invalid = 0;
        auto held = [&](const Ent& e) { for (auto& r : sp.inq) if (r.i == e.i && r.o == e.o) return true; return false; };
        for (int k = 0; k < 4; k++)
          for (auto& e : sn.b[k]) {
            if (!e.valid) invalid++;
            else if (k != 3 && !held(e)) valid_unheld++;
          }
        d << "int" << (int)pcb->m_down_interested << ".unch" << (int)pcb->m_down_unchoked << ".dq" << (int)pcb->m_down_choke.queued()
          << ".nq" << (int)sp.nq_update << ".miss" << nmiss << ".listed" << nlisted << ".untouched" << nuntouched
          << ".unheld" << valid_unheld << ".invalid" << invalid << ".qcu" << (int)sp.qc_unqueued << ".licp" << (int)sp.li_cancelled;
      }
      c.stuck = d.str();
    }
    c.ev.push_back(std::string("QD:") + (finished() ? "1" : "0"));
  } else {
    err = "BADCASE";
    return false;
  }
  return true;
}

uint32_t g_case_no = 0;

// Policy probe (ROBUSTNESS.md 4): RequestList::calculate_pipe_size as compiled, for both modes, over a sweep of rates
// (bytes/s): every KB/s up to 512 KB/s, then powers of two up to the uint32 maximum. Also Delegator::block_size.
std::string probe_pipe() {
  std::ostringstream o;
  o << "probe block_size=" << torrent::Delegator::block_size << " pipe=";
  torrent::Delegator d;
  bool first = true;
  {
    torrent::RequestList rl;
    rl.set_delegator(&d);
    std::vector<uint32_t> rates;
    for (uint32_t kb = 0; kb <= 512; kb++) { rates.push_back(kb * 1024); if (kb) rates.push_back(kb * 1024 - 1); }
    for (int sh = 20; sh < 32; sh++) { rates.push_back(1u << sh); rates.push_back((1u << sh) + 12345); }
    rates.push_back(0xffffffffu);
    for (int a = 0; a < 2; a++) {
      d.set_aggressive(a != 0);
      for (uint32_t r : rates) {
        o << (first ? "" : ",") << a << ":" << r << ":" << rl.calculate_pipe_size(r);
        first = false;
      }
    }
  }
  return o.str();
}

std::string run_case(Session& S, const std::string& line) {
  if (line.rfind("probe-pipe", 0) == 0) return probe_pipe();
  size_t bar = line.find('|');
  if (bar == std::string::npos) return "BADCASE";
  std::map<std::string, std::string> kv;
  for (auto& tok : split_ws(line.substr(0, bar))) {
    size_t e = tok.find('=');
    if (e != std::string::npos) kv[tok.substr(0, e)] = tok.substr(e + 1);
  }
  auto ops = split_ws(line.substr(bar + 1));
  g_case_no++;
  Case c(S);
  TorrentSpec spec;
  spec.name = "c04_" + std::to_string(getpid()) + "_" + std::to_string(g_case_no);
  spec.piece_length = std::stoul(kv["plen"]);
  spec.content_seed = std::stoul(kv["seed"]);
  {
    std::stringstream ss(kv["files"]);
    std::string t;
    int k = 0;
    while (std::getline(ss, t, ',')) {
      if (t.empty()) continue;
      spec.files.push_back({(k % 2 ? "d" + std::to_string(k) + "/" : std::string()) + "f" + std::to_string(k) + ".bin", std::stoull(t)});
      k++;
    }
  }
  const std::string& done = kv["done"];
  for (size_t i = 0; i < done.size(); i++)
    if (done[i] != '1') spec.corrupt_pieces.push_back((uint32_t)i);
  // ResourceManager::max_download_unchoked (0 = unlimited): the setting is global, so it is set for every case
  torrent::resource_manager()->set_max_download_unchoked(kv.count("dslots") ? std::stoul(kv["dslots"]) : 0);
  srandom(spec.content_seed * 7919u + 17u);   // ChunkSelector uses random(): make a case independent of its shard
  c.T = S.add_torrent(spec);
  if (c.T->completed_bits() != done) return "ERR:hashcheck " + c.T->completed_bits();
  S.start(c.T);
  c.comp = c.T->completed_bits();
  c.ev.push_back("T:" + std::to_string(spec.piece_length) + ":" + std::to_string(c.T->size()) + ":" + c.comp + ":" + wanted_bits(c));
  c.lastY = "";
  after_op(c, "", false);
  std::string err;
  for (auto& o : ops) {
    if (!do_op(c, o, err)) break;
    if (c.ev.size() > 6000) { err = "ERR:trace-too-long"; break; }
  }
  for (int p = 0; p < 4; p++) if (c.peer[p].connected) flush_batch(c, p);
  flush_quiet(c);
  std::string qd = "-";
  for (auto& e : c.ev) if (e.rfind("QD:", 0) == 0) qd = e.substr(3);
  std::ostringstream out;
  out << "ev=";
  bool first = true;
  for (auto& e : c.ev) {
    if (e.rfind("QD:", 0) == 0) continue;
    out << (first ? "" : ",") << e;
    first = false;
  }
  out << " done=" << qd << " amb=" << c.ambiguous;
  if (!c.stuck.empty()) out << " stuck=" << c.stuck;
  if (!err.empty()) out << " " << err;
  out << " || comp=" << c.T->completed_bits() << " nreq=" << c.nreq << " ncancel=" << c.ncancel << " nhave=" << c.nhave_out
      << " other=" << c.nother;
  for (auto& sp : c.peer) if (sp.connected) sp.w->close_all();
  for (auto& sp : c.peer) sp.connected = false;
  for (int i = 0; i < 5; i++) S.step();
  S.remove(c.T);
  for (int i = 0; i < 5; i++) S.step();
  return out.str();
}

}  // namespace

// per-case watchdog (ROBUSTNESS.md rule 5): a case that does not finish within LTV_CASE_TIMEOUT seconds of wall time
// (default 30) is reported as ERR:hang for that case and the process exits; run_sharded resumes with the next case.
static void on_alarm(int) {
  static const char msg[] = "ERR:hang case exceeded its wall-clock budget\n";
  ssize_t r = ::write(1, msg, sizeof msg - 1);
  (void)r;
  _exit(4);
}

int main() {
  std_setup();
  signal(SIGALRM, on_alarm);
  unsigned case_timeout = getenv("LTV_CASE_TIMEOUT") ? (unsigned)atoi(getenv("LTV_CASE_TIMEOUT")) : 30;
  std::unique_ptr<Session> S;
  std::string line;
  while (std::getline(std::cin, line)) {
    try {
      if (!S) S = std::make_unique<Session>();
      alarm(case_timeout);
      std::string result = run_case(*S, line);
      alarm(0);
      std::cout << result << "\n";
    } catch (torrent::internal_error& e) {
      std::cout << "ERR:internal " << e.what() << "\n";
      std::cout.flush();
      { std::error_code ec; if (S) std::filesystem::remove_all(S->scratch(), ec); }
      _exit(3);
    } catch (std::exception& e) {
      std::cout << "ERR:other " << e.what() << "\n";
    }
  }
  S.reset();
  return 0;
}
