// C13 "D" cases: the REAL torrent::Download (Download::start / stop / send_completed / manual_request of
// src/torrent/download.cc) on the common session harness, with a recording tracker worker inserted into the
// download's own TrackerList. What is compared is what the worker is handed: event and the
// uploaded / downloaded / left figures, i.e. the figures "match the transfer state" clause through the real
// client calls (baseline reset in Download::start included).
//
// Case:   D <completed_bytes> <left_bytes> ; <op> ...
//         ops: start startk(keep baseline) starts(skip tracker) stop stops(skip tracker) up:<n> ok fl mr cmp
// Output: per op  R<ev:uploaded:downloaded:left,...>   joined by " | "   (ev by NAME: 0 none 1 completed 2 started 3 stopped)
#include "config.h"
#include "common/session.h"
#include "common/supervise.h"
#include "common/util.h"

#include <atomic>
#include <future>
#include <mutex>

#include "download/download_main.h"
#include "download/download_wrapper.h"
#include "net/address_list.h"
#include "torrent/download.h"
#include "torrent/download_info.h"
#include "torrent/exceptions.h"
#include "torrent/rate.h"
#include "torrent/tracker/tracker.h"
#include "tracker/thread_tracker.h"
#include "tracker/tracker_list.h"
#include "tracker/tracker_worker.h"

using namespace ltv;
using namespace std::chrono_literals;
using torrent::tracker::TrackerState;

struct Req { int ev; uint64_t up, comp, left; };
static std::mutex g_lock;
static std::vector<Req> g_reqs;

static int ev_code(TrackerState::event_enum e) {
  switch (e) {
  case TrackerState::EVENT_NONE:      return 0;
  case TrackerState::EVENT_COMPLETED: return 1;
  case TrackerState::EVENT_STARTED:   return 2;
  case TrackerState::EVENT_STOPPED:   return 3;
  default:                            return 4;
  }
}

class DWorker : public torrent::TrackerWorker {
public:
  explicit DWorker(torrent::TrackerInfo info) : torrent::TrackerWorker(std::move(info), TrackerState::flag_enabled) {}
  torrent::tracker_enum type() const override { return torrent::TRACKER_HTTP; }
  void send_event(torrent::tracker::TrackerParams p, TrackerState::event_enum ev) override {
    remove_events();
    m_inflight = true;
    lock_and_set_latest_event(ev);
    { std::scoped_lock g(g_lock); g_reqs.push_back(Req{ev_code(ev), p.uploaded_adjusted, p.completed_adjusted, p.download_left}); }
    auto guard = lock_guard();
    state().m_flags &= ~TrackerState::flag_starting_request;
    state().m_flags |= TrackerState::flag_requesting;
  }
  void send_scrape(torrent::tracker::TrackerParams) override {}
  void close() override { finish(); }
  void cleanup() override { finish(); auto guard = lock_guard(); state().m_flags |= TrackerState::flag_deleted; }
  void finish() {
    m_inflight = false;
    auto guard = lock_guard();
    state().m_flags &= ~TrackerState::flag_requesting;
    state().m_flags &= ~TrackerState::flag_starting_request;
  }
  void reply(bool ok) {
    if (!m_inflight) return;
    finish();
    if (ok) {
      { auto guard = lock_guard(); state().set_normal_interval(1800s); state().set_min_interval(600s); }
      m_slot_success(torrent::AddressList());
    } else {
      m_slot_failure("failed");
    }
  }
  std::atomic<bool> m_inflight{false};
};

static void on_tracker(std::function<void()> fn) {
  std::promise<void> p;
  auto f = p.get_future();
  torrent::tracker_thread::thread()->callback([&] { fn(); p.set_value(); });
  while (f.wait_for(20ms) != std::future_status::ready) torrent::tracker_thread::thread()->interrupt();
}

static void quiesce(Session& S) {
  for (int i = 0; i < 3; i++) { on_tracker([] {}); S.step(); }
  on_tracker([] {});
}

static std::string run_case(Session& S, const std::vector<std::string>& t, uint32_t serial) {
  if (t.size() < 4 || t[0] != "D" || t[3] != ";") return "BADCASE";
  uint64_t want_comp = std::stoull(t[1]), want_left = std::stoull(t[2]);
  TorrentSpec spec;
  spec.name = "c13d" + std::to_string(serial);
  spec.piece_length = 16384;
  spec.single_file = true;
  spec.files = {{"f.bin", 4 * 16384}};
  spec.content_seed = serial + 1;
  spec.corrupt_pieces = {3};
  Torrent* T = S.add_torrent(spec);
  auto* main = T->main();
  auto* info = main->info();
  if (info->slot_left()() != want_left || T->dl.file_list()->completed_bytes() != want_comp)
    return "SETUP-FAIL completed=" + std::to_string(T->dl.file_list()->completed_bytes()) + " left=" + std::to_string(info->slot_left()());

  torrent::TrackerInfo ti;
  ti.url = "http://d/";
  ti.group = 0;
  auto w = std::make_shared<DWorker>(ti);
  {
    std::shared_ptr<torrent::TrackerWorker> base = w;
    main->tracker_list()->insert(torrent::tracker::Tracker(std::move(base)));
  }
  quiesce(S);
  { std::scoped_lock g(g_lock); g_reqs.clear(); }

  std::string out;
  try {
    for (size_t p = 4; p < t.size(); p++) {
      const std::string& o = t[p];
      if      (o == "start")  T->dl.start(0);
      else if (o == "startk") T->dl.start(torrent::Download::start_keep_baseline);
      else if (o == "starts") T->dl.start(torrent::Download::start_skip_tracker);
      else if (o == "stop")   T->dl.stop(0);
      else if (o == "stops")  T->dl.stop(torrent::Download::stop_skip_tracker);
      else if (o.rfind("up:", 0) == 0) info->mutable_up_rate()->set_total(info->up_rate()->total() + std::stoull(o.substr(3)));   // bytes uploaded to peers
      else if (o == "ok") on_tracker([w] { w->reply(true); });
      else if (o == "fl") on_tracker([w] { w->reply(false); });
      else if (o == "mr") T->dl.manual_request(false);
      else if (o == "cmp") T->dl.send_completed();
      else { out += " BADOP"; break; }
      quiesce(S);
      if (p > 4) out += " | ";
      out += "R";
      std::scoped_lock g(g_lock);
      bool first = true;
      for (auto& r : g_reqs) {
        if (!first) out += ",";
        first = false;
        out += std::to_string(r.ev) + ":" + std::to_string(r.up) + ":" + std::to_string(r.comp) + ":" + std::to_string(r.left);
      }
      g_reqs.clear();
    }
  } catch (torrent::internal_error& e) { out += std::string(" | ERR:internal ") + e.what();
  } catch (std::exception& e) { out += std::string(" | ERR:other ") + e.what(); }
  on_tracker([w] { w->finish(); });
  quiesce(S);
  S.remove(T);
  quiesce(S);
  return out.empty() ? std::string("-") : out;
}

static int worker_main() {
  std_setup();
  std::unique_ptr<Session> S;
  std::string line;
  uint32_t serial = 0;
  while (std::getline(std::cin, line)) {
    auto t = split_ws(line);
    std::string res;
    bool fatal = false;
    alarm(30);     // per-case watchdog: a hang kills this worker, the supervisor reports CRASH for the case
    try {
      if (!S) S = std::make_unique<Session>();
      res = run_case(*S, t, serial++);
    } catch (torrent::internal_error& e) { res = std::string("ERR:internal ") + e.what(); fatal = true;
    } catch (std::exception& e) { res = std::string("ERR:other ") + e.what(); fatal = true; }
    alarm(0);
    std::cout << res << "\n" << std::flush;
    if (fatal) _exit(0);
  }
  _exit(0);
}

int main(int argc, char** argv) { return ltv::supervise(argc, argv, worker_main); }
