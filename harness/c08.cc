// C08 implementation driver: the real loader (torrent::download_add -> DownloadConstructor ->
// FileList) + FileList::open inside a scratch root. Same line protocol as ocaml/c08_driver.ml.
//
// Cases:
//   T <u|o> <tree>   torrent object given as a value tree (C07 tree text); 'u' sets
//                    Object::flag_unordered on b["info"] when that is a map (the flag is an
//                    internal flag that Object's copy constructor drops, so it cannot be carried
//                    by the tree itself)
//   B <hex>          bencoded bytes, decoded with the real object_read_bencode_c
//   U <hex>          magnet URI: the object is { "magnet-uri": <bytes> }
// Result line:
//   REJECT (any input_error incl. bencode_error, or a decoder reject) | ERR:internal | ERR:other <what> | HANG
//   OK name=.. multi=.. priv=.. meta=.. cs=.. size=.. chunks=.. pieces=.. root=.. ih=.. nfiles=..
//      files=<path>:<size>:<offset>:<r1>-<r2>:<p|n>,...  | OPEN:ok frozen=..,.. | FS:ok <d|f>:<relpath hex>,...
#include "config.h"
#include "common/util.h"
#include "common/session.h"

#include <algorithm>
#include <atomic>
#include <chrono>
#include <thread>
#include <cerrno>
#include <dirent.h>
#include <ftw.h>
#include <limits.h>
#include <sys/stat.h>
#include <unistd.h>

#include "torrent/torrent.h"
#include "torrent/download.h"
#include "torrent/download_info.h"
#include "torrent/exceptions.h"
#include "torrent/hash_string.h"
#include "torrent/object.h"
#include "torrent/object_stream.h"
#include "torrent/data/file.h"
#include "torrent/data/file_list.h"
#include "download/download_wrapper.h"
#include "download/download_main.h"

using namespace ltv;
using torrent::Object;

static ltv::Session* g_session;   // the shared session harness: library up, steppable main thread
static std::string g_base;      // /verif/build/scratch/c08-<pid>   (everything this process may touch)
static std::string g_scratch;   // <base>/j/j/j/j/j/s : the download root handed to the library
static const uint32_t open_chunk_limit = 4096;   // harness rule (DownloadMain::open allocates per chunk)
static const size_t open_file_limit = 64;

static Object parse_tree(const std::vector<std::string>& t, size_t& i) {
  const std::string& k = t.at(i++);
  if (k == "I") return Object((int64_t)std::stoll(t.at(i++)));
  if (k == "S") return Object(unhex(t.at(i++)));
  if (k == "L") {
    int n = std::stoi(t.at(i++));
    Object o = Object::create_list();
    for (int j = 0; j < n; j++) o.as_list().push_back(parse_tree(t, i));
    return o;
  }
  if (k == "M") {
    int n = std::stoi(t.at(i++));
    Object o = Object::create_map();
    for (int j = 0; j < n; j++) {
      std::string key = unhex(t.at(i++));
      o.as_map()[key] = parse_tree(t, i);
    }
    return o;
  }
  throw std::runtime_error("tree");
}

static int rm_cb(const char* p, const struct stat*, int, struct FTW*) { return ::remove(p); }
static void rm_rf(const std::string& p) { nftw(p.c_str(), rm_cb, 32, FTW_DEPTH | FTW_PHYS); }

// every inode under 'top' (not following links), as (kind, path relative to top)
static void walk(const std::string& top, const std::string& rel, std::vector<std::pair<std::string, char>>& out, std::string& escape) {
  std::string dir = rel.empty() ? top : top + "/" + rel;
  DIR* d = opendir(dir.c_str());
  if (!d) return;
  std::vector<std::string> names;
  while (dirent* e = readdir(d)) {
    std::string n = e->d_name;
    if (n != "." && n != "..") names.push_back(n);
  }
  closedir(d);
  std::sort(names.begin(), names.end());
  for (auto& n : names) {
    std::string r = rel.empty() ? n : rel + "/" + n;
    std::string full = top + "/" + r;
    struct stat st;
    if (lstat(full.c_str(), &st) != 0) continue;
    char rp[PATH_MAX];
    if (realpath(full.c_str(), rp) == nullptr || std::string(rp).compare(0, top.size() + 1, top + "/") != 0)
      if (escape.empty()) escape = full;
    if (S_ISDIR(st.st_mode)) {
      out.push_back({r, 'd'});
      walk(top, r, out, escape);
    } else {
      out.push_back({r, S_ISREG(st.st_mode) ? 'f' : 'x'});
    }
  }
}

static int rmfile_cb(const char* p, const struct stat* st, int, struct FTW*) { return S_ISDIR(st->st_mode) ? 0 : ::remove(p); }
static void remove_files(const std::string& p) { nftw(p.c_str(), rmfile_cb, 32, FTW_DEPTH | FTW_PHYS); }

static void make_jail() {
  rm_rf(g_base);
  std::string p = g_base;
  ::mkdir(p.c_str(), 0777);
  for (const char* c : {"j", "j", "j", "j", "j", "s"}) { p += "/"; p += c; ::mkdir(p.c_str(), 0777); }
}

static std::string join(const std::vector<std::string>& v) {
  if (v.empty()) return "-";
  std::string s;
  for (size_t i = 0; i < v.size(); i++) { if (i) s += ','; s += v[i]; }
  return s;
}

// One client life cycle with the download root <jail>/<leaf>[/<name>]: set_root_dir, open, full
// hash check, start (DownloadMain::start re-opens the file list WITHOUT open_no_create:
// directories and all files, including zero-length ones, are created; padding files are
// skipped), stop, close; then the whole private tree is walked: the jail chain and what is under
// <leaf> are expected, anything else (".." walking up lands inside <base>; files re-created
// under a previous root) is an escape.
static std::string lifecycle(torrent::Download d, const std::string& leaf, const std::string& tag, bool& all_ok,
                             const std::string& old_leaf = "") {
  std::string out;
  torrent::FileList* fl = d.file_list();
  const std::string jail = "j/j/j/j/j/" + leaf;
  const std::string scratch = g_base + "/" + jail;
  bool started = false;
  std::string root = scratch;
  if (fl->is_multi_file()) root += "/" + d.info()->name().str();
  std::string st;
  try {
    fl->set_root_dir(root);
    d.open(0);                 // Download::open: FileList::open(open_no_create)
    if (!d.is_hash_checked()) d.hash_check(false);
    torrent::Download dd = d;
    if (!g_session->settle([dd]() { return dd.is_hash_checked(); }, 20000))
      st = "err:hashcheck " + d.hash_error_message();
    else {
      d.start(torrent::Download::start_skip_tracker);
      g_session->step();
      started = true;
      st = "ok";
    }
  } catch (torrent::internal_error& e) { st = std::string("err:internal ") + e.what();
  } catch (torrent::storage_error& e) { st = std::string("err:storage");
  } catch (torrent::input_error& e) { st = std::string("err:input");
  } catch (std::exception& e) { st = std::string("err:other ") + e.what(); }
  // frozen paths are taken while the download is active
  std::vector<std::string> fr;
  std::string pre = scratch + "/";
  for (auto& f : *fl) {
    if (f->is_padding()) continue;
    const std::string& p = f->frozen_path().str();
    if (p.compare(0, pre.size(), pre) == 0) fr.push_back(hex(p.substr(pre.size())));
    else fr.push_back("ABS" + hex(p));
  }
  try {
    if (started) { d.stop(torrent::Download::stop_skip_tracker); g_session->step(); }
    d.close(0);
    g_session->step();
  } catch (torrent::internal_error& e) { st += std::string(" close-err:internal ") + e.what();
  } catch (std::exception& e) { st += std::string(" close-err:other ") + e.what(); }
  out += " | OPEN" + tag + ":" + st + " frozen=" + join(fr);
  std::vector<std::pair<std::string, char>> all, raw;
  std::string escape;
  walk(g_base, "", all, escape);
  for (auto& x : all) {
    if (x.first.size() <= jail.size() && jail.compare(0, x.first.size(), x.first) == 0 &&
        (x.first.size() == jail.size() || jail[x.first.size()] == '/')) continue;      // the chain itself
    if (x.first.compare(0, jail.size() + 1, jail + "/") == 0) { raw.push_back({x.first.substr(jail.size() + 1), x.second}); continue; }
    // directories left over from the previous root are tolerated, anything else there is an escape
    const std::string old = "j/j/j/j/j/" + old_leaf;
    if (!old_leaf.empty() && x.second == 'd' && (x.first == old || x.first.compare(0, old.size() + 1, old + "/") == 0)) continue;
    if (escape.empty()) escape = g_base + "/" + x.first;
  }
  std::sort(raw.begin(), raw.end());      // byte order of the relative path
  std::vector<std::string> inodes;
  for (auto& x : raw) inodes.push_back(std::string(1, x.second) + ":" + hex(x.first));
  if (escape.empty()) out += " | FS" + tag + ":ok " + join(inodes);
  else out += " | FS" + tag + ":escape " + hex(escape);
  all_ok = (st == "ok") && escape.empty();
  return out;
}

// download_add takes ownership of the Object on success (DownloadWrapper::set_bencode)
// (obj is heap allocated by the caller)
static std::string run_object(Object* obj) {
  std::string out;
  torrent::Download d;
  bool added = false;
  try {
    d = torrent::download_add(obj, 0x5eed);   // tracker key must be non-zero (TrackerUdp throws internal_error on key 0)
    added = true;
  } catch (torrent::input_error&) { delete obj; return "REJECT";   // incl. bencode_error; class/message not compared
  } catch (torrent::internal_error& e) { delete obj; std::cerr << "internal_error: " << e.what() << "\n"; return "ERR:internal";
  } catch (std::exception& e) { delete obj; return std::string("ERR:other ") + e.what(); }

  try {
    torrent::FileList* fl = d.file_list();
    const torrent::DownloadInfo* info = d.info();
    out += "OK name=" + hex(info->name().str());
    out += " multi=" + std::to_string(fl->is_multi_file() ? 1 : 0);
    out += " priv=" + std::to_string(info->is_private() ? 1 : 0);
    out += " meta=" + std::to_string(info->is_meta_download() ? 1 : 0);
    out += " cs=" + std::to_string(fl->chunk_size());
    out += " size=" + std::to_string(fl->size_bytes());
    out += " chunks=" + std::to_string(fl->size_chunks());
    out += " pieces=" + std::to_string(d.ptr()->complete_hash().size());
    out += " root=" + hex(fl->root_dir());
    out += " ih=" + hex(std::string(info->hash().data(), 20));
    out += " nfiles=" + std::to_string(fl->size_files());
    std::vector<std::string> fs;
    for (auto& f : *fl) {
      std::string p;
      for (auto& c : *f->path()) { if (!p.empty()) p += '/'; p += hex(c.str()); }
      if (p.empty()) p = "-";
      fs.push_back(p + ":" + std::to_string(f->size_bytes()) + ":" + std::to_string(f->offset()) + ":" +
                   std::to_string(f->range_first()) + "-" + std::to_string(f->range_second()) + ":" + (f->is_padding() ? "p" : "n"));
    }
    out += " files=" + join(fs);

    // life cycle inside the jail, the way a client does it: root/<name> for multi-file torrents.
    // Phase 1 under <jail>/s; then close, the tree under s is deleted, set_root_dir to <jail>/t and
    // the same cycle again: everything must now appear under t (the CURRENT root) and nowhere else.
    if (fl->size_chunks() > open_chunk_limit || fl->size_files() > open_file_limit) {
      out += " | OPEN:skip";
    } else {
      make_jail();
      bool ok1 = false;
      out += lifecycle(d, "s", "", ok1);
      if (ok1) {
        // the OLD root keeps its directory skeleton but no files: a library that still used the
        // old frozen paths would re-create the files there, where the walk sees them
        remove_files(g_base + "/j/j/j/j/j/s");
        ::mkdir((g_base + "/j/j/j/j/j/t").c_str(), 0777);
        bool ok2 = false;
        out += lifecycle(d, "t", "2", ok2, "s");
      }
    }
  } catch (torrent::internal_error& e) { out += std::string(" ERR:internal ") + e.what();
  } catch (std::exception& e) { out += std::string(" ERR:other ") + e.what(); }

  if (added) {
    try {
      torrent::download_remove(d);
      g_session->step();
    } catch (std::exception& e) { out += std::string(" REMOVE-ERR ") + e.what(); }
  }
  rm_rf(g_base);
  return out;
}

// ---- probes of what the property leaves open (ROBUSTNESS rule 3/4): read from the COMPILED code
static bool probe_accepts(Object* o) {
  try {
    torrent::Download d = torrent::download_add(o, 0x5eed);
    torrent::download_remove(d);
    g_session->step();
    return true;
  } catch (torrent::input_error&) { delete o; return false; }
}
static bool probe_piece_length(int64_t pl) {
  Object* o = new Object(Object::create_map());
  Object& info = o->insert_key("info", Object::create_map());
  int64_t pieces = pl >= 5 ? 1 : (pl > 0 ? (5 + pl - 1) / pl : 1);
  info.insert_key("name", Object(std::string("probe")));
  info.insert_key("piece length", Object(pl));
  info.insert_key("length", Object((int64_t)5));
  info.insert_key("pieces", Object(std::string(20 * pieces, 'x')));
  return probe_accepts(o);
}
static void print_params() {
  // smallest and largest accepted "piece length" (assumes one accepted interval containing 2^20)
  int64_t lo = 0, hi = int64_t(1) << 20;       // lo rejected, hi accepted
  std::string note;
  if (!probe_piece_length(hi) || probe_piece_length(lo)) note = " note=piece-length-probe-assumption-failed";
  while (hi - lo > 1) { int64_t mid = lo + (hi - lo) / 2; if (probe_piece_length(mid)) hi = mid; else lo = mid; }
  int64_t pl_min = lo;                          // exclusive bound
  int64_t a = int64_t(1) << 20, b = int64_t(1) << 40;   // a accepted, b rejected
  if (probe_piece_length(b)) note = " note=piece-length-probe-assumption-failed";
  while (b - a > 1) { int64_t mid = a + (b - a) / 2; if (probe_piece_length(mid)) a = mid; else b = mid; }
  int64_t pl_max = a;                           // inclusive bound
  Object* o = new Object(Object::create_map());
  o->insert_key("magnet-uri", Object(std::string("magnet:?xt=urn:btih:") + std::string(32, 'B') + "&xt=urn:sha1:abc"));
  bool foreign_ok = probe_accepts(o);
  std::cout << "PARAMS pl_min=" << pl_min << " pl_max=" << pl_max << " hash_size=" << torrent::HashString::size_data
            << " reject_foreign_xt=" << (foreign_ok ? 0 : 1) << note << "\n";
}

// ---- per-case watchdog (ROBUSTNESS rule 5): a case that does not finish prints HANG and the
// process exits; ltv.run_sharded resumes with the next case
static std::atomic<int64_t> g_case_start_ms{0};
static int64_t now_ms() {
  return std::chrono::duration_cast<std::chrono::milliseconds>(std::chrono::steady_clock::now().time_since_epoch()).count();
}
static void watchdog(int64_t limit_ms) {
  for (;;) {
    std::this_thread::sleep_for(std::chrono::milliseconds(200));
    int64_t t0 = g_case_start_ms.load();
    if (t0 != 0 && now_ms() - t0 > limit_ms) {
      const char msg[] = "HANG\n";
      fflush(stdout);
      (void)!::write(1, msg, sizeof(msg) - 1);
      _exit(3);   // ltv.run_sharded resumes after this case (a repeat shows up as "CRASH rc=3")
    }
  }
}

int main(int argc, char** argv) {
  std_setup();
  ltv::Session session;          // /verif/build/scratch/<pid>/ is this process's own directory
  g_session = &session;
  g_base = session.scratch() + "/c08";
  g_scratch = g_base + "/j/j/j/j/j/s";
  rm_rf(g_base);

  if (argc > 1 && std::string(argv[1]) == "--params") {
    try { print_params(); } catch (std::exception& e) { std::cout << "PARAMS error " << e.what() << "\n"; }
    rm_rf(g_base);
    return 0;
  }
  {
    const char* lim = getenv("C08_CASE_TIMEOUT_MS");
    std::thread(watchdog, lim ? atoll(lim) : 30000).detach();
  }

  std::string line;
  while (std::getline(std::cin, line)) {
    g_case_start_ms = now_ms();
    if (const char* z = getenv("C08_TEST_SLEEP_MS"))   // self-test of the watchdog only
      if (line.find(" S 78 ") != std::string::npos) std::this_thread::sleep_for(std::chrono::milliseconds(atoll(z)));
    auto t = split_ws(line);
    std::string res;
    try {
      if (t.size() >= 3 && t[0] == "T") {
        size_t i = 2;
        Object* o = new Object(parse_tree(t, i));
        if (t[1] == "u" && o->is_map() && o->has_key_map("info"))
          o->get_key("info").set_internal_flags(Object::flag_unordered);
        res = run_object(o);
      } else if (t.size() == 2 && t[0] == "B") {
        exact_buf buf(unhex(t[1]));
        Object* o = new Object;
        bool ok = true;
        try {
          torrent::object_read_bencode_c(buf.p, buf.p + buf.n, o);
        } catch (torrent::bencode_error&) { ok = false; }
        if (ok) res = run_object(o);
        else { delete o; res = "REJECT"; }
      } else if (t.size() == 2 && t[0] == "U") {
        Object* o = new Object(Object::create_map());
        o->insert_key("magnet-uri", Object(unhex(t[1])));
        res = run_object(o);
      } else {
        res = "BADCASE";
      }
    } catch (torrent::internal_error& e) { res = std::string("ERR:internal ") + e.what();
    } catch (std::exception& e) { res = std::string("ERR:other ") + e.what(); }
    std::cout << res << "\n";
    g_case_start_ms = 0;
  }
  rm_rf(g_base);
  std::cout.flush();
  return 0;                      // ~Session: orderly library cleanup, scratch removed
}
