// C08 implementation driver: the real loader (torrent::download_add -> DownloadConstructor ->
// FileList) + FileList::open inside a scratch root. Same line protocol as ocaml/c08_driver.ml.
//
// Cases:
//   T <u|o> <tree>   torrent object given as a value tree (C07 tree text); 'u' sets
//                    Object::flag_unordered on b["info"] when that is a map (the flag is an
//                    internal flag that Object's copy constructor drops, so it cannot be carried
//                    by the tree itself)
//   B <hex>          bencoded bytes, decoded with the real object_read_bencode_c
//   U <hex>          magnet URI: the object is { "magnet-uri": <bytes> }
// Result line:
//   ERR:input | ERR:bencode | ERR:internal <what> | ERR:other <what> | DECODE:reject
//   OK name=.. multi=.. priv=.. meta=.. cs=.. size=.. chunks=.. pieces=.. root=.. ih=.. nfiles=..
//      files=<path>:<size>:<offset>:<r1>-<r2>:<p|n>,...  | OPEN:ok frozen=..,.. | FS:ok <d|f>:<relpath hex>,...
#include "config.h"
#include "common/util.h"
#include "common/session.h"

#include <algorithm>
#include <cerrno>
#include <dirent.h>
#include <ftw.h>
#include <limits.h>
#include <sys/stat.h>
#include <unistd.h>

#include "torrent/torrent.h"
#include "torrent/download.h"
#include "torrent/download_info.h"
#include "torrent/exceptions.h"
#include "torrent/hash_string.h"
#include "torrent/object.h"
#include "torrent/object_stream.h"
#include "torrent/data/file.h"
#include "torrent/data/file_list.h"
#include "download/download_wrapper.h"
#include "download/download_main.h"

using namespace ltv;
using torrent::Object;

static ltv::Session* g_session;   // the shared session harness: library up, steppable main thread
static std::string g_base;      // /verif/build/scratch/c08-<pid>   (everything this process may touch)
static std::string g_scratch;   // <base>/j/j/j/j/j/s : the download root handed to the library
static const uint32_t open_chunk_limit = 4096;   // harness rule (DownloadMain::open allocates per chunk)
static const size_t open_file_limit = 64;

static Object parse_tree(const std::vector<std::string>& t, size_t& i) {
  const std::string& k = t.at(i++);
  if (k == "I") return Object((int64_t)std::stoll(t.at(i++)));
  if (k == "S") return Object(unhex(t.at(i++)));
  if (k == "L") {
    int n = std::stoi(t.at(i++));
    Object o = Object::create_list();
    for (int j = 0; j < n; j++) o.as_list().push_back(parse_tree(t, i));
    return o;
  }
  if (k == "M") {
    int n = std::stoi(t.at(i++));
    Object o = Object::create_map();
    for (int j = 0; j < n; j++) {
      std::string key = unhex(t.at(i++));
      o.as_map()[key] = parse_tree(t, i);
    }
    return o;
  }
  throw std::runtime_error("tree");
}

static int rm_cb(const char* p, const struct stat*, int, struct FTW*) { return ::remove(p); }
static void rm_rf(const std::string& p) { nftw(p.c_str(), rm_cb, 32, FTW_DEPTH | FTW_PHYS); }

// every inode under 'top' (not following links), as (kind, path relative to top)
static void walk(const std::string& top, const std::string& rel, std::vector<std::pair<std::string, char>>& out, std::string& escape) {
  std::string dir = rel.empty() ? top : top + "/" + rel;
  DIR* d = opendir(dir.c_str());
  if (!d) return;
  std::vector<std::string> names;
  while (dirent* e = readdir(d)) {
    std::string n = e->d_name;
    if (n != "." && n != "..") names.push_back(n);
  }
  closedir(d);
  std::sort(names.begin(), names.end());
  for (auto& n : names) {
    std::string r = rel.empty() ? n : rel + "/" + n;
    std::string full = top + "/" + r;
    struct stat st;
    if (lstat(full.c_str(), &st) != 0) continue;
    char rp[PATH_MAX];
    if (realpath(full.c_str(), rp) == nullptr || std::string(rp).compare(0, top.size() + 1, top + "/") != 0)
      if (escape.empty()) escape = full;
    if (S_ISDIR(st.st_mode)) {
      out.push_back({r, 'd'});
      walk(top, r, out, escape);
    } else {
      out.push_back({r, S_ISREG(st.st_mode) ? 'f' : 'x'});
    }
  }
}

static void make_jail() {
  rm_rf(g_base);
  std::string p = g_base;
  ::mkdir(p.c_str(), 0777);
  for (const char* c : {"j", "j", "j", "j", "j", "s"}) { p += "/"; p += c; ::mkdir(p.c_str(), 0777); }
}

static std::string join(const std::vector<std::string>& v) {
  if (v.empty()) return "-";
  std::string s;
  for (size_t i = 0; i < v.size(); i++) { if (i) s += ','; s += v[i]; }
  return s;
}

// download_add takes ownership of the Object on success (DownloadWrapper::set_bencode)
// (obj is heap allocated by the caller)
static std::string run_object(Object* obj) {
  std::string out;
  torrent::Download d;
  bool added = false;
  try {
    d = torrent::download_add(obj, 0x5eed);   // tracker key must be non-zero (TrackerUdp throws internal_error on key 0)
    added = true;
  } catch (torrent::bencode_error&) { delete obj; return "ERR:bencode";
  } catch (torrent::input_error&) { delete obj; return "ERR:input";
  } catch (torrent::internal_error& e) { delete obj; std::cerr << "internal_error: " << e.what() << "\n"; return "ERR:internal";
  } catch (std::exception& e) { delete obj; return std::string("ERR:other ") + e.what(); }

  try {
    torrent::FileList* fl = d.file_list();
    const torrent::DownloadInfo* info = d.info();
    out += "OK name=" + hex(info->name().str());
    out += " multi=" + std::to_string(fl->is_multi_file() ? 1 : 0);
    out += " priv=" + std::to_string(info->is_private() ? 1 : 0);
    out += " meta=" + std::to_string(info->is_meta_download() ? 1 : 0);
    out += " cs=" + std::to_string(fl->chunk_size());
    out += " size=" + std::to_string(fl->size_bytes());
    out += " chunks=" + std::to_string(fl->size_chunks());
    out += " pieces=" + std::to_string(d.ptr()->complete_hash().size());
    out += " root=" + hex(fl->root_dir());
    out += " ih=" + hex(std::string(info->hash().data(), 20));
    out += " nfiles=" + std::to_string(fl->size_files());
    std::vector<std::string> fs;
    for (auto& f : *fl) {
      std::string p;
      for (auto& c : *f->path()) { if (!p.empty()) p += '/'; p += hex(c.str()); }
      if (p.empty()) p = "-";
      fs.push_back(p + ":" + std::to_string(f->size_bytes()) + ":" + std::to_string(f->offset()) + ":" +
                   std::to_string(f->range_first()) + "-" + std::to_string(f->range_second()) + ":" + (f->is_padding() ? "p" : "n"));
    }
    out += " files=" + join(fs);

    // open inside the scratch root the way a client does: root/<name> for multi-file torrents
    if (fl->size_chunks() > open_chunk_limit || fl->size_files() > open_file_limit) {
      out += " | OPEN:skip";
    } else {
      make_jail();
      bool started = false;
      std::string root = g_scratch;
      if (fl->is_multi_file()) root += "/" + info->name().str();
      std::string st;
      try {
        // the client's life cycle: open, full hash check, start (DownloadMain::start re-opens the
        // file list WITHOUT open_no_create: directories and all files, including zero-length
        // ones, are created; padding files are skipped), stop, close
        fl->set_root_dir(root);
        d.open(0);                 // Download::open: FileList::open(open_no_create)
        d.hash_check(false);
        torrent::Download dd = d;
        if (!g_session->settle([dd]() { return dd.is_hash_checked(); }, 20000))
          st = "err:hashcheck " + d.hash_error_message();
        else {
          d.start(torrent::Download::start_skip_tracker);
          g_session->step();
          started = true;
          st = "ok";
        }
      } catch (torrent::internal_error& e) { st = std::string("err:internal ") + e.what();
      } catch (torrent::storage_error& e) { st = std::string("err:storage");
      } catch (torrent::input_error& e) { st = std::string("err:input");
      } catch (std::exception& e) { st = std::string("err:other ") + e.what(); }
      // frozen paths are taken while the download is active; then stop + close, and only then is
      // the tree walked (nothing is ever deleted, so this sees everything any phase created)
      std::vector<std::string> fr;
      std::string pre = g_scratch + "/";
      for (auto& f : *fl) {
        if (f->is_padding()) continue;
        const std::string& p = f->frozen_path().str();
        if (p.compare(0, pre.size(), pre) == 0) fr.push_back(hex(p.substr(pre.size())));
        else fr.push_back("ABS" + hex(p));
      }
      try {
        if (started) { d.stop(torrent::Download::stop_skip_tracker); g_session->step(); }
        d.close(0);
        g_session->step();
      } catch (torrent::internal_error& e) { st += std::string(" close-err:internal ") + e.what();
      } catch (std::exception& e) { st += std::string(" close-err:other ") + e.what(); }
      out += " | OPEN:" + st;
      out += " frozen=" + join(fr);
      // walk the whole private tree <base>: the jail chain j/j/j/j/j/s and what is under s are
      // expected; anything else (a ".." walking up a few levels lands inside <base>) is an escape
      std::vector<std::pair<std::string, char>> all, raw;
      std::string escape;
      walk(g_base, "", all, escape);
      const std::string jail = "j/j/j/j/j/s";
      for (auto& x : all) {
        if (x.first.size() <= jail.size() && jail.compare(0, x.first.size(), x.first) == 0 &&
            (x.first.size() == jail.size() || jail[x.first.size()] == '/')) continue;      // the chain itself
        if (x.first.compare(0, jail.size() + 1, jail + "/") == 0) raw.push_back({x.first.substr(jail.size() + 1), x.second});
        else if (escape.empty()) escape = g_base + "/" + x.first;
      }
      std::sort(raw.begin(), raw.end());      // byte order of the relative path
      std::vector<std::string> inodes;
      for (auto& x : raw) inodes.push_back(std::string(1, x.second) + ":" + hex(x.first));
      if (escape.empty()) out += " | FS:ok " + join(inodes);
      else out += " | FS:escape " + hex(escape);
    }
  } catch (torrent::internal_error& e) { out += std::string(" ERR:internal ") + e.what();
  } catch (std::exception& e) { out += std::string(" ERR:other ") + e.what(); }

  if (added) {
    try {
      torrent::download_remove(d);
      g_session->step();
    } catch (std::exception& e) { out += std::string(" REMOVE-ERR ") + e.what(); }
  }
  rm_rf(g_base);
  return out;
}

int main() {
  std_setup();
  ltv::Session session;          // /verif/build/scratch/<pid>/ is this process's own directory
  g_session = &session;
  g_base = session.scratch() + "/c08";
  g_scratch = g_base + "/j/j/j/j/j/s";
  rm_rf(g_base);

  std::string line;
  while (std::getline(std::cin, line)) {
    auto t = split_ws(line);
    std::string res;
    try {
      if (t.size() >= 3 && t[0] == "T") {
        size_t i = 2;
        Object* o = new Object(parse_tree(t, i));
        if (t[1] == "u" && o->is_map() && o->has_key_map("info"))
          o->get_key("info").set_internal_flags(Object::flag_unordered);
        res = run_object(o);
      } else if (t.size() == 2 && t[0] == "B") {
        exact_buf buf(unhex(t[1]));
        Object* o = new Object;
        bool ok = true;
        try {
          torrent::object_read_bencode_c(buf.p, buf.p + buf.n, o);
        } catch (torrent::bencode_error&) { ok = false; }
        if (ok) res = run_object(o);
        else { delete o; res = "DECODE:reject"; }
      } else if (t.size() == 2 && t[0] == "U") {
        Object* o = new Object(Object::create_map());
        o->insert_key("magnet-uri", Object(unhex(t[1])));
        res = run_object(o);
      } else {
        res = "BADCASE";
      }
    } catch (torrent::internal_error& e) { res = std::string("ERR:internal ") + e.what();
    } catch (std::exception& e) { res = std::string("ERR:other ") + e.what(); }
    std::cout << res << "\n";
  }
  rm_rf(g_base);
  std::cout.flush();
  return 0;                      // ~Session: orderly library cleanup, scratch removed
}
