// C19 implementation driver: same case protocol as ocaml/c19_driver.ml, drives the REAL
// torrent::system::Scheduler (through ExternalScheduler, the public test surface) with
// SchedulerEntry slots that execute the case's handler scripts.
//
// Case line (sections separated by '|'):
//   <n> <k> | <valid mask or -> | <scripts e:op,op;e:op or -> | <ops op,op,... or ->
//   op L t1 d m c = one event-loop iteration through the REAL Thread::process_events (clock t1,
//   call_events takes d and runs script c, the thread's own next_timeout() is m).
// Output: one token per top-level op, then '| S[e:due ...] H[time:entry|- ...]'.
#include "config.h"
#include "common/util.h"

#include <chrono>
#include <functional>
#include <memory>

#include <time.h>
#include <unistd.h>
#include <sys/syscall.h>

#include "torrent/exceptions.h"
#include "torrent/system/scheduler.h"
#include "torrent/system/thread.h"
#include "torrent/system/poll.h"
#include "torrent/net/resolver.h"
#include "runtime_manager.h"
#include "thread_main.h"

using namespace ltv;
using torrent::system::ExternalScheduler;
using torrent::system::SchedulerEntry;
using us = std::chrono::microseconds;

// Thrown from a slot when the per-dispatch budget is exceeded. It derives from internal_error so
// that Thread::event_loop treats it like any error escaping a slot (cleanup_thread + rethrow).
struct fuel_exhausted : torrent::internal_error {
  fuel_exhausted() : torrent::internal_error("ltv: slot budget exceeded") {}
};

// Poll::do_poll is not virtual; the link step wraps the symbol (-Wl,--wrap=...) so that the call made
// by Thread::event_loop lands here. The wrapper records the timeout the loop computed and runs the
// real do_poll with a zero timeout (epoll_wait with a controlled clock cannot be simulated).
// The scheduler's cached clock has no accessor; it is observed through the public API: a scratch
// entry scheduled with wait_for(dt) is due at clock + dt. The scratch entry is erased again (the
// cancelled handle it leaves behind is invisible to every operation).
static int64_t g_probe_big_dt = 0;  // a relative time that is accepted whatever the clock is (probed at start)
static int64_t probe_scheduler_clock(torrent::system::Scheduler* sched) {
  SchedulerEntry probe;
  probe.slot() = [] {};
  int64_t dt = 1;
  try {
    sched->wait_for(&probe, us(dt));
  } catch (torrent::internal_error&) {
    dt = g_probe_big_dt;
    sched->wait_for(&probe, us(dt));
  }
  int64_t clock = probe.time_or_zero().count() - dt;
  sched->erase(&probe);
  return clock;
}

#define DO_POLL_SYM "_ZN7torrent6system4Poll7do_pollENSt6chrono8durationIlSt5ratioILl1ELl1000000EEEE"
static int64_t g_poll_timeout_us = 0;
static int     g_poll_calls      = 0;
static int64_t g_poll_th_us      = 0;
static int64_t g_poll_sc_us      = 0;
unsigned int real_do_poll(torrent::system::Poll*, std::chrono::microseconds) asm("__real_" DO_POLL_SYM);
unsigned int wrap_do_poll(torrent::system::Poll*, std::chrono::microseconds) asm("__wrap_" DO_POLL_SYM);
unsigned int wrap_do_poll(torrent::system::Poll* self, std::chrono::microseconds timeout) {
  g_poll_timeout_us = timeout.count();
  g_poll_calls++;
  // the clocks the thread holds at the moment it goes to sleep
  auto* t = torrent::system::Thread::self();
  g_poll_th_us = t->cached_time().count();
  g_poll_sc_us = probe_scheduler_clock(t->scheduler());
  return real_do_poll(self, std::chrono::microseconds(0));
}

// Controlled clock. Thread::process_events() reads utils::time_since_epoch(), an inline wrapper of
// std::chrono::system_clock::now(); that function lives in libstdc++.so, so this definition in the
// executable takes its place for the whole process (library objects included). While no loop
// iteration is running it reports the real time.
static bool    g_vclock_on = false;
static int64_t g_vclock_us = 0;

std::chrono::system_clock::time_point std::chrono::system_clock::now() noexcept {
  if (g_vclock_on)
    return time_point(std::chrono::duration_cast<duration>(std::chrono::microseconds(g_vclock_us)));
  timespec ts;
  clock_gettime(CLOCK_REALTIME, &ts);
  return time_point(std::chrono::duration_cast<duration>(std::chrono::seconds(ts.tv_sec) + std::chrono::nanoseconds(ts.tv_nsec)));
}

// Poll::init_thread() creates a fresh eventfd on every event_loop() start and nothing closes it
// (one descriptor per thread start in the real program). The harness starts event_loop once per L
// op, so it remembers the descriptor and closes it after the loop has returned.
static int g_last_eventfd = -1;
extern "C" int eventfd(unsigned int initval, int flags) {
  int fd = (int)syscall(SYS_eventfd2, initval, flags);
  g_last_eventfd = fd;
  return fd;
}

struct Run;

// A real torrent::system::Thread; only the two pure virtuals are supplied by the harness.
class LoopThread : public torrent::system::Thread {
public:
  const char* name() const override { return "ltv-c19"; }
  Run*        run{};
  int64_t     busy_us{};
  int         script{-1};
  int64_t     own_timeout{};
  int         calls{};   // call_events invocations in the current event_loop run

  void                      call_events() override;
  std::chrono::microseconds next_timeout() override { return us(own_timeout); }
};

struct Op {
  char    kind;
  int     e{};
  int64_t t{};
  int64_t d{};
  int64_t m{};
};

static Op parse_op(const std::string& s) {
  auto t = split_ws(s);
  if (t.empty()) throw std::runtime_error("op");
  Op o;
  o.kind = t[0].at(0);
  switch (o.kind) {
  case 'W': case 'F': case 'C': case 'U': case 'G': case 'D': case 'X': case 'Z':
    o.e = std::stoi(t.at(1)); o.t = std::stoll(t.at(2)); break;
  case 'E': case 'Y': o.e = std::stoi(t.at(1)); break;
  case 'N': case 'T': case 'P': o.t = std::stoll(t.at(1)); break;
  case 'L':
    o.t = std::stoll(t.at(1)); o.d = std::stoll(t.at(2)); o.m = std::stoll(t.at(3));
    o.e = t.at(4) == "-" ? -1 : std::stoi(t.at(4));
    break;
  default: throw std::runtime_error("op");
  }
  return o;
}

static std::string trim(const std::string& s) {
  size_t a = s.find_first_not_of(" \t"), b = s.find_last_not_of(" \t");
  return a == std::string::npos ? std::string() : s.substr(a, b - a + 1);
}

static std::vector<std::string> split_list(const std::string& s0, char c) {
  std::vector<std::string> out;
  std::string s = trim(s0);
  if (s.empty() || s == "-") return out;
  size_t i = 0;
  while (true) {
    size_t j = s.find(c, i);
    out.push_back(trim(s.substr(i, j == std::string::npos ? j : j - i)));
    if (j == std::string::npos) break;
    i = j + 1;
  }
  return out;
}

struct Run {
  ExternalScheduler                            own_sched;
  ExternalScheduler                            other_sched;  // a second scheduler (ops X/Z/Y), never dispatched
  std::unique_ptr<LoopThread>                  thread;   // only for cases with L ops
  torrent::system::Scheduler*                  schedp{};
  torrent::system::Scheduler&                  sched_ref() { return *schedp; }
  std::vector<std::unique_ptr<SchedulerEntry>> entries;
  std::vector<std::vector<Op>>                 scripts;
  std::vector<std::string>*                    items{};  // log of the perform in progress
  int                                          fires{};
  int                                          k{};

  // one basic op on the real scheduler; N returns its value through *next
  void basic(const Op& o, bool* is_next, int64_t* next) {
    *is_next = false;
    SchedulerEntry* en = (o.kind == 'N' || o.kind == 'T') ? nullptr : entries.at(o.e).get();
    switch (o.kind) {
    case 'W': sched_ref().wait_until(en, us(o.t)); break;
    case 'F': sched_ref().wait_for(en, us(o.t)); break;
    case 'C': sched_ref().wait_for_ceil_seconds(en, us(o.t)); break;
    case 'U': sched_ref().update_wait_until(en, us(o.t)); break;
    case 'G': sched_ref().update_wait_for(en, us(o.t)); break;
    case 'D': sched_ref().update_wait_for_ceil_seconds(en, us(o.t)); break;
    case 'E': sched_ref().erase(en); break;
    case 'X': other_sched.wait_until(en, us(o.t)); break;
    case 'Z': other_sched.update_wait_until(en, us(o.t)); break;
    case 'Y': other_sched.erase(en); break;
    case 'N': *is_next = true; *next = sched_ref().next_timeout(us(o.t)).count(); break;
    case 'T': sched_ref().set_cached_time(us(o.t)); break;
    default: throw std::runtime_error("op in script");
    }
  }

  void slot(int e) {
    if (++fires > k) {
      items->push_back("FUEL:" + std::to_string(e));  // this entry was detached, its slot body never ran
      throw fuel_exhausted();
    }
    items->push_back(std::to_string(e));
    for (auto& o : scripts[e]) {
      bool is_next; int64_t next;
      basic(o, &is_next, &next);  // torrent::internal_error propagates out of the slot
      if (is_next) items->push_back("N=" + std::to_string(next));
    }
  }
};

template <typename S, typename EV>
static std::string dump_heap(S& sched, EV& entries) {
  std::string out;
  if constexpr (requires { sched.m_heap.begin(); (*sched.m_heap.begin())->time; (*sched.m_heap.begin())->entry; }) {
    out += " H[";
    bool first = true;
    for (auto& h : sched.m_heap) {
      if (!first) out += ' ';
      first = false;
      out += std::to_string(h->time.count()) + ":";
      if (h->entry == nullptr) out += "-";
      else {
        int idx = -1;
        for (size_t e = 0; e < entries.size(); e++) if (entries[e].get() == h->entry) idx = (int)e;
        out += std::to_string(idx);
      }
    }
    out += "]";
  }
  return out;
}

void LoopThread::call_events() {
  // one iteration per L op: the second call_events of an event_loop run ends the loop the way a
  // real thread is stopped (shutdown_exception)
  if (++calls > 1) throw torrent::shutdown_exception();
  g_vclock_us += busy_us;  // the iteration's work takes busy_us of wall time
  if (script >= 0)
    for (auto& o : run->scripts.at(script)) {
      bool is_next; int64_t next;
      run->basic(o, &is_next, &next);
      if (is_next) run->items->push_back("N=" + std::to_string(next));
    }
}

static std::string run_case(const std::string& line) {
  std::vector<std::string> sec;
  {
    size_t i = 0;
    while (true) {
      size_t j = line.find('|', i);
      sec.push_back(line.substr(i, j == std::string::npos ? j : j - i));
      if (j == std::string::npos) break;
      i = j + 1;
    }
  }
  if (sec.size() != 4) return "BADCASE";
  auto hd = split_ws(sec[0]);
  if (hd.size() != 2) return "BADCASE";
  int n = std::stoi(hd[0]);
  Run r;
  r.k = std::stoi(hd[1]);
  std::string mask = trim(sec[1]);
  r.scripts.resize(n);
  for (auto& sc : split_list(sec[2], ';')) {
    size_t c = sc.find(':');
    if (c == std::string::npos) return "BADCASE";
    int e = std::stoi(sc.substr(0, c));
    for (auto& o : split_list(sc.substr(c + 1), ',')) r.scripts.at(e).push_back(parse_op(o));
  }
  for (int e = 0; e < n; e++) {
    r.entries.push_back(std::make_unique<SchedulerEntry>());
    bool valid = mask == "-" || mask.at(e) == '1';
    if (valid) {
      Run* rp = &r;
      r.entries.back()->slot() = [rp, e]() { rp->slot(e); };
    }
  }
  std::vector<Op> ops;
  for (auto& o : split_list(sec[3], ',')) ops.push_back(parse_op(o));

  bool has_loop = false;
  for (auto& o : ops) has_loop |= o.kind == 'L';
  if (has_loop) {
    static bool runtime_up = false;
    if (!runtime_up) { torrent::RuntimeManager::initialize(); runtime_up = true; }  // Poll::init_thread needs the socket manager
    r.thread = std::make_unique<LoopThread>();
    r.thread->run = &r;
    torrent::ThreadMain::set_thread_base(r.thread.get());
    r.thread->m_state = torrent::system::Thread::STATE_INITIALIZED;
    r.thread->init_thread_local();      // the real per-thread initialisation (m_self, ids, state ACTIVE)
    r.schedp = r.thread->scheduler();
    r.schedp->set_cached_time(us(0));  // the model starts with m_cached_time = 0
  } else {
    r.schedp = &r.own_sched;
  }

  std::string out;
  for (auto& o : ops) {
    if (!out.empty()) out += ' ';
    if (o.kind == 'L') {
      std::vector<std::string> items;
      r.items = &items;
      r.fires = 0;
      r.thread->busy_us = o.d;
      r.thread->script = o.e;
      r.thread->own_timeout = o.m;
      g_vclock_us = o.t;
      g_vclock_on = true;
      bool ok = false;
      r.thread->calls = 0;
      g_poll_calls = 0;
      r.thread->m_state = torrent::system::Thread::STATE_ACTIVE;
      try {
        // the REAL Thread::event_loop: init_thread, process_events, next_timeout, do_poll (wrapped),
        // then the second iteration's call_events throws shutdown_exception and the loop returns
        r.thread->event_loop();
        ok = true;
      } catch (fuel_exhausted&) {
      } catch (torrent::internal_error&) {
        items.push_back("ERR:internal");
      }
      if (g_last_eventfd != -1) { ::close(g_last_eventfd); g_last_eventfd = -1; }
      if (ok) {
        if (g_poll_calls != 1) throw std::runtime_error("do_poll called " + std::to_string(g_poll_calls) + " times");
        items.push_back("th=" + std::to_string(g_poll_th_us) + " sc=" + std::to_string(g_poll_sc_us) +
                        " r=" + std::to_string(g_poll_timeout_us));
      }
      g_vclock_on = false;
      r.items = nullptr;
      out += "L[";
      for (size_t i = 0; i < items.size(); i++) { if (i) out += ' '; out += items[i]; }
      out += "]";
    } else if (o.kind == 'P') {
      std::vector<std::string> items;
      r.items = &items;
      r.fires = 0;
      try {
        r.sched_ref().perform(us(o.t));
      } catch (fuel_exhausted&) {
      } catch (torrent::internal_error&) {
        items.push_back("ERR:internal");
      }
      r.items = nullptr;
      out += "P[";
      for (size_t i = 0; i < items.size(); i++) { if (i) out += ' '; out += items[i]; }
      out += "]";
    } else {
      try {
        bool is_next; int64_t next;
        r.basic(o, &is_next, &next);
        out += is_next ? "N=" + std::to_string(next) : std::string(".");
      } catch (torrent::internal_error&) {
        out += "ERR:internal";
      }
    }
  }
  // final observation: public per-entry state, then the raw heap array (read only)
  out += " | S[";
  bool first = true;
  for (int e = 0; e < n; e++)
    if (r.entries[e]->is_scheduled()) {
      if (!first) out += ' ';
      first = false;
      out += std::to_string(e) + ":" + std::to_string(r.entries[e]->time_or_zero().count());
    }
  out += "]";
  // informational only (never part of the verdict): the raw heap array, if the scheduler still has one
  out += dump_heap(r.sched_ref(), r.entries);
  // ~SchedulerEntry asserts !is_scheduled(): unschedule through the public API first; erase() on the
  // wrong scheduler throws before touching anything
  for (int e = 0; e < n; e++)
    if (r.entries[e]->is_scheduled()) {
      try { r.sched_ref().erase(r.entries[e].get()); } catch (torrent::internal_error&) { r.other_sched.erase(r.entries[e].get()); }
    }
  if (has_loop) {
    torrent::ThreadMain::set_thread_base(nullptr);
    torrent::system::Thread::m_self = nullptr;
  }
  return out;
}

// --params: the constants of the API as the COMPILED library enforces them (binary search through
// the public ExternalScheduler interface); one line "min_wait min_update max_wf max_wfc max_uf max_ufc" (us).
template <typename F>
static int64_t search_first_accepted(int64_t lo, int64_t hi, F accepts) {  // accepts is monotone false..true
  while (lo < hi) { int64_t mid = lo + (hi - lo) / 2; if (accepts(mid)) hi = mid; else lo = mid + 1; }
  return lo;
}
template <typename F>
static int64_t search_last_accepted(int64_t lo, int64_t hi, F accepts) {   // accepts is monotone true..false
  while (lo < hi) { int64_t mid = lo + (hi - lo + 1) / 2; if (accepts(mid)) lo = mid; else hi = mid - 1; }
  return lo;
}
static std::vector<int64_t> probe_params() {
  ExternalScheduler s;
  SchedulerEntry e;
  e.slot() = [] {};
  const int64_t big = int64_t(1) << 61;
  auto tryop = [&](auto op) { try { op(); s.erase(&e); return true; } catch (torrent::internal_error&) { if (e.is_scheduled()) s.erase(&e); return false; } };
  std::vector<int64_t> v;
  v.push_back(search_first_accepted(1, big, [&](int64_t t) { return tryop([&] { s.wait_until(&e, us(t)); }); }));
  v.push_back(search_first_accepted(1, big, [&](int64_t t) { return tryop([&] { s.update_wait_until(&e, us(t)); }); }));
  s.external_set_cached_time(us(big));
  v.push_back(search_last_accepted(0, big, [&](int64_t d) { return tryop([&] { s.wait_for(&e, us(d)); }); }));
  v.push_back(search_last_accepted(0, big, [&](int64_t d) { return tryop([&] { s.wait_for_ceil_seconds(&e, us(d)); }); }));
  v.push_back(search_last_accepted(0, big, [&](int64_t d) { return tryop([&] { s.update_wait_for(&e, us(d)); }); }));
  v.push_back(search_last_accepted(0, big, [&](int64_t d) { return tryop([&] { s.update_wait_for_ceil_seconds(&e, us(d)); }); }));
  return v;
}

int main(int argc, char** argv) {
  std_setup();
  auto params = probe_params();
  g_probe_big_dt = params[2];
  if (argc > 1 && std::string(argv[1]) == "--params") {
    std::string out;
    for (auto x : params) out += (out.empty() ? "" : " ") + std::to_string(x);
    std::cout << out << "\n";
    return 0;
  }
  std::string line;
  while (std::getline(std::cin, line)) {
    std::string out;
    alarm(20);  // per-case watchdog (cases normally take microseconds): a hang kills this process with SIGALRM, the runner resumes after the case
    try {
      out = run_case(line);
    } catch (std::exception& e) {
      out = std::string("HARNESS-ERROR ") + e.what();
    }
    alarm(0);
    std::cout << out << "\n";
  }
  return 0;
}
