// C14 implementation driver, part 2 (needs the fully initialised library: torrent::initialize()).
//   DH <own-id 40hex> (D <src 1..9> <hex>)*   a real DhtRouter + DhtServer bound on loopback; every datagram is sent
//                                             from a scripted UDP socket 127.0.0.<src> and DhtServer::event_read()
//                                             is called on the harness thread; what comes back is collected from ALL
//                                             scripted sockets (a reply must go to the source only)
//   DV <hex>                                  static_map_read_bencode(DhtMessage) + what a matched get_peers reply
//                                             hands to AddressList::parse_address_bencode (DhtAnnounce::receive_peers)
//   PI <max> <now> ops…                       PeerList with PeerInfo entries (see run_pi)
// Every case runs under an alarm() watchdog.
#include "config.h"
#include "common/util.h"

#include <arpa/inet.h>
#include <fcntl.h>
#include <netinet/in.h>
#include <sys/socket.h>
#include <unistd.h>

#include <algorithm>
#include <map>
#include <memory>

#include "torrent/exceptions.h"
#include "torrent/object.h"
#include "torrent/object_stream.h"
#include "torrent/torrent.h"
#include "torrent/hash_string.h"
#include "torrent/net/socket_address.h"
#include "torrent/peer/peer_info.h"
#include "torrent/peer/peer_list.h"
#include "torrent/system/thread.h"
#include "download/available_list.h"
#include "net/address_list.h"
#include "thread_main.h"
#include "dht/dht_router.h"
#include "dht/dht_server.h"
#include "dht/dht_transaction.h"
#include "tracker/tracker_dht.h"

using namespace ltv;
using namespace torrent;

static std::string hexn(const unsigned char* p, size_t n) { return hex(reinterpret_cast<const char*>(p), n); }

static std::string show_addr(const sa_inet_union& u) {
  if (u.sa.sa_family == AF_INET) {
    uint32_t a = u.inet.sin_addr.s_addr;
    return "4." + hexn(reinterpret_cast<const unsigned char*>(&a), 4) + "." + std::to_string(ntohs(u.inet.sin_port));
  }
  if (u.sa.sa_family == AF_INET6)
    return "6." + hexn(u.inet6.sin6_addr.s6_addr, 16) + "." + std::to_string(ntohs(u.inet6.sin6_port));
  return "?fam" + std::to_string(u.sa.sa_family);
}

template <typename It>
static std::string show_addrs(It first, It last) {
  if (first == last) return "-";
  std::string s;
  for (; first != last; ++first) {
    if (!s.empty()) s += ',';
    s += show_addr(*first);
  }
  return s;
}

// ------------------------------------------------------------------ DHT datagrams

static sockaddr_in mk_sin(uint32_t ip, uint16_t port) {
  sockaddr_in s{};
  s.sin_family = AF_INET;
  s.sin_addr.s_addr = htonl(ip);
  s.sin_port = htons(port);
  return s;
}

static std::map<uint32_t, int> g_socks;
static int script_sock(uint32_t ip) {
  auto it = g_socks.find(ip);
  if (it != g_socks.end()) return it->second;
  int fd = socket(AF_INET, SOCK_DGRAM | SOCK_NONBLOCK, 0);
  sockaddr_in sin = mk_sin(ip, 0);
  if (fd < 0 || bind(fd, reinterpret_cast<sockaddr*>(&sin), sizeof sin) != 0) throw std::runtime_error("bind scripted socket");
  g_socks[ip] = fd;
  return fd;
}
static void close_socks() {
  for (auto& [ip, fd] : g_socks) close(fd);
  g_socks.clear();
}

// DhtServer binds with SO_REUSEADDR: pick a port outside the ephemeral range, disjoint per process, and verify with
// a non-reuse probe that nobody holds it (same scheme as harness/c15.cc, different base).
static int pick_port() {
  static unsigned counter = 0;
  for (int tries = 0; tries < 200; tries++) {
    int port = 32000 + (int)((getpid() % 2000) * 10 + (counter++ % 10));
    if (tries >= 10) port = 32000 + (int)((getpid() * 7919u + counter * 104729u) % 20000);
    int fd = socket(AF_INET, SOCK_DGRAM, 0);
    sockaddr_in sin = mk_sin(0, port);
    bool ok = fd >= 0 && bind(fd, reinterpret_cast<sockaddr*>(&sin), sizeof sin) == 0;
    if (fd >= 0) close(fd);
    if (ok) return port;
  }
  throw std::runtime_error("no free UDP port");
}

static std::string us(std::string s) { for (auto& c : s) if (c == ' ') c = '_'; return s; }

static const char* envelope_msgs[] = {
  "No transaction ID", "Transaction ID length too long", "No message type", "Unsupported message type",
  "Invalid `id' value", "`id' value too short", "Invalid transaction ID type/length.", "Send your own ID, not mine",
  "Unknown message type." };

// classify one datagram the scripted node received from the server
static std::string show_reply(const std::string& d, const std::string& own) {
  Object o;
  try {
    if (object_read_bencode_c(d.data(), d.data() + d.size(), &o) != d.data() + d.size() || !o.is_map()) return "UNDECODABLE";
  } catch (bencode_error&) { return "UNDECODABLE"; }
  if (!o.has_key_string("y")) return "NO-Y";
  const std::string& y = o.get_key_string("y");
  std::string t = o.has_key_string("t") ? hex(o.get_key_string("t")) : "~";
  if (y == "q") {
    // the server's own query (ping of an unknown querier): not a reply
    if (o.has_key_map("a") && o.get_key("a").has_key_string("id") && o.get_key("a").get_key_string("id") == own) return "";
    return "ODD-QUERY";
  }
  if (y == "r") return "Q";
  if (y == "e") {
    if (!o.has_key_list("e") || o.get_key_list("e").size() != 2) return "e BAD-BODY";
    auto& l = o.get_key_list("e");
    if (!l.front().is_value() || !l.back().is_string()) return "e BAD-BODY";
    const std::string& msg = l.back().as_string();
    for (auto m : envelope_msgs)
      if (msg == m) return "e " + t + " " + std::to_string(l.front().as_value()) + " " + us(msg);
    return "Q";     // an error raised while processing a query (C15's subject)
  }
  return "ODD-Y";
}

static std::string run_dh(const std::vector<std::string>& t) {
  std::string own = unhex(t.at(1));
  if (own.size() != 20) return "BADCASE";
  ThreadMain::thread_main()->set_cached_time(std::chrono::seconds(400ll * 86400));
  Object cache = Object::create_map();
  cache.insert_key("self_id", own);
  std::unique_ptr<DhtRouter> r(new DhtRouter(cache));
  r->start(pick_port());
  sockaddr_in srv{};
  socklen_t sl = sizeof srv;
  getsockname(r->m_server.file_descriptor(), reinterpret_cast<sockaddr*>(&srv), &sl);
  sockaddr_in dst = mk_sin(0x7f000001, ntohs(srv.sin_port));
  std::string out;
  try {
    for (size_t i = 2; i + 2 < t.size() + 0 && t.at(i) == "D"; i += 3) {
      uint32_t ip = 0x7f000000 + std::stoul(t.at(i + 1));
      std::string d = unhex(t.at(i + 2));
      int fd = script_sock(ip);
      script_sock(0x7f000001 + 100);    // a bystander socket: nothing may arrive there
      if (sendto(fd, d.data(), d.size(), 0, reinterpret_cast<sockaddr*>(&dst), sizeof dst) != (ssize_t)d.size())
        throw std::runtime_error("sendto");
      std::string e;
      try {
        r->m_server.event_read();
        if (!r->m_server.m_highQueue.empty() || !r->m_server.m_lowQueue.empty())
          r->m_server.event_write();
      } catch (internal_error& ex) { e = std::string("ERR:internal:") + us(ex.what());
      } catch (bencode_error& ex) { e = "ERR:bencode";
      } catch (std::exception& ex) { e = std::string("ERR:other:") + us(ex.what()); }
      for (auto& [sip, sfd] : g_socks) {
        char buf[4096];
        while (true) {
          sockaddr_in from{};
          socklen_t fl = sizeof from;
          ssize_t n = recvfrom(sfd, buf, sizeof buf, 0, reinterpret_cast<sockaddr*>(&from), &fl);
          if (n < 0) break;
          if (from.sin_port != srv.sin_port) continue;
          std::string sd = show_reply(std::string(buf, n), own);
          if (sd.empty()) continue;
          if (sip != ip) sd += "!TO-OTHER-ADDRESS";
          if (!e.empty()) e += "+";
          e += sd;
        }
      }
      if (e.empty()) e = "none";
      if (!out.empty()) out += " ; ";
      out += e;
    }
  } catch (internal_error& e) { out += std::string(" ERR:internal:") + us(e.what());
  } catch (std::exception& e) { out += std::string(" ERR:other:") + us(e.what()); }
  r->stop();
  r.reset();
  close_socks();
  return out.empty() ? "-" : out;
}

static std::string run_dv(const std::string& d) {
  exact_buf b(d);
  DhtMessage msg;
  try {
    static_map_read_bencode(b.p, b.p + b.n, msg);
  } catch (bencode_error&) { return "REJECT"; }
  std::string out = "OK values=";
  if (msg[key_r_values].is_raw_list()) {
    AddressList l;
    l.parse_address_bencode(msg[key_r_values].as_raw_list());      // DhtAnnounce::receive_peers
    out += show_addrs(l.begin(), l.end());
  } else out += "~";
  out += " nodes=";
  if (msg[key_r_nodes].is_raw_string()) {
    raw_string n = msg[key_r_nodes].as_raw_string();
    out += hex(n.data(), n.size() - n.size() % 26);                 // the whole compact_node_info records
  } else out += "~";
  return out;
}

// ------------------------------------------------------------------ find_node reply matched to a transaction
//   DF <own 40hex> <target 40hex> <F|A> <responder id 40hex> <tid m|x> <id m|x> <src s|o> (~ | (R<id40>:<k> | X<hex>)*)
// A real DhtRouter/DhtServer knows the responder (scripted socket 127.0.0.2) and has an outstanding find_node
// transaction to it (F: DhtServer::find_node, A: DhtServer::announce with no tracker attached).  The responder's
// reply carries a compact `nodes` string built from the tokens: R = 26-byte record (id, address of scripted socket
// 127.0.0.<k>), X = raw bytes.  Output: the queries the server sends afterwards, as <q>@<k> sorted.
static std::string run_df(const std::vector<std::string>& t) {
  std::string own = unhex(t.at(1)), target = unhex(t.at(2)), resp = unhex(t.at(4));
  bool announce = t.at(3) == "A";
  if (own.size() != 20 || target.size() != 20 || resp.size() != 20) return "BADCASE";
  ThreadMain::thread_main()->set_cached_time(std::chrono::seconds(400ll * 86400));
  Object cache = Object::create_map();
  cache.insert_key("self_id", own);
  std::unique_ptr<DhtRouter> r(new DhtRouter(cache));
  r->start(pick_port());
  sockaddr_in srv{};
  socklen_t sl = sizeof srv;
  getsockname(r->m_server.file_descriptor(), reinterpret_cast<sockaddr*>(&srv), &sl);
  sockaddr_in dst = mk_sin(0x7f000001, ntohs(srv.sin_port));
  auto sock_addr = [&](int k) { sockaddr_in a{}; socklen_t l = sizeof a; getsockname(script_sock(0x7f000000 + k), reinterpret_cast<sockaddr*>(&a), &l); return a; };
  std::string out;
  try {
    // the compact nodes string
    std::string nodes;
    bool has_nodes = !(t.size() > 8 && t.at(8) == "~");
    for (size_t i = 8; has_nodes && i < t.size(); i++) {
      const std::string& tok = t[i];
      if (tok[0] == 'R') {
        size_t c = tok.find(':');
        sockaddr_in a = sock_addr(std::stoi(tok.substr(c + 1)));
        nodes += unhex(tok.substr(1, c - 1));
        nodes += std::string(reinterpret_cast<const char*>(&a.sin_addr.s_addr), 4);
        nodes += std::string(reinterpret_cast<const char*>(&a.sin_port), 2);
      } else if (tok[0] == 'X') {
        nodes += unhex(tok.substr(1));
      } else return "BADCASE";
    }
    sockaddr_in ra = sock_addr(2);
    script_sock(0x7f000000 + 9);
    HashString rid;
    rid.assign(resp.data());
    r->node_replied(rid, reinterpret_cast<const sockaddr*>(&ra));
    auto drain = [&](std::vector<std::pair<int, std::string>>* into) {
      if (!r->m_server.m_highQueue.empty() || !r->m_server.m_lowQueue.empty()) r->m_server.event_write();
      for (auto& [sip, sfd] : g_socks) {
        char buf[4096];
        while (true) {
          sockaddr_in from{};
          socklen_t fl = sizeof from;
          ssize_t n = recvfrom(sfd, buf, sizeof buf, 0, reinterpret_cast<sockaddr*>(&from), &fl);
          if (n < 0) break;
          if (from.sin_port != srv.sin_port) continue;
          if (into) into->emplace_back((int)(sip & 0xff), std::string(buf, n));
        }
      }
    };
    drain(nullptr);
    HashString tg;
    tg.assign(target.data());
    if (announce) r->m_server.announce(*r->bucket(), tg, std::weak_ptr<TrackerDht>());
    else r->m_server.find_node(*r->bucket(), tg);
    std::vector<std::pair<int, std::string>> got;
    drain(&got);
    std::string tid;
    for (auto& [k, d] : got) {
      Object o;
      if (k != 2) continue;
      if (object_read_bencode_c(d.data(), d.data() + d.size(), &o) != d.data() + d.size() || !o.is_map()) continue;
      if (o.has_key_string("q") && o.get_key_string("q") == "find_node" && o.has_key_string("t")) tid = o.get_key_string("t");
    }
    if (tid.size() != 1) { out = "SETUP-FAIL no find_node query at the responder"; }
    else {
      std::string rt = t.at(5) == "m" ? tid : std::string(1, char(tid[0] ^ 1));
      std::string id = t.at(6) == "m" ? resp : std::string(20, '\x5a');
      std::string reply = "d1:rd2:id20:" + id;
      if (has_nodes) reply += "5:nodes" + std::to_string(nodes.size()) + ":" + nodes;
      reply += "e1:t1:" + rt + "1:y1:re";
      int from_fd = script_sock(0x7f000000 + (t.at(7) == "s" ? 2 : 9));
      if (sendto(from_fd, reply.data(), reply.size(), 0, reinterpret_cast<sockaddr*>(&dst), sizeof dst) != (ssize_t)reply.size())
        throw std::runtime_error("sendto");
      std::string e;
      std::vector<std::pair<int, std::string>> after;
      try {
        r->m_server.event_read();
        drain(&after);
      } catch (internal_error& ex) { e = std::string("ERR:internal:") + us(ex.what());
      } catch (bencode_error& ex) { e = "ERR:bencode";
      } catch (std::exception& ex) { e = std::string("ERR:other:") + us(ex.what()); }
      if (e.empty()) {
        std::vector<std::string> qs;
        for (auto& [k, d] : after) {
          Object o;
          std::string q = "undecodable";
          try {
            if (object_read_bencode_c(d.data(), d.data() + d.size(), &o) == d.data() + d.size() && o.is_map() && o.has_key_string("q")) {
              q = o.get_key_string("q");
              if (!(o.has_key_map("a") && o.get_key("a").has_key_string("id") && o.get_key("a").get_key_string("id") == own)) q += "!not-our-id";
            } else if (o.is_map() && o.has_key_string("y")) q = "y=" + o.get_key_string("y");
          } catch (bencode_error&) {}
          qs.push_back(q + "@" + std::to_string(k));
        }
        std::sort(qs.begin(), qs.end());
        for (auto& q : qs) { if (!e.empty()) e += ','; e += q; }
        if (e.empty()) e = "-";
      }
      out = e;
    }
  } catch (internal_error& e) { out += std::string(" ERR:internal:") + us(e.what());
  } catch (std::exception& e) { out += std::string(" ERR:other:") + us(e.what()); }
  try { r->stop(); r.reset(); } catch (std::exception& e) { out += std::string(" cleanup-ERR:") + us(e.what()); r.release(); }
  close_socks();
  return out;
}

// ------------------------------------------------------------------ a whole find_node search
//   DS <own 40hex> <target 40hex> I<id40>:<k>… ( E<id40>:<k> (R<id40>:<k> | X<hex>)* )*
// I = nodes the routing table knows before the search starts (scripted socket 127.0.0.<k>); every E is a reply of
// node <id> (from its socket, with the transaction id of the outstanding query there) whose compact `nodes` string
// is built from the R / X tokens.  Output: per step the find_node queries that arrive at the scripted sockets.
static std::string run_ds(const std::vector<std::string>& t) {
  std::string own = unhex(t.at(1)), target = unhex(t.at(2));
  if (own.size() != 20 || target.size() != 20) return "BADCASE";
  ThreadMain::thread_main()->set_cached_time(std::chrono::seconds(400ll * 86400));
  Object cache = Object::create_map();
  cache.insert_key("self_id", own);
  std::unique_ptr<DhtRouter> r(new DhtRouter(cache));
  r->start(pick_port());
  sockaddr_in srv{};
  socklen_t sl = sizeof srv;
  getsockname(r->m_server.file_descriptor(), reinterpret_cast<sockaddr*>(&srv), &sl);
  sockaddr_in dst = mk_sin(0x7f000001, ntohs(srv.sin_port));
  auto sock_addr = [&](int k) { sockaddr_in a{}; socklen_t l = sizeof a; getsockname(script_sock(0x7f000000 + k), reinterpret_cast<sockaddr*>(&a), &l); return a; };
  std::map<std::string, int> idk;
  for (size_t i = 3; i < t.size(); i++)
    if (t[i][0] == 'I' || t[i][0] == 'R' || t[i][0] == 'E') {
      size_t c = t[i].find(':');
      idk.emplace(t[i].substr(1, c - 1), std::stoi(t[i].substr(c + 1)));
    }
  std::map<int, std::string> outstanding;
  std::string out;
  auto step = [&](bool do_read) -> std::string {
    std::string e;
    try {
      if (do_read) r->m_server.event_read();
      if (!r->m_server.m_highQueue.empty() || !r->m_server.m_lowQueue.empty()) r->m_server.event_write();
    } catch (internal_error& ex) { return std::string("ERR:internal:") + us(ex.what());
    } catch (bencode_error& ex) { return "ERR:bencode";
    } catch (std::exception& ex) { return std::string("ERR:other:") + us(ex.what()); }
    std::vector<std::string> qs;
    for (auto& [sip, sfd] : g_socks) {
      char buf[4096];
      while (true) {
        sockaddr_in from{};
        socklen_t fl = sizeof from;
        ssize_t n = recvfrom(sfd, buf, sizeof buf, 0, reinterpret_cast<sockaddr*>(&from), &fl);
        if (n < 0) break;
        if (from.sin_port != srv.sin_port) continue;
        int k = (int)(sip & 0xff);
        Object o;
        std::string q = "undecodable";
        try {
          if (object_read_bencode_c(buf, buf + n, &o) == buf + n && o.is_map() && o.has_key_string("q")) {
            q = o.get_key_string("q");
            if (!(o.has_key_map("a") && o.get_key("a").has_key_string("id") && o.get_key("a").get_key_string("id") == own)) q += "!not-our-id";
            if (q == "find_node" && o.has_key_string("t")) outstanding[k] = o.get_key_string("t");
          } else if (o.is_map() && o.has_key_string("y")) q = "y=" + o.get_key_string("y");
        } catch (bencode_error&) {}
        qs.push_back(q + "@" + std::to_string(k));
      }
    }
    std::sort(qs.begin(), qs.end());
    for (auto& q : qs) { if (!e.empty()) e += ','; e += q; }
    return e.empty() ? "-" : e;
  };
  try {
    size_t i = 3;
    for (; i < t.size() && t[i][0] == 'I'; i++) {
      size_t c = t[i].find(':');
      sockaddr_in a = sock_addr(std::stoi(t[i].substr(c + 1)));
      HashString id;
      id.assign(unhex(t[i].substr(1, c - 1)).data());
      r->node_replied(id, reinterpret_cast<const sockaddr*>(&a));
    }
    for (auto& kv : idk) sock_addr(kv.second);
    step(false);
    outstanding.clear();
    HashString tg;
    tg.assign(target.data());
    r->m_server.find_node(*r->bucket(), tg);
    out = step(false);
    while (i < t.size() && out.find("ERR:") == std::string::npos) {
      if (t[i][0] != 'E') { out += " BADCASE"; break; }
      std::string idhex = t[i].substr(1, t[i].find(':') - 1);
      i++;
      std::string nodes;
      for (; i < t.size() && t[i][0] != 'E'; i++) {
        if (t[i][0] == 'R') {
          size_t c = t[i].find(':');
          sockaddr_in a = sock_addr(std::stoi(t[i].substr(c + 1)));
          nodes += unhex(t[i].substr(1, c - 1));
          nodes += std::string(reinterpret_cast<const char*>(&a.sin_addr.s_addr), 4);
          nodes += std::string(reinterpret_cast<const char*>(&a.sin_port), 2);
        } else if (t[i][0] == 'X') nodes += unhex(t[i].substr(1));
        else { out += " BADCASE"; break; }
      }
      auto ki = idk.find(idhex);
      if (ki == idk.end()) { out += " BADCASE"; break; }
      int k = ki->second;
      std::string tid = outstanding.count(k) ? outstanding[k] : std::string("\xee");
      outstanding.erase(k);
      std::string reply = "d1:rd2:id20:" + unhex(idhex) + "5:nodes" + std::to_string(nodes.size()) + ":" + nodes + "e1:t" +
                          std::to_string(tid.size()) + ":" + tid + "1:y1:re";
      if (sendto(script_sock(0x7f000000 + k), reply.data(), reply.size(), 0, reinterpret_cast<sockaddr*>(&dst), sizeof dst) != (ssize_t)reply.size())
        throw std::runtime_error("sendto");
      out += " ; " + step(true);
    }
  } catch (internal_error& e) { out += std::string(" ERR:internal:") + us(e.what());
  } catch (std::exception& e) { out += std::string(" ERR:other:") + us(e.what()); }
  try { r->stop(); r.reset(); } catch (std::exception& e) { out += std::string(" cleanup-ERR:") + us(e.what()); r.release(); }
  close_socks();
  return out;
}

// ------------------------------------------------------------------ PeerList with PeerInfo entries
//   PI <max> <now> ops…   I <6- or 18-byte record hex> <flags 0|1>   PeerList::insert_address(sa, flags)
//                         S <ip hex> <connected 0|1> <last_handshake> harness set-up of an existing PeerInfo
//                         N <now>                                     set cached_seconds
//                         T/X/B/R as in the PL cases of harness/c14.cc
static sa_inet_union rec_addr(const std::string& b) {
  AddressList l;
  if (b.size() == 6) l.parse_address_compact(b);
  else if (b.size() == 18) l.parse_address_compact_ipv6(b);
  if (l.size() != 1) throw std::runtime_error("addr");
  return l[0];
}

static std::string run_pi(const std::vector<std::string>& t) {
  PeerList pl;
  pl.m_available_list->set_max_size(std::stoul(t.at(1)));
  ThreadMain::thread_main()->set_cached_time(std::chrono::seconds(std::stoll(t.at(2))));
  std::string rets;
  auto add_ret = [&](uint32_t r) { if (!rets.empty()) rets += ','; rets += std::to_string(r); };
  auto find_pi = [&](const std::string& iphex) -> PeerInfo* {
    for (auto& kv : pl) {
      auto sa = kv.second->socket_address();
      sa_inet_union u = sa_inet_union_from_sa(sa);
      std::string ip = u.sa.sa_family == AF_INET ? hexn(reinterpret_cast<const unsigned char*>(&u.inet.sin_addr.s_addr), 4)
                                                 : hexn(u.inet6.sin6_addr.s6_addr, 16);
      if (ip == iphex) return kv.second.get();
    }
    return nullptr;
  };
  for (size_t i = 3; i < t.size();) {
    const std::string& op = t.at(i++);
    if (op == "I") {
      sa_inet_union u = rec_addr(unhex(t.at(i++)));
      int flags = std::stoi(t.at(i++)) ? PeerList::address_available : 0;
      pl.insert_address(&u.sa, flags);
    } else if (op == "S") {
      PeerInfo* p = find_pi(t.at(i));
      bool conn = t.at(i + 1) == "1";
      uint32_t lh = std::stoul(t.at(i + 2));
      i += 3;
      if (p != nullptr) {
        p->set_connection(conn ? reinterpret_cast<PeerConnectionBase*>(8) : nullptr);
        p->set_last_handshake(lh);
      }
    } else if (op == "N") {
      ThreadMain::thread_main()->set_cached_time(std::chrono::seconds(std::stoll(t.at(i++))));
    } else if (op == "X") {
      exact_buf b(unhex(t.at(i++)));
      add_ret(pl.insert_pex_list(raw_string(b.p, b.n)));
    } else {
      exact_buf b4(unhex(t.at(i++)));
      std::string s6 = unhex(t.at(i++));
      AddressList l;
      l.parse_address_compact(raw_string(b4.p, b4.n));
      l.parse_address_compact_ipv6(s6);
      if (op == "T") l.sort_and_unique();
      else if (op == "B") l.sort();
      else if (op != "R") return "BADCASE";
      add_ret(pl.insert_available(&l));
    }
  }
  std::vector<std::string> pis;
  for (auto& kv : pl) {
    PeerInfo* p = kv.second.get();
    sa_inet_union u = sa_inet_union_from_sa(p->socket_address());
    std::string ip = u.sa.sa_family == AF_INET ? "4." + hexn(reinterpret_cast<const unsigned char*>(&u.inet.sin_addr.s_addr), 4)
                                               : "6." + hexn(u.inet6.sin6_addr.s6_addr, 16);
    pis.push_back(ip + "/" + std::to_string(p->listen_port()) + "/" + std::to_string(sa_port(p->socket_address())) + "/" +
                  (p->connection() != nullptr ? "1" : "0") + "/" + std::to_string(p->last_handshake()));
    p->set_connection(nullptr);
  }
  std::sort(pis.begin(), pis.end());
  std::string ps;
  for (auto& x : pis) { if (!ps.empty()) ps += ','; ps += x; }
  auto av = pl.m_available_list.get();
  ThreadMain::thread_main()->set_cached_time(std::chrono::seconds(400ll * 86400));
  return "OK ret=" + (rets.empty() ? std::string("-") : rets) + " avail=" + show_addrs(av->begin(), av->end()) + " pi=" + (ps.empty() ? "-" : ps);
}

// ------------------------------------------------------------------ main

static void on_alarm(int) {
  static const char msg[] = "\nTIMEOUT: C14 watchdog expired (a call blocked)\n";
  (void)!write(2, msg, sizeof(msg) - 1);
  _exit(3);
}

int main() {
  std_setup();
  signal(SIGALRM, on_alarm);
  torrent::initialize_main_thread();
  torrent::initialize();
  std::string line;
  while (std::getline(std::cin, line)) {
    auto t = split_ws(line);
    alarm(20);
    try {
      if (t.size() >= 2 && t[0] == "DH") std::cout << run_dh(t) << "\n";
      else if (t.size() == 2 && t[0] == "DV") std::cout << run_dv(unhex(t[1])) << "\n";
      else if (t.size() >= 4 && t[0] == "DS") std::cout << run_ds(t) << "\n";
      else if (t.size() >= 8 && t[0] == "DF") std::cout << run_df(t) << "\n";
      else if (t.size() >= 3 && t[0] == "PI") std::cout << run_pi(t) << "\n";
      else std::cout << "BADCASE\n";
    } catch (internal_error& e) {
      std::cout << "ERR:internal " << e.what() << "\n";
    } catch (bencode_error& e) {
      std::cout << "ERR:bencode " << e.what() << "\n";
    } catch (std::exception& e) {
      std::cout << "ERR:other " << e.what() << "\n";
    }
    alarm(0);
  }
  return 0;
}
