// C03 implementation driver: hostile byte streams against a real PeerConnection<type> through the
// session harness. Same case protocol as ocaml/c03_driver.ml.
//
// EXACT cases (compared with the model, one digest per segmentation):
//   role=<leech|leechdone|seed|iseed|meta> np=<n> bits=<01..|-> pre=<0|1> cu=1 xv=<..> ho=<hex|-> stream=<hex|-> segs=k<cap>:<len>,..[/...]
//   For every segmentation a FRESH connection from a fresh loopback address:
//     handshake (+ BITFIELD if bits, + `ho` bytes if given, else + keep-alive), optional INTERESTED
//     + 11 s (pre=1); then the library's WRITE side is held in ProtocolWrite::MSG (send budget 0
//     and one keep-alive queued through the library's own receive_keepalive()), so that no
//     fill_write_buffer() runs between the reads: the read side is then a pure function of the
//     bytes. The stream is delivered segment by segment (step() after each), recv capped at <cap>.
//     Digest D1 (compared with the model):
//       closed=1 | closed=0 bits= q= u= upq= du= st=<IDLE|SKIP:n|EXT:n> buf=<unread bytes in m_down>
//     then the writer is released and the peer reads everything: D2 (after " || ", compared across
//     segmentations by the glue): alive= resp=<P:i:o:l:ok,...,C0/C1>
//   After the case the HEALTHY peer of that torrent (connected once, unchoked) requests a block and
//   must get exactly the content: " ;; healthy=OK".
// FREE cases (safety only, not compared with the model; model prints FREE):
//   mode=free v=<n> ops=<op>,<op>,...   on a fresh small leeching torrent; the peer claims all pieces.
//     B<hex> send bytes   S step+read   U send UNCHOKE   A<k> answer every REQUEST received so far
//     with PIECE variant k (0 good data, 1 corrupt data, 2 length-1, 3 zero length, 4 header only then
//     garbage, 5 good data in two halves with a step between, 6 length+1)   T<sec> advance virtual time
//   Output: FREE || alive= done=<completed bits> healthy=..
#include "config.h"

#include <map>
#include <sys/stat.h>

#include "common/session.h"
#include "common/wirepeer.h"
#include "common/msepeer.h"
#include "data/chunk_list.h"
#include "protocol/extensions.h"
#include "torrent/data/file_list.h"
#include "protocol/peer_connection_base.h"
#include "protocol/peer_connection_metadata.h"
#include "protocol/request_list.h"
#include "torrent/data/block_transfer.h"
#include "torrent/exceptions.h"

using namespace ltv;

static uint32_t g_conn_no = 0;
static uint32_t g_free_no = 0;

struct RoleCtx {
  Torrent* T = nullptr;
  std::unique_ptr<WirePeer> healthy;
  uint32_t healthy_reconnects = 0;
};
static std::map<std::string, RoleCtx> g_roles;

static std::string fresh_ip() {
  g_conn_no++;
  uint32_t n = g_conn_no;
  std::string ip = "127." + std::to_string(1 + (n >> 16) % 100) + "." + std::to_string((n >> 8) & 255) + "." + std::to_string(n & 255);
  if ((n & 255) == 0 || (n & 255) == 255 || (((n >> 16) % 100) == 0 && ((n >> 8) & 255) == 0 && (n & 255) < 8))
    ip = "127.101." + std::to_string((n >> 8) & 255) + "." + std::to_string(1 + n % 250);
  return ip;
}

// Session::find_connection keys on the remote PORT only; the kernel may hand the same ephemeral port to
// sockets bound to different loopback addresses. Make sure a hostile peer never shares its port with a
// healthy one.
static bool connect_hostile(Session& S, WirePeer& P, Torrent* extra_T = nullptr, WirePeer* extra_H = nullptr) {
  for (int attempt = 0; attempt < 8; attempt++) {
    if (!P.connect_to(S.listen_port(), fresh_ip().c_str(), 1 << 20, 0)) return false;
    uint16_t port = P.local_port();
    bool clash = extra_H != nullptr && extra_H->local_port() == port;
    for (auto& kvp : g_roles)
      if (kvp.second.healthy && kvp.second.healthy->local_port() == port) clash = true;
    if (!clash) return true;
    P.close_all();
    S.step();
  }
  return false;
}

static std::string peer_id(uint32_t n) {
  char idbuf[21];
  snprintf(idbuf, sizeof idbuf, "-LV0003-%012u", n);
  return std::string(idbuf, 20);
}

static void drop_messages(WirePeer& P) {
  WireMsg m;
  while (P.next_message(m)) {}
}

static bool connect_healthy(Session& S, RoleCtx& rc) {
  rc.healthy = std::make_unique<WirePeer>();
  WirePeer& H = *rc.healthy;
  std::string ip = "127.0.0." + std::to_string(2 + (rc.healthy_reconnects % 200));
  rc.healthy_reconnects++;
  if (!H.connect_to(S.listen_port(), ip.c_str())) return false;
  H.send_bytes(WirePeer::handshake(rc.T->info_hash, peer_id(900000 + g_conn_no + rc.healthy_reconnects)) + WirePeer::keepalive());
  pump(S, {&H});
  HandshakeIn hs;
  if (!H.take_handshake(hs)) return false;
  H.send_bytes(WirePeer::interested());
  pump(S, {&H});
  S.advance_us(11 * 1000000);
  pump(S, {&H});
  drop_messages(H);
  return true;
}

static uint32_t g_torrent_no = 0;

// A magnet-style metadata download: { info: { meta_download: 1, name, pieces: <info hash> } }, the object
// DownloadConstructor::parse_magnet_uri builds. Connections are PeerConnectionMetadata.
static void make_meta(Session& S, RoleCtx& rc) {
  g_torrent_no++;
  auto t = std::make_unique<Torrent>();
  t->spec.name = "c03_meta_" + std::to_string(g_torrent_no);
  std::string hash(20, '\0');
  for (int i = 0; i < 20; i++) hash[i] = (char)content_byte(7000 + g_torrent_no, i);
  t->info_hash = hash;
  std::string name = t->spec.name + ".meta";
  std::string tfile = "d4:infod13:meta_downloadi1e4:name" + std::to_string(name.size()) + ":" + name + "6:pieces20:" + hash + "ee";
  t->dl = S.add_raw(tfile);
  t->root = S.scratch() + "/" + t->spec.name;
  ::mkdir(t->root.c_str(), 0755);
  t->dl.file_list()->set_root_dir(t->root);
  t->dl.open(0);
  t->dl.hash_check(false);
  torrent::Download d = t->dl;
  if (!S.settle([d]() { return d.is_hash_checked(); }, 30000)) throw std::runtime_error("meta hash check did not complete");
  t->dl.set_connection_type(torrent::Download::CONNECTION_LEECH);   // meta download: installs the metadata factory
  rc.T = t.get();
  S.m_torrents.push_back(std::move(t));
  S.start(rc.T);
  // healthy peer: extension capable, advertises ut_metadata in the handshake phase
  rc.healthy = std::make_unique<WirePeer>();
  WirePeer& H = *rc.healthy;
  std::string ip = "127.0.1." + std::to_string(2 + (rc.healthy_reconnects++ % 200));
  if (!H.connect_to(S.listen_port(), ip.c_str())) throw std::runtime_error("healthy meta peer could not connect");
  H.send_bytes(WirePeer::handshake(rc.T->info_hash, peer_id(800000 + g_torrent_no), WirePeer::reserved_ext()) +
               WirePeer::extended(0, "d1:md11:ut_metadatai3eee") + WirePeer::keepalive());
  pump(S, {&H});
  HandshakeIn hs;
  if (!H.take_handshake(hs)) throw std::runtime_error("healthy meta peer: no handshake");
  drop_messages(H);
}

static void make_role(Session& S, RoleCtx& rc, const std::string& role, uint32_t np) {
  if (role == "meta") { make_meta(S, rc); return; }
  TorrentSpec spec;
  g_torrent_no++;
  spec.name = "c03_" + role + "_" + std::to_string(g_torrent_no);
  spec.piece_length = 16384;
  spec.content_seed = 30 + g_torrent_no;
  spec.files = {{"a.bin", 40000}, {"d/b.bin", (uint64_t)(np - 1) * 16384 + 5000 - 40000}};
  if (role == "leech") spec.corrupt_pieces = {2, 5};
  rc.T = S.add_torrent(spec);
  if (role == "seed") S.set_conn_type(rc.T, 1);
  if (role == "iseed") S.set_conn_type(rc.T, 2);
  S.start(rc.T);
  if (!connect_healthy(S, rc)) throw std::runtime_error("healthy peer could not connect");
}

static RoleCtx& get_role(Session& S, const std::string& role, uint32_t np) {
  auto it = g_roles.find(role);
  if (it != g_roles.end()) return it->second;
  RoleCtx& rc = g_roles[role];
  make_role(S, rc, role, np);
  return rc;
}

// The healthy peer asks for a block of piece 0 and must receive exactly the content.
static std::string healthy_check(Session& S, RoleCtx& rc, bool alive_only = false) {
  WirePeer& H = *rc.healthy;
  if (alive_only) {
    // initial seeding serves only the chunks it offered and drops requests for chunks it has seen on two
    // peers (the hostile ones count): the healthy peer is judged on its connection being kept
    H.send_bytes(WirePeer::keepalive());
    pump(S, {&H});
    if (!H.eof && S.find_connection(rc.T, H.local_port()) != nullptr) return "OK";
    connect_healthy(S, rc);
    return "FAIL:dropped";
  }
  uint32_t off = 64 * (g_conn_no % 100), len = 1000;
  drop_messages(H);
  H.send_bytes(WirePeer::request(0, off, len));
  pump(S, {&H});
  WireMsg m;
  bool ok = false;
  while (H.next_message(m))
    if (m.id == WirePeer::PIECE && m.body.size() == 8 + len && m.u32(0) == 0 && m.u32(4) == off &&
        m.body.compare(8, len, rc.T->range(0, off, len)) == 0)
      ok = true;
  if (ok) return "OK";
  std::string why = H.eof ? "FAIL:eof" : "FAIL:noanswer";
  // get a new healthy peer so that later cases are judged on their own
  connect_healthy(S, rc);
  return why;
}

static std::string state_str(torrent::PeerConnectionBase* pcb) {
  switch (pcb->m_down->get_state()) {
  case torrent::ProtocolBase::IDLE: return "IDLE";
  case torrent::ProtocolBase::READ_PIECE:
  case torrent::ProtocolBase::READ_SKIP_PIECE: {
    if (auto* md = dynamic_cast<torrent::PeerConnectionMetadata*>(pcb)) return "SKIP:" + std::to_string(md->m_skipLength);
    auto* t = pcb->m_request_list.transfer();
    if (t == nullptr) return "SKIP:?";
    return std::string(pcb->m_down->get_state() == torrent::ProtocolBase::READ_PIECE ? "PIECE:" : "SKIP:") +
           std::to_string(t->piece().length() - t->position());
  }
  case torrent::ProtocolBase::READ_EXTENSION: return "EXT:" + std::to_string(pcb->m_extensions->read_need());
  default: return "STATE" + std::to_string((int)pcb->m_down->get_state());
  }
}

static std::string digest(Session& S, Torrent* T, uint16_t port) {
  torrent::PeerConnectionBase* pcb = S.find_connection(T, port);
  if (pcb == nullptr) return "closed=1";
  std::string bits;
  auto* bf = pcb->m_peer_chunks.bitfield();
  for (uint32_t i = 0; i < bf->size_bits(); i++) bits.push_back(bf->get(i) ? '1' : '0');
  std::ostringstream o;
  o << "closed=0 bits=" << bits << " q=" << pcb->m_up_choke.queued() << " u=" << pcb->m_up_choke.unchoked()
    << " upq=" << S.dump_upload_queue(pcb) << " du=" << pcb->m_down_unchoked << " st=" << state_str(pcb)
    << " buf=" << pcb->m_down->buffer()->remaining();
  {
    // head of the unread bytes (for the oracle's "complete message left undispatched" clause; not compared with the model)
    auto* b = pcb->m_down->buffer();
    size_t n = std::min<size_t>(b->remaining(), 16);
    o << " pend=" << hex((const char*)b->position(), n);
  }
  return o.str();
}

static std::string responses(WirePeer& P, Torrent* T) {
  std::string msgs;
  WireMsg m;
  while (P.next_message(m)) {
    std::string one;
    if (m.id == WirePeer::CHOKE) one = "C1";
    else if (m.id == WirePeer::UNCHOKE) one = "C0";
    else if (m.id == WirePeer::PIECE && m.body.size() >= 8) {
      uint32_t i = m.u32(0), b = m.u32(4), l = (uint32_t)(m.body.size() - 8);
      bool ok = i < T->piece_count() && (uint64_t)b + l <= T->piece_size(i) && m.body.compare(8, l, T->range(i, b, l)) == 0;
      one = "P:" + std::to_string(i) + ":" + std::to_string(b) + ":" + std::to_string(l) + ":" + (ok ? "ok" : "BAD");
    } else if (m.id == WirePeer::EXTENDED) one = "X" + std::to_string(m.body.empty() ? -1 : (int)(unsigned char)m.body[0]);
    else continue;   // keep-alive, have, interested, request: not compared
    msgs += (msgs.empty() ? "" : ",") + one;
  }
  return msgs.empty() ? "-" : msgs;
}

// MSE negotiation of a scripted peer (initiator, RC4 only, IA = the BT handshake `bt`) with common/msepeer.h.
// On success P.rx holds the decrypted bytes the library sent after its negotiation reply; returns "" or an error.
static std::string mse_connect(Session& S, WirePeer& P, Torrent* T, std::unique_ptr<MseEnd>& mse, const std::string& bt) {
  mse = std::make_unique<MseEnd>(77000 + g_conn_no, true);
  P.send_bytes(mse->pubkey());
  pump(S, {&P});
  if (P.rx.size() < 96) return "ERR:mse-no-key";
  mse->set_remote_key(P.rx.substr(0, 96));
  mse->start_ciphers(T->info_hash);
  auto be16 = [](unsigned v) { char b[2] = {char(v >> 8), char(v)}; return std::string(b, 2); };
  std::string neg = std::string(8, '\0') + WirePeer::be32(2) + be16(0) + be16((unsigned)bt.size());
  std::string m2 = mse->req1() + mse->req2xor3(T->info_hash);
  m2 += mse->enc(neg);   // sequenced: both use the same keystream
  m2 += mse->enc(bt);
  P.send_bytes(m2);
  pump(S, {&P});
  std::string pat = mse->vc_pattern_in();
  size_t at = P.rx.find(pat, 96);
  if (at == std::string::npos || P.rx.size() < at + 14) return "ERR:mse-no-vc rx=" + std::to_string(P.rx.size()) + " eof=" + std::to_string(P.eof);
  std::string sel = mse->dec(P.rx.substr(at, 14));
  unsigned padd = ((unsigned char)sel[12] << 8) | (unsigned char)sel[13];
  if (P.rx.size() < at + 14 + padd) return "ERR:mse-short-pad";
  mse->dec(P.rx.substr(at + 14, padd));
  if ((unsigned char)sel[11] != 2) return "ERR:mse-select-" + std::to_string((int)(unsigned char)sel[11]);
  std::string rest = P.rx.substr(at + 14 + padd);
  P.rx = mse->dec(rest);
  return "";
}

struct Seg { uint32_t cap; std::vector<long> lens; };   // lens entry -1 = `w`: the write side becomes ready

static std::string run_one(Session& S, RoleCtx& rc, std::map<std::string, std::string>& kv, const Seg& seg, std::string& d2) {
  Torrent* T = rc.T;
  const std::string stream = unhex(kv["stream"]), ho = unhex(kv["ho"]);
  // healthy peers of every torrent say something (the library drops peers silent for 240 s of virtual time)
  if (rc.healthy && rc.healthy->fd != -1) rc.healthy->send_bytes(WirePeer::keepalive());
  for (auto& kvp : g_roles)
    if (kvp.second.healthy && kvp.second.healthy->fd != -1) kvp.second.healthy->send_bytes(WirePeer::keepalive());
  S.step();
  S.avoid_tick_within(30 * 1000000ll);
  WirePeer P;
  if (!connect_hostile(S, P, rc.T, rc.healthy.get())) return "ERR:connect";
  const bool meta = kv["role"] == "meta";
  // enc=1: the hostile peer negotiates MSE (initiator, RC4 only) with the independent implementation in
  // common/msepeer.h; everything after the negotiation, the BT handshake included, is RC4 encrypted.
  const bool want_enc = kv.count("enc") && kv["enc"] == "1";
  std::unique_ptr<MseEnd> mse;
  bool enc_active = false;
  auto tx = [&](const std::string& b) { P.send_bytes(enc_active ? mse->enc(b) : b); };
  auto epump = [&]() {
    size_t before = P.rx.size();
    pump(S, {&P});
    if (enc_active && P.rx.size() > before) {
      std::string c = P.rx.substr(before);
      P.rx.replace(before, std::string::npos, mse->dec(c));
    }
  };
  std::string bt = WirePeer::handshake(T->info_hash, peer_id(g_conn_no), meta ? WirePeer::reserved_ext() : std::string(8, '\0'));
  std::string after_bt;
  if (kv["bits"] != "-") after_bt += WirePeer::bitfield(kv["bits"]);
  else if (ho.empty()) after_bt += WirePeer::keepalive();
  after_bt += ho;
  if (want_enc) {
    std::string merr = mse_connect(S, P, T, mse, bt);
    if (!merr.empty()) return merr;
    enc_active = true;
    tx(after_bt);
  } else {
    P.send_bytes(bt + after_bt);
  }
  epump();
  HandshakeIn hs;
  if (!P.take_handshake(hs) || hs.info_hash != T->info_hash) return "ERR:handshake";
  uint16_t port = P.local_port();
  torrent::PeerConnectionBase* pcb = S.find_connection(T, port);
  if (pcb == nullptr) { d2 = "alive=0 resp=-"; return "closed=1"; }
  if (want_enc && !pcb->is_encrypted()) return "ERR:mse-not-encrypted";
  if (kv["pre"] == "1") {
    tx(WirePeer::interested());
    epump();
    S.advance_us(11 * 1000000);
    epump();
  }
  drop_messages(P);
  // hold the write side in ProtocolWrite::MSG
  pcb = S.find_connection(T, port);
  if (pcb == nullptr) return "ERR:lost-before-stream";
  Session::set_send_budget(port, 0);
  pcb->receive_keepalive();
  S.step();
  pcb = S.find_connection(T, port);
  if (pcb == nullptr) return "ERR:lost-before-stream";
  if (pcb->m_up->get_state() != torrent::ProtocolBase::MSG) return "ERR:writer-not-held";
  if (seg.cap) Session::set_recv_chunk(port, seg.cap);
  size_t pos = 0;
  for (long n : seg.lens) {
    if (n < 0) {
      // write-ready: release the writer, let everything pending go out (the peer reads it), hold it again
      Session::set_send_budget(port, -1);
      Session::set_recv_chunk(port, 0);
      epump();
      torrent::PeerConnectionBase* q = S.find_connection(T, port);
      if (q == nullptr) break;
      Session::set_send_budget(port, 0);
      q->receive_keepalive();
      S.step();
      if (seg.cap) Session::set_recv_chunk(port, seg.cap);
      continue;
    }
    tx(stream.substr(pos, n));
    pos += n;
    for (int i = 0; i < 1000 && !P.tx_pending.empty() && !P.eof; i++) { S.step(); P.flush(); }
    S.step();
  }
  S.step();
  if (kv.count("eof") && kv["eof"] == "1") {
    // remote close after the last byte: the next recv on the drained socket sees EOF
    P.shutdown_write();
    for (int i = 0; i < 4; i++) S.step();
  }
  std::string d1 = digest(S, T, port);
  // release the writer, read what comes back
  Session::set_send_budget(port, -1);
  Session::set_recv_chunk(port, 0);
  epump();
  bool alive = S.find_connection(T, port) != nullptr;
  d2 = std::string("alive=") + (alive ? "1" : "0") + " resp=" + responses(P, T);
  P.close_all();
  pump(S, {});
  Session::clear_io_limits();
  return d1;
}

static std::string run_exact(Session& S, std::map<std::string, std::string>& kv) {
  // Initial seeding keeps per-torrent state about WHICH PEERS have announced which chunk (a chunk seen on
  // two different peers is "done" and requests for it are dropped): deliveries from successive fresh peers on
  // one torrent are not independent. Every initial-seed delivery therefore gets its own torrent and its own
  // healthy peer; the other roles share one torrent per role.
  const bool per_delivery = kv["role"] == "iseed" || kv["role"] == "meta";   // meta: a metadata_size in the stream sets the torrent size
  uint32_t np = std::stoul(kv["np"]);
  RoleCtx* shared = per_delivery ? nullptr : &get_role(S, kv["role"], np);
  std::string out, out2, healthy = "OK";
  const std::string& segs = kv["segs"];
  size_t p = 0;
  while (p <= segs.size()) {
    size_t q = segs.find('/', p);
    std::string tok = segs.substr(p, q == std::string::npos ? std::string::npos : q - p);
    Seg sg;
    size_t c = tok.find(':');
    if (tok.size() < 3 || tok[0] != 'k' || c == std::string::npos) return "BADCASE";
    sg.cap = std::stoul(tok.substr(1, c - 1));
    size_t a = c + 1;
    while (a < tok.size()) {
      size_t b = tok.find(',', a);
      std::string t = tok.substr(a, b == std::string::npos ? std::string::npos : b - a);
      if (!t.empty()) sg.lens.push_back(t == "w" ? -1L : (long)std::stoul(t));
      if (b == std::string::npos) break;
      a = b + 1;
    }
    std::string d1, d2;
    if (per_delivery) {
      RoleCtx rc;
      make_role(S, rc, kv["role"], np);
      d1 = run_one(S, rc, kv, sg, d2);
      std::string hc = healthy_check(S, rc, true);
      if (hc != "OK") healthy = hc;
      rc.healthy->close_all();
      pump(S, {});
      S.remove(rc.T);
    } else {
      d1 = run_one(S, *shared, kv, sg, d2);
    }
    out += (out.empty() ? "" : " / ") + d1;
    out2 += (out2.empty() ? "" : " / ") + d2;
    if (q == std::string::npos) break;
    p = q + 1;
  }
  if (!per_delivery) healthy = healthy_check(S, *shared, kv["role"] == "meta");
  return out + " || " + out2 + " ;; healthy=" + healthy;
}

// ------------------------------------------------------------------------------------------
static std::string run_free(Session& S, std::map<std::string, std::string>& kv) {
  g_free_no++;
  RoleCtx rc;
  TorrentSpec spec;
  spec.name = "c03f_" + std::to_string(g_free_no);
  spec.piece_length = 16384;
  spec.content_seed = 100 + g_free_no;
  spec.files = {{"f.bin", 3 * 16384 + 700}};
  spec.corrupt_pieces = {1, 3};
  if (kv["ops"].find("H") != std::string::npos) spec.corrupt_pieces = {1};   // three peers on ONE missing block
  rc.T = S.add_torrent(spec);
  Torrent* T = rc.T;
  S.start(T);
  if (!connect_healthy(S, rc)) return "FREE || ERR:healthy-connect";
  S.avoid_tick_within(120 * 1000000ll);
  WirePeer P;
  if (!connect_hostile(S, P, T, rc.healthy.get())) return "FREE || ERR:connect";
  P.send_bytes(WirePeer::handshake(T->info_hash, peer_id(g_conn_no)) + WirePeer::bitfield("1111"));
  pump(S, {&P});
  HandshakeIn hs;
  if (!P.take_handshake(hs)) return "FREE || ERR:handshake";
  uint16_t port = P.local_port();
  std::vector<std::array<uint32_t, 3>> reqs;
  std::string endgame_note;
  auto collect = [&]() {
    WireMsg m;
    while (P.next_message(m))
      if (m.id == WirePeer::REQUEST && m.body.size() == 12) reqs.push_back({m.u32(0), m.u32(4), m.u32(8)});
  };
  const std::string& ops = kv["ops"];
  size_t p = 0;
  while (p < ops.size()) {
    size_t q = ops.find(',', p);
    std::string op = ops.substr(p, q == std::string::npos ? std::string::npos : q - p);
    p = q == std::string::npos ? ops.size() : q + 1;
    if (op.empty()) continue;
    char k = op[0];
    std::string arg = op.substr(1);
    if (k == 'B') { P.send_bytes(unhex(arg)); }
    else if (k == 'S') { pump(S, {&P}); collect(); }
    else if (k == 'U') { P.send_bytes(WirePeer::unchoke()); pump(S, {&P}); collect(); }
    else if (k == 'T') { S.advance_us(std::stoll(arg) * 1000000ll); pump(S, {&P}); collect(); }
    else if (k == 'G') {
      // endgame takeover, G<a>:<b>:<c>: a SECOND peer Q (all pieces, unchokes) is asked for the same blocks (4 pieces:
      // the delegator is aggressive from the start). P sends the header of a common block X + a bytes, Q the header of X +
      // b bytes (b > a: Q's non-leading transfer compares equal, overtakes and becomes leader in the middle of the
      // block), then Q sends c more bytes in a later read, then both send the rest.
      unsigned a = 0, b = 0, c = 0;
      if (sscanf(arg.c_str(), "%u:%u:%u", &a, &b, &c) != 3) return "FREE || BADCASE";
      WirePeer Q;
      if (!connect_hostile(S, Q, T, rc.healthy.get())) return "FREE || ERR:connect2";
      Q.send_bytes(WirePeer::handshake(T->info_hash, peer_id(g_conn_no)) + WirePeer::bitfield("1111"));
      pump(S, {&P, &Q});
      HandshakeIn hq;
      if (!Q.take_handshake(hq)) return "FREE || ERR:handshake2";
      P.send_bytes(WirePeer::unchoke());
      Q.send_bytes(WirePeer::unchoke());
      pump(S, {&P, &Q});
      collect();
      std::vector<std::array<uint32_t, 3>> rq;
      { WireMsg m; while (Q.next_message(m)) if (m.id == WirePeer::REQUEST && m.body.size() == 12) rq.push_back({m.u32(0), m.u32(4), m.u32(8)}); }
      bool found = false;
      std::array<uint32_t, 3> X{};
      for (auto& r1 : reqs) { for (auto& r2 : rq) if (r1 == r2) { X = r1; found = true; break; } if (found) break; }
      if (!found && !reqs.empty()) {
        // P delivers what it was asked for; the only thing left to ask P for is then what Q was asked for
        auto r0 = reqs[0];
        reqs.clear();
        P.send_bytes(WirePeer::piece(r0[0], r0[1], T->range(r0[0], r0[1], r0[2])));
        pump(S, {&P, &Q});
        S.settle([&]() { return false; }, 20);
        pump(S, {&P, &Q});
        collect();
        { WireMsg m; while (Q.next_message(m)) if (m.id == WirePeer::REQUEST && m.body.size() == 12) rq.push_back({m.u32(0), m.u32(4), m.u32(8)}); }
        for (auto& r1 : reqs) { for (auto& r2 : rq) if (r1 == r2) { X = r1; found = true; break; } if (found) break; }
      }
      if (!found) { endgame_note = " nocommon(" + std::to_string(reqs.size()) + "," + std::to_string(rq.size()) + ")"; continue; }
      uint32_t len = X[2];
      a = std::min(a, len); b = std::min(std::max(b, a), len); c = std::min(c, len - b);
      std::string data = T->range(X[0], X[1], len);
      std::string hdr = WirePeer::raw(9 + len, std::string(1, char(7)) + WirePeer::be32(X[0]) + WirePeer::be32(X[1]));
      P.send_bytes(hdr + data.substr(0, a));
      pump(S, {&P, &Q});
      Q.send_bytes(hdr + data.substr(0, b));
      pump(S, {&P, &Q});
      Q.send_bytes(data.substr(b, c));
      pump(S, {&P, &Q});
      Q.send_bytes(data.substr(b + c));
      pump(S, {&P, &Q});
      P.send_bytes(data.substr(a));
      pump(S, {&P, &Q});
      endgame_note = " takeover(" + std::to_string(X[0]) + ":" + std::to_string(X[1]) + ":" + std::to_string(len) + ")";
      reqs.clear();
      Q.close_all();
      pump(S, {&P});
    }
    else if (k == 'H') {
      // endgame with THREE peers on the same block and the leader going away, H<a>:<b>:<c>:<order>: P sends the
      // header of the (only missing) block + a bytes (leader), Q header + b bytes, R header + c bytes (followers at
      // different compared positions), P's connection is closed in the middle of its PIECE, then the followers go on,
      // order 0: R first, then Q; order 1: Q first, then R.
      unsigned a = 0, b = 0, c = 0, order = 0;
      if (sscanf(arg.c_str(), "%u:%u:%u:%u", &a, &b, &c, &order) != 4) return "FREE || BADCASE";
      WirePeer Q, R;
      if (!connect_hostile(S, Q, T, rc.healthy.get())) return "FREE || ERR:connect2";
      Q.send_bytes(WirePeer::handshake(T->info_hash, peer_id(g_conn_no)) + WirePeer::bitfield("1111"));
      if (!connect_hostile(S, R, T, rc.healthy.get())) return "FREE || ERR:connect3";
      R.send_bytes(WirePeer::handshake(T->info_hash, peer_id(g_conn_no)) + WirePeer::bitfield("1111"));
      pump(S, {&P, &Q, &R});
      HandshakeIn hq;
      if (!Q.take_handshake(hq) || !R.take_handshake(hq)) return "FREE || ERR:handshake23";
      P.send_bytes(WirePeer::unchoke()); pump(S, {&P, &Q, &R});
      Q.send_bytes(WirePeer::unchoke()); pump(S, {&P, &Q, &R});
      R.send_bytes(WirePeer::unchoke()); pump(S, {&P, &Q, &R});
      collect();
      auto reqs_of = [](WirePeer& W) {
        std::vector<std::array<uint32_t, 3>> v; WireMsg m;
        while (W.next_message(m)) if (m.id == WirePeer::REQUEST && m.body.size() == 12) v.push_back({m.u32(0), m.u32(4), m.u32(8)});
        return v;
      };
      auto rq = reqs_of(Q), rr = reqs_of(R);
      if (reqs.empty() || rq.empty() || rr.empty() || !(reqs[0] == rq[0]) || !(reqs[0] == rr[0])) {
        endgame_note = " nocommon3(" + std::to_string(reqs.size()) + "," + std::to_string(rq.size()) + "," + std::to_string(rr.size()) + ")";
        continue;
      }
      auto X = reqs[0];
      uint32_t len = X[2];
      a = std::min(a, len); b = std::min(b, len); c = std::min(c, len);
      std::string data = T->range(X[0], X[1], len);
      std::string hdr = WirePeer::raw(9 + len, std::string(1, char(7)) + WirePeer::be32(X[0]) + WirePeer::be32(X[1]));
      P.send_bytes(hdr + data.substr(0, a)); pump(S, {&P, &Q, &R});
      Q.send_bytes(hdr + data.substr(0, b)); pump(S, {&P, &Q, &R});
      R.send_bytes(hdr + data.substr(0, c)); pump(S, {&P, &Q, &R});
      P.close_all();                       // the leader truncates its PIECE: EOF
      pump(S, {&Q, &R});
      WirePeer* first = order == 0 ? &R : &Q;
      WirePeer* second = order == 0 ? &Q : &R;
      unsigned fo = order == 0 ? c : b, so = order == 0 ? b : c;
      first->send_bytes(data.substr(fo)); pump(S, {&Q, &R});
      second->send_bytes(data.substr(so)); pump(S, {&Q, &R});
      S.settle([&]() { return false; }, 30);
      pump(S, {&Q, &R});
      bool qa = S.find_connection(T, Q.local_port()) != nullptr, ra = S.find_connection(T, R.local_port()) != nullptr;
      endgame_note = " leaderdrop(" + std::to_string(X[0]) + ":" + std::to_string(X[1]) + ":" + std::to_string(len) + ") q=" + std::to_string(qa) + " r=" + std::to_string(ra);
      reqs.clear();
      Q.close_all(); R.close_all();
      pump(S, {});
    }
    else if (k == 'A') {
      int v = std::stoi(arg);
      collect();
      auto todo = reqs;
      reqs.clear();
      for (auto& r : todo) {
        uint32_t i = r[0], b = r[1], l = r[2];
        std::string data = (i < T->piece_count() && (uint64_t)b + l <= T->piece_size(i)) ? T->range(i, b, l) : std::string(l, 'x');
        switch (v) {
        case 0: P.send_bytes(WirePeer::piece(i, b, data)); break;
        case 1: data[data.size() / 2] ^= 0x41; P.send_bytes(WirePeer::piece(i, b, data)); break;
        case 2: P.send_bytes(WirePeer::piece(i, b, data.substr(0, data.size() - 1))); break;
        case 3: P.send_bytes(WirePeer::piece(i, b, std::string())); break;
        case 4: P.send_bytes(WirePeer::raw(9 + l, std::string(1, char(7)) + WirePeer::be32(i) + WirePeer::be32(b)));
                pump(S, {&P});
                P.send_bytes(WirePeer::have(0) + WirePeer::choke() + std::string(40, char(0xff)));
                break;
        case 5: {
          std::string whole = WirePeer::piece(i, b, data);
          P.send_bytes(whole.substr(0, 13 + l / 2));
          pump(S, {&P});
          P.send_bytes(whole.substr(13 + l / 2));
          break;
        }
        default: P.send_bytes(WirePeer::piece(i, b, data + "y")); break;
        }
        pump(S, {&P});
        collect();
      }
    } else return "FREE || BADCASE";
  }
  pump(S, {&P});
  // let the hash thread report finished pieces
  S.settle([&]() { return false; }, 30);
  pump(S, {&P});
  bool alive = S.find_connection(T, port) != nullptr;
  std::string res = std::string("FREE || alive=") + (alive ? "1" : "0") + " done=" + T->completed_bits() + endgame_note;
  // healthy peer: piece 0 is complete in this torrent too
  res += " healthy=" + healthy_check(S, rc);
  P.close_all();
  rc.healthy->close_all();
  pump(S, {});
  S.remove(T);
  return res;
}

// mode=freeup role=<seed|leechdone|iseed|leech> enc=<0|1> piece=<i> pause=<sec> again=<j>   (safety only)
// The client uploads: INTERESTED, REQUEST of a block of piece i (served), NOT_INTERESTED (choked), <pause> s of virtual
// time, INTERESTED again (unchoked when pause > 10 s), REQUEST of a block of piece j (j = i: the same chunk is still
// the connection's upload chunk). Plain or MSE/RC4.
static std::string run_freeup(Session& S, std::map<std::string, std::string>& kv) {
  const std::string role = kv["role"];
  const bool per = role == "iseed";
  RoleCtx local;
  RoleCtx* rcp;
  if (per) { make_role(S, local, role, 8); rcp = &local; } else rcp = &get_role(S, role, 8);
  RoleCtx& rc = *rcp;
  Torrent* T = rc.T;
  if (rc.healthy && rc.healthy->fd != -1) rc.healthy->send_bytes(WirePeer::keepalive());
  S.step();
  S.avoid_tick_within(60 * 1000000ll);
  WirePeer P;
  if (!connect_hostile(S, P, T, rc.healthy.get())) return "FREE || ERR:connect";
  std::unique_ptr<MseEnd> mse;
  bool enc_active = false;
  auto tx = [&](const std::string& b) { P.send_bytes(enc_active ? mse->enc(b) : b); };
  auto epump = [&]() {
    size_t before = P.rx.size();
    pump(S, {&P});
    if (enc_active && P.rx.size() > before) {
      std::string c = P.rx.substr(before);
      P.rx.replace(before, std::string::npos, mse->dec(c));
    }
  };
  std::string bt = WirePeer::handshake(T->info_hash, peer_id(g_conn_no));
  if (kv["enc"] == "1") {
    std::string merr = mse_connect(S, P, T, mse, bt);
    if (!merr.empty()) return "FREE || " + merr;
    enc_active = true;
    tx(WirePeer::keepalive());
  } else P.send_bytes(bt + WirePeer::keepalive());
  epump();
  HandshakeIn hs;
  if (!P.take_handshake(hs)) return "FREE || ERR:handshake";
  uint16_t port = P.local_port();
  uint32_t i = std::stoul(kv["piece"]), j = std::stoul(kv["again"]);
  long pause = std::stol(kv["pause"]);
  std::string resp;
  tx(WirePeer::interested());
  epump();
  S.advance_us(11 * 1000000);
  epump();
  tx(WirePeer::request(i, 0, 1000));
  epump();
  resp += responses(P, T);
  tx(WirePeer::not_interested());
  epump();
  S.advance_us(pause * 1000000ll);
  epump();
  tx(WirePeer::interested());
  epump();
  tx(WirePeer::request(j, 1000, 1000) + WirePeer::request(j, 3000, 500));
  epump();
  resp += "|" + responses(P, T);
  bool alive = S.find_connection(T, port) != nullptr;
  std::string res = std::string("FREE || alive=") + (alive ? "1" : "0") + " resp=" + resp + " healthy=" + healthy_check(S, rc, per);
  P.close_all();
  pump(S, {});
  if (per) { rc.healthy->close_all(); pump(S, {}); S.remove(T); }
  return res;
}

// mode=probe role=<r> np=<n> keys=h:<len>:<id>,x:<ty>:<elen>,...   -> "PROBE <key>=<0|1> ..."
// Which message headers make THIS implementation close the connection (what the property leaves open): each key is
// probed on a fresh connection by delivering just the header in one segment -- 5 bytes <len><id> for h-keys (nothing
// that depends on a message body can have been decided yet), 6 bytes <elen+2><20><ty> for x-keys (payload length 0
// is probed as 1: a complete message would involve the handler) -- and looking whether the connection is closed.
static std::string run_probe(Session& S, std::map<std::string, std::string>& kv) {
  std::string out = "PROBE";
  const std::string& keys = kv["keys"];
  size_t p = 0;
  while (p < keys.size()) {
    size_t q = keys.find(',', p);
    std::string key = keys.substr(p, q == std::string::npos ? std::string::npos : q - p);
    p = q == std::string::npos ? keys.size() : q + 1;
    if (key.size() < 5) continue;
    unsigned long long a = 0, b = 0;
    if (sscanf(key.c_str() + 2, "%llu:%llu", &a, &b) != 2) { out += " " + key + "=?"; continue; }
    std::string stream;
    if (key[0] == 'h') stream = WirePeer::be32((uint32_t)a) + std::string(1, char(b));
    else { uint64_t elen = b == 0 ? 1 : b; stream = WirePeer::be32((uint32_t)(elen + 2)) + std::string(1, char(20)) + std::string(1, char(a)); }
    std::map<std::string, std::string> k2 = {{"role", kv["role"]}, {"np", kv["np"]}, {"bits", "-"}, {"pre", "0"}, {"ho", "-"},
                                            {"stream", hex(stream)}, {"segs", "k0:" + std::to_string(stream.size())}};
    Seg sg; sg.cap = 0; sg.lens.push_back((long)stream.size());
    std::string d2, d1;
    if (kv["role"] == "iseed" || kv["role"] == "meta") {
      RoleCtx rc;
      make_role(S, rc, kv["role"], std::stoul(kv["np"]));
      d1 = run_one(S, rc, k2, sg, d2);
      rc.healthy->close_all();
      pump(S, {});
      S.remove(rc.T);
    } else {
      d1 = run_one(S, get_role(S, kv["role"], std::stoul(kv["np"])), k2, sg, d2);
    }
    out += " " + key + "=" + (d1.rfind("closed=1", 0) == 0 ? "1" : d1.rfind("closed=0", 0) == 0 ? "0" : "?");
  }
  return out;
}

static std::string run_case(Session& S, const std::string& line) {
  std::map<std::string, std::string> kv;
  for (auto& tok : split_ws(line)) {
    size_t e = tok.find('=');
    if (e != std::string::npos) kv[tok.substr(0, e)] = tok.substr(e + 1);
  }
  if (kv["mode"] == "free") return run_free(S, kv);
  if (kv["mode"] == "probe") return run_probe(S, kv);
  if (kv["mode"] == "freeup") return run_freeup(S, kv);
  if (!kv.count("role") || !kv.count("stream") || !kv.count("segs")) return "BADCASE";
  return run_exact(S, kv);
}

static void on_alarm(int) {
  static const char msg[] = "HANG per-case watchdog (30 s) expired\n";
  ssize_t r = ::write(1, msg, sizeof msg - 1);
  (void)r;
  _exit(4);
}

int main() {
  std_setup();
  signal(SIGALRM, on_alarm);
  std::unique_ptr<Session> S;
  std::string line;
  while (std::getline(std::cin, line)) {
    try {
      if (!S) S = std::make_unique<Session>();
      alarm(30);
      std::string res = run_case(*S, line);
      alarm(0);
      std::cout << res << "\n";
    } catch (torrent::internal_error& e) {
      std::cout << "ERR:internal " << e.what() << "\n";
      std::cout.flush();
      _exit(3);
    } catch (std::exception& e) {
      std::cout << "ERR:other " << e.what() << "\n";
    }
  }
  S.reset();
  return 0;
}
