// C12 session-level cross-check: the REAL PeerConnectionBase::up_chunk / node_quota / node_used /
// node_deactivate path under a global upload rate limit, through the session harness.
// A seeding torrent, one scripted wire peer that keeps requesting blocks, the virtual clock moved
// in small steps (the throttle's own tick task fires from the real scheduler), bytes received by
// the peer per step measured together with the real throttle state.
//
// Case:  rate=<B/s> secs=<n> step=<us> [change=<sec>:<rate>[,<sec>:<rate>...]] [slave=<B/s>] [idle=<secs>]
//   rate 0 = unlimited.  slave=<r>: the torrent uses a slave throttle of the global one with rate r.
// Output: one token per step  "<t_us>:<raw>:<pieces>:<un>:<o>:<ua>:<uu>:<nA>:<nI>:<lt>:<rate>"
//   t_us virtual time since the measurement began, raw = bytes the peer received in the step,
//   pieces = PIECE messages completed in the step; un/o/ua/uu/A/I: sum over root (+ slave) of
//   m_unused_quota, outstanding, unallocated, unused-unthrottled, |active|, |inactive|; lt = root
//   m_time_last_tick (us since start); rate = root max_rate; then Hof of the slave and the slave rate.
//   The first token is the state when the measurement begins.  Then " || total=<bytes> bad=<n>".
#include "config.h"

#include <filesystem>
#include <map>

#include "common/session.h"
#include "common/wirepeer.h"
#include "net/throttle_internal.h"
#include "net/throttle_list.h"
#include "net/throttle_node.h"
#include "protocol/peer_connection_base.h"
#include "torrent/exceptions.h"
#include "torrent/throttle.h"
#include "torrent/torrent.h"

using namespace ltv;

static Torrent* g_T = nullptr;
static Torrent* g_Ts = nullptr;       // torrent bound to a slave throttle
static torrent::Throttle* g_slave = nullptr;
static uint32_t g_case_no = 0;

static const uint32_t PLEN = 32768, PIECES = 96, BLOCK = 16384;

static Torrent* make_torrent(Session& S, const char* name, uint32_t seed) {
  TorrentSpec spec;
  spec.name = name;
  spec.piece_length = PLEN;
  spec.content_seed = seed;
  spec.files = {{"a.bin", (uint64_t)PLEN * PIECES}};
  Torrent* T = S.add_torrent(spec);
  return T;
}

struct Sum { uint64_t un = 0, o = 0, ua = 0, uu = 0, nA = 0, nI = 0; };

static void add_list(Sum& s, torrent::ThrottleInternal* ti) {
  torrent::ThrottleList* t = ti->throttle_list();
  s.un += ti->m_unused_quota;
  s.o += t->m_outstandingQuota;
  s.ua += t->m_unallocatedQuota;
  s.uu += t->m_unusedUnthrottledQuota;
  auto itr = t->begin();
  for (; itr != t->m_splitActive; ++itr) s.nA++;
  for (; itr != t->end(); ++itr) s.nI++;
}

// slave part: Hof of the slave throttle = its m_unused_quota + everything in its list
static std::string token(int64_t elapsed, uint64_t raw, int pieces, torrent::ThrottleInternal* root, bool use_slave, int64_t t_start) {
  Sum s, sl;
  add_list(s, root);
  if (use_slave) { add_list(s, static_cast<torrent::ThrottleInternal*>(g_slave)); add_list(sl, static_cast<torrent::ThrottleInternal*>(g_slave)); }
  char buf[320];
  snprintf(buf, sizeof buf, "%lld:%llu:%d:%llu:%llu:%llu:%llu:%llu:%llu:%lld:%llu:%llu:%llu", (long long)elapsed, (unsigned long long)raw, pieces,
           (unsigned long long)s.un, (unsigned long long)s.o, (unsigned long long)s.ua, (unsigned long long)s.uu,
           (unsigned long long)s.nA, (unsigned long long)s.nI, (long long)(root->m_time_last_tick.count() - t_start),
           (unsigned long long)torrent::up_throttle_global()->max_rate(),
           (unsigned long long)(sl.un + sl.o + sl.ua + sl.uu), (unsigned long long)(use_slave ? g_slave->max_rate() : 0));
  return buf;
}

static std::string run_case(Session& S, const std::string& line) {
  std::map<std::string, std::string> kv;
  for (auto& tok : split_ws(line)) {
    size_t e = tok.find('=');
    if (e != std::string::npos) kv[tok.substr(0, e)] = tok.substr(e + 1);
  }
  uint64_t rate = std::stoull(kv["rate"]);
  int secs = std::stoi(kv["secs"]);
  int64_t step = std::stoll(kv["step"]);
  bool use_slave = kv.count("slave") != 0;
  int idle = kv.count("idle") ? std::stoi(kv["idle"]) : 0;   // seconds without any request at the beginning
  std::map<int, uint64_t> changes;
  if (kv.count("change")) {
    std::stringstream ss(kv["change"]);
    std::string c;
    while (std::getline(ss, c, ',')) {
      size_t k = c.find(':');
      changes[std::stoi(c.substr(0, k))] = std::stoull(c.substr(k + 1));
    }
  }
  auto* root = static_cast<torrent::ThrottleInternal*>(torrent::up_throttle_global());

  if (g_T == nullptr) {
    g_T = make_torrent(S, "c12s", 7);
    S.start(g_T);
    g_Ts = make_torrent(S, "c12s_slave", 8);
    g_slave = torrent::up_throttle_global()->create_slave();
    g_Ts->dl.set_upload_throttle(g_slave);
    S.start(g_Ts);
  }
  Torrent* T = use_slave ? g_Ts : g_T;
  if (use_slave) g_slave->set_max_rate(std::stoull(kv["slave"]));

  torrent::up_throttle_global()->set_max_rate(rate);
  S.advance_us(1000000);
  S.avoid_tick_within((int64_t)(secs + 30) * 1000000);

  g_case_no++;
  WirePeer P;
  std::string ip = "127.77." + std::to_string((g_case_no >> 8) & 255) + "." + std::to_string(1 + g_case_no % 250);
  if (!P.connect_to(S.listen_port(), ip.c_str(), 1 << 20, 1 << 22)) return "ERR:connect";
  char idbuf[21];
  snprintf(idbuf, sizeof idbuf, "-LV0012-%012u", g_case_no);
  P.send_bytes(WirePeer::handshake(T->info_hash, std::string(idbuf, 20)) + WirePeer::keepalive());
  pump(S, {&P});
  HandshakeIn hs;
  if (!P.take_handshake(hs) || hs.info_hash != T->info_hash) return "ERR:handshake";
  { WireMsg m; while (P.next_message(m)) {} }
  S.advance_us(11 * 1000000);   // choke_queue refuses to unchoke within 10 s of the last change
  P.send_bytes(WirePeer::interested());
  pump(S, {&P});
  bool unchoked = false;
  { WireMsg m; while (P.next_message(m)) if (m.id == WirePeer::UNCHOKE) unchoked = true; }
  if (!unchoked) return "ERR:not-unchoked";

  uint32_t next_req = 0, total_blocks = PIECES * (PLEN / BLOCK), got_blocks = 0;
  auto top_up = [&]() {
    std::string b;
    while (next_req < total_blocks && next_req - got_blocks < 24) {
      b += WirePeer::request(next_req / (PLEN / BLOCK), (next_req % (PLEN / BLOCK)) * BLOCK, BLOCK);
      next_req++;
    }
    if (!b.empty()) P.send_bytes(b);
  };

  int64_t t_start = S.now_us();
  uint64_t rx0 = P.rx_total, total = 0;
  int bad = 0;
  std::string out = token(0, 0, 0, root, use_slave, t_start);
  int64_t elapsed = 0;
  for (int sec = 0; sec < secs; sec++) {
    if (changes.count(sec)) torrent::up_throttle_global()->set_max_rate(changes[sec]);
    for (int64_t t = 0; t < 1000000; t += step) {
      if (sec >= idle) top_up();
      S.advance_us(step);
      pump(S, {&P});
      elapsed += step;
      uint64_t raw = P.rx_total - rx0;
      rx0 = P.rx_total;
      total += raw;
      int pieces = 0;
      WireMsg m;
      while (P.next_message(m)) {
        if (m.id == WirePeer::PIECE && m.body.size() >= 8) {
          uint32_t i = m.u32(0), b = m.u32(4), l = (uint32_t)(m.body.size() - 8);
          if (!(i < T->piece_count() && m.body.compare(8, l, T->range(i, b, l)) == 0)) bad++;
          pieces++;
          got_blocks++;
        }
      }
      out += " " + token(elapsed, raw, pieces, root, use_slave, t_start);
    }
  }
  out += " || total=" + std::to_string(total) + " bad=" + std::to_string(bad) + " blocks=" + std::to_string(got_blocks) + "/" +
         std::to_string(total_blocks);
  P.close_all();
  pump(S, {});
  torrent::up_throttle_global()->set_max_rate(0);
  if (use_slave) g_slave->set_max_rate(0);
  S.advance_us(1000000);
  return out;
}

int main() {
  std_setup();
  std::unique_ptr<Session> S;
  std::string line;
  while (std::getline(std::cin, line)) {
    try {
      if (!S) S = std::make_unique<Session>();
      std::cout << run_case(*S, line) << "\n";
    } catch (torrent::internal_error& e) {
      std::cout << "ERR:internal " << e.what() << "\n";
      std::cout.flush();
      { std::error_code ec; if (S) std::filesystem::remove_all(S->scratch(), ec); }
      _exit(3);
    } catch (std::exception& e) {
      std::cout << "ERR:other " << e.what() << "\n";
    }
  }
  S.reset();
  return 0;
}
