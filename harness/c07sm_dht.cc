// C07 static-map driver, second translation unit: the real DhtMessage instantiation.
#include "config.h"

#include "c07sm_table.h"
#include "dht/dht_transaction.h"

std::unique_ptr<Table> make_dht_table() { return std::make_unique<RealTable<torrent::DhtMessage>>(); }
