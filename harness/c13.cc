// C13 implementation driver: the REAL TrackerList / TrackerController / TrackerState / Tracker /
// tracker::Manager and the REAL tracker thread, with scripted tracker workers (the environment)
// and a virtual clock on the main thread. Same case protocol as ocaml/c13_driver.ml.
//
// Case line:   T <t0_us> G <k> <group_1> .. <group_k> ; <op> <op> ...
// Ops:         en ek di cl ss sp sc su mr rq sq te:i td:i cy:g ok:i:iv:mv:np fl:i fi:i:iv:mv
//              in:g (insert a tracker) ad:us nx st:up:comp:left bl:up_baseline:comp_baseline ST STK SP SPK (Download::start/stop composites)
// Output:      one segment per op joined by " | ":
//              <now_us> <flags_hex> <timeout_us|-> <tracker;tracker;..> R<req,req,..>
//              tracker = id.enabled.busy.event.sc.fc.stl.ftl.ni.mi   (in current list order)
//              req     = id:event:uploaded:completed:left:replaced
#include "config.h"
#include "common/util.h"

#include <atomic>
#include <future>
#include <memory>
#include <mutex>

#include "runtime_manager.h"
#include "thread_main.h"
#include "net/address_list.h"
#include "torrent/download_info.h"
#include "torrent/exceptions.h"
#include "torrent/net/resolver.h"
#include "torrent/system/scheduler.h"
#include "torrent/system/thread.h"
#include "torrent/tracker/manager.h"
#include "torrent/tracker/tracker.h"
#include "tracker/thread_tracker.h"
#include "tracker/tracker_controller.h"
#include "tracker/tracker_list.h"
#include "tracker/tracker_worker.h"

using namespace ltv;
using namespace std::chrono_literals;
using torrent::tracker::TrackerState;

static const int64_t BASE_US = int64_t(365) * 24 * 3600 * 1000000;

struct Req { int id; int ev; uint64_t up, comp, left; int replaced; };

// canonical event code by NAME (0 none, 1 completed, 2 started, 3 stopped, 4 scrape): the numeric value of the enum
// only matters where it goes on the wire (TrackerUdp), which the U cases observe.
static int ev_code(TrackerState::event_enum e) {
  switch (e) {
  case TrackerState::EVENT_NONE:      return 0;
  case TrackerState::EVENT_COMPLETED: return 1;
  case TrackerState::EVENT_STARTED:   return 2;
  case TrackerState::EVENT_STOPPED:   return 3;
  default:                            return 4;
  }
}
static std::mutex        g_req_lock;
static std::vector<Req>  g_reqs;
static std::vector<int>  g_scrapes;              // scrape requests handed to workers (tracker id)
static std::atomic<int>  g_pending{-1};          // worker whose result callback is queued for the main thread (dok/dfl), -1 none

// Scripted tracker: what TrackerHttp/TrackerUdp do to the shared TrackerState, minus the network.
class VWorker : public torrent::TrackerWorker {
public:
  VWorker(torrent::TrackerInfo info, int id, bool scrapable = false)
    : torrent::TrackerWorker(std::move(info), TrackerState::flag_enabled | (scrapable ? TrackerState::flag_scrapable : 0)), m_id(id) {}

  torrent::tracker_enum type() const override { return torrent::TRACKER_HTTP; }

  // tracker thread (called by tracker::Manager::send_event's callback after mark_starting_request)
  void send_event(torrent::tracker::TrackerParams params, TrackerState::event_enum ev) override {
    // close_directly(): a pending request is dropped and queued result callbacks of this tracker are cancelled
    remove_events();
    int expected = m_id;
    g_pending.compare_exchange_strong(expected, -1);
    int replaced = m_inflight ? 1 : 0;
    m_inflight = true;
    lock_and_set_latest_event(ev);
    {
      std::scoped_lock g(g_req_lock);
      g_reqs.push_back(Req{m_id, ev_code(ev), params.uploaded_adjusted, params.completed_adjusted, params.download_left, replaced});
    }
    auto guard = lock_guard();                   // update_requesting_state()
    state().m_flags &= ~TrackerState::flag_starting_request;
    state().m_flags |= TrackerState::flag_requesting;
  }
  // tracker thread (tracker::Manager::send_scrape's callback; no mark_starting_request for scrapes)
  void send_scrape(torrent::tracker::TrackerParams) override {
    m_inflight = true;
    lock_and_set_latest_event(TrackerState::EVENT_SCRAPE);
    { std::scoped_lock g(g_req_lock); g_scrapes.push_back(m_id); }
    auto guard = lock_guard();
    state().m_flags |= TrackerState::flag_requesting;
  }
  bool scraping() { auto guard = lock_guard(); return state().latest_event() == TrackerState::EVENT_SCRAPE; }
  void close() override { finish(); }
  void cleanup() override {
    finish();
    auto guard = lock_guard();
    state().m_flags |= TrackerState::flag_deleted;
  }
  void finish() {
    m_inflight = false;
    auto guard = lock_guard();
    state().m_flags &= ~TrackerState::flag_requesting;
    state().m_flags &= ~TrackerState::flag_starting_request;
  }
  // tracker thread: the reply arrives
  void reply_success(int64_t iv, int64_t mv, unsigned np) {
    if (!m_inflight) return;
    bool scr = scraping();
    finish();
    if (scr) { m_slot_scrape_success(); return; }
    {
      auto guard = lock_guard();
      state().set_normal_interval(std::chrono::seconds(iv));
      state().set_min_interval(std::chrono::seconds(mv));
    }
    torrent::AddressList l;
    for (unsigned i = 0; i < np; i++) {
      torrent::sa_inet_union sa{};
      sa.inet.sin_family = AF_INET;
      sa.inet.sin_port = htons(0x100 + i);
      l.push_back(sa);
    }
    m_slot_success(std::move(l));
  }
  void reply_failure(bool with_intervals, int64_t iv, int64_t mv) {
    if (!m_inflight) return;
    bool scr = scraping();
    finish();
    if (scr) { m_slot_scrape_failure("failed"); return; }
    if (with_intervals) {
      auto guard = lock_guard();
      state().set_normal_interval(std::chrono::seconds(iv));
      state().set_min_interval(std::chrono::seconds(mv));
    }
    m_slot_failure("failed");
  }

  int               m_id;
  std::atomic<bool> m_inflight{false};
};

class HMain : public torrent::system::Thread {
public:
  const char* name() const override { return "ltv-main"; }
  void init_thread() override {
    m_resolver = std::make_unique<torrent::net::Resolver>();
    m_state = STATE_INITIALIZED;
    init_thread_local();
  }
  void call_events() override { process_callbacks(); }
  std::chrono::microseconds next_timeout() override { return 10min; }
};

static HMain* g_main;

static void on_tracker(std::function<void()> fn) {
  std::promise<void> p;
  auto f = p.get_future();
  torrent::tracker_thread::thread()->callback([&] { fn(); p.set_value(); });
  // belt and braces: wake the tracker thread's poll even if the callback queue was not empty when we queued
  while (f.wait_for(20ms) != std::future_status::ready) torrent::tracker_thread::thread()->interrupt();
}

// tracker thread has handled everything queued for it so far
static void sync_tracker() { on_tracker([] {}); }

// the main thread runs its queued callbacks (results of workers, enable/disable notifications) until stable
static void drain_main() {
  for (int round = 0; round < 4; round++) {
    sync_tracker();
    bool had = g_main->has_any_callbacks();
    g_main->process_callbacks();
    if (!had && round >= 1) break;
  }
  sync_tracker();
  g_pending = -1;
}

static void quiesce() { drain_main(); }

// The controller's two scheduler tasks through public accessors only.
struct Tasks {
  torrent::TrackerController& tc;
  bool    t_on() const { return tc.is_timeout_queued(); }
  bool    s_on() const { return tc.is_scrape_queued(); }
  int64_t t_at() const { return tc.next_timeout(); }
  int64_t s_at() const { return tc.next_scrape(); }
};

// stop the controller through its public interface (its destructor, run on this thread, erases both tasks)
static void unschedule(torrent::TrackerController& tc) {
  tc.disable();
  tc.close();
}

// Scheduler::perform(now) restricted so that the order of two tasks due at the same instant (decided by the
// scheduler heap, not constrained by the property) is fixed: the real scheduler is stepped to each due time in
// turn; at a tie the scrape task is pushed back by re-arming it after the announce timer has run.
static void perform_tasks(torrent::TrackerController& tc, int64_t now) {
  Tasks k{tc};
  auto sched = g_main->m_scheduler.get();
  for (int i = 0; i < 4; i++) {
    bool dt = k.t_on() && k.t_at() <= now, ds = k.s_on() && k.s_at() <= now;
    if (!dt && !ds) break;
    if (dt && ds && k.t_at() == k.s_at()) {
      // tie: announce timer first. Take the scrape task out, run the scheduler (announce timer fires), re-arm it.
      int64_t at = k.s_at();
      tc.scrape_request(3600);                                    // move it out of the way (still queued, far future)
      g_main->set_cached_time(std::chrono::microseconds(now));
      sched->perform(std::chrono::microseconds(at));
      sync_tracker();
      // put it back at its original time: due now, fires in the next round
      g_main->set_cached_time(std::chrono::microseconds(at));
      tc.scrape_request(0);
      g_main->set_cached_time(std::chrono::microseconds(now));
      continue;
    }
    int64_t first = (dt && (!ds || k.t_at() <= k.s_at())) ? k.t_at() : k.s_at();
    g_main->set_cached_time(std::chrono::microseconds(now));
    sched->perform(std::chrono::microseconds(first));             // fires exactly the task(s) due at `first`
    sync_tracker();                                                // what it handed to workers is in flight before the next task runs
  }
  g_main->set_cached_time(std::chrono::microseconds(now));
}

static std::string run_case(const std::vector<std::string>& t) {
  size_t p = 0;
  if (t.at(p++) != "T") return "BADCASE";
  int64_t now = BASE_US + std::stoll(t.at(p++));
  if (t.at(p++) != "G") return "BADCASE";
  int k = std::stoi(t.at(p++));
  std::vector<int> groups;
  std::vector<bool> scrapable;                     // group token with suffix 's' = scrapable tracker
  for (int i = 0; i < k; i++) {
    std::string g = t.at(p++);
    bool sc = !g.empty() && g.back() == 's';
    if (sc) g.pop_back();
    groups.push_back(std::stoi(g));
    scrapable.push_back(sc);
  }
  if (t.at(p++) != ";") return "BADCASE";

  g_main->set_cached_time(std::chrono::microseconds(now));
  { std::scoped_lock g(g_req_lock); g_reqs.clear(); g_scrapes.clear(); }
  g_pending = -1;

  torrent::DownloadInfo info;
  uint64_t left = 0, comp = 0;
  info.slot_left() = [&left]() { return left; };
  info.slot_completed() = [&comp]() { return comp; };

  std::string out;
  {
    torrent::TrackerList list;
    list.set_info(&info);
    torrent::TrackerController tc(&list);
    tc.slot_success() = [](torrent::AddressList*) -> uint32_t { return 0; };
    tc.slot_failure() = [](const std::string&) {};
    // same wiring as DownloadMain::post_initialize()
    list.slot_success()          = [&tc](const auto& tr, auto al)        { return tc.receive_success(tr, al); };
    list.slot_failure()          = [&tc](const auto& tr, const auto& s)  { tc.receive_failure(tr, s); };
    list.slot_scrape_success()   = [&tc](const auto& tr)                 { tc.receive_scrape(tr); };
    list.slot_tracker_enabled()  = [&tc](const auto& tr)                 { tc.receive_tracker_enabled(tr); };
    list.slot_tracker_disabled() = [&tc](const auto& tr)                 { tc.receive_tracker_disabled(tr); };

    std::vector<std::shared_ptr<VWorker>> workers;
    for (int i = 0; i < k; i++) {
      torrent::TrackerInfo ti;
      ti.url = "http://t" + std::to_string(i) + "/";
      ti.group = groups[i];
      auto w = std::make_shared<VWorker>(ti, i, scrapable[i]);
      workers.push_back(w);
      std::shared_ptr<torrent::TrackerWorker> base = w;
      list.insert(torrent::tracker::Tracker(std::move(base)));   // installs the real cross-thread slots
    }
    quiesce();

    auto find = [&](int id) -> torrent::tracker::Tracker* {
      for (auto& tr : list) if (static_cast<VWorker*>(tr.get_worker())->m_id == id) return &tr;
      return nullptr;
    };

    try {
      bool first = true;
      for (; p < t.size(); p++) {
        std::vector<std::string> a;
        { std::string s = t[p]; size_t q; while ((q = s.find(':')) != std::string::npos) { a.push_back(s.substr(0, q)); s = s.substr(q + 1); } a.push_back(s); }
        const std::string& o = a[0];
        auto num = [&](size_t i) { return std::stoll(a.at(i)); };
        if (o == "h") continue;                      // hint for the model only
        // ops that queue main-thread callbacks themselves first let the main thread run what is queued
        bool atomic_cb = o == "ok" || o == "fl" || o == "fi" || o == "te" || o == "td";
        bool deferred = o == "dok" || o == "dfl" || o == "dfi";
        if (atomic_cb) drain_main();
        if      (o == "en") tc.enable();
        else if (o == "ek") tc.enable(torrent::TrackerController::enable_dont_reset_stats);
        else if (o == "di") tc.disable();
        else if (o == "cl") tc.close();
        // Download::start(flags) as src/torrent/download.cc does it: enable, baselines := totals, then 'started'
        // (the D cases of harness/c13d.cc run the real Download::start; here it is only replayed on the controller)
        else if (o == "ST")  { tc.enable(); info.set_uploaded_baseline(info.up_rate()->total()); info.set_completed_baseline(comp); tc.send_start_event(); }
        else if (o == "STK") { tc.enable(torrent::TrackerController::enable_dont_reset_stats); info.set_uploaded_baseline(info.up_rate()->total()); info.set_completed_baseline(comp); }   // start_skip_tracker
        else if (o == "STB") { tc.enable(); tc.send_start_event(); }                                       // start_keep_baseline
        else if (o == "SP")  { tc.send_stop_event(); tc.disable(); }                                        // Download::stop
        else if (o == "SPK") { tc.disable(); }                                                              // stop_skip_tracker
        else if (o == "ss") tc.send_start_event();
        else if (o == "sp") tc.send_stop_event();
        else if (o == "sc") tc.send_completed_event();
        else if (o == "su") tc.send_update_event();
        else if (o == "mr") tc.manual_request(false);
        else if (o == "rq") tc.start_requesting();
        else if (o == "sq") tc.stop_requesting();
        else if (o == "te") { if (num(1) < (long long)workers.size()) find(num(1))->enable(); }
        else if (o == "td") { if (num(1) < (long long)workers.size()) find(num(1))->disable(); }
        else if (o == "in") {                         // a tracker added while running (add_extra_tracker path of TrackerList::insert)
          torrent::TrackerInfo ti;
          ti.url = "http://t" + std::to_string(workers.size()) + "/";
          std::string g = a.at(1);
          bool sc = !g.empty() && g.back() == 's';
          if (sc) g.pop_back();
          ti.group = std::stoi(g);
          auto w = std::make_shared<VWorker>(ti, (int)workers.size(), sc);
          workers.push_back(w);
          std::shared_ptr<torrent::TrackerWorker> base = w;
          list.insert(torrent::tracker::Tracker(std::move(base)));
        }
        else if (o == "cy") list.cycle_group(num(1));
        else if (o == "dr") drain_main();
        else if (o == "sr") tc.scrape_request(num(1));
        else if (o == "ok" || o == "fl" || o == "fi" || deferred) {
          // target: insertion index, or b / B = first / last busy tracker in current list order
          int id = -1;
          if (a.at(1) == "b" || a.at(1) == "B") {
            for (auto& tr : list) {
              auto w = static_cast<VWorker*>(tr.get_worker());
              if (w->m_inflight) { id = w->m_id; if (a[1] == "b") break; }
            }
          } else if (num(1) < (long long)workers.size()) id = num(1);
          // at most one result callback is kept queued: a deferred reply while one is queued is dropped
          if (deferred && g_pending >= 0) id = -1;
          if (id >= 0 && workers[id]->m_inflight) {
            auto w = workers[id];
            if (deferred) g_pending = id;
            if (o == "ok" || o == "dok") { auto iv = num(2), mv = num(3); unsigned np = a.size() > 4 ? num(4) : 0; on_tracker([=] { w->reply_success(iv, mv, np); }); }
            else if (o == "fl" || o == "dfl") on_tracker([=] { w->reply_failure(false, 0, 0); });
            else { auto iv = num(2), mv = num(3); on_tracker([=] { w->reply_failure(true, iv, mv); }); }
          }
        }
        else if (o == "st") { info.mutable_up_rate()->set_total(num(1)); comp = num(2); left = num(3); }
        else if (o == "bl") { info.set_uploaded_baseline(num(1)); info.set_completed_baseline(num(2)); }   // Download::start resets the baselines
        else if (o == "ad" || o == "nx" || o == "nxs") {
          bool run = true;
          if (o == "ad") now += num(1);
          else if (o == "nx") { run = tc.is_timeout_queued(); if (run && tc.next_timeout() > now) now = tc.next_timeout(); }
          else { run = tc.is_scrape_queued(); if (run && tc.next_scrape() > now) now = tc.next_scrape(); }
          g_main->set_cached_time(std::chrono::microseconds(now));
          if (run) perform_tasks(tc, now);
        }
        else { out += "BADOP"; break; }
        // the tracker thread handles what was handed to it; the main thread's queue is run only by dr and by
        // the ops that queue callbacks themselves
        sync_tracker();
        if (atomic_cb) drain_main();

        if (!first) out += " | ";
        first = false;
        char buf[96];
        snprintf(buf, sizeof buf, "%lld %x ", (long long)now, (unsigned)tc.flags());
        out += buf;
        out += tc.is_timeout_queued() ? std::to_string((long long)tc.next_timeout()) : std::string("-");
        out += " ";
        out += tc.is_scrape_queued() ? std::to_string((long long)tc.next_scrape()) : std::string("-");
        out += " P" + (g_pending >= 0 ? std::to_string((int)g_pending) : std::string("-")) + " ";
        bool ft = true;
        for (auto& tr : list) {
          auto st = tr.state();
          if (!ft) out += ";";
          ft = false;
          out += std::to_string(static_cast<VWorker*>(tr.get_worker())->m_id) + "." + (st.is_enabled() ? "1" : "0") + "." +
                 ((st.is_requesting() || st.is_starting_request()) ? "1" : "0") + "." + std::to_string(ev_code(st.latest_event())) + "." +
                 std::to_string(st.success_counter()) + "." + std::to_string(st.failed_counter()) + "." +
                 std::to_string((long long)st.success_time_last().count()) + "." + std::to_string((long long)st.failed_time_last().count()) + "." +
                 std::to_string((long long)st.normal_interval().count()) + "." + std::to_string((long long)st.min_interval().count()) + "." +
                 std::to_string((long long)st.scrape_time_last().count());
        }
        out += " R";
        {
          std::scoped_lock g(g_req_lock);
          bool fr = true;
          for (auto& r : g_reqs) {
            if (!fr) out += ",";
            fr = false;
            out += std::to_string(r.id) + ":" + std::to_string(r.ev) + ":" + std::to_string(r.up) + ":" + std::to_string(r.comp) + ":" + std::to_string(r.left) + ":" + std::to_string(r.replaced);
          }
          g_reqs.clear();
          out += " S";
          bool fs = true;
          for (int id : g_scrapes) { if (!fs) out += ","; fs = false; out += std::to_string(id); }
          g_scrapes.clear();
        }
      }
    } catch (torrent::internal_error& e) {
      out += std::string(" | ERR:internal ") + e.what();
    } catch (std::exception& e) {
      out += std::string(" | ERR:other ") + e.what();
    }

    // teardown: stop everything, hand the workers to the manager for cleanup on the tracker thread
    quiesce();
    tc.disable();
    tc.close();
    for (auto& w : workers) w->finish();
    list.clear();
    quiesce();
    unschedule(tc);
  }
  return out.empty() ? std::string("-") : out;
}


// ------------------------------------------------------------------ UDP wire observation
// Case:  U <up> <comp> <left> ; <evop> ...   with evop in ss sc sp mr ST SP nx; a trailing '!' = the tracker stays
//        silent and the worker times out (UdpRouter retransmits, then reports the failure)
// One REAL TrackerUdp (inserted with TrackerList::insert_url, driven by the real controller, tracker::Manager,
// tracker thread and UdpRouter) announces to an in-process UDP socket that plays the tracker (BEP 15): connect
// reply, then the 98-byte announce is read off the wire and answered with a success.
// Output per evop:  <event code at offset 80>:<downloaded @56>:<left @64>:<uploaded @72>   or  -  (no packet)
#include <arpa/inet.h>
#include <sys/socket.h>
#include <unistd.h>

static uint32_t rd32(const unsigned char* p) { return (uint32_t(p[0]) << 24) | (p[1] << 16) | (p[2] << 8) | p[3]; }
static uint64_t rd64(const unsigned char* p) { return (uint64_t(rd32(p)) << 32) | rd32(p + 4); }
static void wr32(unsigned char* p, uint32_t v) { p[0] = v >> 24; p[1] = v >> 16; p[2] = v >> 8; p[3] = v; }

// serve at most one announce; returns "-" if no datagram arrives within the timeout
static std::string serve_announce(int fd, int timeout_ms) {
  unsigned char pkt[600];
  timeval tv{timeout_ms / 1000, (timeout_ms % 1000) * 1000};
  setsockopt(fd, SOL_SOCKET, SO_RCVTIMEO, &tv, sizeof tv);
  for (int round = 0; round < 4; round++) {
    sockaddr_in from{}; socklen_t fl = sizeof from;
    ssize_t n = recvfrom(fd, pkt, sizeof pkt, 0, (sockaddr*)&from, &fl);
    if (n < 0) return "-";
    if (n == 16 && rd32(pkt + 8) == 0) {                  // connect request
      unsigned char rep[16];
      wr32(rep, 0); wr32(rep + 4, rd32(pkt + 12)); wr32(rep + 8, 0x01020304); wr32(rep + 12, 0x05060708);
      sendto(fd, rep, 16, 0, (sockaddr*)&from, fl);
      timeval tv2{2, 0};
      setsockopt(fd, SOL_SOCKET, SO_RCVTIMEO, &tv2, sizeof tv2);
      continue;
    }
    if (n == 98 && rd32(pkt + 8) == 1) {                  // announce
      std::string out = std::to_string(rd32(pkt + 80)) + ":" + std::to_string(rd64(pkt + 56)) + ":" +
                        std::to_string(rd64(pkt + 64)) + ":" + std::to_string(rd64(pkt + 72));
      unsigned char rep[20];
      wr32(rep, 1); wr32(rep + 4, rd32(pkt + 12)); wr32(rep + 8, 1800); wr32(rep + 12, 0); wr32(rep + 16, 0);
      sendto(fd, rep, 20, 0, (sockaddr*)&from, fl);
      return out;
    }
    return "unexpected-packet:" + hex((const char*)pkt, n);
  }
  return "no-announce-after-connect";
}

static std::string run_udp_case(const std::vector<std::string>& t) {
  if (t.size() < 5 || t[4] != ";") return "BADCASE";
  int fd = socket(AF_INET, SOCK_DGRAM, 0);
  sockaddr_in a{}; a.sin_family = AF_INET; a.sin_addr.s_addr = htonl(INADDR_LOOPBACK);
  if (fd < 0 || bind(fd, (sockaddr*)&a, sizeof a) < 0) return "SETUP-FAIL socket";
  socklen_t al = sizeof a;
  getsockname(fd, (sockaddr*)&a, &al);
  struct closer { int fd; ~closer() { close(fd); } } cl{fd};

  g_main->set_cached_time(std::chrono::microseconds(BASE_US));
  torrent::DownloadInfo info;
  info.mutable_hash().assign("hhhhhhhhhhhhhhhhhhhh");   // a non-zero info hash
  uint64_t left = std::stoull(t[3]), comp = std::stoull(t[2]);
  info.mutable_up_rate()->set_total(std::stoull(t[1]));
  info.slot_left() = [&left]() { return left; };
  info.slot_completed() = [&comp]() { return comp; };

  std::string out;
  {
    torrent::TrackerList list;
    list.set_info(&info);
    list.set_key(7);                                // TrackerUdp refuses key 0
    torrent::TrackerController tc(&list);
    tc.slot_success() = [](torrent::AddressList*) -> uint32_t { return 0; };
    tc.slot_failure() = [](const std::string&) {};
    list.slot_success()          = [&tc](const auto& tr, auto al)        { return tc.receive_success(tr, al); };
    list.slot_failure()          = [&tc](const auto& tr, const auto& s)  { tc.receive_failure(tr, s); };
    list.slot_tracker_enabled()  = [&tc](const auto& tr)                 { tc.receive_tracker_enabled(tr); };
    list.slot_tracker_disabled() = [&tc](const auto& tr)                 { tc.receive_tracker_disabled(tr); };
    try {
      list.insert_url(0, "udp://127.0.0.1:" + std::to_string(ntohs(a.sin_port)) + "/announce");
    } catch (std::exception& e) { return std::string("SETUP-FAIL insert_url: ") + e.what(); }
    if (list.size() != 1) return "SETUP-FAIL insert_url size";
    quiesce();
    try {
      tc.enable();
      int64_t now = BASE_US;
      for (size_t p = 5; p < t.size(); p++) {
        std::string o = t[p];
        bool silent = !o.empty() && o.back() == '!';      // the tracker does not answer: worker-side timeout
        if (silent) o.pop_back();
        if      (o == "ss") tc.send_start_event();
        else if (o == "sc") tc.send_completed_event();
        else if (o == "sp") tc.send_stop_event();
        else if (o == "mr") tc.manual_request(false);
        else if (o == "ST") { tc.disable(); tc.enable(); tc.send_start_event(); }
        else if (o == "SP") { tc.send_stop_event(); tc.disable(); tc.enable(torrent::TrackerController::enable_dont_reset_stats); }
        else if (o == "nx") {
          if (tc.is_timeout_queued()) {
            if (tc.next_timeout() > now) now = tc.next_timeout();
            g_main->set_cached_time(std::chrono::microseconds(now));
            perform_tasks(tc, now);
          }
        }
        else { out += " BADOP"; break; }
        quiesce();
        std::string w = "-";
        if (list.has_active() && !silent) {
          // after quiescence the worker's requesting flag tells whether an announce is on its way
          w = serve_announce(fd, 5000);
          // let the success travel tracker thread -> main thread
          for (int i = 0; i < 200 && w != "-" && list.has_active(); i++) { usleep(2000); quiesce(); }
        } else if (list.has_active()) {
          // silent tracker: step the tracker thread's clock through UdpRouter's retransmission timeouts
          // (15 s, 30 s, 45 s) until the worker gives up and reports the failure; count the datagrams
          int datagrams = 0;
          unsigned char pkt[600];
          timeval tv{0, 200000};
          setsockopt(fd, SOL_SOCKET, SO_RCVTIMEO, &tv, sizeof tv);
          for (int round = 0; round < 6 && list.has_active(); round++) {
            while (recv(fd, pkt, sizeof pkt, 0) > 0) datagrams++;
            auto ahead = std::chrono::seconds(50 * (round + 1));   // the loop resets the clock: jump cumulatively
            on_tracker([ahead] {
              auto th = torrent::tracker_thread::thread();
              th->set_cached_time(th->cached_time() + ahead);
              th->m_scheduler->perform(th->cached_time());
            });
            quiesce();
          }
          while (recv(fd, pkt, sizeof pkt, 0) > 0) datagrams++;
          quiesce();
          w = list.has_active() ? std::string("no-timeout") : (datagrams >= 1 && datagrams <= 3 ? std::string("timeout") : "timeout-after-" + std::to_string(datagrams) + "-datagrams");
        }
        quiesce();
        if (p > 5) out += " | ";
        out += w;
      }
    } catch (torrent::internal_error& e) { out += std::string(" | ERR:internal ") + e.what();
    } catch (std::exception& e) { out += std::string(" | ERR:other ") + e.what(); }
    quiesce();
    tc.disable();
    tc.close();
    for (auto& tr : list) { auto w = tr.get_worker(); on_tracker([w] { w->close(); }); }
    list.clear();
    quiesce();
    unschedule(tc);
  }
  return out.empty() ? std::string("-") : out;
}

// ------------------------------------------------------------------ HTTP tracker with hand-stepped main thread
// Case:  H <up> <comp> <left> ; <op> ...   ops: en ss sc sp mr nx ad:<us> ok fl dr
// One REAL TrackerHttp (TrackerList::insert_url, real controller / tracker::Manager / tracker thread / net thread +
// curl) announces to an in-process HTTP server. `ok` / `fl` let the server answer the request in flight and wait
// until the TRACKER thread has consumed the reply; the main thread's queued result callback is run only by `dr`.
// So "reply N is queued, the client issues a new event, then the main thread drains" is a scripted interleaving.
// Output per op:  <flags_hex> <timeout_us|-> R<event:uploaded:downloaded:left,...>   (requests that reached the server)
#include <condition_variable>
#include <thread>
#include "net/thread_net.h"
#include "tracker/tracker_http.h"

// the real TrackerHttp, only counting the requests handed to it (so the harness knows how many must reach the server)
class HWorker : public torrent::TrackerHttp {
public:
  using torrent::TrackerHttp::TrackerHttp;
  void send_event(torrent::tracker::TrackerParams params, TrackerState::event_enum ev) override {
    m_sent++;
    torrent::TrackerHttp::send_event(params, ev);
  }
  std::atomic<int> m_sent{0};
};

struct HttpSrv {
  int lfd = -1; uint16_t port = 0;
  std::mutex lock; std::condition_variable cond;
  std::vector<std::string> targets;       // every GET target received, in order
  std::vector<int> open_fds;              // connections waiting for an answer
  std::atomic<bool> stop{false};

  void start() {
    lfd = socket(AF_INET, SOCK_STREAM, 0);
    int one = 1; setsockopt(lfd, SOL_SOCKET, SO_REUSEADDR, &one, sizeof one);
    sockaddr_in sa{}; sa.sin_family = AF_INET; sa.sin_addr.s_addr = htonl(INADDR_LOOPBACK);
    if (bind(lfd, (sockaddr*)&sa, sizeof sa) != 0 || listen(lfd, 16) != 0) throw std::runtime_error("http bind");
    socklen_t l = sizeof sa; getsockname(lfd, (sockaddr*)&sa, &l); port = ntohs(sa.sin_port);
    std::thread([this] { run(); }).detach();
  }
  void run() {
    while (!stop) {
      int fd = accept(lfd, nullptr, nullptr);
      if (fd < 0) { if (stop) return; continue; }
      std::thread([this, fd] {
        std::string req; char buf[4096];
        while (req.find("\r\n\r\n") == std::string::npos) { ssize_t n = read(fd, buf, sizeof buf); if (n <= 0) break; req.append(buf, n); }
        auto a = req.find(' '), b = req.find(' ', a + 1);
        if (a == std::string::npos || b == std::string::npos) { close(fd); return; }
        { std::scoped_lock g(lock); targets.push_back(req.substr(a + 1, b - a - 1)); open_fds.push_back(fd); }
        cond.notify_all();
      }).detach();
    }
  }
  size_t count() { std::scoped_lock g(lock); return targets.size(); }
  bool wait_count(size_t n, int ms) { std::unique_lock g(lock); return cond.wait_for(g, std::chrono::milliseconds(ms), [&] { return targets.size() >= n; }); }
  // answer the newest connection, drop the older ones (their requests were replaced by the client)
  bool answer(const std::string& body) {
    std::vector<int> fds; { std::scoped_lock g(lock); fds.swap(open_fds); }
    if (fds.empty()) return false;
    std::string rep = "HTTP/1.0 200 OK\r\nContent-Type: text/plain\r\nContent-Length: " + std::to_string(body.size()) + "\r\nConnection: close\r\n\r\n" + body;
    (void)!write(fds.back(), rep.data(), rep.size());
    for (int fd : fds) { shutdown(fd, SHUT_RDWR); close(fd); }
    return true;
  }
  void shutdown_all() {
    stop = true;
    std::vector<int> fds; { std::scoped_lock g(lock); fds.swap(open_fds); }
    for (int fd : fds) close(fd);
    if (lfd >= 0) { ::shutdown(lfd, SHUT_RDWR); close(lfd); }
  }
  static std::string param(const std::string& t, const std::string& key) {
    auto pos = t.find("&" + key + "="); if (pos == std::string::npos) pos = t.find("?" + key + "=");
    if (pos == std::string::npos) return "";
    pos += key.size() + 2; auto end = t.find('&', pos);
    return t.substr(pos, end == std::string::npos ? std::string::npos : end - pos);
  }
};

static std::string run_http_case(const std::vector<std::string>& t) {
  if (t.size() < 5 || t[4] != ";") return "BADCASE";
  auto srv = std::make_shared<HttpSrv>();          // detached threads keep it alive
  srv->start();
  int64_t now = BASE_US;
  g_main->set_cached_time(std::chrono::microseconds(now));
  torrent::DownloadInfo info;
  info.mutable_hash().assign("hhhhhhhhhhhhhhhhhhhh");
  info.mutable_local_id().assign("-lt0000-abcdefghijkl");
  uint64_t left = std::stoull(t[3]), comp = std::stoull(t[2]);
  info.mutable_up_rate()->set_total(std::stoull(t[1]));
  info.slot_left() = [&left]() { return left; };
  info.slot_completed() = [&comp]() { return comp; };

  std::string out;
  {
    torrent::TrackerList list;
    list.set_info(&info);
    list.set_key(7);
    torrent::TrackerController tc(&list);
    tc.slot_success() = [](torrent::AddressList*) -> uint32_t { return 0; };
    tc.slot_failure() = [](const std::string&) {};
    list.slot_success()          = [&tc](const auto& tr, auto al)        { return tc.receive_success(tr, al); };
    list.slot_failure()          = [&tc](const auto& tr, const auto& s)  { tc.receive_failure(tr, s); };
    list.slot_scrape_success()   = [&tc](const auto& tr)                 { tc.receive_scrape(tr); };
    list.slot_tracker_enabled()  = [&tc](const auto& tr)                 { tc.receive_tracker_enabled(tr); };
    list.slot_tracker_disabled() = [&tc](const auto& tr)                 { tc.receive_tracker_disabled(tr); };
    std::shared_ptr<HWorker> hw;
    try {
      // what TrackerList::insert_url does for an http:// url, with the counting subclass
      torrent::TrackerInfo ti;
      ti.info_hash = info.hash();
      ti.obfuscated_hash = info.hash_obfuscated();
      ti.local_id = info.local_id();
      ti.url = "http://127.0.0.1:" + std::to_string(srv->port) + "/announce";
      ti.group = 0;
      ti.key = 7;
      hw = std::make_shared<HWorker>(ti, TrackerState::flag_enabled);
      std::shared_ptr<torrent::TrackerWorker> base = hw;
      list.insert(torrent::tracker::Tracker(std::move(base)));
    } catch (std::exception& e) { srv->shutdown_all(); return std::string("SETUP-FAIL insert: ") + e.what(); }
    if (list.size() != 1) { srv->shutdown_all(); return "SETUP-FAIL insert size"; }
    drain_main();
    auto tracker = *list.begin();
    size_t seen = 0;
    try {
      for (size_t p = 5; p < t.size(); p++) {
        const std::string& o = t[p];
        size_t before = srv->count();
        int sent_before = hw->m_sent;
        bool replied = false;
        if      (o == "en") tc.enable();
        else if (o == "ss") tc.send_start_event();
        else if (o == "sc") tc.send_completed_event();
        else if (o == "sp") tc.send_stop_event();
        else if (o == "mr") tc.manual_request(false);
        else if (o == "dr") drain_main();
        else if (o == "nx" || o.rfind("ad:", 0) == 0) {
          bool run = true;
          if (o == "nx") { run = tc.is_timeout_queued(); if (run && tc.next_timeout() > now) now = tc.next_timeout(); }
          else now += std::stoll(o.substr(3));
          g_main->set_cached_time(std::chrono::microseconds(now));
          if (run) perform_tasks(tc, now);
        }
        else if (o == "ok") replied = srv->answer("d8:intervali1800e12:min intervali600e5:peers0:e");
        else if (o == "fl") replied = srv->answer("d14:failure reason15:try again latere");
        else { out += " BADOP"; break; }
        sync_tracker();
        if (replied) {
          // the reply travels net thread -> tracker thread; wait until the worker has consumed it (NOT the main thread)
          for (int i = 0; i < 2500 && tracker.is_requesting(); i++) { usleep(2000); }
          sync_tracker();
        }
        // every request handed to the worker in this op reaches the server (curl paces new transfers: allow a few seconds)
        if (hw->m_sent > sent_before) srv->wait_count(before + (hw->m_sent - sent_before), 8000);
        if (p > 5) out += " | ";
        char buf[64];
        snprintf(buf, sizeof buf, "%x ", (unsigned)tc.flags());
        out += buf;
        out += tc.is_timeout_queued() ? std::to_string((long long)tc.next_timeout()) : std::string("-");
        out += " R";
        std::vector<std::string> tg; { std::scoped_lock g(srv->lock); tg = srv->targets; }
        for (size_t i = seen; i < tg.size(); i++) {
          std::string e = HttpSrv::param(tg[i], "event");
          int code = e.empty() ? 0 : e == "completed" ? 1 : e == "started" ? 2 : e == "stopped" ? 3 : 9;
          if (i > seen) out += ",";
          out += std::to_string(code) + ":" + HttpSrv::param(tg[i], "uploaded") + ":" + HttpSrv::param(tg[i], "downloaded") + ":" + HttpSrv::param(tg[i], "left");
        }
        seen = tg.size();
      }
    } catch (torrent::internal_error& e) { out += std::string(" | ERR:internal ") + e.what();
    } catch (std::exception& e) { out += std::string(" | ERR:other ") + e.what(); }
    drain_main();
    unschedule(tc);
    for (auto& tr : list) { auto w = tr.get_worker(); on_tracker([w] { w->close(); }); }
    srv->shutdown_all();
    list.clear();
    drain_main();
  }
  return out.empty() ? std::string("-") : out;
}

// --params: constants of the compiled code (gen/params_c13.py reads them from here, not from the source text)
static int print_params() {
  using TS = torrent::tracker::TrackerState;
  std::cout << "trk_event_none=" << (int)TS::EVENT_NONE << "\ntrk_event_completed=" << (int)TS::EVENT_COMPLETED
            << "\ntrk_event_started=" << (int)TS::EVENT_STARTED << "\ntrk_event_stopped=" << (int)TS::EVENT_STOPPED
            << "\ntrk_default_min_interval=" << (long long)std::chrono::seconds(TS::default_min_interval).count()
            << "\ntrk_min_min_interval=" << (long long)std::chrono::seconds(TS::min_min_interval).count()
            << "\ntrk_max_min_interval=" << (long long)std::chrono::seconds(TS::max_min_interval).count()
            << "\ntrk_default_normal_interval=" << (long long)std::chrono::seconds(TS::default_normal_interval).count()
            << "\ntrk_min_normal_interval=" << (long long)std::chrono::seconds(TS::min_normal_interval).count()
            << "\ntrk_max_normal_interval=" << (long long)std::chrono::seconds(TS::max_normal_interval).count() << "\n";
  return 0;
}

int main(int argc, char** argv) {
  if (argc > 1 && std::string(argv[1]) == "--params") return print_params();
  std_setup();
  g_main = new HMain();
  torrent::ThreadMain::set_thread_base(g_main);
  torrent::RuntimeManager::initialize();
  g_main->init_thread();
  torrent::ThreadNet::create_thread();             // curl stack of the real TrackerHttp (H cases)
  torrent::ThreadTracker::create_thread();
  torrent::net_thread::thread()->init_thread();
  torrent::tracker_thread::thread()->init_thread();
  torrent::net_thread::thread()->start_thread();
  torrent::tracker_thread::thread()->start_thread();

  std::string line;
  while (std::getline(std::cin, line)) {
    auto t = split_ws(line);
    alarm(30);      // per-case watchdog: SIGALRM kills the process, ltv.run_sharded reports CRASH for this case and goes on
    try {
      std::cout << ((!t.empty() && t[0] == "U") ? run_udp_case(t) : (!t.empty() && t[0] == "H") ? run_http_case(t) : run_case(t)) << "\n";
    } catch (torrent::internal_error& e) {
      std::cout << "ERR:internal " << e.what() << "\n";
    } catch (std::exception& e) {
      std::cout << "ERR:other " << e.what() << "\n";
    }
    alarm(0);
  }
  std::cout.flush();
  torrent::tracker_thread::thread()->stop_thread_wait();
  _exit(0);
}
