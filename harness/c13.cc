// C13 implementation driver: the REAL TrackerList / TrackerController / TrackerState / Tracker /
// tracker::Manager and the REAL tracker thread, with scripted tracker workers (the environment)
// and a virtual clock on the main thread. Same case protocol as ocaml/c13_driver.ml.
//
// Case line:   T <t0_us> G <k> <group_1> .. <group_k> ; <op> <op> ...
// Ops:         en ek di cl ss sp sc su mr rq sq te:i td:i cy:g ok:i:iv:mv:np fl:i fi:i:iv:mv
//              in:g (insert a tracker) ad:us nx st:up:comp:left bl:up_baseline:comp_baseline ST STK SP SPK (Download::start/stop composites)
// Output:      one segment per op joined by " | ":
//              <now_us> <flags_hex> <timeout_us|-> <tracker;tracker;..> R<req,req,..>
//              tracker = id.enabled.busy.event.sc.fc.stl.ftl.ni.mi   (in current list order)
//              req     = id:event:uploaded:completed:left:replaced
#include "config.h"
#include "common/util.h"

#include <atomic>
#include <future>
#include <memory>
#include <mutex>

#include "runtime_manager.h"
#include "thread_main.h"
#include "net/address_list.h"
#include "torrent/download_info.h"
#include "torrent/exceptions.h"
#include "torrent/net/resolver.h"
#include "torrent/system/scheduler.h"
#include "torrent/system/thread.h"
#include "torrent/tracker/manager.h"
#include "torrent/tracker/tracker.h"
#include "tracker/thread_tracker.h"
#include "tracker/tracker_controller.h"
#include "tracker/tracker_list.h"
#include "tracker/tracker_worker.h"

using namespace ltv;
using namespace std::chrono_literals;
using torrent::tracker::TrackerState;

static const int64_t BASE_US = int64_t(365) * 24 * 3600 * 1000000;

struct Req { int id; int ev; uint64_t up, comp, left; int replaced; };

// canonical event code by NAME (0 none, 1 completed, 2 started, 3 stopped, 4 scrape): the numeric value of the enum
// only matters where it goes on the wire (TrackerUdp), which the U cases observe.
static int ev_code(TrackerState::event_enum e) {
  switch (e) {
  case TrackerState::EVENT_NONE:      return 0;
  case TrackerState::EVENT_COMPLETED: return 1;
  case TrackerState::EVENT_STARTED:   return 2;
  case TrackerState::EVENT_STOPPED:   return 3;
  default:                            return 4;
  }
}
static std::mutex        g_req_lock;
static std::vector<Req>  g_reqs;

// Scripted tracker: what TrackerHttp/TrackerUdp do to the shared TrackerState, minus the network.
class VWorker : public torrent::TrackerWorker {
public:
  VWorker(torrent::TrackerInfo info, int id) : torrent::TrackerWorker(std::move(info), TrackerState::flag_enabled), m_id(id) {}

  torrent::tracker_enum type() const override { return torrent::TRACKER_HTTP; }

  // tracker thread (called by tracker::Manager::send_event's callback after mark_starting_request)
  void send_event(torrent::tracker::TrackerParams params, TrackerState::event_enum ev) override {
    int replaced = m_inflight ? 1 : 0;           // close_directly(): a pending request is dropped
    m_inflight = true;
    lock_and_set_latest_event(ev);
    {
      std::scoped_lock g(g_req_lock);
      g_reqs.push_back(Req{m_id, ev_code(ev), params.uploaded_adjusted, params.completed_adjusted, params.download_left, replaced});
    }
    auto guard = lock_guard();                   // update_requesting_state()
    state().m_flags &= ~TrackerState::flag_starting_request;
    state().m_flags |= TrackerState::flag_requesting;
  }
  void send_scrape(torrent::tracker::TrackerParams) override {}
  void close() override { finish(); }
  void cleanup() override {
    finish();
    auto guard = lock_guard();
    state().m_flags |= TrackerState::flag_deleted;
  }
  void finish() {
    m_inflight = false;
    auto guard = lock_guard();
    state().m_flags &= ~TrackerState::flag_requesting;
    state().m_flags &= ~TrackerState::flag_starting_request;
  }
  // tracker thread: the reply arrives
  void reply_success(int64_t iv, int64_t mv, unsigned np) {
    if (!m_inflight) return;
    finish();
    {
      auto guard = lock_guard();
      state().set_normal_interval(std::chrono::seconds(iv));
      state().set_min_interval(std::chrono::seconds(mv));
    }
    torrent::AddressList l;
    for (unsigned i = 0; i < np; i++) {
      torrent::sa_inet_union sa{};
      sa.inet.sin_family = AF_INET;
      sa.inet.sin_port = htons(0x100 + i);
      l.push_back(sa);
    }
    m_slot_success(std::move(l));
  }
  void reply_failure(bool with_intervals, int64_t iv, int64_t mv) {
    if (!m_inflight) return;
    finish();
    if (with_intervals) {
      auto guard = lock_guard();
      state().set_normal_interval(std::chrono::seconds(iv));
      state().set_min_interval(std::chrono::seconds(mv));
    }
    m_slot_failure("failed");
  }

  int               m_id;
  std::atomic<bool> m_inflight{false};
};

class HMain : public torrent::system::Thread {
public:
  const char* name() const override { return "ltv-main"; }
  void init_thread() override {
    m_resolver = std::make_unique<torrent::net::Resolver>();
    m_state = STATE_INITIALIZED;
    init_thread_local();
  }
  void call_events() override { process_callbacks(); }
  std::chrono::microseconds next_timeout() override { return 10min; }
};

static HMain* g_main;

static void on_tracker(std::function<void()> fn) {
  std::promise<void> p;
  auto f = p.get_future();
  torrent::tracker_thread::thread()->callback([&] { fn(); p.set_value(); });
  // belt and braces: wake the tracker thread's poll even if the callback queue was not empty when we queued
  while (f.wait_for(20ms) != std::future_status::ready) torrent::tracker_thread::thread()->interrupt();
}

static void quiesce() {
  for (int round = 0; round < 4; round++) {
    on_tracker([] {});
    bool had = g_main->has_any_callbacks();
    g_main->process_callbacks();
    if (!had && round >= 1) break;
  }
  on_tracker([] {});
}

static std::string run_case(const std::vector<std::string>& t) {
  size_t p = 0;
  if (t.at(p++) != "T") return "BADCASE";
  int64_t now = BASE_US + std::stoll(t.at(p++));
  if (t.at(p++) != "G") return "BADCASE";
  int k = std::stoi(t.at(p++));
  std::vector<int> groups;
  for (int i = 0; i < k; i++) groups.push_back(std::stoi(t.at(p++)));
  if (t.at(p++) != ";") return "BADCASE";

  g_main->set_cached_time(std::chrono::microseconds(now));
  { std::scoped_lock g(g_req_lock); g_reqs.clear(); }

  torrent::DownloadInfo info;
  uint64_t left = 0, comp = 0;
  info.slot_left() = [&left]() { return left; };
  info.slot_completed() = [&comp]() { return comp; };

  std::string out;
  {
    torrent::TrackerList list;
    list.set_info(&info);
    torrent::TrackerController tc(&list);
    tc.slot_success() = [](torrent::AddressList*) -> uint32_t { return 0; };
    tc.slot_failure() = [](const std::string&) {};
    // same wiring as DownloadMain::post_initialize()
    list.slot_success()          = [&tc](const auto& tr, auto al)        { return tc.receive_success(tr, al); };
    list.slot_failure()          = [&tc](const auto& tr, const auto& s)  { tc.receive_failure(tr, s); };
    list.slot_tracker_enabled()  = [&tc](const auto& tr)                 { tc.receive_tracker_enabled(tr); };
    list.slot_tracker_disabled() = [&tc](const auto& tr)                 { tc.receive_tracker_disabled(tr); };

    std::vector<std::shared_ptr<VWorker>> workers;
    for (int i = 0; i < k; i++) {
      torrent::TrackerInfo ti;
      ti.url = "http://t" + std::to_string(i) + "/";
      ti.group = groups[i];
      auto w = std::make_shared<VWorker>(ti, i);
      workers.push_back(w);
      std::shared_ptr<torrent::TrackerWorker> base = w;
      list.insert(torrent::tracker::Tracker(std::move(base)));   // installs the real cross-thread slots
    }
    quiesce();

    auto find = [&](int id) -> torrent::tracker::Tracker* {
      for (auto& tr : list) if (static_cast<VWorker*>(tr.get_worker())->m_id == id) return &tr;
      return nullptr;
    };

    try {
      bool first = true;
      for (; p < t.size(); p++) {
        std::vector<std::string> a;
        { std::string s = t[p]; size_t q; while ((q = s.find(':')) != std::string::npos) { a.push_back(s.substr(0, q)); s = s.substr(q + 1); } a.push_back(s); }
        const std::string& o = a[0];
        auto num = [&](size_t i) { return std::stoll(a.at(i)); };
        if      (o == "en") tc.enable();
        else if (o == "ek") tc.enable(torrent::TrackerController::enable_dont_reset_stats);
        else if (o == "di") tc.disable();
        else if (o == "cl") tc.close();
        else if (o == "ST")  { tc.enable(); tc.send_start_event(); }                                         // Download::start
        else if (o == "STK") { tc.enable(torrent::TrackerController::enable_dont_reset_stats); }            // start_skip_tracker
        else if (o == "SP")  { tc.send_stop_event(); tc.disable(); }                                        // Download::stop
        else if (o == "SPK") { tc.disable(); }                                                              // stop_skip_tracker
        else if (o == "ss") tc.send_start_event();
        else if (o == "sp") tc.send_stop_event();
        else if (o == "sc") tc.send_completed_event();
        else if (o == "su") tc.send_update_event();
        else if (o == "mr") tc.manual_request(false);
        else if (o == "rq") tc.start_requesting();
        else if (o == "sq") tc.stop_requesting();
        else if (o == "te") { if (num(1) < (long long)workers.size()) find(num(1))->enable(); }
        else if (o == "td") { if (num(1) < (long long)workers.size()) find(num(1))->disable(); }
        else if (o == "in") {                         // a tracker added while running (add_extra_tracker path of TrackerList::insert)
          torrent::TrackerInfo ti;
          ti.url = "http://t" + std::to_string(workers.size()) + "/";
          ti.group = num(1);
          auto w = std::make_shared<VWorker>(ti, (int)workers.size());
          workers.push_back(w);
          std::shared_ptr<torrent::TrackerWorker> base = w;
          list.insert(torrent::tracker::Tracker(std::move(base)));
        }
        else if (o == "cy") list.cycle_group(num(1));
        else if (o == "ok" || o == "fl" || o == "fi") {
          // target: insertion index, or b / B = first / last busy tracker in current list order
          int id = -1;
          if (a.at(1) == "b" || a.at(1) == "B") {
            for (auto& tr : list) {
              auto w = static_cast<VWorker*>(tr.get_worker());
              if (w->m_inflight) { id = w->m_id; if (a[1] == "b") break; }
            }
          } else if (num(1) < (long long)workers.size()) id = num(1);
          if (id >= 0) {
            auto w = workers[id];
            if (o == "ok") { auto iv = num(2), mv = num(3); unsigned np = num(4); on_tracker([=] { w->reply_success(iv, mv, np); }); }
            else if (o == "fl") on_tracker([=] { w->reply_failure(false, 0, 0); });
            else { auto iv = num(2), mv = num(3); on_tracker([=] { w->reply_failure(true, iv, mv); }); }
          }
        }
        else if (o == "st") { info.mutable_up_rate()->set_total(num(1)); comp = num(2); left = num(3); }
        else if (o == "bl") { info.set_uploaded_baseline(num(1)); info.set_completed_baseline(num(2)); }   // Download::start resets the baselines
        else if (o == "ad" || o == "nx") {
          if (o == "ad") now += num(1);
          else if (tc.m_task_timeout.is_scheduled() && tc.m_task_timeout.time_or_zero().count() > now) now = tc.m_task_timeout.time_or_zero().count();
          g_main->set_cached_time(std::chrono::microseconds(now));
          g_main->m_scheduler->perform(std::chrono::microseconds(now));
        }
        else { out += "BADOP"; break; }
        quiesce();

        if (!first) out += " | ";
        first = false;
        char buf[96];
        snprintf(buf, sizeof buf, "%lld %x ", (long long)now, (unsigned)tc.flags());
        out += buf;
        out += tc.m_task_timeout.is_scheduled() ? std::to_string((long long)tc.m_task_timeout.time_or_zero().count()) : std::string("-");
        out += " ";
        bool ft = true;
        for (auto& tr : list) {
          auto st = tr.state();
          if (!ft) out += ";";
          ft = false;
          out += std::to_string(static_cast<VWorker*>(tr.get_worker())->m_id) + "." + (st.is_enabled() ? "1" : "0") + "." +
                 ((st.is_requesting() || st.is_starting_request()) ? "1" : "0") + "." + std::to_string(ev_code(st.latest_event())) + "." +
                 std::to_string(st.success_counter()) + "." + std::to_string(st.failed_counter()) + "." +
                 std::to_string((long long)st.success_time_last().count()) + "." + std::to_string((long long)st.failed_time_last().count()) + "." +
                 std::to_string((long long)st.normal_interval().count()) + "." + std::to_string((long long)st.min_interval().count());
        }
        out += " R";
        {
          std::scoped_lock g(g_req_lock);
          bool fr = true;
          for (auto& r : g_reqs) {
            if (!fr) out += ",";
            fr = false;
            out += std::to_string(r.id) + ":" + std::to_string(r.ev) + ":" + std::to_string(r.up) + ":" + std::to_string(r.comp) + ":" + std::to_string(r.left) + ":" + std::to_string(r.replaced);
          }
          g_reqs.clear();
        }
      }
    } catch (torrent::internal_error& e) {
      out += std::string(" | ERR:internal ") + e.what();
    } catch (std::exception& e) {
      out += std::string(" | ERR:other ") + e.what();
    }

    // teardown: stop everything, hand the workers to the manager for cleanup on the tracker thread
    quiesce();
    tc.disable();
    tc.close();
    for (auto& w : workers) w->finish();
    list.clear();
    quiesce();
    g_main->m_scheduler->erase(&tc.m_task_timeout);
    g_main->m_scheduler->erase(&tc.m_task_scrape);
  }
  return out.empty() ? std::string("-") : out;
}


// ------------------------------------------------------------------ UDP wire observation
// Case:  U <up> <comp> <left> ; <evop> ...   with evop in ss sc sp mr ST SP nx; a trailing '!' = the tracker stays
//        silent and the worker times out (UdpRouter retransmits, then reports the failure)
// One REAL TrackerUdp (inserted with TrackerList::insert_url, driven by the real controller, tracker::Manager,
// tracker thread and UdpRouter) announces to an in-process UDP socket that plays the tracker (BEP 15): connect
// reply, then the 98-byte announce is read off the wire and answered with a success.
// Output per evop:  <event code at offset 80>:<downloaded @56>:<left @64>:<uploaded @72>   or  -  (no packet)
#include <arpa/inet.h>
#include <sys/socket.h>
#include <unistd.h>

static uint32_t rd32(const unsigned char* p) { return (uint32_t(p[0]) << 24) | (p[1] << 16) | (p[2] << 8) | p[3]; }
static uint64_t rd64(const unsigned char* p) { return (uint64_t(rd32(p)) << 32) | rd32(p + 4); }
static void wr32(unsigned char* p, uint32_t v) { p[0] = v >> 24; p[1] = v >> 16; p[2] = v >> 8; p[3] = v; }

// serve at most one announce; returns "-" if no datagram arrives within the timeout
static std::string serve_announce(int fd, int timeout_ms) {
  unsigned char pkt[600];
  timeval tv{timeout_ms / 1000, (timeout_ms % 1000) * 1000};
  setsockopt(fd, SOL_SOCKET, SO_RCVTIMEO, &tv, sizeof tv);
  for (int round = 0; round < 4; round++) {
    sockaddr_in from{}; socklen_t fl = sizeof from;
    ssize_t n = recvfrom(fd, pkt, sizeof pkt, 0, (sockaddr*)&from, &fl);
    if (n < 0) return "-";
    if (n == 16 && rd32(pkt + 8) == 0) {                  // connect request
      unsigned char rep[16];
      wr32(rep, 0); wr32(rep + 4, rd32(pkt + 12)); wr32(rep + 8, 0x01020304); wr32(rep + 12, 0x05060708);
      sendto(fd, rep, 16, 0, (sockaddr*)&from, fl);
      timeval tv2{2, 0};
      setsockopt(fd, SOL_SOCKET, SO_RCVTIMEO, &tv2, sizeof tv2);
      continue;
    }
    if (n == 98 && rd32(pkt + 8) == 1) {                  // announce
      std::string out = std::to_string(rd32(pkt + 80)) + ":" + std::to_string(rd64(pkt + 56)) + ":" +
                        std::to_string(rd64(pkt + 64)) + ":" + std::to_string(rd64(pkt + 72));
      unsigned char rep[20];
      wr32(rep, 1); wr32(rep + 4, rd32(pkt + 12)); wr32(rep + 8, 1800); wr32(rep + 12, 0); wr32(rep + 16, 0);
      sendto(fd, rep, 20, 0, (sockaddr*)&from, fl);
      return out;
    }
    return "unexpected-packet:" + hex((const char*)pkt, n);
  }
  return "no-announce-after-connect";
}

static std::string run_udp_case(const std::vector<std::string>& t) {
  if (t.size() < 5 || t[4] != ";") return "BADCASE";
  int fd = socket(AF_INET, SOCK_DGRAM, 0);
  sockaddr_in a{}; a.sin_family = AF_INET; a.sin_addr.s_addr = htonl(INADDR_LOOPBACK);
  if (fd < 0 || bind(fd, (sockaddr*)&a, sizeof a) < 0) return "SETUP-FAIL socket";
  socklen_t al = sizeof a;
  getsockname(fd, (sockaddr*)&a, &al);
  struct closer { int fd; ~closer() { close(fd); } } cl{fd};

  g_main->set_cached_time(std::chrono::microseconds(BASE_US));
  torrent::DownloadInfo info;
  info.mutable_hash().assign("hhhhhhhhhhhhhhhhhhhh");   // a non-zero info hash
  uint64_t left = std::stoull(t[3]), comp = std::stoull(t[2]);
  info.mutable_up_rate()->set_total(std::stoull(t[1]));
  info.slot_left() = [&left]() { return left; };
  info.slot_completed() = [&comp]() { return comp; };

  std::string out;
  {
    torrent::TrackerList list;
    list.set_info(&info);
    list.set_key(7);                                // TrackerUdp refuses key 0
    torrent::TrackerController tc(&list);
    tc.slot_success() = [](torrent::AddressList*) -> uint32_t { return 0; };
    tc.slot_failure() = [](const std::string&) {};
    list.slot_success()          = [&tc](const auto& tr, auto al)        { return tc.receive_success(tr, al); };
    list.slot_failure()          = [&tc](const auto& tr, const auto& s)  { tc.receive_failure(tr, s); };
    list.slot_tracker_enabled()  = [&tc](const auto& tr)                 { tc.receive_tracker_enabled(tr); };
    list.slot_tracker_disabled() = [&tc](const auto& tr)                 { tc.receive_tracker_disabled(tr); };
    try {
      list.insert_url(0, "udp://127.0.0.1:" + std::to_string(ntohs(a.sin_port)) + "/announce");
    } catch (std::exception& e) { return std::string("SETUP-FAIL insert_url: ") + e.what(); }
    if (list.size() != 1) return "SETUP-FAIL insert_url size";
    quiesce();
    try {
      tc.enable();
      int64_t now = BASE_US;
      for (size_t p = 5; p < t.size(); p++) {
        std::string o = t[p];
        bool silent = !o.empty() && o.back() == '!';      // the tracker does not answer: worker-side timeout
        if (silent) o.pop_back();
        if      (o == "ss") tc.send_start_event();
        else if (o == "sc") tc.send_completed_event();
        else if (o == "sp") tc.send_stop_event();
        else if (o == "mr") tc.manual_request(false);
        else if (o == "ST") { tc.disable(); tc.enable(); tc.send_start_event(); }
        else if (o == "SP") { tc.send_stop_event(); tc.disable(); tc.enable(torrent::TrackerController::enable_dont_reset_stats); }
        else if (o == "nx") {
          if (tc.m_task_timeout.is_scheduled() && tc.m_task_timeout.time_or_zero().count() > now) now = tc.m_task_timeout.time_or_zero().count();
          g_main->set_cached_time(std::chrono::microseconds(now));
          g_main->m_scheduler->perform(std::chrono::microseconds(now));
        }
        else { out += " BADOP"; break; }
        quiesce();
        std::string w = "-";
        if (list.has_active() && !silent) {
          // after quiescence the worker's requesting flag tells whether an announce is on its way
          w = serve_announce(fd, 5000);
          // let the success travel tracker thread -> main thread
          for (int i = 0; i < 200 && w != "-" && list.has_active(); i++) { usleep(2000); quiesce(); }
        } else if (list.has_active()) {
          // silent tracker: step the tracker thread's clock through UdpRouter's retransmission timeouts
          // (15 s, 30 s, 45 s) until the worker gives up and reports the failure; count the datagrams
          int datagrams = 0;
          unsigned char pkt[600];
          timeval tv{0, 200000};
          setsockopt(fd, SOL_SOCKET, SO_RCVTIMEO, &tv, sizeof tv);
          for (int round = 0; round < 6 && list.has_active(); round++) {
            while (recv(fd, pkt, sizeof pkt, 0) > 0) datagrams++;
            auto ahead = std::chrono::seconds(50 * (round + 1));   // the loop resets the clock: jump cumulatively
            on_tracker([ahead] {
              auto th = torrent::tracker_thread::thread();
              th->set_cached_time(th->cached_time() + ahead);
              th->m_scheduler->perform(th->cached_time());
            });
            quiesce();
          }
          while (recv(fd, pkt, sizeof pkt, 0) > 0) datagrams++;
          quiesce();
          w = list.has_active() ? std::string("no-timeout") : (datagrams >= 1 && datagrams <= 3 ? std::string("timeout") : "timeout-after-" + std::to_string(datagrams) + "-datagrams");
        }
        quiesce();
        if (p > 5) out += " | ";
        out += w;
      }
    } catch (torrent::internal_error& e) { out += std::string(" | ERR:internal ") + e.what();
    } catch (std::exception& e) { out += std::string(" | ERR:other ") + e.what(); }
    quiesce();
    tc.disable();
    tc.close();
    for (auto& tr : list) { auto w = tr.get_worker(); on_tracker([w] { w->close(); }); }
    list.clear();
    quiesce();
    g_main->m_scheduler->erase(&tc.m_task_timeout);
    g_main->m_scheduler->erase(&tc.m_task_scrape);
  }
  return out.empty() ? std::string("-") : out;
}

int main() {
  std_setup();
  g_main = new HMain();
  torrent::ThreadMain::set_thread_base(g_main);
  torrent::RuntimeManager::initialize();
  g_main->init_thread();
  torrent::ThreadTracker::create_thread();
  torrent::tracker_thread::thread()->init_thread();
  torrent::tracker_thread::thread()->start_thread();

  std::string line;
  while (std::getline(std::cin, line)) {
    auto t = split_ws(line);
    try {
      std::cout << ((!t.empty() && t[0] == "U") ? run_udp_case(t) : run_case(t)) << "\n";
    } catch (torrent::internal_error& e) {
      std::cout << "ERR:internal " << e.what() << "\n";
    } catch (std::exception& e) {
      std::cout << "ERR:other " << e.what() << "\n";
    }
  }
  std::cout.flush();
  torrent::tracker_thread::thread()->stop_thread_wait();
  _exit(0);
}
