// C01 implementation driver: a leeching torrent in the real library (session harness) downloads from
// 1..4 scripted wire peers (honest / corrupting / truncating / lying / choking / disconnecting).
// The driver RECORDS the mechanism-level events (DESIGN.md C01) from wire traffic, private
// snapshots of TransferList/BlockList/RequestList after every stimulus, the public slots
// (download_data::slot_chunk_done, slot_download_done) and the files on disk hashed with OpenSSL,
// and evaluates the property ORACLE directly on the implementation.
//
// Case:  plen=<n> total=<n> seed=<n> have=<01..> rc=<n> peers=<v><sel>[i],... | op op ...
//   peers: per peer corruption variant v (0 honest, 1..9: xor byte at start/middle/end of a block with v),
//          selector a(all blocks) e(even global block no) o(odd) k<N>(the first N answers only);
//          trailing 'i': the peer ignores CANCEL.     Peer p connects from 127.0.0.(2+p).
//   ops (each followed by stepping the library to quiescence and an observation):
//     P:p[:k]   peer p answers its k-th (default oldest) pending REQUEST completely (header, then data)
//     B:p:n     PIECE header + first n bytes of the answer to the oldest pending request
//     M:p:n     n more bytes of the block begun with B (capped to what remains)
//     Z:p       zero-length PIECE for the oldest pending request
//     S:p:n     PIECE for the oldest pending request with a wrong non-zero length n (n bytes follow)
//     U:p:i:o:l PIECE nobody requested (index i, offset o, l bytes)
//     K:p N:p   CHOKE / UNCHOKE         X:p  close the connection      R:p  reset the connection
//     T:s       s seconds of virtual time (observed every second)
//     W         wait (real time) until no hash job of the torrent is outstanding
//     F:n       up to n rounds: every connected peer answers everything pending; W; stop when done
// Output:  <events> || <oracle verdict> ;; <stats>
//   events (space separated):  C:p D:p  P:p:idx:off:len:<1 valid transfer started|0 skipped>  B:p:<hex>
//     K:p U:p  Q:idx  H:idx:ok|fail  M:idx  V:idx  F  X:idx:<sha1 of the piece on disk>  S:<state snapshot>
//   (Insert / Release / New-piece events are reconstructed by the model driver from the S: snapshots.)
#include "config.h"

#include <deque>
#include <filesystem>
#include <fstream>
#include <map>
#include <set>
#include <netinet/in.h>
#include <sstream>
#include <type_traits>
#include <unistd.h>
#include <openssl/sha.h>

#include "common/session.h"
#include "common/wirepeer.h"
#include "data/hash_queue.h"
#include "download/delegator.h"
#include "manager.h"
#include "protocol/handshake_manager.h"
#include "torrent/download/choke_group.h"
#include "torrent/download/choke_queue.h"
#include "torrent/download/resource_manager.h"
#include "download/download_main.h"
#include "download/download_wrapper.h"
#include "protocol/peer_connection_base.h"
#include "protocol/request_list.h"
#include "thread_main.h"
#include "torrent/data/block.h"
#include "torrent/data/block_failed.h"
#include "torrent/data/block_list.h"
#include "torrent/data/block_transfer.h"
#include "torrent/data/download_data.h"
#include "torrent/data/file_list.h"
#include "torrent/data/transfer_list.h"
#include "torrent/exceptions.h"
#include "torrent/peer/connection_list.h"
#include "torrent/peer/peer.h"
#include "torrent/peer/peer_info.h"

using namespace ltv;

// Private containers are walked generically (element may be a raw pointer, a smart pointer or an object): a container /
// element type refactor in the library must not break this observer.
template <class E> static auto* elem_ptr(E& e) {
  if constexpr (std::is_pointer_v<std::remove_reference_t<E>>) return e;
  else if constexpr (requires { e.get(); }) return e.get();
  else return &e;
}
#define EACH_PTR(var, cont) for (auto&& var##_e : (cont)) if (auto* var = elem_ptr(var##_e); true)

static uint32_t g_case_no = 0;

struct Req { uint32_t idx, off, len; };

struct PeerS {
  WirePeer w;
  int id = 0;
  uint16_t port = 0;
  torrent::PeerInfo* info = nullptr;
  bool connected = false;     // as far as the harness knows (library side connection exists)
  int variant = 0;
  char sel = 'a';
  int budget = 0;
  bool ignore_cancel = false;
  bool trickler = false;      // trailing 't': once inside a block the peer only trickles 1 byte per waiting period and answers nothing else
  uint32_t x_idx = 0, x_pos = 0;   // selector 'x': overwrite the bytes at offset x_pos of piece x_idx with x_bytes
  std::string x_bytes;
  std::deque<Req> pending;
  bool choking = false;
  bool mid = false;           // a block begun with B and not yet completely sent
  std::string rest;
  std::vector<uint32_t> haves;
  unsigned answered = 0;
};

struct Ctx {
  Session* S = nullptr;
  Torrent* T = nullptr;
  std::vector<std::unique_ptr<PeerS>> peers;
  std::map<torrent::PeerInfo*, int> by_info;
  std::vector<std::string> ev;          // recorded events
  std::vector<std::string> async_ev;    // slot events of the current pump (in order)
  std::set<uint32_t> hashing;           // harness view: Q emitted, H not yet
  std::map<uint32_t, std::string> last_probe;
  std::string last_state;
  std::vector<std::string> viol;
  bool done_signalled = false;
  uint32_t blocks_per_piece = 1;
  int clock_s = 0;
  bool stuck = false;
  bool trickled = false;       // the stall happened while a peer was trickling a block it leads
  bool stale = false;          // the stall is the known one: every candidate has a finished transfer on every open block
  std::set<uint32_t> tainted;  // pieces for which some peer ever sent bytes that are not the original content
  // stats
  unsigned n_write_ops = 0, n_hash_ok = 0, n_hash_fail = 0, n_dissimilar = 0, n_leader_change = 0, n_disc = 0;
};

static Ctx* g_ctx = nullptr;
static torrent::download_data* hq_id(Torrent* T) { return const_cast<torrent::download_data*>(T->dl.data()); }

// ---- huge sparse layouts (big=<i,j,..>): a single file > 4 GiB of which only the listed pieces carry data / are offered by
// the peers; Session::add_torrent cannot be used (it materialises the whole content), the torrent is built here.
struct BigSpec { bool on = false; uint64_t total = 0; uint32_t plen = 0, seed = 0; std::set<uint32_t> mat; };
static BigSpec g_big;
static uint32_t psize(Torrent* T, uint32_t i) {
  if (!g_big.on) return T->piece_size(i);
  uint64_t off = (uint64_t)i * g_big.plen;
  return off >= g_big.total ? 0 : (uint32_t)std::min<uint64_t>(g_big.plen, g_big.total - off);
}
static std::string prange(Torrent* T, uint32_t i, uint32_t begin, uint32_t len) {
  if (!g_big.on) return T->range(i, begin, len);
  std::string d(len, '\0');
  if (g_big.mat.count(i))
    for (uint32_t k = 0; k < len; k++) d[k] = (char)content_byte(g_big.seed, (uint64_t)i * g_big.plen + begin + k);
  return d;
}

// ---- disk ------------------------------------------------------------------------------------
static std::string disk_content(Torrent* T) {
  std::string out;
  for (auto& f : T->spec.files) {
    std::string path = T->root + "/" + f.path;
    std::string data((size_t)f.length, '\0');
    std::ifstream in(path, std::ios::binary);
    if (in) in.read(&data[0], (std::streamsize)f.length);
    out += data;
  }
  return out;
}
static std::string disk_piece(Torrent* T, uint32_t i) {
  // read only the files overlapping the piece
  uint64_t lo = (uint64_t)i * T->spec.piece_length, hi = lo + psize(T, i);
  std::string out;
  uint64_t g = 0;
  for (auto& f : T->spec.files) {
    uint64_t a = std::max(lo, g), b = std::min(hi, g + f.length);
    if (a < b) {
      std::string data((size_t)(b - a), '\0');
      std::ifstream in(T->root + "/" + f.path, std::ios::binary);
      if (in) { in.seekg((std::streamoff)(a - g)); in.read(&data[0], (std::streamsize)(b - a)); }
      out += data;
    }
    g += f.length;
  }
  return out;
}
static std::string sha1_raw(const std::string& s) {
  unsigned char md[20];
  SHA1((const unsigned char*)s.data(), s.size(), md);
  return std::string((char*)md, 20);
}

// ---- oracle (evaluated on the implementation) ------------------------------------------------------
static void oracle(Ctx& c, const char* when) {
  Torrent* T = c.T;
  std::string bits = T->completed_bits();
  uint64_t bytes = 0;
  for (uint32_t i = 0; i < bits.size(); i++) {
    if (bits[i] != '1') continue;
    bytes += psize(T, i);
    if (sha1_raw(disk_piece(T, i)) != T->piece_hashes[i] && c.viol.size() < 4)
      c.viol.push_back(std::string("completed-not-verified:piece=") + std::to_string(i) + ":" + when);
  }
  if (T->dl.file_list()->completed_bytes() != bytes && c.viol.size() < 4)
    c.viol.push_back("completed-bytes:" + std::to_string(T->dl.file_list()->completed_bytes()) + "!=" + std::to_string(bytes));
  for (auto& p : c.peers)
    for (uint32_t h : p->haves)
      if ((h >= bits.size() || bits[h] != '1' || sha1_raw(disk_piece(T, h)) != T->piece_hashes[h]) && c.viol.size() < 4)
        c.viol.push_back("have-not-verified:piece=" + std::to_string(h));
  if (c.done_signalled || T->dl.file_list()->is_done()) {
    if (bits.find('0') != std::string::npos && c.viol.size() < 4) c.viol.push_back("done-with-missing-pieces");
    if (!g_big.on && disk_content(T) != T->content && c.viol.size() < 4) c.viol.push_back("done-files-differ-from-content");
    for (auto& f : T->spec.files) {
      std::error_code ec;
      auto sz = std::filesystem::file_size(T->root + "/" + f.path, ec);
      if ((ec || sz != f.length) && c.viol.size() < 4)
        c.viol.push_back("done-file-length:" + f.path + "=" + (ec ? std::string("missing") : std::to_string(sz)) + "!=" + std::to_string(f.length));
    }
  }
}

// ---- private state snapshot ---------------------------------------------------------------------------
static std::string peer_name(Ctx& c, torrent::PeerInfo* pi) {
  if (pi == nullptr) return "n";
  auto it = c.by_info.find(pi);
  return it == c.by_info.end() ? "?" : std::to_string(it->second);
}
static char tstate(const torrent::BlockTransfer* t) {
  switch (t->state()) {
  case torrent::BlockTransfer::STATE_ERASED: return 'E';
  case torrent::BlockTransfer::STATE_QUEUED: return 'Q';
  case torrent::BlockTransfer::STATE_LEADER: return 'L';
  case torrent::BlockTransfer::STATE_NOT_LEADER: return 'N';
  }
  return '?';
}

static std::string snapshot(Ctx& c) {
  Torrent* T = c.T;
  std::ostringstream o;
  o << "c=" << T->completed_bits() << ";h=";
  {
    bool first = true;
    for (uint32_t i = 0; i < T->piece_count(); i++)
      if (torrent::ThreadMain::thread_main()->hash_queue()->has(hq_id(T), i)) { o << (first ? "" : ",") << i; first = false; }
  }
  o << ";L=";
  auto* tl = T->main()->delegator()->transfer_list();
  std::map<uint32_t, std::string> lists;
  EACH_PTR(bl, *tl) {
    std::ostringstream b;
    b << bl->index() << "/" << bl->attempt() << "/" << bl->finished() << "[";
    bool fb = true;
    for (auto& blk : *bl) {
      if (!fb) b << ";";
      fb = false;
      auto* ld = blk.leader();
      b << (ld ? peer_name(c, const_cast<torrent::BlockTransfer*>(ld)->peer_info()) : std::string("-")) << "@" << (ld ? ld->position() : 0) << "|q=";
      std::vector<std::string> q;
      EACH_PTR(t, *blk.queued()) q.push_back(peer_name(c, t->peer_info()));
      std::sort(q.begin(), q.end());
      for (size_t i = 0; i < q.size(); i++) b << (i ? "," : "") << q[i];
      b << "|t=";
      bool ft = true;
      EACH_PTR(t, *blk.transfers()) {
        b << (ft ? "" : ",") << peer_name(c, t->peer_info()) << "." << tstate(t) << "." << t->position();
        ft = false;
      }
      // failed list: counts, current
      b << "|f=";
      if (blk.failed_list() != nullptr) {
        for (size_t i = 0; i < blk.failed_list()->size(); i++) b << (i ? "," : "") << (*blk.failed_list())[i].second;
        b << "^";
        if (blk.failed_list()->current() == torrent::BlockFailed::invalid_index) b << "-"; else b << blk.failed_list()->current();
      } else b << "^-";
    }
    b << "]";
    lists[bl->index()] = b.str();
  }
  { bool f = true; for (auto& kv : lists) { o << (f ? "" : "+") << kv.second; f = false; } }
  o << ";cur=";
  bool fc = true;
  for (auto& p : c.peers) {
    torrent::PeerConnectionBase* pcb = p->port ? c.S->find_connection(T, p->port) : nullptr;
    if (pcb == nullptr) continue;
    auto* t = pcb->m_request_list.transfer();
    if (t == nullptr) continue;
    o << (fc ? "" : ",") << p->id << ":";
    fc = false;
    if (t->is_valid()) o << "v" << t->piece().index() << "." << (t->piece().offset() / torrent::Delegator::block_size);
    else o << "s" << t->position() << "/" << t->piece().length();
  }
  o << ";conn=";
  bool fn = true;
  for (auto& p : c.peers) {
    torrent::PeerConnectionBase* pcb = p->port ? c.S->find_connection(T, p->port) : nullptr;
    if (pcb == nullptr) continue;
    o << (fn ? "" : ",") << p->id;
    fn = false;
  }
  o << ";fc=";
  bool ff = true;
  for (auto& p : c.peers) {
    if (p->info == nullptr || p->info->failed_counter() == 0) continue;
    o << (ff ? "" : ",") << p->id << ":" << p->info->failed_counter();
    ff = false;
  }
  return o.str();
}

// ---- pumping + observation --------------------------------------------------------------------------
static void pump_all(Ctx& c) {
  // same as ltv::pump but over a vector
  int idle = 0;
  for (int r = 0; r < 100000 && idle < 2; r++) {
    bool moved = false;
    for (auto& p : c.peers) if (p->w.fd != -1 && p->w.flush() > 0) moved = true;
    if (c.S->step()) moved = true;
    for (auto& p : c.peers) if (p->w.fd != -1 && p->w.recv_available() > 0) moved = true;
    if (moved) idle = 0; else idle++;
  }
}

static void parse_incoming(Ctx& c) {
  for (auto& p : c.peers) {
    WireMsg m;
    while (p->w.next_message(m)) {
      if (m.id == WirePeer::REQUEST && m.body.size() == 12) p->pending.push_back({m.u32(0), m.u32(4), m.u32(8)});
      else if (m.id == WirePeer::CANCEL && m.body.size() == 12) {
        if (!p->ignore_cancel)
          for (auto it = p->pending.begin(); it != p->pending.end(); ++it)
            if (it->idx == m.u32(0) && it->off == m.u32(4)) { p->pending.erase(it); break; }
      } else if (m.id == WirePeer::HAVE && m.body.size() == 4) p->haves.push_back(m.u32(0));
    }
  }
}

static void flush_async(Ctx& c) {
  for (auto& e : c.async_ev) c.ev.push_back(e);
  c.async_ev.clear();
}

static void observe(Ctx& c, const char* when) {
  Torrent* T = c.T;
  parse_incoming(c);
  flush_async(c);
  // pieces newly in the hash queue
  for (uint32_t i = 0; i < T->piece_count(); i++)
    if (torrent::ThreadMain::thread_main()->hash_queue()->has(hq_id(T), i) && !c.hashing.count(i)) {
      c.hashing.insert(i);
      c.ev.push_back("Q:" + std::to_string(i));
    }
  // connections that went away
  for (auto& p : c.peers)
    if (p->connected && c.S->find_connection(T, p->port) == nullptr) {
      p->connected = false;
      p->mid = false;
      p->pending.clear();
      c.n_disc++;
      c.ev.push_back("D:" + std::to_string(p->id));
    }
  // probes: listed pieces whose disk digest changed
  auto* tl = T->main()->delegator()->transfer_list();
  EACH_PTR(bl, *tl) {
    if (g_big.on) break;   // 1 MiB pieces: the verdict events tie the store to the disk, no per-block probes
    std::string d = hex(sha1_raw(disk_piece(T, bl->index())));
    if (c.last_probe[bl->index()] != d) {
      c.last_probe[bl->index()] = d;
      c.ev.push_back("X:" + std::to_string(bl->index()) + ":" + d);
    }
  }
  std::string st = snapshot(c);
  if (st != c.last_state) {
    c.last_state = st;
    c.ev.push_back("S:" + st);
  }
  oracle(c, when);
}

// slot: called inside DownloadWrapper::receive_hash_done after the verdict was acted upon
static void on_chunk_done(uint32_t idx) {
  Ctx& c = *g_ctx;
  Torrent* T = c.T;
  bool completed = T->dl.file_list()->bitfield()->get(idx);
  if (!c.hashing.count(idx)) c.async_ev.push_back("Q:" + std::to_string(idx));   // queued and done within one pump
  c.hashing.erase(idx);
  if (completed) {
    c.n_hash_ok++;
    c.async_ev.push_back("H:" + std::to_string(idx) + ":ok");
    c.async_ev.push_back("M:" + std::to_string(idx));
    auto* hq = T->main()->have_queue();
    if (!hq->empty() && hq->front().second == idx) c.async_ev.push_back("V:" + std::to_string(idx));
    // the bytes on disk at the moment the piece is reported complete
    if (sha1_raw(disk_piece(T, idx)) != T->piece_hashes[idx] && c.viol.size() < 4)
      c.viol.push_back("completed-not-verified:piece=" + std::to_string(idx) + ":at-mark");
    c.last_probe.erase(idx);
  } else {
    c.n_hash_fail++;
    c.async_ev.push_back("H:" + std::to_string(idx) + ":fail");
    // every byte any peer ever sent for this piece was the original content, yet the piece does not verify:
    // the client itself damaged honest data (and an honest peer can then never complete the piece)
    if (!c.tainted.count(idx) && c.viol.size() < 4) c.viol.push_back("honest-piece-failed:piece=" + std::to_string(idx));
    {
      // the HAVE channel: a piece whose verdict is "fail" must not be put into the have queue
      auto* hq = T->main()->have_queue();
      if (!hq->empty() && hq->front().second == idx && !T->dl.file_list()->bitfield()->get(idx)) {
        c.async_ev.push_back("V:" + std::to_string(idx));
        if (c.viol.size() < 4) c.viol.push_back("have-not-verified:queued-after-failed-verdict:piece=" + std::to_string(idx));
      }
    }
    std::string d = hex(sha1_raw(disk_piece(T, idx)));
    c.last_probe[idx] = d;
    c.async_ev.push_back("X:" + std::to_string(idx) + ":" + d);
    if (torrent::ThreadMain::thread_main()->hash_queue()->has(hq_id(T), idx)) {   // retry_most_popular re-queued it
      c.hashing.insert(idx);
      c.async_ev.push_back("Q:" + std::to_string(idx));
    }
  }
}

static PeerS* peer_of(Ctx& c, const std::string& s) {
  int p = atoi(s.c_str());
  if (p < 0 || p >= (int)c.peers.size()) return nullptr;
  return c.peers[p].get();
}

static bool usable(Ctx& c, PeerS* p) {
  return p != nullptr && p->connected && p->w.fd != -1 && !p->w.eof && c.S->find_connection(c.T, p->port) != nullptr;
}

static std::string answer_data(Ctx& c, PeerS* p, const Req& r) {
  Torrent* T = c.T;
  std::string d;
  if (r.idx < T->piece_count() && (uint64_t)r.off + r.len <= psize(T, r.idx)) d = prange(T, r.idx, r.off, r.len);
  else d.assign(r.len, '\0');
  bool corrupt = false;
  if (p->variant != 0 && r.len > 0) {
    uint32_t gb = r.idx * c.blocks_per_piece + r.off / torrent::Delegator::block_size;
    switch (p->sel) {
    case 'a': corrupt = true; break;
    case 'e': corrupt = gb % 2 == 0; break;
    case 'o': corrupt = gb % 2 == 1; break;
    case 'k': corrupt = p->budget > 0; if (corrupt) p->budget--; break;
    default: break;
    }
  }
  if (corrupt) {
    size_t pos = ((p->variant - 1) % 3) * (r.len - 1) / 2;
    d[pos] = char(d[pos] ^ p->variant);
  }
  if (p->variant != 0 && p->sel == 'x' && r.idx == p->x_idx)
    for (size_t k = 0; k < p->x_bytes.size(); k++) {
      uint64_t a = (uint64_t)p->x_pos + k;
      if (a >= r.off && a < (uint64_t)r.off + r.len) d[a - r.off] = p->x_bytes[k];
    }
  if (r.idx < T->piece_count() && (uint64_t)r.off + r.len <= psize(T, r.idx) && d != prange(T, r.idx, r.off, r.len)) c.tainted.insert(r.idx);
  return d;
}

static void wait_hash(Ctx& c);
static bool usable(Ctx& c, PeerS* p);
// The known stall (finding liveness-stale-transfer): every incomplete piece is listed, nothing is being hashed, and on
// EVERY open (unfinished) block EVERY connected candidate peer has a FINISHED transfer left in Block::m_transfers
// (so Block::insert refuses it) -- and at least one piece went through do_all_failed (a hash failure happened).
static bool stall_is_stale(Ctx& c) {
  // Per open block a connected peer is either already asked (queued / transferring: the library is waiting for it),
  // or refused by Block::insert because a FINISHED transfer of it is left in m_transfers (stale), or a free candidate.
  // The known stall: no free candidate anywhere, no honest peer is sitting on a request, and at least one honest,
  // unchoking peer is refused by a stale transfer.
  Torrent* T = c.T;
  if (c.n_hash_fail == 0) return false;
  auto* tl = T->main()->delegator()->transfer_list();
  std::string bits = T->completed_bits();
  for (uint32_t i = 0; i < bits.size(); i++)
    if (bits[i] != '1' && tl->find(i) == tl->end()) return false;
  if (torrent::ThreadMain::thread_main()->hash_queue()->has(hq_id(T))) return false;
  bool any_open = false, honest_refused = false;
  EACH_PTR(bl, *tl)
    for (auto& blk : *bl) {
      if (blk.is_finished()) continue;
      any_open = true;
      for (auto& p : c.peers) {
        if (!usable(c, p.get()) || p->choking) continue;   // a peer that chokes us cannot be asked: not a candidate
        bool honest = p->variant == 0;
        bool asked = false, stale = false;
        EACH_PTR(t, *blk.queued()) if (t->peer_info() == p->info) asked = true;
        EACH_PTR(t, *blk.transfers()) {
          if (t->peer_info() != p->info) continue;
          if (t->is_finished() && !t->is_valid()) stale = true; else asked = true;
        }
        if (asked) { if (honest) return false; continue; }   // an honest peer never sits on a request in the F phase
        if (!stale) return false;                            // a free candidate that is not asked: a different stall
        if (honest) honest_refused = true;
      }
    }
  return any_open && honest_refused;
}

// A verdict on a piece to which p supplied a block may disconnect p (mark_failed_peers /
// mark_and_disconnect_if_single_peer / erase_seeders) before the bytes p is about to send are read, and the
// recorded order [stimulus, verdict] would then be wrong: let such verdicts arrive first.
static void settle_verdicts_involving(Ctx& c, PeerS* p) {
  auto* tl = c.T->main()->delegator()->transfer_list();
  bool involved = false;
  EACH_PTR(bl, *tl) {
    if (!torrent::ThreadMain::thread_main()->hash_queue()->has(hq_id(c.T), bl->index())) continue;
    for (auto& blk : *bl)
      EACH_PTR(t, *blk.transfers())
        if (t->peer_info() == p->info) involved = true;
  }
  if (involved) wait_hash(c);
}

// header, pump, look at what RequestList::downloading decided, then the data in one go
static void send_piece_header(Ctx& c, PeerS* p, uint32_t idx, uint32_t off, uint32_t len) {
  settle_verdicts_involving(c, p);
  if (!usable(c, p)) return;
  p->w.send_bytes(WirePeer::be32(9 + len) + std::string(1, char(WirePeer::PIECE)) + WirePeer::be32(idx) + WirePeer::be32(off));
  pump_all(c);
  torrent::PeerConnectionBase* pcb = c.S->find_connection(c.T, p->port);
  int started = 0;
  if (pcb != nullptr) {
    auto* t = pcb->m_request_list.transfer();
    started = t != nullptr && t->is_valid() ? 1 : 0;
  }
  c.ev.push_back("P:" + std::to_string(p->id) + ":" + std::to_string(idx) + ":" + std::to_string(off) + ":" + std::to_string(len) + ":" + std::to_string(started));
  observe(c, "header");
}
static void send_data(Ctx& c, PeerS* p, const std::string& d) {
  if (d.empty() || !usable(c, p)) return;
  settle_verdicts_involving(c, p);
  if (!usable(c, p)) return;
  p->w.send_bytes(d);
  c.ev.push_back("B:" + std::to_string(p->id) + ":" + hex(d));
  c.n_write_ops++;
  pump_all(c);
  observe(c, "data");
}

// virtual time, observed every second; scripted peers send a keep-alive every 60 s (the library drops
// connections that were silent for 240 s)
static void pass_time(Ctx& c, int seconds) {
  for (int i = 0; i < seconds && i < 100000; i++) {
    c.S->advance_us(1000000);
    c.clock_s++;
    if (c.clock_s % 60 == 0)
      for (auto& p : c.peers) if (usable(c, p.get()) && !p->mid) p->w.send_bytes(WirePeer::keepalive());
    pump_all(c);
    observe(c, "time");
  }
}

static void wait_hash(Ctx& c) {
  Torrent* T = c.T;
  c.S->settle([T]() { return !torrent::ThreadMain::thread_main()->hash_queue()->has(hq_id(T)); }, 10000);
  pump_all(c);
  observe(c, "wait");
}

static bool answer(Ctx& c, PeerS* p, size_t k) {
  if (!usable(c, p) || p->mid || k >= p->pending.size()) return false;
  Req r = p->pending[k];
  p->pending.erase(p->pending.begin() + k);
  std::string d = answer_data(c, p, r);
  p->answered++;
  send_piece_header(c, p, r.idx, r.off, r.len);
  send_data(c, p, d);
  return true;
}

// Process-global state that a case must find at its baseline: anything carried over from earlier cases (unchoke slot
// accounting, choke queues, handshakes, hash jobs) could decide whether THIS case's download is served.
static std::string dirty_start(Session& S) {
  std::ostringstream o;
  auto* rm = torrent::manager->resource_manager();
  if (rm->currently_upload_unchoked() != 0) o << " up_unchoked=" << rm->currently_upload_unchoked();
  if (rm->currently_download_unchoked() != 0) o << " down_unchoked=" << rm->currently_download_unchoked();
  int g = 0;
  for (auto itr = rm->group_begin(); itr != rm->group_end(); ++itr, ++g) {
    auto* grp = elem_ptr(*itr);
    if (grp->up_queue()->size_unchoked() || grp->up_queue()->size_queued() || grp->down_queue()->size_unchoked() || grp->down_queue()->size_queued())
      o << " group" << g << "=" << grp->up_queue()->size_unchoked() << "/" << grp->up_queue()->size_queued() << "/"
        << grp->down_queue()->size_unchoked() << "/" << grp->down_queue()->size_queued();
  }
  if (rm->size() != 0) o << " downloads=" << rm->size();
  if (S.handshake_count() != 0) o << " handshakes=" << S.handshake_count();
  if (torrent::ThreadMain::thread_main()->hash_queue()->size() != 0) o << " hash_queue=" << torrent::ThreadMain::thread_main()->hash_queue()->size();
  return o.str();
}

static std::string run_case(Session& S, const std::string& line) {
  size_t bar = line.find('|');
  if (bar == std::string::npos) return "BADCASE";
  std::map<std::string, std::string> kv;
  for (auto& tok : split_ws(line.substr(0, bar))) {
    size_t e = tok.find('=');
    if (e != std::string::npos) kv[tok.substr(0, e)] = tok.substr(e + 1);
  }
  auto ops = split_ws(line.substr(bar + 1));
  uint32_t plen = std::stoul(kv["plen"]), seed = std::stoul(kv["seed"]);
  uint64_t total = std::stoull(kv["total"]);
  std::string have = kv["have"];
  uint32_t rc = kv.count("rc") ? std::stoul(kv["rc"]) : 0;

  static std::unique_ptr<Ctx> hold;
  hold = std::make_unique<Ctx>();
  Ctx& c = *hold;
  g_ctx = &c;
  c.S = &S;
  g_case_no++;
  TorrentSpec spec;
  spec.name = "c01_" + std::to_string(g_case_no);
  spec.piece_length = plen;
  spec.content_seed = seed;
  if (total > 3000) spec.files = {{"a.bin", total - total / 3}, {"d/b.bin", total / 3}};
  else spec.files = {{"a.bin", total}};
  uint32_t np = (uint32_t)((total + plen - 1) / plen);
  g_big = BigSpec();
  if (kv.count("big")) {
    g_big.on = true; g_big.total = total; g_big.plen = plen; g_big.seed = seed;
    std::stringstream bs(kv["big"]); std::string t;
    while (std::getline(bs, t, ',')) if (!t.empty()) g_big.mat.insert((uint32_t)std::stoul(t));
    have.assign(np, '0');
  }
  if (have.size() != np) return "BADCASE:have";
  uint32_t pre = kv.count("pre") ? std::stoul(kv["pre"]) : 0;
  if (pre > 0) {
    // stale files already in the download directory: <length + pre> bytes of 0xee each (Session::add_torrent with
    // write_files=false only creates the directory; its path is scratch/s<counter>/<name>)
    if (have.find('1') != std::string::npos) return "BADCASE:pre";
    std::string root = S.scratch() + "/s" + std::to_string(S.m_counter) + "/" + spec.name;
    for (auto& f : spec.files) {
      std::filesystem::create_directories(std::filesystem::path(root + "/" + f.path).parent_path());
      std::ofstream out(root + "/" + f.path, std::ios::binary | std::ios::trunc);
      std::string junk((size_t)f.length + pre, char(0xee));
      out.write(junk.data(), (std::streamsize)junk.size());
    }
  }
  if (have.find('1') == std::string::npos) spec.write_files = false;
  else for (uint32_t i = 0; i < np; i++) if (have[i] != '1') spec.corrupt_pieces.push_back(i);
  c.blocks_per_piece = (plen + torrent::Delegator::block_size - 1) / torrent::Delegator::block_size;
  static std::unique_ptr<Torrent> big_hold;
  Torrent* T = nullptr;
  if (g_big.on) {
    // metainfo by hand: real digests for the materialised pieces, a dummy digest (never matches) for all others
    big_hold = std::make_unique<Torrent>();
    T = big_hold.get();
    spec.files = {{"big.bin", total}};
    spec.single_file = true;
    spec.write_files = false;
    T->spec = spec;
    std::string pieces;
    for (uint32_t i = 0; i < np; i++) {
      std::string hsh = g_big.mat.count(i) ? sha1_raw(prange(T, i, 0, psize(T, i))) : std::string(20, char(0x11));
      T->piece_hashes.push_back(hsh);
      pieces += hsh;
    }
    auto bstr = [](const std::string& x) { return std::to_string(x.size()) + ":" + x; };
    T->info_bytes = "d" + bstr("length") + "i" + std::to_string(total) + "e" + bstr("name") + bstr("big.bin") +
                    bstr("piece length") + "i" + std::to_string(plen) + "e" + bstr("pieces") + bstr(pieces) + bstr("private") + "i1ee";
    T->info_hash = sha1_raw(T->info_bytes);
    T->root = S.scratch() + "/big" + std::to_string(g_case_no);
    std::filesystem::create_directories(T->root);
    T->dl = S.add_raw("d4:info" + T->info_bytes + "e");
    T->dl.file_list()->set_root_dir(T->root);
    T->dl.open(0);
    T->dl.hash_check(false);
    torrent::Download d = T->dl;
    if (!S.settle([d]() { return d.is_hash_checked(); }, 120000)) { S.remove(T); return "ERR:big-hashcheck"; }
  } else {
    T = S.add_torrent(spec);
  }
  c.T = T;
  if (T->completed_bits() != have) { S.remove(T); return "ERR:hashcheck " + T->completed_bits(); }
  T->dl.data()->slot_chunk_done() = [](torrent::ChunkListNode* n) { on_chunk_done(n->index()); };
  T->dl.data()->slot_download_done() = []() { g_ctx->done_signalled = true; g_ctx->async_ev.push_back("F"); };
  S.start(T);

  // peers
  {
    std::string ps = kv["peers"];
    size_t p0 = 0;
    int id = 0;
    while (p0 <= ps.size() && !ps.empty()) {
      size_t q = ps.find(',', p0);
      std::string tok = ps.substr(p0, q == std::string::npos ? std::string::npos : q - p0);
      auto p = std::make_unique<PeerS>();
      p->id = id++;
      if (!tok.empty()) {
        p->variant = tok[0] - '0';
        if (tok.size() > 1) p->sel = tok[1];
        size_t e = 2;
        if (p->sel == 'k') { p->budget = atoi(tok.c_str() + 2); while (e < tok.size() && isdigit((unsigned char)tok[e])) e++; }
        if (p->sel == 'x') {
          unsigned a = 0, b = 0; char hx[200] = {0};
          if (sscanf(tok.c_str() + 2, "%u_%u_%199[0-9a-f]", &a, &b, hx) == 3) { p->x_idx = a; p->x_pos = b; p->x_bytes = unhex(hx); }
        }
        while (tok.size() > 2 && (tok.back() == 'i' || tok.back() == 't')) {
          if (tok.back() == 'i') p->ignore_cancel = true; else p->trickler = true;
          tok.pop_back();
        }
      }
      c.peers.push_back(std::move(p));
      if (q == std::string::npos) break;
      p0 = q + 1;
    }
  }
  std::string err;
  std::string offered(np, g_big.on ? '0' : '1');
  for (uint32_t i : g_big.mat) if (i < np) offered[i] = '1';
  for (auto& p : c.peers) {
    std::string ip = "127.0." + std::to_string(1 + (g_case_no % 200)) + "." + std::to_string(2 + p->id);
    // Session::find_connection identifies a connection by its remote PORT only; peers bound to different loopback
    // addresses can be given the same ephemeral port: reconnect until the port is unique among this case's peers.
    bool okc = false;
    for (int attempt = 0; attempt < 20 && !okc; attempt++) {
      if (!p->w.connect_to(S.listen_port(), ip.c_str(), 1 << 20, 1 << 20)) break;
      okc = true;
      for (auto& o2 : c.peers) if (o2.get() != p.get() && o2->port != 0 && o2->port == p->w.local_port()) okc = false;
      if (!okc) { p->w.close_all(); pump_all(c); }
    }
    if (!okc) { err = "ERR:connect"; break; }
    char idbuf[21];
    snprintf(idbuf, sizeof idbuf, "-LV0001-%06u%06u", g_case_no % 1000000, (unsigned)p->id);
    p->w.send_bytes(WirePeer::handshake(T->info_hash, std::string(idbuf, 20)) + WirePeer::bitfield(offered));
    pump_all(c);
    HandshakeIn hs;
    if (!p->w.take_handshake(hs) || hs.info_hash != T->info_hash) { err = "ERR:handshake"; break; }
    p->port = p->w.local_port();
    torrent::PeerConnectionBase* pcb = S.find_connection(T, p->port);
    if (pcb == nullptr) { err = "ERR:noconn"; break; }
    p->info = pcb->mutable_peer_info();
    c.by_info[p->info] = p->id;
    p->connected = true;
    if (rc) Session::set_recv_chunk(p->port, rc);
    c.ev.push_back("C:" + std::to_string(p->id));
    p->w.send_bytes(WirePeer::unchoke());
    pump_all(c);
    observe(c, "connect");
  }

  if (err.empty()) {
    for (auto& o : ops) {
      std::vector<std::string> f;
      { std::stringstream ss(o); std::string t; while (std::getline(ss, t, ':')) f.push_back(t); }
      if (f.empty()) continue;
      char kind = f[0].empty() ? '?' : f[0][0];
      PeerS* p = f.size() > 1 ? peer_of(c, f[1]) : nullptr;
      if (kind == 'P') {
        answer(c, p, f.size() > 2 ? (size_t)atoi(f[2].c_str()) : 0);
      } else if (kind == 'B' && f.size() > 2) {
        if (!usable(c, p) || p->mid || p->pending.empty()) continue;
        Req r = p->pending.front();
        p->pending.pop_front();
        std::string d = answer_data(c, p, r);
        p->answered++;
        size_t n = std::min<size_t>((size_t)atoi(f[2].c_str()), d.size() > 0 ? d.size() - 1 : 0);
        send_piece_header(c, p, r.idx, r.off, r.len);
        p->mid = true;
        p->rest = d.substr(n);
        send_data(c, p, d.substr(0, n));
      } else if (kind == 'M' && f.size() > 2) {
        if (!usable(c, p) || !p->mid) continue;
        size_t n = std::min<size_t>((size_t)atoi(f[2].c_str()), p->rest.size());
        std::string d = p->rest.substr(0, n);
        p->rest.erase(0, n);
        if (p->rest.empty()) p->mid = false;
        send_data(c, p, d);
      } else if (kind == 'Z') {
        if (!usable(c, p) || p->mid || p->pending.empty()) continue;
        Req r = p->pending.front();
        p->pending.pop_front();
        send_piece_header(c, p, r.idx, r.off, 0);
      } else if (kind == 'S' && f.size() > 2) {
        if (!usable(c, p) || p->mid || p->pending.empty()) continue;
        Req r = p->pending.front();
        p->pending.pop_front();
        uint32_t n = (uint32_t)atoi(f[2].c_str());
        if (n == 0 || n == r.len) n = r.len + 1;
        c.tainted.insert(r.idx);
        send_piece_header(c, p, r.idx, r.off, n);
        if (usable(c, p)) { p->mid = true; p->rest = std::string(n, 'x'); }
      } else if (kind == 'U' && f.size() > 4) {
        if (!usable(c, p) || p->mid) continue;
        Req r{(uint32_t)strtoul(f[2].c_str(), 0, 10), (uint32_t)strtoul(f[3].c_str(), 0, 10), (uint32_t)strtoul(f[4].c_str(), 0, 10)};
        if (r.len > (1u << 17)) r.len = 1u << 17;
        PeerS honest_copy_dummy;
        int v = p->variant; p->variant = 0;
        std::string d = answer_data(c, p, r);
        p->variant = v;
        send_piece_header(c, p, r.idx, r.off, r.len);
        send_data(c, p, d);
      } else if (kind == 'K' || kind == 'N') {
        if (!usable(c, p) || p->mid) continue;
        p->w.send_bytes(kind == 'K' ? WirePeer::choke() : WirePeer::unchoke());
        p->choking = kind == 'K';
        if (kind == 'K' && !p->ignore_cancel) p->pending.clear();
        c.ev.push_back(std::string(kind == 'K' ? "K:" : "U:") + std::to_string(p->id));
        pump_all(c);
        observe(c, "choke");
      } else if (kind == 'X' || kind == 'R') {
        if (p == nullptr || p->w.fd == -1) continue;
        if (kind == 'X') p->w.close_all(); else p->w.reset();
        pump_all(c);
        observe(c, "close");
      } else if (kind == 'T' && f.size() > 1) {
        pass_time(c, atoi(f[1].c_str()));
      } else if (kind == 'W') {
        wait_hash(c);
      } else if (kind == 'F' && f.size() > 1) {
        int rounds = atoi(f[1].c_str()), dry = 0;
        for (int r = 0; r < rounds; r++) {
          bool any = false;
          for (auto& pp : c.peers) {
            if (pp->mid && pp->trickler && usable(c, pp.get())) {
              // a stalling peer: one more byte of its block per round, which is not progress
              if (pp->rest.size() > 1) { std::string d = pp->rest.substr(0, 1); pp->rest.erase(0, 1); send_data(c, pp.get(), d); }
              continue;
            }
            if (pp->mid && usable(c, pp.get())) {
              std::string d = pp->rest; pp->rest.clear(); pp->mid = false;
              send_data(c, pp.get(), d);
              any = true;
            }
            // bounded: a library that re-requests a failed block from the same corrupting peer at once would keep this going
            for (int k = 0; k < 64 && usable(c, pp.get()) && !pp->pending.empty(); k++) { answer(c, pp.get(), 0); any = true; }
          }
          wait_hash(c);
          if (T->dl.file_list()->is_done()) break;
          if (!any) {
            bool trickling = false;
            for (auto& pp : c.peers) if (pp->mid && pp->trickler && usable(c, pp.get())) trickling = true;
            if (++dry > (trickling ? 9 : 3)) {   // a trickled block is given 10 x 125 s
              for (auto& pp : c.peers) if (pp->variant == 0 && !pp->choking && usable(c, pp.get())) c.stuck = true;
              if (g_big.on) c.stuck = false;   // the peers of a huge sparse layout offer only the materialised pieces
              if (c.stuck) c.stale = stall_is_stale(c);
              if (c.stuck) c.trickled = trickling;
              break;
            }
            pass_time(c, 125);
          } else dry = 0;
        }
      } else {
        err = "BADCASE:op";
        break;
      }
    }
  }
  if (err.empty()) { pump_all(c); observe(c, "end"); S.advance_us(1000); pump_all(c); observe(c, "end2"); }

  std::string out;
  for (auto& e : c.ev) { if (!out.empty()) out += " "; out += e; }
  if (out.empty()) out = "-";
  std::string bits = T->completed_bits();
  std::string verdict = c.viol.empty() ? "ok" : "VIOL";
  for (auto& v : c.viol) verdict += " " + v;
  out += " || " + verdict + " ;; done=" + std::to_string(T->dl.file_list()->is_done() ? 1 : 0) + " sig=" + std::to_string(c.done_signalled ? 1 : 0) +
         " completed=" + bits + " writes=" + std::to_string(c.n_write_ops) + " hok=" + std::to_string(c.n_hash_ok) +
         " hfail=" + std::to_string(c.n_hash_fail) + " disc=" + std::to_string(c.n_disc) + " stuck=" + std::to_string(c.stuck ? 1 : 0) + " stale=" + std::to_string(c.stale ? 1 : 0) + " trickled=" + std::to_string(c.trickled ? 1 : 0);
  size_t pend = 0;
  for (auto& p : c.peers) pend += p->pending.size();
  out += " pending=" + std::to_string(pend) + " listed=" + std::to_string(T->main()->delegator()->transfer_list()->size());
  if (!err.empty()) out = err + " " + out;

  // tear down
  for (auto& p : c.peers) p->w.close_all();
  pump_all(c);
  Session::clear_io_limits();
  T->dl.data()->slot_chunk_done() = nullptr;
  T->dl.data()->slot_download_done() = nullptr;
  g_ctx = nullptr;
  S.remove(T);
  return out;
}

// per-case watchdog (ROBUSTNESS.md rule 5): a case that does not finish is ONE result line "HANG", the process ends and
// ltv.run_sharded continues with the next case
static void on_alarm(int) {
  static const char msg[] = "HANG case did not finish within the per-case time limit\n";
  ssize_t r = write(1, msg, sizeof msg - 1); (void)r;
  _exit(5);
}

// Behavioural probe (--probe): after a hash-failed round with the finished transfer of a peer left in Block::m_transfers,
// does Block::insert accept the same peer again? (1 = the tree has the stale-transfer repair)
static int probe_repaired() {
  sockaddr_in sa{};
  sa.sin_family = AF_INET;
  sa.sin_port = htons(6881);
  sa.sin_addr.s_addr = htonl(0x7f000002);
  auto* pi = new torrent::PeerInfo(reinterpret_cast<const sockaddr*>(&sa));
  auto* bl = new torrent::BlockList(torrent::Piece(0, 0, torrent::Delegator::block_size), torrent::Delegator::block_size);
  torrent::Block& b = (*bl)[0];
  torrent::BlockTransfer* t = b.insert(pi);
  if (t == nullptr) return -1;
  b.transfering(t);
  t->set_position(t->piece().length());
  b.completed(t);
  bl->do_all_failed();
  torrent::BlockTransfer* again = b.insert(pi);
  return again != nullptr ? 1 : 0;   // the objects are leaked on purpose (their destructors assert on this artificial state)
}

int main(int argc, char** argv) {
  std_setup();
  if (argc > 1 && std::string(argv[1]) == "--probe") {
    int r = -1;
    try { Session S; r = probe_repaired(); std::cout << "repaired=" << r << "\n"; std::cout.flush(); _exit(0); } catch (std::exception& e) { r = -1; }
    std::cout << "repaired=" << r << "\n";
    std::cout.flush();
    _exit(0);
  }
  signal(SIGALRM, on_alarm);
  int case_limit = getenv("LTV_CASE_TIMEOUT") ? atoi(getenv("LTV_CASE_TIMEOUT")) : 30;
  std::unique_ptr<Session> S;
  std::string line;
  while (std::getline(std::cin, line)) {
    try {
      alarm(line.find(" big=") != std::string::npos ? 4 * case_limit : case_limit);
      if (!S) S = std::make_unique<Session>();
      {
        S->step();
        std::string dirty = dirty_start(*S);
        if (!dirty.empty()) {
          // not at the baseline: this process is not fit to judge liveness any more. Log it and end WITHOUT a result line:
          // ltv.run_sharded re-runs the case (and the rest of the shard) in fresh processes.
          if (const char* lf = getenv("LTV_C01_DIRTYLOG")) { std::ofstream f(lf, std::ios::app); f << "DIRTY-START" << dirty << " before: " << line.substr(0, 160) << "\n"; }
          fprintf(stderr, "DIRTY-START%s\n", dirty.c_str());
          { std::error_code ec; std::filesystem::remove_all(S->scratch(), ec); }
          _exit(6);
        }
      }
      std::cout << run_case(*S, line) << "\n";
      alarm(0);
    } catch (torrent::internal_error& e) {
      std::string ev;
      if (g_ctx) for (auto& x : g_ctx->ev) { if (x[0] != 'B' && x[0] != 'S' && x[0] != 'X') ev += x + " "; }
      std::cout << "ERR:internal " << e.what() << " || after: " << ev.substr(ev.size() > 600 ? ev.size() - 600 : 0) << "\n";
      std::cout.flush();
      { std::error_code ec; if (S) std::filesystem::remove_all(S->scratch(), ec); }
      _exit(3);
    } catch (std::exception& e) {
      std::cout << "ERR:other " << e.what() << "\n";
    }
  }
  S.reset();
  return 0;
}
