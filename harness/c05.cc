// C05 implementation driver: same case protocol as ocaml/c05_driver.ml, real library through the
// session harness. One Session per process; one torrent per distinct layout (cached); one fresh
// scripted peer connection per case.
//
// Case:  plen=<n> total=<n> done=<01..> seed=<n> files=<a,b,c> [enc=1] | op ...
//   enc=1: the scripted peer negotiates MSE with an RC4 stream first (harness/common/mseinit.h); what
//   is compared is the stream after the peer's own, independent RC4 decryption.
//   R:i:b:l / C:i:b:l  the peer sends REQUEST / CANCEL (batched until the next W)
//   D:0                unchoke decision of the real choke_queue: the peer's INTERESTED (batched, takes
//                      effect in order when read); if the peer was snubbed by D:1, 11 s of virtual time pass
//                      and the snub is lifted, which unchokes at once (no R/C may be pending: generator
//                      puts W:0 in front).
//   D:1                choke decision: Peer::set_snubbed(true) on the real choke_queue, at once.
//                      Must not follow R/C/D:0 directly and must be followed by a W (generator puts
//                      W:0): any stepping of the library afterwards is a write opportunity.
//   W:k / W:inf        flush the batch, let the library-side socket accept k more bytes, step to
//                      quiescence, the peer reads everything available; snapshot.
// Output: see ocaml/c05_driver.ml; after " || " oracle-only fields (not compared with the model):
//   pay=<1|0 per PIECE: payload equals the content range>  other=<count of non choke/piece msgs>
//   leak=<ChunkList references left after the connection was torn down, "-" = none>
// snapshots end in /c<index of the chunk the connection holds mapped|->r<sum of the torrent's chunk references>
#include "config.h"

#include <filesystem>
#include <map>
#include <openssl/md5.h>

#include "common/session.h"
#include "common/wirepeer.h"
#include "common/mseinit.h"
#include "download/download_main.h"
#include "protocol/initial_seed.h"
#include "protocol/peer_connection_base.h"
#include "torrent/exceptions.h"

using namespace ltv;

static std::map<std::string, Torrent*> g_torrents;
static uint32_t g_case_no = 0;

static Torrent* get_torrent(Session& S, const std::string& key, uint32_t plen, uint64_t total,
                            const std::string& done, uint32_t seed, const std::string& files, bool iseed) {
  auto it = g_torrents.find(key);
  if (it != g_torrents.end()) return it->second;
  TorrentSpec spec;
  spec.name = "c05_" + std::to_string(g_torrents.size());
  spec.piece_length = plen;
  spec.content_seed = seed;
  uint64_t sum = 0;
  size_t p = 0;
  int k = 0;
  while (p <= files.size()) {
    size_t q = files.find(',', p);
    std::string tok = files.substr(p, q == std::string::npos ? std::string::npos : q - p);
    if (!tok.empty()) {
      uint64_t len = std::stoull(tok);
      spec.files.push_back({(k % 2 ? "d" + std::to_string(k) + "/" : std::string()) + "f" + std::to_string(k) + ".bin", len});
      sum += len;
      k++;
    }
    if (q == std::string::npos) break;
    p = q + 1;
  }
  if (sum != total) throw std::runtime_error("files do not sum to total");
  for (size_t i = 0; i < done.size(); i++)
    if (done[i] != '1') spec.corrupt_pieces.push_back((uint32_t)i);
  Torrent* T = S.add_torrent(spec);
  if (T->completed_bits() != done) throw std::runtime_error("hash check gave " + T->completed_bits() + " wanted " + done);
  if (iseed) S.set_conn_type(T, (int)torrent::Download::CONNECTION_INITIAL_SEED);   // needs a complete torrent
  S.start(T);
  if (iseed && T->main()->initial_seeding() == nullptr) throw std::runtime_error("initial seeding did not start");
  g_torrents[key] = T;
  return T;
}

static std::string show_piece(uint32_t i, uint32_t b, uint32_t l) {
  return std::to_string(i) + ":" + std::to_string(b) + ":" + std::to_string(l);
}

static std::string snapshot(Session& S, Torrent* T, const std::string& ip, uint16_t port, bool enc) {
  torrent::PeerConnectionBase* pcb = S.find_connection(T, ip, port);
  if (pcb == nullptr) return "X";
  char w = '?';
  switch (pcb->m_up->get_state()) {
  case torrent::ProtocolBase::IDLE: w = 'I'; break;
  case torrent::ProtocolBase::MSG: w = 'M'; break;
  case torrent::ProtocolBase::WRITE_PIECE: w = 'P'; break;
  default: break;
  }
  return std::string(1, w) + "/" + (pcb->m_up_choke.choked() ? "1" : "0") + (pcb->m_send_choked ? "1" : "0") + "/" +
         std::to_string(pcb->m_peer_chunks.upload_queue()->size()) + "/" +
         show_piece(pcb->m_up_piece.index(), pcb->m_up_piece.offset(), pcb->m_up_piece.length()) +
         (enc && w == 'P' ? (pcb->m_encrypt_buffer ? "/e" + std::to_string(pcb->m_encrypt_buffer->remaining()) + ":" +
                                                       std::to_string(pcb->m_encrypt_buffer->size_end())
                                                   : std::string("/e-")) : std::string()) +
         "/c" + (pcb->m_up_chunk.is_valid() ? std::to_string(pcb->m_up_chunk.index()) : std::string("-")) +
         "r" + std::to_string(S.chunk_refs_total(T));
}

static std::string run_case(Session& S, const std::string& line) {
  size_t bar = line.find('|');
  if (bar == std::string::npos) return "BADCASE";
  std::map<std::string, std::string> kv;
  for (auto& tok : split_ws(line.substr(0, bar))) {
    size_t e = tok.find('=');
    if (e != std::string::npos) kv[tok.substr(0, e)] = tok.substr(e + 1);
  }
  auto ops = split_ws(line.substr(bar + 1));
  uint32_t plen = std::stoul(kv["plen"]), seed = std::stoul(kv["seed"]);
  uint64_t total = std::stoull(kv["total"]);
  // role=iseed: the torrent is started in initial-seeding mode (PeerConnection<CONNECTION_INITIAL_SEED>,
  // src/protocol/initial_seed.cc): the library offers pieces with HAVE, may drop queued requests
  // (should_upload) and choke on its own. Not modelled: such cases are judged by the property oracle only.
  bool iseed = kv.count("role") && kv["role"] == "iseed";
  std::string key = kv["plen"] + "/" + kv["total"] + "/" + kv["done"] + "/" + kv["seed"] + "/" + kv["files"] + (iseed ? "/iseed" : "");
  Torrent* T = get_torrent(S, key, plen, total, kv["done"], seed, kv["files"], iseed);

  // no Manager tick inside a case: each later D:0 needs 11 s of virtual time
  int unchokes = 0;
  for (auto& o : ops) if (o == "D:0") unchokes++;
  S.advance_us(1000000);
  S.avoid_tick_within((int64_t)(unchokes * 11 + 3) * 1000000);

  g_case_no++;
  WirePeer P;
  std::string ip = "127." + std::to_string(1 + (g_case_no >> 16) % 100) + "." + std::to_string((g_case_no >> 8) & 255) + "." + std::to_string(g_case_no & 255);
  if (ip == "127.1.0.1" || (g_case_no & 255) == 0 || (g_case_no & 255) == 255) ip = "127.101.0." + std::to_string(1 + g_case_no % 250);
  // enc=1: MSE, RC4 stream. enc=2: MSE handshake, PLAINTEXT stream selected (crypto_select 1).
  // out=1: the LIBRARY connects to the scripted peer (which then is the MSE responder; needs enc=1|2).
  bool mse = kv.count("enc") && (kv["enc"] == "1" || kv["enc"] == "2");
  bool enc = mse && kv["enc"] == "1";
  bool outgoing = kv.count("out") && kv["out"] == "1";
  if (outgoing && !mse) return "BADCASE:out-needs-mse";
  char idbuf[21];
  snprintf(idbuf, sizeof idbuf, "-LV0001-%012u", g_case_no);
  std::string hello = WirePeer::handshake(T->info_hash, std::string(idbuf, 20)) + WirePeer::keepalive();
  MseInitiator MI(P, 1000 + g_case_no);
  MseResponder MR(P, 1000 + g_case_no);
  if (outgoing) {
    uint16_t lport = P.listen_on(ip.c_str());
    if (lport == 0) return "ERR:listen";
    S.connect_out(T, ip, lport);
    if (!MR.negotiate(S, T->info_hash, enc ? 2 : 1)) return "ERR:mse-out";
  } else {
    if (!P.connect_to(S.listen_port(), ip.c_str(), 1 << 20, 0)) return "ERR:connect";
    if (mse && !MI.negotiate(S, T->info_hash, enc ? 2 : 1)) return "ERR:mse";
    if (mse && MI.rc4() != enc) return "ERR:mse-select";
  }
  // R: the decrypted (or plain) receive side; all parsing below goes through it
  WirePeer& R = !mse ? P : (outgoing ? MR.plain : MI.plain);
  auto absorb = [&]() { if (mse) { if (outgoing) MR.absorb(); else MI.absorb(); } };
  auto seal = [&](const std::string& x) { return !mse ? x : (outgoing ? MR.seal(x) : MI.seal(x)); };
  P.send_bytes(seal(hello));
  pump(S, {&P});
  absorb();
  HandshakeIn hs;
  if (!R.take_handshake(hs) || hs.info_hash != T->info_hash) return "ERR:handshake";
  uint16_t port = P.local_port();
  std::string lip = P.local_ip();
  torrent::PeerConnectionBase* pcb0 = S.find_connection(T, lip, port);
  if (pcb0 == nullptr) return "ERR:noconn";
  if (pcb0->is_encrypted() != enc) return "ERR:stream-mode";
  // whatever the library says before the scenario starts (bitfield, interested) is not compared
  std::string haves;   // pieces offered with HAVE (initial seeding), prelude included
  { WireMsg m; while (R.next_message(m)) if (m.id == WirePeer::HAVE && m.body.size() == 4) haves += (haves.empty() ? "" : ",") + std::to_string(m.u32(0)); }
  if (!R.rx.empty()) return "ERR:prelude";
  Session::set_send_budget(lip, port, 0);

  std::string batch, snaps, err;
  for (auto& o : ops) {
    char kind = o.empty() ? '?' : o[0];
    if (kind == 'R' || kind == 'C') {
      uint32_t a, b, c;
      if (sscanf(o.c_str() + 1, ":%u:%u:%u", &a, &b, &c) != 3) return "BADCASE";
      batch += kind == 'R' ? WirePeer::request(a, b, c) : WirePeer::cancel(a, b, c);
    } else if (o == "D:0") {
      // unchoke decision = the peer's INTERESTED reaching the real choke_queue (takes effect when the
      // batch is read, in order). After a snub: un-snub first (the queue then waits for INTERESTED)
      // and let 11 s of virtual time pass (choke_queue refuses to unchoke within 10 s of the last change).
      torrent::PeerConnectionBase* pcb = S.find_connection(T, lip, port);
      bool need_interested = true;
      if (pcb != nullptr && pcb->m_up_choke.snubbed()) {
        if (!batch.empty()) return "BADCASE:D0-after-message";
        S.advance_us(11 * 1000000);
        pcb = S.find_connection(T, lip, port);
        if (pcb != nullptr) {
          S.force_choke(pcb, false);
          // since /repo d278df5 the snub keeps the peer's interest and lifting it unchokes at once;
          // before that fix the queue waited for a fresh INTERESTED
          need_interested = pcb->m_up_choke.choked();
        }
      }
      if (need_interested) batch += WirePeer::interested();
    } else if (o == "D:1") {
      if (!batch.empty()) return "BADCASE:D1-after-message";
      torrent::PeerConnectionBase* pcb = S.find_connection(T, lip, port);
      if (pcb != nullptr && !pcb->m_up_choke.choked()) {
        S.force_choke(pcb, true);
        if (!pcb->m_up_choke.choked()) err = "ERR:choke-not-applied";
      }
    } else if (kind == 'W') {
      int64_t k = o == "W:inf" ? (1ll << 40) : std::stoll(o.substr(2));
      P.tx_pending += seal(batch);
      batch.clear();
      for (int i = 0; i < 1000 && !P.tx_pending.empty(); i++) P.flush();
      if (!P.tx_pending.empty() && !P.eof) return "ERR:batch-does-not-fit";
      Session::set_send_budget(lip, port, k);
      pump(S, {&P});
      absorb();
      Session::set_send_budget(lip, port, 0);   // the budget belongs to this write opportunity only
      if (!snaps.empty()) snaps += ";";
      snaps += snapshot(S, T, lip, port, enc);
    } else {
      return "BADCASE";
    }
  }
  Session::set_send_budget(lip, port, -1);

  // parse what the peer received
  MD5_CTX md;
  MD5_Init(&md);
  uint64_t n = 0;
  std::string msgs, pay;
  int other = 0;
  while (true) {
    std::string before = R.rx;
    WireMsg m;
    if (!R.next_message(m)) break;
    size_t raw_len = before.size() - R.rx.size();
    bool keep = false;
    if (m.id == WirePeer::CHOKE || m.id == WirePeer::UNCHOKE) {
      keep = true;
      msgs += std::string(msgs.empty() ? "" : ",") + (m.id == WirePeer::CHOKE ? "C1" : "C0");
    } else if (m.id == WirePeer::PIECE && m.body.size() >= 8) {
      keep = true;
      uint32_t i = m.u32(0), b = m.u32(4), l = (uint32_t)(m.body.size() - 8);
      msgs += std::string(msgs.empty() ? "" : ",") + "P:" + show_piece(i, b, l);
      bool ok = i < T->piece_count() && (uint64_t)b + l <= T->piece_size(i) && m.body.compare(8, l, T->range(i, b, l)) == 0;
      pay += ok ? "1" : "0";
    } else {
      other++;
      if (m.id == WirePeer::HAVE && m.body.size() == 4) haves += (haves.empty() ? "" : ",") + std::to_string(m.u32(0));
    }
    if (keep) {
      MD5_Update(&md, before.data(), raw_len);
      n += raw_len;
    }
  }
  unsigned char dg[16];
  MD5_Final(dg, &md);
  torrent::PeerConnectionBase* pcb = S.find_connection(T, lip, port);
  bool closed = pcb == nullptr;
  std::string out = "closed=" + std::to_string(closed ? 1 : 0) + " n=" + std::to_string(n) + " md5=" + hex((char*)dg, 16) +
                    " msgs=" + (msgs.empty() ? "-" : msgs) + " snaps=" + (snaps.empty() ? "-" : snaps) +
                    " q=" + (closed ? std::string("X") : S.dump_upload_queue(pcb));
  if (!R.rx.empty()) out += " trail=" + std::to_string(R.rx.size());
  if (!err.empty()) out += " " + err;
  out += " || pay=" + (pay.empty() ? "-" : pay) + " other=" + std::to_string(other) + " have=" + (haves.empty() ? std::string("-") : haves) + " eof=" + std::to_string(P.eof ? 1 : 0);

  // tear the connection down before the next case; afterwards no chunk reference may be left
  P.close_all();
  pump(S, {});
  Session::clear_io_limits();
  out += " leak=" + S.dump_chunk_refs(T);
  return out;
}

int main() {
  std_setup();
  Session::Config cfg;
  cfg.enc_handshake_mode = 2;   // prefer: outgoing connections start with MSE; incoming plain ones stay allowed
  std::unique_ptr<Session> S;
  std::string line;
  while (std::getline(std::cin, line)) {
    try {
      if (!S) S = std::make_unique<Session>(cfg);
      std::cout << run_case(*S, line) << "\n";
    } catch (torrent::internal_error& e) {
      std::cout << "ERR:internal " << e.what() << "\n";
      std::cout.flush();
      { std::error_code ec; if (S) std::filesystem::remove_all(S->scratch(), ec); }
      _exit(3);   // the session is not usable after an internal_error; run_sharded restarts after this case
    } catch (std::exception& e) {
      std::cout << "ERR:other " << e.what() << "\n";
    }
  }
  S.reset();
  return 0;
}
