// C05 implementation driver: same case protocol as ocaml/c05_driver.ml, real library through the
// session harness. One Session per process; one torrent per distinct layout (cached); one fresh
// scripted peer connection per case.
//
// Case:  plen=<n> total=<n> done=<01..> seed=<n> files=<a,b,c> [enc=1] [off=<file indices>] | op ...
//   off=1,2: those files are set to PRIORITY_OFF + update_priorities() before the torrent starts (partial seeding)
//   enc=1: the scripted peer negotiates MSE with an RC4 stream first (harness/common/mseinit.h); what
//   is compared is the stream after the peer's own, independent RC4 decryption.
//   R:i:b:l / C:i:b:l  the peer sends REQUEST / CANCEL (batched until the next W)
//   D:0                unchoke decision of the real choke_queue: the peer's INTERESTED (batched, takes
//                      effect in order when read); if the peer was snubbed by D:1, 11 s of virtual time pass
//                      and the snub is lifted, which unchokes at once (no R/C may be pending: generator
//                      puts W:0 in front).
//   N                  choke decision by the peer itself: NOT_INTERESTED (batched, takes effect in order when read)
//   D:1                choke decision: Peer::set_snubbed(true) on the real choke_queue, at once.
//                      Must not follow R/C/D:0 directly and must be followed by a W (generator puts
//                      W:0): any stepping of the library afterwards is a write opportunity.
//   K                  keep-alive tick: pcb->receive_keepalive(), what DownloadWrapper::receive_tick does for every
//                      connection when ticks % 4 == 0 (no pending R/C in front; generator puts W:0 around it)
//   Q:n                (cases with rate=<bytes/s> in the header: real upload Throttle enabled) grant n bytes of
//                      quota: ThrottleList::update_quota(n), what Throttle::receive_tick calls. Before every W the
//                      throttle counters of this connection's node are read and reported (thr=...): the glue feeds
//                      them to the model as op T
//   PROBE              (whole line) print the policy of the compiled code: q= ll= ei= eu= (see run_probe)
//   W:k / W:inf        flush the batch, let the library-side socket accept k more bytes, step to
//                      quiescence, the peer reads everything available; snapshot.
// Output: see ocaml/c05_driver.ml; after " || " oracle-only fields (not compared with the model):
//   pay=<1|0 per PIECE: payload equals the content range>  other=<count of non choke/piece msgs>
//   leak=<ChunkList references left after the connection was torn down, "-" = none>
// snapshots end in /c<index of the chunk the connection holds mapped|->r<sum of the torrent's chunk references>
#include "config.h"

#include <filesystem>
#include <map>
#include <openssl/md5.h>

#include "common/session.h"
#include "common/wirepeer.h"
#include "common/mseinit.h"
#include "download/download_main.h"
#include "protocol/initial_seed.h"
#include "protocol/peer_connection_base.h"
#include "net/throttle_list.h"
#include "net/throttle_node.h"
#include "torrent/data/file.h"
#include "torrent/data/file_list.h"
#include "torrent/exceptions.h"
#include "torrent/throttle.h"
#include "torrent/torrent.h"

using namespace ltv;

static std::map<std::string, Torrent*> g_torrents;
static uint32_t g_case_no = 0;

static Torrent* get_torrent(Session& S, const std::string& key, uint32_t plen, uint64_t total,
                            const std::string& done, uint32_t seed, const std::string& files, bool iseed,
                            const std::string& off) {
  auto it = g_torrents.find(key);
  if (it != g_torrents.end()) return it->second;
  TorrentSpec spec;
  spec.name = "c05_" + std::to_string(g_torrents.size());
  spec.piece_length = plen;
  spec.content_seed = seed;
  uint64_t sum = 0;
  size_t p = 0;
  int k = 0;
  while (p <= files.size()) {
    size_t q = files.find(',', p);
    std::string tok = files.substr(p, q == std::string::npos ? std::string::npos : q - p);
    if (!tok.empty()) {
      uint64_t len = std::stoull(tok);
      spec.files.push_back({(k % 2 ? "d" + std::to_string(k) + "/" : std::string()) + "f" + std::to_string(k) + ".bin", len});
      sum += len;
      k++;
    }
    if (q == std::string::npos) break;
    p = q + 1;
  }
  if (sum != total) throw std::runtime_error("files do not sum to total");
  // pieces that must not verify hold junk on disk: no byte of them equals the content
  for (size_t i = 0; i < done.size(); i++)
    if (done[i] != '1') spec.junk_pieces.push_back((uint32_t)i);
  Torrent* T = S.add_torrent(spec);
  if (T->completed_bits() != done) throw std::runtime_error("hash check gave " + T->completed_bits() + " wanted " + done);
  // off=<i,j,..>: these files get PRIORITY_OFF and Download::update_priorities() is called (partial seeding:
  // with every incomplete piece inside such files nothing is wanted any more although pieces are missing)
  if (!off.empty() && off != "-") {
    size_t p0 = 0;
    size_t idx = 0;
    std::vector<size_t> offs;
    while (p0 <= off.size()) {
      size_t q0 = off.find(',', p0);
      offs.push_back(std::stoul(off.substr(p0, q0 == std::string::npos ? std::string::npos : q0 - p0)));
      if (q0 == std::string::npos) break;
      p0 = q0 + 1;
    }
    for (auto& f : *T->dl.file_list()) {   // elements are (smart) pointers to File
      for (size_t o : offs) if (o == idx) f->set_priority(torrent::PRIORITY_OFF);
      idx++;
    }
    T->dl.update_priorities();
  }
  if (iseed) S.set_conn_type(T, (int)torrent::Download::CONNECTION_INITIAL_SEED);   // needs a complete torrent
  S.start(T);
  if (iseed && T->main()->initial_seeding() == nullptr) throw std::runtime_error("initial seeding did not start");
  g_torrents[key] = T;
  return T;
}

static std::string show_piece(uint32_t i, uint32_t b, uint32_t l) {
  return std::to_string(i) + ":" + std::to_string(b) + ":" + std::to_string(l);
}

// Upload throttle as this connection's node sees it: "on:min:nq:un:uu" (observation fed to the model as
// op T) or, in a snapshot, "/t<nq>:<un>:<uu>" when enabled. A node that is not in the active part of the
// list has less than the minimum chunk available (update_quota activates it as soon as it can give that much).
static std::string throttle_text(torrent::PeerConnectionBase* pcb, bool snap) {
  auto* tl = pcb->m_up->throttle();
  auto* node = pcb->m_peer_chunks.upload_throttle();
  bool on = tl->is_enabled();
  uint64_t nq = node->quota(), un = tl->unallocated_quota(), uu = tl->m_unusedUnthrottledQuota;
  if (snap) return on ? "/t" + std::to_string(nq) + ":" + std::to_string(un) + ":" + std::to_string(uu) : std::string();
  return std::string(on ? "1" : "0") + ":" + std::to_string(tl->min_chunk_size()) + ":" + std::to_string(nq) + ":" +
         std::to_string(un) + ":" + std::to_string(uu);
}

static std::string snapshot(Session& S, Torrent* T, const std::string& ip, uint16_t port, bool enc) {
  torrent::PeerConnectionBase* pcb = S.find_connection(T, ip, port);
  if (pcb == nullptr) return "X";
  char w = '?';
  switch (pcb->m_up->get_state()) {
  case torrent::ProtocolBase::IDLE: w = 'I'; break;
  case torrent::ProtocolBase::MSG: w = 'M'; break;
  case torrent::ProtocolBase::WRITE_PIECE: w = 'P'; break;
  default: break;
  }
  return std::string(1, w) + "/" + (pcb->m_up_choke.choked() ? "1" : "0") + (pcb->m_send_choked ? "1" : "0") + "/" +
         std::to_string(pcb->m_peer_chunks.upload_queue()->size()) + "/" +
         show_piece(pcb->m_up_piece.index(), pcb->m_up_piece.offset(), pcb->m_up_piece.length()) +
         (enc && w == 'P' ? (pcb->m_encrypt_buffer ? "/e" + std::to_string(pcb->m_encrypt_buffer->remaining()) + ":" +
                                                       std::to_string(pcb->m_encrypt_buffer->size_end())
                                                   : std::string("/e-")) : std::string()) +
         "/c" + (pcb->m_up_chunk.is_valid() ? std::to_string(pcb->m_up_chunk.index()) : std::string("-")) +
         "r" + std::to_string(S.chunk_refs_total(T)) + throttle_text(pcb, true);
}


// PROBE: the policy of the compiled code where the property leaves it open (ROBUSTNESS.md rule 3/4): no
// source text is read. One plain incoming connection on a torrent with 512 KiB pieces and one piece that
// does not verify; the writer is blocked (send budget 0) so that accepted requests stay in the queue.
//   q   = queue limit: 4200 one-byte requests are sent; accepted = queue size + the one the writer popped
//   ll  = largest accepted REQUEST length (bisection over 1 .. 524288, all in range of piece 0)
//   ei  = 1 iff a request failing is_valid_piece (index = piece count) is NOT queued
//   eu  = 1 iff a request for the unverified piece is NOT queued
static std::string run_probe(Session& S) {
  TorrentSpec spec;
  spec.name = "c05_probe";
  spec.piece_length = 524288;
  spec.content_seed = 9;
  spec.files = {{"p0.bin", 600000}, {"d/p1.bin", 600000}};
  spec.corrupt_pieces = {2};
  Torrent* T = S.add_torrent(spec);
  S.start(T);
  S.advance_us(1000000);
  S.avoid_tick_within(5 * 1000000);
  WirePeer P;
  if (!P.connect_to(S.listen_port(), "127.102.0.1", 1 << 20, 0)) return "ERR:connect";
  P.send_bytes(WirePeer::handshake(T->info_hash, "-LV0001-probe0000000") + WirePeer::keepalive());
  pump(S, {&P});
  uint16_t port = P.local_port();
  std::string lip = P.local_ip();
  if (S.find_connection(T, lip, port) == nullptr) return "ERR:noconn";
  Session::set_send_budget(lip, port, 0);
  auto qsize = [&]() -> long {
    torrent::PeerConnectionBase* pcb = S.find_connection(T, lip, port);
    return pcb == nullptr ? -1 : (long)pcb->m_peer_chunks.upload_queue()->size();
  };
  auto send = [&](const std::string& m) { P.send_bytes(m); pump(S, {&P}); };
  // unchoke; the first request is popped into the (blocked) message buffer
  send(WirePeer::interested() + WirePeer::request(0, 0, 1));
  if (qsize() != 0) return "ERR:probe-setup";
  auto accepted = [&](uint32_t i, uint32_t b, uint32_t l) -> int {
    long before = qsize();
    send(WirePeer::request(i, b, l));
    long after = qsize();
    if (after < 0) return -1;
    if (after > before) send(WirePeer::cancel(i, b, l));
    return after > before ? 1 : 0;
  };
  uint32_t lo = 1, hi = 524288;   // invariant: lo accepted (or nothing is), answer in [lo, hi]
  if (accepted(0, 0, 1 + 1) != 1) return "ERR:probe-len";
  if (accepted(0, 0, hi) == 1) lo = hi;
  while (lo < hi) {
    uint32_t mid = lo + (hi - lo + 1) / 2;
    int a = accepted(0, 0, mid);
    if (a < 0) return "ERR:probe-closed";
    if (a == 1) lo = mid; else hi = mid - 1;
  }
  int ei = accepted(T->piece_count(), 0, 1), eu = accepted(2, 0, 16);
  if (ei < 0 || eu < 0) return "ERR:probe-closed";
  std::string many;
  for (uint32_t j = 0; j < 4200; j++) many += WirePeer::request(1, j, 1);
  long base = qsize();
  send(many);
  long q = qsize();
  if (q < 0) return "ERR:probe-closed";
  std::string out = "q=" + std::to_string(base > 0 ? q : q + 0) + " ll=" + std::to_string(lo) + " ei=" + std::to_string(ei ? 0 : 1) +
                    " eu=" + std::to_string(eu ? 0 : 1);
  Session::clear_io_limits();
  P.close_all();
  pump(S, {});
  S.remove(T);
  return out;
}

static std::string run_case(Session& S, const std::string& line) {
  CaseWatchdog watchdog(line.compare(0, 5, "PROBE") == 0 ? 120 : 30);
  if (line.compare(0, 5, "PROBE") == 0) return run_probe(S);
  size_t bar = line.find('|');
  if (bar == std::string::npos) return "BADCASE";
  std::map<std::string, std::string> kv;
  for (auto& tok : split_ws(line.substr(0, bar))) {
    size_t e = tok.find('=');
    if (e != std::string::npos) kv[tok.substr(0, e)] = tok.substr(e + 1);
  }
  auto ops = split_ws(line.substr(bar + 1));
  uint32_t plen = std::stoul(kv["plen"]), seed = std::stoul(kv["seed"]);
  uint64_t total = std::stoull(kv["total"]);
  // role=iseed: the torrent is started in initial-seeding mode (PeerConnection<CONNECTION_INITIAL_SEED>,
  // src/protocol/initial_seed.cc): the library offers pieces with HAVE, may drop queued requests
  // (should_upload) and choke on its own. Not modelled: such cases are judged by the property oracle only.
  bool iseed = kv.count("role") && kv["role"] == "iseed";
  std::string off = kv.count("off") ? kv["off"] : std::string();
  std::string key = kv["plen"] + "/" + kv["total"] + "/" + kv["done"] + "/" + kv["seed"] + "/" + kv["files"] + (iseed ? "/iseed" : "") + "/off" + off;
  Torrent* T = get_torrent(S, key, plen, total, kv["done"], seed, kv["files"], iseed, off);

  // no Manager tick inside a case: each later D:0 needs 11 s of virtual time
  int unchokes = 0;
  for (auto& o : ops) if (o == "D:0") unchokes++;   // (each may need 11 s of virtual time)
  S.advance_us(1000000);
  S.avoid_tick_within((int64_t)(unchokes * 11 + 3) * 1000000);

  g_case_no++;
  WirePeer P;
  std::string ip = "127." + std::to_string(1 + (g_case_no >> 16) % 100) + "." + std::to_string((g_case_no >> 8) & 255) + "." + std::to_string(g_case_no & 255);
  if (ip == "127.1.0.1" || (g_case_no & 255) == 0 || (g_case_no & 255) == 255) ip = "127.101.0." + std::to_string(1 + g_case_no % 250);
  // enc=1: MSE, RC4 stream. enc=2: MSE handshake, PLAINTEXT stream selected (crypto_select 1).
  // out=1: the LIBRARY connects to the scripted peer (which then is the MSE responder; needs enc=1|2).
  bool mse = kv.count("enc") && (kv["enc"] == "1" || kv["enc"] == "2");
  bool enc = mse && kv["enc"] == "1";
  bool outgoing = kv.count("out") && kv["out"] == "1";
  if (outgoing && !mse) return "BADCASE:out-needs-mse";
  char idbuf[21];
  snprintf(idbuf, sizeof idbuf, "-LV0001-%012u", g_case_no);
  std::string hello = WirePeer::handshake(T->info_hash, std::string(idbuf, 20)) + WirePeer::keepalive();
  MseInitiator MI(P, 1000 + g_case_no);
  MseResponder MR(P, 1000 + g_case_no);
  if (outgoing) {
    uint16_t lport = P.listen_on(ip.c_str());
    if (lport == 0) return "ERR:listen";
    S.connect_out(T, ip, lport);
    if (!MR.negotiate(S, T->info_hash, enc ? 2 : 1)) return "ERR:mse-out";
  } else {
    if (!P.connect_to(S.listen_port(), ip.c_str(), 1 << 20, 0)) return "ERR:connect";
    if (mse && !MI.negotiate(S, T->info_hash, enc ? 2 : 1)) return "ERR:mse";
    if (mse && MI.rc4() != enc) return "ERR:mse-select";
  }
  // R: the decrypted (or plain) receive side; all parsing below goes through it
  WirePeer& R = !mse ? P : (outgoing ? MR.plain : MI.plain);
  auto absorb = [&]() { if (mse) { if (outgoing) MR.absorb(); else MI.absorb(); } };
  auto seal = [&](const std::string& x) { return !mse ? x : (outgoing ? MR.seal(x) : MI.seal(x)); };
  P.send_bytes(seal(hello));
  pump(S, {&P});
  absorb();
  HandshakeIn hs;
  if (!R.take_handshake(hs) || hs.info_hash != T->info_hash) return "ERR:handshake";
  uint16_t port = P.local_port();
  std::string lip = P.local_ip();
  torrent::PeerConnectionBase* pcb0 = S.find_connection(T, lip, port);
  if (pcb0 == nullptr) return "ERR:noconn";
  if (pcb0->is_encrypted() != enc) return "ERR:stream-mode";
  // whatever the library says before the scenario starts (bitfield, interested) is not compared
  std::string haves;   // pieces offered with HAVE (initial seeding), prelude included
  { WireMsg m; while (R.next_message(m)) if (m.id == WirePeer::HAVE && m.body.size() == 4) haves += (haves.empty() ? "" : ",") + std::to_string(m.u32(0)); }
  if (!R.rx.empty()) return "ERR:prelude";
  Session::set_send_budget(lip, port, 0);

  // rate=<bytes/s>: real upload Throttle with that max rate. Quota is granted only by the Q:<n> op
  // (ThrottleList::update_quota, what Throttle::receive_tick calls); no virtual time passes in such a case.
  uint64_t rate = kv.count("rate") ? std::stoull(kv["rate"]) : 0;
  struct RateGuard {
    uint64_t r;
    explicit RateGuard(uint64_t x) : r(x) { if (r) torrent::up_throttle_global()->set_max_rate(r); }
    ~RateGuard() { if (r) torrent::up_throttle_global()->set_max_rate(0); }
  } rate_guard(rate);

  std::string batch, snaps, err, thr_obs;
  bool sent_not_interested = false;
  for (auto& o : ops) {
    char kind = o.empty() ? '?' : o[0];
    if (kind == 'R' || kind == 'C') {
      uint32_t a, b, c;
      if (sscanf(o.c_str() + 1, ":%u:%u:%u", &a, &b, &c) != 3) return "BADCASE";
      batch += kind == 'R' ? WirePeer::request(a, b, c) : WirePeer::cancel(a, b, c);
    } else if (o == "N") {
      // the peer's NOT_INTERESTED (batched): the real choke_queue chokes it when the message is read, in order
      batch += WirePeer::not_interested();
      sent_not_interested = true;
    } else if (o == "D:0") {
      // unchoke decision = the peer's INTERESTED reaching the real choke_queue (takes effect when the
      // batch is read, in order). After a snub: un-snub first (the queue then waits for INTERESTED)
      // and let 11 s of virtual time pass (choke_queue refuses to unchoke within 10 s of the last change).
      torrent::PeerConnectionBase* pcb = S.find_connection(T, lip, port);
      bool need_interested = true;
      if (pcb != nullptr && pcb->m_up_choke.snubbed()) {
        if (!batch.empty()) return "BADCASE:D0-after-message";
        S.advance_us(11 * 1000000);
        pcb = S.find_connection(T, lip, port);
        if (pcb != nullptr) {
          S.force_choke(pcb, false);
          // since /repo d278df5 the snub keeps the peer's interest and lifting it unchokes at once;
          // before that fix the queue waited for a fresh INTERESTED
          need_interested = pcb->m_up_choke.choked();
        }
      }
      if (sent_not_interested && need_interested) {
        // choked through NOT_INTERESTED: the choke_queue unchokes again only 10 s after that change
        if (!batch.empty()) return "BADCASE:D0-after-message";
        S.advance_us(11 * 1000000);
        sent_not_interested = false;
      }
      if (need_interested) batch += WirePeer::interested();
    } else if (o == "D:1") {
      if (!batch.empty()) return "BADCASE:D1-after-message";
      torrent::PeerConnectionBase* pcb = S.find_connection(T, lip, port);
      if (pcb != nullptr && !pcb->m_up_choke.choked()) {
        S.force_choke(pcb, true);
        if (!pcb->m_up_choke.choked()) err = "ERR:choke-not-applied";
      }
    } else if (o == "K") {
      // keep-alive tick: what DownloadWrapper::receive_tick does for every connection when ticks % 4 == 0
      if (!batch.empty()) return "BADCASE:K-after-message";
      torrent::PeerConnectionBase* pcb = S.find_connection(T, lip, port);
      if (pcb != nullptr && !pcb->receive_keepalive()) err = "ERR:keepalive-timeout";
    } else if (kind == 'Q') {
      if (rate == 0) return "BADCASE:Q-without-rate";
      torrent::up_throttle_global()->throttle_list()->update_quota((uint32_t)std::stoul(o.substr(2)));
    } else if (kind == 'W') {
      int64_t k = o == "W:inf" ? (1ll << 40) : std::stoll(o.substr(2));
      P.tx_pending += seal(batch);
      batch.clear();
      for (int i = 0; i < 1000 && !P.tx_pending.empty(); i++) P.flush();
      if (!P.tx_pending.empty() && !P.eof) return "ERR:batch-does-not-fit";
      {
        torrent::PeerConnectionBase* pcb = S.find_connection(T, lip, port);
        thr_obs += (thr_obs.empty() ? "" : ",") + (pcb != nullptr ? throttle_text(pcb, false) : std::string("0:0:0:0:0"));
      }
      Session::set_send_budget(lip, port, k);
      pump(S, {&P});
      absorb();
      Session::set_send_budget(lip, port, 0);   // the budget belongs to this write opportunity only
      if (!snaps.empty()) snaps += ";";
      snaps += snapshot(S, T, lip, port, enc);
    } else {
      return "BADCASE";
    }
  }
  Session::set_send_budget(lip, port, -1);

  // parse what the peer received
  MD5_CTX md;
  MD5_Init(&md);
  uint64_t n = 0;
  std::string msgs, pay;
  int other = 0;
  while (true) {
    std::string before = R.rx;
    WireMsg m;
    if (!R.next_message(m)) break;
    size_t raw_len = before.size() - R.rx.size();
    bool keep = false;
    if (m.id == -1) {
      keep = true;
      msgs += std::string(msgs.empty() ? "" : ",") + "K";
    } else if (m.id == WirePeer::CHOKE || m.id == WirePeer::UNCHOKE) {
      keep = true;
      msgs += std::string(msgs.empty() ? "" : ",") + (m.id == WirePeer::CHOKE ? "C1" : "C0");
    } else if (m.id == WirePeer::PIECE && m.body.size() >= 8) {
      keep = true;
      uint32_t i = m.u32(0), b = m.u32(4), l = (uint32_t)(m.body.size() - 8);
      msgs += std::string(msgs.empty() ? "" : ",") + "P:" + show_piece(i, b, l);
      bool ok = i < T->piece_count() && (uint64_t)b + l <= T->piece_size(i) && m.body.compare(8, l, T->range(i, b, l)) == 0;
      pay += ok ? "1" : "0";
    } else {
      other++;
      if (m.id == WirePeer::HAVE && m.body.size() == 4) haves += (haves.empty() ? "" : ",") + std::to_string(m.u32(0));
    }
    if (keep) {
      MD5_Update(&md, before.data(), raw_len);
      n += raw_len;
    }
  }
  unsigned char dg[16];
  MD5_Final(dg, &md);
  torrent::PeerConnectionBase* pcb = S.find_connection(T, lip, port);
  bool closed = pcb == nullptr;
  std::string out = "closed=" + std::to_string(closed ? 1 : 0) + " n=" + std::to_string(n) + " md5=" + hex((char*)dg, 16) +
                    " msgs=" + (msgs.empty() ? "-" : msgs) + " snaps=" + (snaps.empty() ? "-" : snaps) +
                    " q=" + (closed ? std::string("X") : S.dump_upload_queue(pcb));
  if (!R.rx.empty()) out += " trail=" + std::to_string(R.rx.size());
  if (!err.empty()) out += " " + err;
  out += " || pay=" + (pay.empty() ? "-" : pay) + " other=" + std::to_string(other) + " have=" + (haves.empty() ? std::string("-") : haves) + " eof=" + std::to_string(P.eof ? 1 : 0) +
         " thr=" + (rate ? thr_obs : std::string("-"));

  // tear the connection down before the next case; afterwards no chunk reference may be left
  P.close_all();
  pump(S, {});
  Session::clear_io_limits();
  out += " leak=" + S.dump_chunk_refs(T);
  return out;
}

int main() {
  std_setup();
  Session::Config cfg;
  cfg.enc_handshake_mode = 2;   // prefer: outgoing connections start with MSE; incoming plain ones stay allowed
  std::unique_ptr<Session> S;
  std::string line;
  while (std::getline(std::cin, line)) {
    try {
      if (!S) S = std::make_unique<Session>(cfg);
      std::cout << run_case(*S, line) << "\n";
    } catch (torrent::internal_error& e) {
      std::cout << "ERR:internal " << e.what() << "\n";
      std::cout.flush();
      { std::error_code ec; if (S) std::filesystem::remove_all(S->scratch(), ec); }
      _exit(3);   // the session is not usable after an internal_error; run_sharded restarts after this case
    } catch (std::exception& e) {
      std::cout << "ERR:other " << e.what() << "\n";
    }
  }
  S.reset();
  return 0;
}
