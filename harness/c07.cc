// C07 implementation driver: same case protocol as ocaml/c07_driver.ml, real libtorrent codec.
#include "config.h"
#include "common/util.h"

#include <openssl/sha.h>

#include "torrent/exceptions.h"
#include "torrent/object.h"
#include "torrent/object_stream.h"

using namespace ltv;
using torrent::Object;

static Object parse_tree(const std::vector<std::string>& t, size_t& i) {
  const std::string& k = t.at(i++);
  if (k == "I") return Object((int64_t)std::stoll(t.at(i++)));
  if (k == "S") return Object(unhex(t.at(i++)));
  if (k == "L") {
    int n = std::stoi(t.at(i++));
    Object o = Object::create_list();
    for (int j = 0; j < n; j++) o.as_list().push_back(parse_tree(t, i));
    return o;
  }
  if (k == "M") {
    int n = std::stoi(t.at(i++));
    Object o = Object::create_map();
    for (int j = 0; j < n; j++) {
      std::string key = unhex(t.at(i++));
      o.as_map()[key] = parse_tree(t, i);
    }
    return o;
  }
  throw std::runtime_error("tree");
}

static void print_tree(std::string& b, const Object& o) {
  switch (o.type()) {
  case Object::TYPE_VALUE: b += "I " + std::to_string(o.as_value()); break;
  case Object::TYPE_STRING: b += "S " + hex(o.as_string()); break;
  case Object::TYPE_LIST:
    b += "L " + std::to_string(o.as_list().size());
    for (auto& x : o.as_list()) { b += ' '; print_tree(b, x); }
    break;
  case Object::TYPE_MAP:
    b += "M " + std::to_string(o.as_map().size());
    for (auto& kv : o.as_map()) { b += ' '; b += hex(kv.first); b += ' '; print_tree(b, kv.second); }
    break;
  default: b += "?type" + std::to_string(o.type()); break;
  }
}

static std::string show(const Object& o, size_t consumed) {
  std::string b = "OK " + std::to_string(consumed) + ((o.flags() & Object::flag_unordered) ? " u " : " o ");
  print_tree(b, o);
  return b;
}

// A destination that already holds a value: the decoders must return what the INPUT denotes, whatever it held.
static Object dirty(int k) {
  Object o;
  if (k == 0) {
    o = Object::create_map();
    o.as_map()["zz"] = Object((int64_t)1);
    o.set_internal_flags(Object::flag_unordered);
    o.set_flags(Object::flag_session_data);
  } else if (k == 1) {
    o = Object::create_list();
    o.as_list().push_back(Object(std::string("old")));
    o.set_flags(Object::flag_static_data);
  } else {
    o = Object(std::string("old string"));
    o.set_flags(Object::flag_session_data);
  }
  return o;
}

static std::string show_f(const Object& o, size_t consumed) {
  return show(o, consumed) + " f=" + std::to_string(o.flags() & Object::mask_public);
}

static std::string decode_all(const std::string& in) {
  std::string out;
  {
    exact_buf buf(in);
    out += "c:";
    try {
      Object o;
      const char* e = torrent::object_read_bencode_c(buf.p, buf.p + buf.n, &o);
      std::string fresh = show_f(o, e - buf.p), dep;
      for (int k = 0; k < 3 && dep.empty(); k++) {
        Object d = dirty(k);
        const char* e2 = torrent::object_read_bencode_c(buf.p, buf.p + buf.n, &d);
        if (show_f(d, e2 - buf.p) != fresh) dep = show_f(d, e2 - buf.p);
      }
      for (int k = 0; k < 3 && dep.empty(); k++) {
        std::istringstream ss(std::string(in.data(), e - buf.p));
        Object d = dirty(k);
        ss >> d;
        if (!ss.fail() && (d.flags() & Object::mask_public) != 0) dep = "stream " + show_f(d, 0);
      }
      if (!dep.empty()) out += "DEST-DEPENDENT " + dep + " fresh ";
      out += show(o, e - buf.p);
    } catch (torrent::bencode_error&) { out += "REJECT";
    } catch (torrent::internal_error&) { out += "ERR:internal";
    } catch (std::exception& e) { out += std::string("ERR:other:") + e.what(); }
  }
  {
    out += " | s:";
    try {
      std::istringstream ss(in);
      Object o;
      ss >> o;
      if (ss.fail()) out += "REJECT";
      else out += show(o, in.size() - (size_t)ss.rdbuf()->in_avail());
    } catch (torrent::bencode_error&) { out += "REJECT";
    } catch (torrent::internal_error&) { out += "ERR:internal";
    } catch (std::exception& e) { out += std::string("ERR:other:") + e.what(); }
  }
  {
    exact_buf buf(in);
    out += " | k:";
    try {
      const char* e = torrent::object_read_bencode_skip_c(buf.p, buf.p + buf.n);
      out += "OK " + std::to_string(e - buf.p);
    } catch (torrent::bencode_error&) { out += "REJECT";
    } catch (torrent::internal_error&) { out += "ERR:internal";
    } catch (std::exception& e) { out += std::string("ERR:other:") + e.what(); }
  }
  return out;
}

// flush callback that hands the SAME buffer back (like object_write_to_stream / _to_sha1 / _to_size)
// and records every chunk it is given
struct keep_sink { std::vector<std::string> chunks; size_t total = 0; };
static torrent::object_buffer_t keep_write(void* data, torrent::object_buffer_t b) {
  keep_sink* ks = static_cast<keep_sink*>(data);
  ks->chunks.push_back(std::string(b.first, b.second));
  ks->total += (b.second - b.first) + 1;
  if (ks->total > (size_t(1) << 24)) throw std::runtime_error("runaway writer"); // a broken writer must not eat the machine
  return b;
}

// B <K|B> <cap> <tree>: the buffered writer with an exactly cap-byte heap buffer (ASan redzone behind it)
static std::string write_buffered(const std::string& kind, size_t cap, const Object& o) {
  char* buf = new char[cap];
  std::string out;
  try {
    if (kind == "K") {
      keep_sink ks;
      torrent::object_write_bencode_c(&keep_write, &ks, torrent::object_buffer_t(buf, buf + cap), &o);
      std::string all;
      for (auto& c : ks.chunks) all += c;
      std::ostringstream os;
      torrent::object_write_bencode_c(&torrent::object_write_to_stream, &os, torrent::object_buffer_t(buf, buf + cap), &o);
      out = std::string("wb:OK s=") + (os.str() == all ? "1" : "0") + " n=" + std::to_string(ks.chunks.size()) + " ";
      if (ks.chunks.empty()) out += "none";
      for (size_t i = 0; i < ks.chunks.size(); i++) { if (i) out += ','; out += hex(ks.chunks[i]); }
    } else {
      torrent::object_buffer_t r = torrent::object_write_bencode(buf, buf + cap, &o);
      out = "wb:OK " + hex(buf, r.first - buf);
    }
  } catch (torrent::internal_error&) { out = "wb:ERR:internal";
  } catch (std::exception& e) { out = std::string("wb:ERR:other:") + e.what(); }
  delete[] buf;
  return out;
}

int main() {
  std_setup();
  std::string line;
  while (std::getline(std::cin, line)) {
    auto t = split_ws(line);
    try {
      if (t.size() == 2 && t[0] == "D") {
        std::cout << decode_all(unhex(t[1])) << "\n";
      } else if (!t.empty() && t[0] == "E") {
        size_t i = 1;
        Object o = parse_tree(t, i);
        std::ostringstream os;
        os << o;
        std::string enc = os.str();
        // the sha1 writer goes through the 1024-byte chunked buffer path; compare with OpenSSL
        unsigned char md[20];
        SHA1((const unsigned char*)enc.data(), enc.size(), md);
        bool h = torrent::object_sha1(&o) == std::string((char*)md, 20);
        std::cout << "enc:" << hex(enc) << " h=" << (h ? 1 : 0) << " | " << decode_all(enc) << "\n";
      } else if (t.size() >= 4 && t[0] == "B") {
        size_t i = 3;
        Object o = parse_tree(t, i);
        std::cout << write_buffered(t[1], std::stoul(t[2]), o) << "\n";
      } else {
        std::cout << "BADCASE\n";
      }
    } catch (torrent::internal_error& e) {
      std::cout << "ERR:internal " << e.what() << "\n";
    } catch (std::exception& e) {
      std::cout << "ERR:other " << e.what() << "\n";
    }
  }
  return 0;
}
