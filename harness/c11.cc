// C11 implementation driver: the REAL ResourceManager / choke_group / choke_queue / group_entry /
// choke_status / DownloadMain(+DownloadInfo counters) and REAL PeerConnectionBase objects (a trivial
// concrete subclass) opened with the real PeerConnectionBase::initialize() on a socketpair descriptor
// registered with the real poll / socket manager and closed with the real PeerConnectionBase::cleanup(),
// so that the real receive_upload_choke / receive_download_choke / set_upload_snubbed /
// should_connection_unchoke / cleanup run.  Same case protocol as ocaml/c11_driver.ml.
//
// Replicated here rather than called (needs the message parser):
//   - what PeerConnection<>::read_message does on CHOKE/UNCHOKE/INTERESTED/NOT_INTERESTED around
//     the choke_queue calls: m_down_unchoked / m_down_interested assignments  (ops Q/U/K)
//   - "m_currently*Unchoked += cycle(q)" of ResourceManager::receive_tick for the direct CY op
#include "config.h"
#include "common/util.h"

#include <netinet/in.h>
#include <deque>
#include <map>

#include "download/download_main.h"
#include <sys/socket.h>
#include <unistd.h>
#include "net/throttle_list.h"
#include "protocol/encryption_info.h"
#include "protocol/extensions.h"
#include "protocol/peer_connection_base.h"
#include "torrent/bitfield.h"
#include "torrent/data/file_list.h"
#include "torrent/runtime/socket_manager.h"
#include "thread_main.h"
#include "torrent/download/choke_group.h"
#include "torrent/download/choke_queue.h"
#include "torrent/download/resource_manager.h"
#include "torrent/download_info.h"
#include "torrent/exceptions.h"
#include "torrent/peer/peer_info.h"
#include "runtime_manager.h"
#include "torrent/system/thread.h"

using namespace ltv;
using namespace std::chrono_literals;

// ---- random() is an input of the case: interposed for the whole binary
static std::deque<long> g_rand;
extern "C" long random(void) {
  if (g_rand.empty()) return 0;
  long r = g_rand.front();
  g_rand.pop_front();
  return r;
}

class HMain : public torrent::system::Thread {
public:
  const char* name() const override { return "ltv-main"; }
  void init_thread() override {
    m_state = STATE_INITIALIZED;
    init_thread_local();
  }
  void call_events() override {}
  std::chrono::microseconds next_timeout() override { return 10min; }
};
static HMain* g_main;

class HConn : public torrent::PeerConnectionBase {
public:
  void initialize_custom() override {}
  void update_interested() override {}
  bool receive_keepalive() override { return true; }
  void event_read() override {}
  void event_write() override {}
  bool alive = true;
  int  tor = 0;
  int  remote_fd = -1;
  torrent::ProtocolExtension ext = torrent::ProtocolExtension::make_default();
  // the real PeerConnectionBase::cleanup()
  void real_close() {
    cleanup();
    if (remote_fd >= 0) ::close(remote_fd);
    remote_fd = -1;
  }
};

struct World {
  torrent::ResourceManager*             rm;
  std::vector<torrent::DownloadMain*>   tors;
  std::vector<HConn*>                   conns;
  torrent::ThrottleList*                tl_up;
  torrent::ThrottleList*                tl_down;
  int64_t                               now;
};

static torrent::choke_queue* queue_of(World& w, bool up, int g) {
  auto grp = w.rm->group_at(g);
  return up ? grp->up_queue() : grp->down_queue();
}
static torrent::choke_queue* queue_of_conn(HConn* c, bool up) {
  return up ? c->m_download->choke_group()->up_queue() : c->m_download->choke_group()->down_queue();
}

static std::string dump_half(World& w, bool up) {
  std::ostringstream b;
  b << (up ? w.rm->m_currentlyUploadUnchoked : w.rm->m_currentlyDownloadUnchoked) << "/"
    << (up ? w.rm->m_maxUploadUnchoked : w.rm->m_maxDownloadUnchoked);
  std::map<torrent::group_entry*, int> tor_idx;
  std::map<torrent::PeerConnectionBase*, int> conn_idx;
  for (size_t t = 0; t < w.tors.size(); t++) tor_idx[up ? w.tors[t]->up_group_entry() : w.tors[t]->down_group_entry()] = t;
  for (size_t c = 0; c < w.conns.size(); c++) conn_idx[w.conns[c]] = c;
  for (unsigned g = 0; g < w.rm->group_size(); g++) {
    auto q = queue_of(w, up, g);
    b << " Q" << g << ":" << q->m_maxUnchoked << "," << q->m_currently_queued << "," << q->m_currently_unchoked << "," << (int)q->m_heuristics << ",[";
    bool first = true;
    for (auto e : q->m_group_container) { b << (first ? "" : ".") << (tor_idx.count(e) ? tor_idx[e] : -1); first = false; }
    b << "]";
  }
  auto ids = [&](const torrent::group_entry::container_type* l) {
    std::string s; bool first = true;
    for (auto& wc : *l) { s += (first ? "" : "."); s += std::to_string(conn_idx.count(wc.connection) ? conn_idx[wc.connection] : -1); first = false; }
    return s;
  };
  for (size_t t = 0; t < w.tors.size(); t++) {
    auto d = w.tors[t];
    auto e = up ? d->up_group_entry() : d->down_group_entry();
    int g = -1;
    for (unsigned i = 0; i < w.rm->group_size(); i++) if (w.rm->group_at(i) == d->choke_group()) g = i;
    b << " T" << t << ":" << e->max_slots() << "," << e->min_slots() << ","
      << (up ? d->info()->upload_unchoked() : d->info()->download_unchoked()) << "," << g
      << ",[" << ids(e->queued()) << "],[" << ids(e->unchoked()) << "]";
  }
  for (size_t c = 0; c < w.conns.size(); c++) {
    auto pc = w.conns[c];
    auto cs = up ? &pc->m_up_choke : &pc->m_down_choke;
    b << " C" << c << ":" << (pc->alive ? 1 : 0) << (cs->queued() ? 1 : 0) << (cs->unchoked() ? 1 : 0) << (cs->snubbed() ? 1 : 0)
      << ((!up && pc->m_down_unchoked) ? 1 : 0) << "," << cs->time_last_choke().count();
  }
  return b.str();
}
static std::string dump(World& w) {
  return std::to_string(w.now) + " U{" + dump_half(w, true) + "} D{" + dump_half(w, false) + "}";
}

static HConn* new_conn(World& w, int t) {
  auto pc = new HConn();
  auto d = w.tors[t];
  sockaddr_in sa{};
  sa.sin_family = AF_INET;
  sa.sin_port = htons(6881);
  sa.sin_addr.s_addr = htonl(0x0a000001 + w.conns.size());
  pc->tor = t;
  auto pi = new torrent::PeerInfo(reinterpret_cast<sockaddr*>(&sa));
  int fds[2];
  if (socketpair(AF_UNIX, SOCK_STREAM, 0, fds) != 0) throw std::runtime_error("socketpair");
  pc->remote_fd = fds[1];
  torrent::Bitfield bf;
  bf.set_size_bits(d->file_list()->size_chunks());
  bf.allocate();
  bf.unset_all();
  torrent::EncryptionInfo enc;
  // the real PeerConnectionBase::initialize(): sets the choke_status entries, throttles, poll registration
  torrent::runtime::socket_manager()->open_event_or_throw(pc, torrent::runtime::category_generic, [&] {
    pc->initialize(d, pi, fds[0], &bf, &enc, &pc->ext);
  });
  if (!pc->is_open() || pc->m_download != d) throw std::runtime_error("initialize");
  return pc;
}

static void set_rate(torrent::Rate* r, uint64_t v) {
  r->m_container.clear();
  r->m_current = v * r->m_span;
}

static uint32_t u32(const std::string& s) { return (uint32_t)std::stoull(s); }

// returns false when the op is not applicable (ignored by both sides)
static void apply_op(World& w, const std::vector<std::string>& t) {
  const std::string& k = t.at(0);
  auto is_up = [&](size_t i) { return t.at(i) == "u"; };
  auto conn = [&](size_t i) -> HConn* {
    size_t c = std::stoul(t.at(i));
    if (c >= w.conns.size() || !w.conns[c]->alive) return nullptr;
    return w.conns[c];
  };
  size_t nt = w.tors.size(), ng = w.rm->group_size();
  if (k == "N") {
    size_t x = std::stoul(t.at(1));
    if (x < nt) w.conns.push_back(new_conn(w, x));
  } else if (k == "Q") {
    auto pc = conn(2); if (!pc) return;
    if (is_up(1)) queue_of_conn(pc, true)->set_queued(pc, &pc->m_up_choke);
    else { pc->m_down_unchoked = true; pc->m_down_interested = true; queue_of_conn(pc, false)->set_queued(pc, &pc->m_down_choke); }
  } else if (k == "U") {
    auto pc = conn(2); if (!pc) return;
    if (is_up(1)) queue_of_conn(pc, true)->set_not_queued(pc, &pc->m_up_choke);
    else { pc->m_down_unchoked = false; queue_of_conn(pc, false)->set_not_queued(pc, &pc->m_down_choke); }
  } else if (k == "K") {
    auto pc = conn(2); if (!pc) return;
    if (is_up(1)) queue_of_conn(pc, true)->set_not_queued(pc, &pc->m_up_choke);
    else queue_of_conn(pc, false)->set_not_queued(pc, &pc->m_down_choke);
  } else if (k == "S") {
    auto pc = conn(2); if (!pc) return;
    if (is_up(1)) pc->set_upload_snubbed(true);
    else queue_of_conn(pc, false)->set_snubbed(pc, &pc->m_down_choke);
  } else if (k == "R") {
    auto pc = conn(2); if (!pc) return;
    if (is_up(1)) pc->set_upload_snubbed(false);
    else queue_of_conn(pc, false)->set_not_snubbed(pc, &pc->m_down_choke);
  } else if (k == "X") {
    auto pc = conn(1); if (!pc) return;
    // the real PeerConnectionBase::cleanup() (the model does the whole upload side first; the
    // counter statements of the two sides commute)
    pc->alive = false;
    pc->real_close();
  } else if (k == "TM" || k == "Tm") {
    size_t x = std::stoul(t.at(2)); if (x >= nt) return;
    auto e = is_up(1) ? w.tors[x]->up_group_entry() : w.tors[x]->down_group_entry();
    if (k == "TM") e->set_max_slots(u32(t.at(3))); else e->set_min_slots(u32(t.at(3)));
  } else if (k == "BE") {
    size_t x = std::stoul(t.at(2)); if (x >= nt) return;
    auto d = w.tors[x];
    if (is_up(1)) d->choke_group()->up_queue()->balance_entry(d->up_group_entry());
    else d->choke_group()->down_queue()->balance_entry(d->down_group_entry());
  } else if (k == "QM") {
    size_t g = std::stoul(t.at(2)); if (g >= ng) return;
    queue_of(w, is_up(1), g)->set_max_unchoked(u32(t.at(3)));
  } else if (k == "QH") {
    size_t g = std::stoul(t.at(2)); size_t h = std::stoul(t.at(3)); if (g >= ng || h >= 4) return;
    queue_of(w, is_up(1), g)->set_heuristics((torrent::choke_queue::heuristics_enum)h);
  } else if (k == "GM") {
    try {
      if (is_up(1)) w.rm->set_max_upload_unchoked(u32(t.at(2))); else w.rm->set_max_download_unchoked(u32(t.at(2)));
    } catch (torrent::input_error&) {}
  } else if (k == "BA") {
    size_t g = std::stoul(t.at(2)); if (g >= ng) return;
    queue_of(w, is_up(1), g)->balance();
  } else if (k == "CY") {
    size_t g = std::stoul(t.at(2)); if (g >= ng) return;
    int ch = queue_of(w, is_up(1), g)->cycle(u32(t.at(3)));
    if (is_up(1)) w.rm->m_currentlyUploadUnchoked += ch; else w.rm->m_currentlyDownloadUnchoked += ch;
  } else if (k == "TK") {
    w.rm->receive_tick();
  } else if (k == "SG") {
    size_t x = std::stoul(t.at(1)); size_t g = std::stoul(t.at(2)); if (x >= nt || g >= ng) return;
    w.rm->set_group(w.rm->find_throw(w.tors[x]), g);
  } else if (k == "AD") {
    w.now += std::stoll(t.at(1));
    g_main->set_cached_time(std::chrono::microseconds(w.now));
  } else if (k == "RT") {
    size_t c = std::stoul(t.at(1)); if (c >= w.conns.size()) return;
    auto pc = w.conns[c];
    if (t.at(2) == "1") pc->m_peerInfo->m_flags |= torrent::PeerInfo::flag_preferred;
    else pc->m_peerInfo->m_flags &= ~torrent::PeerInfo::flag_preferred;
    set_rate(pc->m_peer_chunks.download_throttle()->rate(), std::stoull(t.at(3)));
    set_rate(pc->m_peer_chunks.upload_throttle()->rate(), std::stoull(t.at(4)));
  } else {
    throw std::runtime_error("op");
  }
}

static std::vector<std::string> split_char(const std::string& s, char sep) {
  std::vector<std::string> out;
  std::string cur;
  for (char ch : s) { if (ch == sep) { out.push_back(cur); cur.clear(); } else cur.push_back(ch); }
  out.push_back(cur);
  return out;
}

static std::string run_case(const std::string& line) {
  auto parts = split_char(line, ';');
  auto hdr = split_ws(parts.at(0));
  if (hdr.size() != 2) return "BADCASE";
  // Objects of a case are leaked on purpose: ~choke_queue/~ResourceManager assert zero counters,
  // which does not hold when a case stops early.
  World w;
  w.now = 31536000000000LL;
  g_main->set_cached_time(std::chrono::microseconds(w.now));
  w.rm = new torrent::ResourceManager();
  w.tl_up = new torrent::ThrottleList();
  w.tl_down = new torrent::ThrottleList();
  struct Closer {
    World& w;
    ~Closer() {
      // release descriptors / poll registrations of connections still open at the end of the case
      for (auto pc : w.conns)
        if (pc->is_open()) { try { pc->real_close(); } catch (...) { if (pc->remote_fd >= 0) ::close(pc->remote_fd); } }
    }
  } closer{w};
  int nt = std::stoi(hdr[0]), ng = std::stoi(hdr[1]);
  for (int g = 0; g < ng; g++) w.rm->push_group("g" + std::to_string(g));
  for (int t = 0; t < nt; t++) {
    auto d = new torrent::DownloadMain();
    d->file_list()->initialize(16 * 16384, 16384);
    d->set_upload_throttle(w.tl_up);
    d->set_download_throttle(w.tl_down);
    w.tors.push_back(d);
    w.rm->insert(d, 1);
  }
  std::string out = dump(w);
  for (size_t i = 1; i < parts.size(); i++) {
    auto pr = split_char(parts[i], ':');
    auto toks = split_ws(pr.at(0));
    if (toks.empty()) continue;
    g_rand.clear();
    if (pr.size() > 1) for (auto& r : split_ws(pr[1])) g_rand.push_back(std::stol(r));
    try {
      apply_op(w, toks);
    } catch (torrent::internal_error& e) {
      out += " ; ERR:internal";
      if (getenv("LTV_C11_DEBUG")) fprintf(stderr, "internal_error: %s\n", e.what());
      return out;
    }
    out += " ; " + dump(w);
  }
  return out;
}

// ---- --params: constants / tables / hold-off times of the COMPILED code (behavioural probes where the
//      value is not a named constant), one "name value..." line each; props/c11.py writes them to
//      coq/C11/ParamsProbe.v (params_ok_now) and gives the hold-offs to the model.
static World* probe_world() {
  auto w = new World();
  w->now = 31536000000000LL;
  g_main->set_cached_time(std::chrono::microseconds(w->now));
  w->rm = new torrent::ResourceManager();
  w->tl_up = new torrent::ThrottleList();
  w->tl_down = new torrent::ThrottleList();
  w->rm->push_group("probe");
  auto d = new torrent::DownloadMain();
  d->file_list()->initialize(16 * 16384, 16384);
  d->set_upload_throttle(w->tl_up);
  d->set_download_throttle(w->tl_down);
  w->tors.push_back(d);
  w->rm->insert(d, 1);
  w->conns.push_back(new_conn(*w, 0));
  return w;
}
// smallest x (microseconds since the last choke-state change) at which the connection is unchoked
// immediately; the hold-off is x - 1.  unsnub: probe set_not_snubbed instead of set_queued.
static long long probe_holdoff(bool unsnub) {
  World* w = probe_world();
  auto pc = w->conns[0];
  auto q = queue_of_conn(pc, true);
  auto unchoked_at = [&](long long x) {
    if (unsnub) { q->set_snubbed(pc, &pc->m_up_choke); q->set_queued(pc, &pc->m_up_choke); }
    pc->m_up_choke.set_time_last_choke(std::chrono::microseconds(w->now - x));
    if (unsnub) q->set_not_snubbed(pc, &pc->m_up_choke); else q->set_queued(pc, &pc->m_up_choke);
    bool u = pc->m_up_choke.unchoked();
    q->set_not_queued(pc, &pc->m_up_choke);
    return u;
  };
  long long hi = 1LL << 42;
  if (!unchoked_at(hi)) return -2;     // never within ~50 days
  if (unchoked_at(0)) return -1;       // negative hold-off
  long long lo = 0;                    // unchoked_at(lo) false, unchoked_at(hi) true
  while (hi - lo > 1) { long long mid = lo + (hi - lo) / 2; if (unchoked_at(mid)) hi = mid; else lo = mid; }
  pc->real_close();
  return hi - 1;
}
static void print_params() {
  std::cout << "heur_rows " << (int)torrent::HEURISTICS_MAX_SIZE << "\n";
  std::cout << "order_base " << torrent::choke_queue::order_base << "\n";
  std::cout << "order_max_size " << torrent::choke_queue::order_max_size << "\n";
  for (int i = 0; i < (int)torrent::HEURISTICS_MAX_SIZE; i++) {
    std::cout << "choke_w" << i;
    for (auto x : torrent::choke_queue::m_heuristics_list[i].choke_weight) std::cout << " " << x;
    std::cout << "\nunchoke_w" << i;
    for (auto x : torrent::choke_queue::m_heuristics_list[i].unchoke_weight) std::cout << " " << x;
    std::cout << "\n";
  }
  { // largest value ResourceManager::set_max_upload_unchoked accepts
    torrent::ResourceManager rm;
    auto ok = [&](unsigned m) { try { rm.set_max_upload_unchoked(m); return true; } catch (torrent::input_error&) { return false; } };
    unsigned lo = 0, hi = 0x7fffffffu;
    if (ok(hi)) lo = hi; else while (hi - lo > 1) { unsigned mid = lo + (hi - lo) / 2; if (ok(mid)) lo = mid; else hi = mid; }
    rm.set_max_upload_unchoked(0);
    std::cout << "global_max_cap " << lo << "\n";
  }
  std::cout << "hold_queued_us " << probe_holdoff(false) << "\n";
  std::cout << "hold_unsnub_us " << probe_holdoff(true) << "\n";
}

int main(int argc, char** argv) {
  std_setup();
  g_main = new HMain();
  torrent::ThreadMain::set_thread_base(g_main);
  torrent::RuntimeManager::initialize();
  g_main->init_thread();
  if (argc > 1 && std::string(argv[1]) == "--params") { print_params(); return 0; }
  std::string line;
  while (std::getline(std::cin, line)) {
    try {
      std::cout << run_case(line) << "\n";
    } catch (std::exception& e) {
      std::cout << "ERR:other " << e.what() << "\n";
    }
  }
  return 0;
}
