// C14 implementation driver: same case protocol as ocaml/c14_driver.ml, real libtorrent code.
//   AC/AC6/AB/AN   AddressList parsers on exact-size heap buffers (ASan redzone right after the payload)
//   PL             PeerList::insert_available / insert_pex_list / AddressList::sort_and_unique
//   PX             ProtocolExtension::parse_ut_pex' two steps on a real PeerList: static_map_read_bencode(ExtPEXMessage)
//                  + PeerList::insert_pex_list, from the raw extension payload
//   U              TrackerUdp + UdpRouter: real send_event(), datagrams delivered through real UDP sockets on
//                  loopback, UdpRouter::event_read() called directly on the harness thread
//   H              TrackerHttp::receive_done() on a reply body placed in the tracker's stream
//   H2             the real TrackerHttp::send_event() with two address families, then up to two reply bodies
// Every case runs under a watchdog (alarm): a call that blocks kills the process with "HANG".
#include "config.h"
#include "common/util.h"

#include <arpa/inet.h>
#include <fcntl.h>
#include <netinet/in.h>
#include <sys/socket.h>
#include <unistd.h>

#include <functional>
#include <memory>

#include "torrent/exceptions.h"
#include "torrent/object.h"
#include "torrent/object_stream.h"
#include "torrent/torrent.h"
#include "torrent/runtime/network_config.h"
#include "torrent/runtime/runtime.h"
#include "torrent/net/socket_address.h"
#include "torrent/peer/peer_list.h"
#include "torrent/system/thread.h"
#include "download/available_list.h"
#include "net/address_list.h"
#include <curl/curl.h>
#include "net/curl_get.h"
#include "net/thread_net.h"
#include "protocol/extensions.h"
#include "thread_main.h"
#include "tracker/thread_tracker.h"
#include "tracker/tracker_http.h"
#include "tracker/tracker_udp.h"
#include "tracker/udp_router.h"

using namespace ltv;
using torrent::AddressList;
using torrent::Object;

// ------------------------------------------------------------------ generic access to private containers
// (never spell a private container's type: works for map / unordered_map / vector or deque of pairs)
template <typename C, typename K>
static auto find_by_key(C& c, const K& key) -> decltype(&std::begin(c)->second) {
  for (auto& kv : c)
    if (kv.first == key) return &kv.second;
  return nullptr;
}

// ------------------------------------------------------------------ canonical printing

static std::string hexn(const unsigned char* p, size_t n) { return hex(reinterpret_cast<const char*>(p), n); }

static std::string show_addr(const torrent::sa_inet_union& u) {
  if (u.sa.sa_family == AF_INET) {
    uint32_t a = u.inet.sin_addr.s_addr;
    return "4." + hexn(reinterpret_cast<const unsigned char*>(&a), 4) + "." + std::to_string(ntohs(u.inet.sin_port));
  }
  if (u.sa.sa_family == AF_INET6)
    return "6." + hexn(u.inet6.sin6_addr.s6_addr, 16) + "." + std::to_string(ntohs(u.inet6.sin6_port));
  return "?fam" + std::to_string(u.sa.sa_family);
}

template <typename It>
static std::string show_addrs(It first, It last) {
  if (first == last) return "-";
  std::string s;
  for (; first != last; ++first) {
    if (!s.empty()) s += ',';
    s += show_addr(*first);
  }
  return s;
}

static Object parse_tree(const std::vector<std::string>& t, size_t& i) {
  const std::string& k = t.at(i++);
  if (k == "I") return Object((int64_t)std::stoll(t.at(i++)));
  if (k == "S") return Object(unhex(t.at(i++)));
  if (k == "L") {
    int n = std::stoi(t.at(i++));
    Object o = Object::create_list();
    for (int j = 0; j < n; j++) o.as_list().push_back(parse_tree(t, i));
    return o;
  }
  if (k == "M") {
    int n = std::stoi(t.at(i++));
    Object o = Object::create_map();
    for (int j = 0; j < n; j++) {
      std::string key = unhex(t.at(i++));
      o.as_map()[key] = parse_tree(t, i);
    }
    return o;
  }
  throw std::runtime_error("tree");
}

// ------------------------------------------------------------------ PeerList pipeline

static std::string run_pl(const std::vector<std::string>& t) {
  torrent::PeerList pl;
  pl.m_available_list->set_max_size(std::stoul(t.at(1)));
  std::string rets;
  auto add_ret = [&](uint32_t r) { if (!rets.empty()) rets += ','; rets += std::to_string(r); };
  for (size_t i = 2; i < t.size();) {
    const std::string& op = t.at(i++);
    if (op == "X") {
      exact_buf b(unhex(t.at(i++)));
      add_ret(pl.insert_pex_list(torrent::raw_string(b.p, b.n)));
      continue;
    }
    exact_buf b4(unhex(t.at(i++)));
    std::string s6 = unhex(t.at(i++));
    AddressList l;
    l.parse_address_compact(torrent::raw_string(b4.p, b4.n));
    l.parse_address_compact_ipv6(s6);
    if (op == "T") l.sort_and_unique();
    else if (op == "B") l.sort();
    else if (op != "R") return "BADCASE";
    add_ret(pl.insert_available(&l));
  }
  auto av = pl.m_available_list.get();
  return "OK ret=" + (rets.empty() ? std::string("-") : rets) + " avail=" + show_addrs(av->begin(), av->end());
}

// ------------------------------------------------------------------ ut_pex from the raw payload

static std::string run_px(const std::vector<std::string>& t) {
  torrent::PeerList pl;
  pl.m_available_list->set_max_size(std::stoul(t.at(1)));
  std::string rets;
  for (size_t i = 2; i < t.size(); i++) {
    exact_buf b(unhex(t[i]));
    std::string r;
    try {
      torrent::ExtPEXMessage message;
      torrent::static_map_read_bencode(b.p, b.p + b.n, message);
      if (!message[torrent::key_pex_added].is_raw_string()) r = "~";
      else r = std::to_string(pl.insert_pex_list(message[torrent::key_pex_added].as_raw_string()));
    } catch (torrent::bencode_error&) { r = "REJECT"; }
    if (!rets.empty()) rets += ',';
    rets += r;
  }
  auto av = pl.m_available_list.get();
  return "OK ret=" + (rets.empty() ? std::string("-") : rets) + " avail=" + show_addrs(av->begin(), av->end());
}

// ------------------------------------------------------------------ tracker plumbing

static const std::string g_info_hash(20, 'h');

struct Events {
  std::vector<std::string> ev;
  void hook(torrent::TrackerWorker* w) {
    w->m_slot_success        = [this](AddressList&& l) { ev.push_back("success:" + show_addrs(l.begin(), l.end())); };
    w->m_slot_new_peers      = [this](AddressList&& l) { ev.push_back("newpeers:" + show_addrs(l.begin(), l.end())); };
    w->m_slot_failure        = [this](std::string m) { (void)m; ev.push_back("fail"); };
    w->m_slot_scrape_success = [this]() { ev.push_back("scrape-ok"); };
    w->m_slot_scrape_failure = [this](std::string m) { (void)m; ev.push_back("scrape-fail"); };
    w->m_slot_enabled        = [] {};
    w->m_slot_disabled       = [] {};
  }
  // "Could not parse bencoded data[: <sanitised dump>]" -> "parse" (also inside "<msg> /// <previous msg>")
  static std::string canon_msg(std::string m) {
    const std::string key = "Could not parse bencoded data";
    size_t p = 0;
    while ((p = m.find(key, p)) != std::string::npos) {
      size_t e = m.find(" /// ", p);
      m.replace(p, (e == std::string::npos ? m.size() : e) - p, "parse");
      p += 5;
    }
    return hex(m);
  }
};

static std::string show_ts(torrent::TrackerWorker* w) {
  auto& s = w->state();
  return "ni=" + std::to_string((long long)s.normal_interval().count()) + " mi=" + std::to_string((long long)s.min_interval().count()) +
         " c=" + std::to_string(s.scrape_complete()) + " i=" + std::to_string(s.scrape_incomplete()) +
         " d=" + std::to_string(s.scrape_downloaded()) + " sc=" + std::to_string(s.scrape_counter()) +
         " tid=" + hex(w->tracker_id_safe());
}

// ------------------------------------------------------------------ HTTP

static std::string run_http(int event, const std::string& body) {
  torrent::TrackerInfo info;
  info.info_hash = *torrent::HashString::cast_from(g_info_hash);
  info.url = "http://127.0.0.1:1/announce";
  info.key = 7;
  auto t = std::make_unique<torrent::TrackerHttp>(info);
  Events evs;
  evs.hook(t.get());
  t->lock_and_set_latest_event(static_cast<torrent::tracker::TrackerState::event_enum>(event));
  // emulate "a GET was started and has completed": the reply stream and the started flag of the CurlGet
  t->m_data = std::make_shared<std::stringstream>(body);
  auto cg = t->m_get.m_curl_get.get();
  cg->m_was_started = true;
  cg->m_stack_thread = torrent::this_thread::thread();
  std::string out;
  try {
    t->receive_done();
    if (evs.ev.size() == 1) out = evs.ev[0];
    else {
      out = "events" + std::to_string(evs.ev.size());
      for (auto& e : evs.ev) out += ";" + e;
    }
  } catch (torrent::internal_error& e) { out = std::string("ERR:internal:") + e.what();
  } catch (torrent::bencode_error& e) { out = "ERR:bencode";
  } catch (torrent::input_error& e) { out = "ERR:input";
  } catch (std::exception& e) { out = std::string("ERR:other:") + e.what(); }
  out += " | " + show_ts(t.get());
  if (t->m_data != nullptr) out += " data-still-open";
  t->m_data.reset();
  t->cleanup();
  return out;
}

// the real send_event() on a non-numeric host name (IPv4 request started, IPv6 pending); the GET itself never
// runs (the net thread object exists but is not started), the reply bodies are written into the tracker's stream
static std::string run_http2(int event, const std::vector<std::string>& bodies) {
  torrent::TrackerInfo info;
  info.info_hash = *torrent::HashString::cast_from(g_info_hash);
  info.url = "http://tracker.test:1/announce";
  info.key = 7;
  auto t = std::make_unique<torrent::TrackerHttp>(info);
  Events evs;
  evs.hook(t.get());
  std::string out;
  try {
    t->send_event(torrent::tracker::TrackerParams{}, static_cast<torrent::tracker::TrackerState::event_enum>(event));
    if (t->m_data == nullptr || t->m_next_family != AF_INET6) out = "SETUP-FAIL families";
    for (auto& b : bodies) {
      if (!out.empty() && out.rfind("SETUP", 0) == 0) break;
      if (t->m_data == nullptr) { out += (out.empty() ? "" : ";") + std::string("no-request-open"); continue; }
      size_t nev = evs.ev.size();
      *t->m_data << b;
      t->receive_done();
      std::string e;
      for (size_t k = nev; k < evs.ev.size(); k++) { if (!e.empty()) e += "+"; e += evs.ev[k]; }
      if (e.empty()) e = t->m_data != nullptr ? "retry" : "silent";
      out += (out.empty() ? "" : ";") + e;
    }
  } catch (torrent::internal_error& e) { out += std::string(";ERR:internal:") + e.what();
  } catch (torrent::bencode_error& e) { out += ";ERR:bencode";
  } catch (std::exception& e) { out += std::string(";ERR:other:") + e.what(); }
  out += " | " + show_ts(t.get());
  try { t->cleanup(); } catch (torrent::internal_error& e) { out += std::string(" cleanup-ERR:") + e.what(); t->state().m_flags |= torrent::tracker::TrackerState::flag_deleted; }
  return out;
}

// several announces on ONE TrackerHttp object (hostname tracker), the address-family configuration may change in
// between:  H3 <event> ( A <b|4|6|n> <body hex|~> <body hex|~> )*     b = both families, 4 / 6 = the other one blocked,
// n = both blocked.  Bodies are fed to whatever request is open (see run_http2).
static std::string run_http3(const std::vector<std::string>& tk) {
  int event = std::stoi(tk.at(1));
  torrent::TrackerInfo info;
  info.info_hash = *torrent::HashString::cast_from(g_info_hash);
  info.url = "http://tracker.test:1/announce";
  info.key = 7;
  auto t = std::make_unique<torrent::TrackerHttp>(info);
  Events evs;
  evs.hook(t.get());
  auto cfg = torrent::runtime::network_config();
  std::string out;
  try {
    for (size_t i = 2; i + 3 < tk.size() + 0 && tk.at(i) == "A"; i += 4) {
      char c = tk.at(i + 1)[0];
      cfg->set_block_ipv4(c == '6' || c == 'n');
      cfg->set_block_ipv6(c == '4' || c == 'n');
      std::string seg;
      size_t nev = evs.ev.size();
      t->send_event(torrent::tracker::TrackerParams{}, static_cast<torrent::tracker::TrackerState::event_enum>(event));
      for (size_t k = nev; k < evs.ev.size(); k++) { if (!seg.empty()) seg += ";"; seg += evs.ev[k]; }
      for (int b = 0; b < 2; b++) {
        const std::string& body = tk.at(i + 2 + b);
        if (body == "~" || t->m_data == nullptr) continue;
        nev = evs.ev.size();
        *t->m_data << unhex(body);
        t->receive_done();
        std::string e;
        for (size_t k = nev; k < evs.ev.size(); k++) { if (!e.empty()) e += "+"; e += evs.ev[k]; }
        if (e.empty()) e = t->m_data != nullptr ? "retry" : "silent";
        if (!seg.empty()) seg += ";";
        seg += e;
      }
      if (t->m_data != nullptr) t->close();     // the user stops waiting for the remaining reply
      out += (out.empty() ? "" : " / ") + (seg.empty() ? std::string("-") : seg);
    }
  } catch (torrent::internal_error& e) { out += std::string(";ERR:internal:") + e.what();
  } catch (torrent::bencode_error& e) { out += ";ERR:bencode";
  } catch (std::exception& e) { out += std::string(";ERR:other:") + e.what(); }
  cfg->set_block_ipv4(false);
  cfg->set_block_ipv6(false);
  out += " | " + show_ts(t.get());
  try { t->cleanup(); } catch (torrent::internal_error& e) { out += std::string(" cleanup-ERR:") + e.what(); t->state().m_flags |= torrent::tracker::TrackerState::flag_deleted; }
  return out;
}

// ------------------------------------------------------------------ UDP

static const uint32_t SYM_CONNECT = 0xC0000001u, SYM_ANNOUNCE = 0xA0000002u;

static int udp_socket(int fam) {
  int fd = socket(fam, SOCK_DGRAM | SOCK_NONBLOCK, 0);
  if (fd < 0) throw std::runtime_error("socket");
  if (fam == AF_INET) {
    sockaddr_in a{}; a.sin_family = AF_INET; a.sin_addr.s_addr = htonl(INADDR_LOOPBACK);
    if (bind(fd, (sockaddr*)&a, sizeof(a)) < 0) throw std::runtime_error("bind4");
  } else {
    sockaddr_in6 a{}; a.sin6_family = AF_INET6; a.sin6_addr = in6addr_loopback;
    if (bind(fd, (sockaddr*)&a, sizeof(a)) < 0) throw std::runtime_error("bind6");
  }
  return fd;
}

static uint16_t sock_port(int fd) {
  sockaddr_in6 a{}; socklen_t l = sizeof(a);
  getsockname(fd, (sockaddr*)&a, &l);
  return ntohs(((sockaddr*)&a)->sa_family == AF_INET ? ((sockaddr_in*)&a)->sin_port : a.sin6_port);
}

static uint32_t be32(const unsigned char* p) { return (uint32_t(p[0]) << 24) | (p[1] << 16) | (p[2] << 8) | p[3]; }
static void put32(unsigned char* p, uint32_t v) { p[0] = v >> 24; p[1] = v >> 16; p[2] = v >> 8; p[3] = v; }

static std::string run_udp_once(const std::vector<std::string>& t, unsigned char fill) {
  int fam = t.at(1) == "6" ? AF_INET6 : AF_INET;
  uint32_t other_tx = std::stoul(t.at(2));
  int event = std::stoi(t.at(3));
  auto tt = torrent::ThreadTracker::thread_tracker();
  auto router = fam == AF_INET ? tt->udp_inet_router() : tt->udp_inet6_router();
  if (!router->is_open()) return "SETUP-FAIL router not open";

  int s_ok = udp_socket(fam), s_bad = udp_socket(fam);
  struct closer { int a, b; ~closer() { close(a); close(b); } } cl{s_ok, s_bad};

  torrent::TrackerInfo info;
  info.info_hash = *torrent::HashString::cast_from(g_info_hash);
  info.url = std::string("udp://") + (fam == AF_INET ? "127.0.0.1" : "[::1]") + ":" + std::to_string(sock_port(s_ok)) + "/announce";
  info.key = 7;
  auto tr = std::make_unique<torrent::tracker::TrackerUdp>(info);
  // curl returns the host of an IPv6-literal URL with its brackets, which would go to the (absent) resolver
  // thread: give the tracker the bare numeric host (harness setup)
  if (fam == AF_INET6) tr->m_hostname = "::1";
  Events evs;
  evs.hook(tr.get());

  auto& st = fam == AF_INET ? tr->m_inet_state : tr->m_inet6_state;
  auto& other = fam == AF_INET ? tr->m_inet6_state : tr->m_inet_state;
  std::string out;
  bool process_called = false;
  uint32_t real_c = 0, real_a = 0;
  unsigned char pkt[600];

  auto wrap = [&](uint32_t id) {
    auto ci = find_by_key(router->m_connections, id);
    if (ci == nullptr) return;
    auto orig = ci->process;
    ci->process = [orig, &process_called](uint32_t i, torrent::tracker::UdpRouter::buffer_type& b) { process_called = true; return orig(i, b); };
  };

  try {
    tr->send_event(torrent::tracker::TrackerParams{}, static_cast<torrent::tracker::TrackerState::event_enum>(event));
    ssize_t n = recv(s_ok, pkt, sizeof(pkt), 0);
    if (n != 16 || be32(pkt + 8) != 0 || st.transaction_id == 0 || be32(pkt + 12) != st.transaction_id || other.transaction_id != 0) {
      out = "SETUP-FAIL connect packet n=" + std::to_string(n);
    } else {
      real_c = st.transaction_id;
      other.transaction_id = other_tx;   // harness setup: "the other family's request is still pending"
      wrap(real_c);

      sockaddr_in6 raddr{}; socklen_t rl = sizeof(raddr);
      getsockname(router->file_descriptor(), (sockaddr*)&raddr, &rl);
      if (fam == AF_INET) ((sockaddr_in*)&raddr)->sin_addr.s_addr = htonl(INADDR_LOOPBACK);
      else raddr.sin6_addr = in6addr_loopback;

      std::string evline;
      for (size_t i = 4; i + 2 < t.size() + 0 && t.at(i) == "D"; i += 3) {
        bool src_ok = t.at(i + 1) == "1";
        std::string d = unhex(t.at(i + 2));
        uint32_t cur_real = real_a ? real_a : real_c, cur_sym = real_a ? SYM_ANNOUNCE : SYM_CONNECT;
        if (d.size() >= 8) {
          uint32_t v = be32((unsigned char*)d.data() + 4);
          if (v == cur_sym) put32((unsigned char*)d.data() + 4, cur_real);
          else if (v == cur_real) put32((unsigned char*)d.data() + 4, cur_sym);
        }
        memset(router->m_buffer.begin(), fill, router->m_buffer.reserved());
        if (sendto(src_ok ? s_ok : s_bad, d.data(), d.size(), 0, (sockaddr*)&raddr, rl) != (ssize_t)d.size())
          return "SETUP-FAIL sendto";
        process_called = false;
        size_t nev = evs.ev.size();
        uint32_t tx_before = st.transaction_id;
        std::string e;
        try {
          router->event_read();
        } catch (torrent::internal_error& ex) { e = std::string("ERR:internal:") + ex.what();
        } catch (torrent::bencode_error& ex) { e = "ERR:bencode";
        } catch (std::exception& ex) { e = std::string("ERR:other:") + ex.what(); }
        ssize_t m = recv(s_ok, pkt, sizeof(pkt), 0);
        if (!e.empty()) {
        } else if (evs.ev.size() > nev) {
          for (size_t k = nev; k < evs.ev.size(); k++) { if (!e.empty()) e += "+"; e += evs.ev[k]; }
          if (m > 0) e += "+unexpected-packet";
        } else if (m > 0) {
          if (m == 98 && be32(pkt + 8) == 1 && be32(pkt + 12) == st.transaction_id && st.transaction_id != real_c) {
            real_a = st.transaction_id;
            wrap(real_a);
            e = "connected:" + hexn(pkt, 8);
          } else {
            e = "unexpected-packet:" + hexn(pkt, m);
          }
        } else if (!process_called) {
          e = "drop";
        } else if (tx_before != 0 && st.transaction_id == 0) {
          e = "reset";
        } else {
          e = "ign";
        }
        if (!evline.empty()) evline += ';';
        evline += e;
      }
      auto show_tx = [&](uint32_t x) { return x == 0 ? std::string("0") : x == real_c ? "C" : x == real_a ? "A" : "?" + std::to_string(x); };
      std::string routed = find_by_key(router->m_connections, real_c) ? "C" : (real_a && find_by_key(router->m_connections, real_a)) ? "A" : "none";
      unsigned char cid[8];
      for (int k = 0; k < 8; k++) cid[k] = st.connection_id >> (56 - 8 * k);
      out = "ev=" + (evline.empty() ? std::string("-") : evline) + " tx=" + show_tx(st.transaction_id) + " conn=" + hexn(cid, 8) +
            " routed=" + routed + " " + show_ts(tr.get());
    }
  } catch (torrent::internal_error& e) { out = std::string("ERR:internal:") + e.what();
  } catch (std::exception& e) { out = std::string("ERR:other:") + e.what(); }
  other.transaction_id = 0;
  try { tr->cleanup(); } catch (torrent::internal_error& e) { out += std::string(" cleanup-ERR:") + e.what(); tr->state().m_flags |= torrent::tracker::TrackerState::flag_deleted; }
  return out;
}

// UDP tracker whose host name is still being resolved (the net thread object exists but never runs, so the lookup
// stays in flight):  UP <4|6> <event> (D <src 0|1> <hex>)*   — datagrams to the router of that family from two
// different loopback senders; the symbolic transaction id 0xC0000001 stands for the real one
static std::string run_udp_pending(const std::vector<std::string>& t) {
  int fam = t.at(1) == "6" ? AF_INET6 : AF_INET;
  int event = std::stoi(t.at(2));
  auto tt = torrent::ThreadTracker::thread_tracker();
  auto router = fam == AF_INET ? tt->udp_inet_router() : tt->udp_inet6_router();
  if (!router->is_open()) return "SETUP-FAIL router not open";
  int s_ok = udp_socket(fam), s_bad = udp_socket(fam);
  struct closer { int a, b; ~closer() { close(a); close(b); } } cl{s_ok, s_bad};
  torrent::TrackerInfo info;
  info.info_hash = *torrent::HashString::cast_from(g_info_hash);
  info.url = "udp://tracker.test:" + std::to_string(sock_port(s_ok)) + "/announce";
  info.key = 7;
  auto tr = std::make_unique<torrent::tracker::TrackerUdp>(info);
  Events evs;
  evs.hook(tr.get());
  auto& st = fam == AF_INET ? tr->m_inet_state : tr->m_inet6_state;
  std::string out;
  try {
    tr->send_event(torrent::tracker::TrackerParams{}, static_cast<torrent::tracker::TrackerState::event_enum>(event));
    uint32_t real_c = st.transaction_id;
    auto ci = find_by_key(router->m_connections, real_c);
    if (real_c == 0 || ci == nullptr || ci->address != nullptr) out = "SETUP-FAIL lookup not pending";
    else {
      bool process_called = false;
      auto orig = ci->process;
      ci->process = [orig, &process_called](uint32_t i, torrent::tracker::UdpRouter::buffer_type& b) { process_called = true; return orig(i, b); };
      sockaddr_in6 raddr{}; socklen_t rl = sizeof(raddr);
      getsockname(router->file_descriptor(), (sockaddr*)&raddr, &rl);
      if (fam == AF_INET) ((sockaddr_in*)&raddr)->sin_addr.s_addr = htonl(INADDR_LOOPBACK);
      else raddr.sin6_addr = in6addr_loopback;
      std::string evline;
      for (size_t i = 3; i + 2 < t.size() + 0 && t.at(i) == "D"; i += 3) {
        std::string d = unhex(t.at(i + 2));
        if (d.size() >= 8) {
          uint32_t v = be32((unsigned char*)d.data() + 4);
          if (v == SYM_CONNECT) put32((unsigned char*)d.data() + 4, real_c);
          else if (v == real_c) put32((unsigned char*)d.data() + 4, SYM_CONNECT);
        }
        if (sendto(t.at(i + 1) == "1" ? s_ok : s_bad, d.data(), d.size(), 0, (sockaddr*)&raddr, rl) != (ssize_t)d.size())
          return "SETUP-FAIL sendto";
        process_called = false;
        size_t nev = evs.ev.size();
        std::string e;
        try {
          router->event_read();
        } catch (torrent::internal_error& ex) { e = std::string("ERR:internal:") + ex.what();
        } catch (torrent::bencode_error& ex) { e = "ERR:bencode";
        } catch (std::exception& ex) { e = std::string("ERR:other:") + ex.what(); }
        if (e.empty()) {
          for (size_t k = nev; k < evs.ev.size(); k++) { if (!e.empty()) e += "+"; e += evs.ev[k]; }
          if (e.empty()) e = process_called ? "processed" : "drop";
        }
        for (auto& c : e) if (c == ' ') c = '_';
        if (!evline.empty()) evline += ';';
        evline += e;
      }
      out = "ev=" + (evline.empty() ? std::string("-") : evline) + " " + show_ts(tr.get());
    }
  } catch (torrent::internal_error& e) { out = std::string("ERR:internal:") + e.what();
  } catch (std::exception& e) { out = std::string("ERR:other:") + e.what(); }
  try { tr->cleanup(); } catch (torrent::internal_error& e) { out += std::string(" cleanup-ERR:") + e.what(); tr->state().m_flags |= torrent::tracker::TrackerState::flag_deleted; }
  return out;
}

// the bytes of the router's 512-byte buffer beyond the datagram must not influence anything: run with two fills
static std::string run_udp(const std::vector<std::string>& t) {
  std::string a = run_udp_once(t, 0x00), b = run_udp_once(t, 0xA5);
  if (a != b) return "NONDET " + a + " || " + b;
  return a;
}

// ------------------------------------------------------------------ main

static void on_alarm(int) {
  static const char msg[] = "\nTIMEOUT: C14 watchdog expired (a call blocked)\n";
  (void)!write(2, msg, sizeof(msg) - 1);
  _exit(3);
}

static bool g_runtime = false;
static void need_runtime() {
  if (g_runtime) return;
  torrent::initialize_main_thread();
  curl_global_init(CURL_GLOBAL_ALL);
  torrent::ThreadNet::create_thread();      // created, never started: HttpStack::start_get only queues a callback
  torrent::ThreadTracker::create_thread();
  auto tt = torrent::ThreadTracker::thread_tracker();
  tt->udp_inet_router()->open(AF_INET);
  tt->udp_inet6_router()->open(AF_INET6);
  g_runtime = true;
}

// constants as the COMPILED code has them (cross-check of gen/params_c14.py, ROBUSTNESS.md rule 3)
static void print_params() {
  using TS = torrent::tracker::TrackerState;
  torrent::tracker::UdpRouter::buffer_type b;
  std::cout << "udp_buffer_size=" << b.reserved() << "\n";
  std::cout << "available_list_default_max=" << torrent::AvailableList().max_size() << "\n";
  std::cout << "default_min_interval=" << (long long)TS::default_min_interval.count() << "\n";
  std::cout << "min_min_interval=" << (long long)TS::min_min_interval.count() << "\n";
  std::cout << "max_min_interval=" << (long long)TS::max_min_interval.count() << "\n";
  std::cout << "default_normal_interval=" << (long long)TS::default_normal_interval.count() << "\n";
  std::cout << "min_normal_interval=" << (long long)TS::min_normal_interval.count() << "\n";
  std::cout << "max_normal_interval=" << (long long)TS::max_normal_interval.count() << "\n";
}

int main(int argc, char** argv) {
  std_setup();
  if (argc > 1 && std::string(argv[1]) == "--params") { print_params(); return 0; }
  signal(SIGALRM, on_alarm);
  std::string line;
  while (std::getline(std::cin, line)) {
    auto t = split_ws(line);
    alarm(20);
    try {
      if (t.size() == 2 && t[0] == "AC") {
        exact_buf b(unhex(t[1]));
        AddressList l;
        l.parse_address_compact(torrent::raw_string(b.p, b.n));
        std::cout << "OK " << show_addrs(l.begin(), l.end()) << "\n";
      } else if (t.size() == 2 && t[0] == "AC6") {
        std::string s = unhex(t[1]);
        AddressList l;
        l.parse_address_compact_ipv6(s);
        std::cout << "OK " << show_addrs(l.begin(), l.end()) << "\n";
      } else if (t.size() == 2 && t[0] == "AB") {
        exact_buf b(unhex(t[1]));
        AddressList l;
        l.parse_address_bencode(torrent::raw_list(b.p, b.n));
        std::cout << "OK " << show_addrs(l.begin(), l.end()) << "\n";
      } else if (t.size() >= 3 && t[0] == "AN") {
        size_t i = 1;
        Object o = parse_tree(t, i);
        if (!o.is_list()) { std::cout << "BADCASE\n"; continue; }
        AddressList l;
        l.parse_address_normal(o.as_list());
        std::cout << "OK " << show_addrs(l.begin(), l.end()) << "\n";
      } else if (t.size() >= 2 && t[0] == "PL") {
        std::cout << run_pl(t) << "\n";
      } else if (t.size() >= 2 && t[0] == "PX") {
        std::cout << run_px(t) << "\n";
      } else if (t.size() >= 4 && t[0] == "U") {
        need_runtime();
        std::cout << run_udp(t) << "\n";
      } else if (t.size() >= 3 && t[0] == "UP") {
        need_runtime();
        std::cout << run_udp_pending(t) << "\n";
      } else if (t.size() >= 2 && t[0] == "H3") {
        need_runtime();
        std::cout << run_http3(t) << "\n";
      } else if (t.size() >= 3 && t[0] == "H2") {
        need_runtime();
        std::vector<std::string> bodies;
        for (size_t i = 2; i < t.size(); i++) if (t[i] != "~") bodies.push_back(unhex(t[i]));
        std::cout << run_http2(std::stoi(t[1]), bodies) << "\n";
      } else if (t.size() == 3 && t[0] == "H") {
        need_runtime();
        std::cout << run_http(std::stoi(t[1]), unhex(t[2])) << "\n";
      } else {
        std::cout << "BADCASE\n";
      }
    } catch (torrent::internal_error& e) {
      std::cout << "ERR:internal " << e.what() << "\n";
    } catch (torrent::bencode_error& e) {
      std::cout << "ERR:bencode " << e.what() << "\n";
    } catch (torrent::input_error& e) {
      std::cout << "ERR:input " << e.what() << "\n";
    } catch (std::exception& e) {
      std::cout << "ERR:other " << e.what() << "\n";
    }
    alarm(0);
  }
  return 0;
}
