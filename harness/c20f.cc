// C20 fetcher-side driver: a magnet (meta_download) torrent in the REAL library, scripted wire peers
// acting as honest or lying ut_metadata providers. Same case protocol as the "F" cases of
// ocaml/c20_driver.ml.
//
// Case:  F pre=<hex> pad=<n> seed=<n> suf=<hex> | op op ...
//   info = unhex(pre) ++ pad bytes ++ unhex(suf) is the REAL metadata; the magnet names SHA-1(info).
// Ops (peer index i in 0..3):
//   c<i>:<fields>    connect + BitTorrent handshake (extension bit) + extension handshake with
//                    fields m<Z> (ut_metadata id), s<Z> (metadata_size), each optional
//   h<i>:<fields>    a later extension handshake
//   p<i>:<piece>:<kind>[:<arg>]   a ut_metadata data message (ext id 2 = the library's id) for
//                    piece; kind: ok (true slice), bad (true slice with byte 0 flipped),
//                    short (one byte less), long (one byte more), len<k> (first k bytes),
//                    tot<n> (true slice, total_size n)
//   j<i>:<piece>     a ut_metadata reject
//   q<i>:<p>,<p>..[:split<k>]  ut_metadata REQUESTS from the peer (answered by rejects: J<i>(id,piece)); split<k>: two TCP segments
//   t                2-minute tick (peers send keep-alives first)
//   d<i>             the peer closes
// Output per op: "<op> => <events> # <snapshot>"; events: Q<i>(id=<extid>,piece=<p>) for every
//   ut_metadata request the peer received, X<i> closed by the library;
//   snapshot: F[size=<file size> chunk=<chunk size> done=<0|1> have=<completed chunks> file=<md5 of the
//   metadata file if done, else ->] and per connection C<i>[idm=<id> rs=<remote supported>]
#include "config.h"

#include <filesystem>
#include <fstream>
#include <map>
#include <openssl/md5.h>
#include <openssl/sha.h>
#include <unistd.h>

#include "common/session.h"
#include "common/wirepeer.h"
#include "download/download_main.h"
#include "download/download_wrapper.h"
#include "protocol/extensions.h"
#include "protocol/peer_connection_base.h"
#include "torrent/data/file.h"
#include "torrent/data/file_list.h"
#include "download/delegator.h"
#include "data/transfer_list.h"
#include "torrent/download_info.h"
#include "torrent/exceptions.h"
#include "torrent/peer/connection_list.h"
#include "torrent/peer/peer.h"
#include "torrent/torrent.h"
#include "torrent/system/poll.h"

using namespace ltv;
namespace fs = std::filesystem;

static std::string md5hex(const std::string& s) {
  unsigned char md[16];
  MD5((const unsigned char*)s.data(), s.size(), md);
  return hex((const char*)md, 16);
}

struct Peer {
  std::unique_ptr<WirePeer> w;
  uint16_t port = 0;
  bool eof_reported = false;
};

static uint32_t g_case_no = 0;

static std::string hs_msg(const std::string& arg) {
  std::string mm, ss;
  size_t p = 0;
  while (p <= arg.size()) {
    size_t q = arg.find(',', p);
    std::string f = arg.substr(p, q == std::string::npos ? std::string::npos : q - p);
    if (f.size() >= 2 && f[0] == 'm') mm = f.substr(1);
    if (f.size() >= 2 && f[0] == 's') ss = f.substr(1);
    if (q == std::string::npos) break;
    p = q + 1;
  }
  std::string msg = "d1:md";
  if (!mm.empty()) msg += "11:ut_metadatai" + mm + "e";
  msg += "e";
  if (!ss.empty()) msg += "13:metadata_sizei" + ss + "e";
  msg += "e";
  return WirePeer::extended(0, msg);
}

static std::string run_case(Session& S, const std::string& line) {
  size_t bar = line.find('|');
  if (bar == std::string::npos) return "BADCASE";
  std::map<std::string, std::string> kv;
  for (auto& tok : split_ws(line.substr(0, bar))) {
    size_t e = tok.find('=');
    if (e != std::string::npos) kv[tok.substr(0, e)] = tok.substr(e + 1);
  }
  auto ops = split_ws(line.substr(bar + 1));
  g_case_no++;

  std::string info = unhex(kv["pre"]);
  {
    uint32_t n = std::stoul(kv["pad"]), seed = std::stoul(kv["seed"]);
    std::string pad(n, '\0');
    for (uint32_t i = 0; i < n; i++) pad[i] = (char)content_byte(seed, i);
    info += pad + unhex(kv["suf"]);
  }
  unsigned char md[20];
  SHA1((const unsigned char*)info.data(), info.size(), md);
  std::string info_hash((char*)md, 20);
  std::string uri = "magnet:?xt=urn:btih:" + hex(info_hash);

  torrent::Download dl;
  try {
    dl = S.add_raw("d10:magnet-uri" + std::to_string(uri.size()) + ":" + uri + "e");
  } catch (torrent::base_error& e) {
    return std::string("ERR:add ") + e.what();
  }
  std::string root = S.scratch() + "/f" + std::to_string(g_case_no);
  fs::create_directories(root);
  dl.file_list()->set_root_dir(root);
  dl.set_connection_type(torrent::Download::CONNECTION_LEECH);   // meta download: PeerConnectionMetadata
  dl.open(0);
  dl.hash_check(false);
  if (!S.settle([dl]() { return dl.is_hash_checked(); }, 30000)) return "ERR:hashcheck";
  dl.start(0);
  S.step();
  auto to_pex_tick = [&]() {
    do {
      int64_t d = S.next_tick_in_us();
      S.advance_us((d < 0 ? 0 : d) + 1);
    } while (S.tick_count() % 4 != 0);
  };
  to_pex_tick();

  std::map<int, Peer> peers;
  std::string out;

  auto pump_all = [&]() {
    for (int round = 0; round < 60; round++) {
      bool moved = false;
      for (auto& pk : peers)
        if (pk.second.w && pk.second.w->fd != -1 && pk.second.w->flush() > 0) moved = true;
      if (S.step()) moved = true;
      for (auto& pk : peers)
        if (pk.second.w && pk.second.w->fd != -1 && pk.second.w->recv_available() > 0) moved = true;
      if (!moved) {
        usleep(300);
        bool again = S.step();
        for (auto& pk : peers)
          if (pk.second.w && pk.second.w->fd != -1 && pk.second.w->recv_available() > 0) again = true;
        if (!again) break;
      }
    }
  };
  auto settle_hash = [&]() {
    // a completed chunk is hashed by another thread: wait (bounded, real time) until nothing is queued
    for (int k = 0; k < 400; k++) {
      pump_all();
      auto* main = dl.ptr()->main();
      bool busy = main->delegator()->transfer_list()->size() != 0 && false;
      (void)busy;
      if (k >= 3) break;
      usleep(2000);
    }
  };
  auto collect = [&]() {
    std::string ev;
    for (auto& pk : peers) {
      Peer& P = pk.second;
      if (!P.w) continue;
      WireMsg m;
      while (P.w->next_message(m)) {
        if (m.id != WirePeer::EXTENDED || m.body.empty()) continue;
        int eid = (unsigned char)m.body[0];
        std::string rest = m.body.substr(1);
        size_t a = rest.find("8:msg_typei0e");
        size_t b = rest.find("5:piecei");
        if (a != std::string::npos && b != std::string::npos) {
          size_t e = rest.find('e', b + 8);
          ev += "Q" + std::to_string(pk.first) + "(id=" + std::to_string(eid) + ",piece=" + rest.substr(b + 8, e - b - 8) + ") ";
        } else if (rest.find("8:msg_typei2e") != std::string::npos && b != std::string::npos) {
          size_t e = rest.find('e', b + 8);   // our reject of the peer's own request
          ev += "J" + std::to_string(pk.first) + "(id=" + std::to_string(eid) + ",piece=" + rest.substr(b + 8, e - b - 8) + ") ";
        } else if (eid != 0) {
          ev += "E" + std::to_string(pk.first) + "(id=" + std::to_string(eid) + "," + hex(rest.substr(0, 48)) + ") ";
        }
      }
      if (P.w->eof && !P.eof_reported) {
        P.eof_reported = true;
        ev += "X" + std::to_string(pk.first) + " ";
      }
    }
    return ev;
  };
  auto snapshot = [&]() {
    std::string o = "F[size=" + std::to_string(dl.file_list()->size_bytes()) + " chunk=" + std::to_string(dl.file_list()->chunk_size()) +
                    " done=" + (dl.file_list()->is_done() ? "1" : "0") + " have=" + std::to_string(dl.file_list()->completed_chunks());
    std::string fmd = "-";
    if (dl.file_list()->is_done() && dl.file_list()->size_files() == 1) {
      std::string path = (*dl.file_list()->begin())->frozen_path().str();
      std::ifstream f(path, std::ios::binary);
      std::string data((std::istreambuf_iterator<char>(f)), std::istreambuf_iterator<char>());
      fmd = std::to_string(data.size()) + ":" + md5hex(data);
    }
    o += " file=" + fmd + "]";
    for (auto& pk : peers) {
      if (!pk.second.w || pk.second.w->fd == -1) continue;
      torrent::PeerConnectionBase* pcb = nullptr;
      for (torrent::Peer* p : *dl.connection_list()) {
        auto* c = p->m_ptr();
        if (c->file_descriptor() < 0) continue;
        sockaddr_in a{};
        socklen_t n = sizeof a;
        if (getpeername(c->file_descriptor(), (sockaddr*)&a, &n) == 0 && ntohs(a.sin_port) == pk.second.port &&
            (ntohl(a.sin_addr.s_addr) & 0xff) == (unsigned)(2 + pk.first)) pcb = c;
      }
      if (!pcb) continue;
      auto* e = pcb->m_extensions;
      o += " C" + std::to_string(pk.first) + "[idm=" + std::to_string(e->is_default() ? 0 : e->id(torrent::ProtocolExtension::UT_METADATA)) +
           " rs=" + (!e->is_default() && e->is_remote_supported(torrent::ProtocolExtension::UT_METADATA) ? "1" : "0") +
           " rd=" + (torrent::this_thread::poll()->in_read(pcb) ? "1" : "0") + " wr=" + (torrent::this_thread::poll()->in_write(pcb) ? "1" : "0") +
           " pend=" + (!e->is_default() && e->has_pending_message() ? "1" : "0") + "]";
    }
    return o;
  };

  size_t npieces = (info.size() + 16383) / 16384;
  bool internal = false;
  try {
    for (auto& op : ops) {
      std::string ev;
      char k = op[0];
      if (k == 't') {
        for (auto& pk : peers)
          if (pk.second.w && pk.second.w->fd != -1) pk.second.w->send_bytes(WirePeer::keepalive());
        pump_all();
        to_pex_tick();
        settle_hash();
      } else {
        int idx = op[1] - '0';
        if (idx < 0 || idx > 5) return "BADCASE";
        std::string arg = op.size() > 3 ? op.substr(3) : "";
        if (k == 'c') {
          if (peers.count(idx)) return "BADCASE";
          Peer& P = peers[idx];
          P.w = std::make_unique<WirePeer>();
          std::string ip = "127.0.0." + std::to_string(2 + idx);
          if (!P.w->connect_to(S.listen_port(), ip.c_str(), 1 << 20, 0)) return "ERR:connect";
          P.port = P.w->local_port();
          char idbuf[21];
          snprintf(idbuf, sizeof idbuf, "-LV0020-%010u%02d", g_case_no, idx);
          P.w->send_bytes(WirePeer::handshake(info_hash, std::string(idbuf, 20), WirePeer::reserved_ext()) + WirePeer::keepalive());
          pump_all();
          HandshakeIn hs;
          if (!P.w->take_handshake(hs) || hs.info_hash != info_hash) ev += "NOHANDSHAKE ";
          P.w->send_bytes(hs_msg(arg));
          settle_hash();
        } else if (k == 'h') {
          if (!peers.count(idx)) return "BADCASE";
          if (peers[idx].w->fd != -1) peers[idx].w->send_bytes(hs_msg(arg));
          settle_hash();
        } else if (k == 'p') {
          if (!peers.count(idx)) return "BADCASE";
          size_t c1 = arg.find(':');
          std::string pc = arg.substr(0, c1), kind = arg.substr(c1 + 1);
          uint64_t p = std::stoull(pc);
          std::string slice = p < npieces ? info.substr(p * 16384, 16384) : std::string();
          std::string total = std::to_string(info.size());
          if (kind == "bad") { if (!slice.empty()) slice[0] = char(slice[0] ^ 0x55); }
          else if (kind == "short") { if (!slice.empty()) slice.pop_back(); }
          else if (kind == "long") slice.push_back('Z');
          else if (kind.compare(0, 3, "len") == 0) slice = slice.substr(0, std::stoul(kind.substr(3)));
          else if (kind.compare(0, 3, "tot") == 0) total = kind.substr(3);
          std::string msg = "d8:msg_typei1e5:piecei" + pc + "e10:total_sizei" + total + "ee" + slice;
          if (peers[idx].w->fd != -1) peers[idx].w->send_bytes(WirePeer::extended(torrent::ProtocolExtension::UT_METADATA, msg));
          settle_hash();
        } else if (k == 'q') {
          // q<i>:<p>,<p>..[:split<k>]  the peer asks US for metadata blocks (we are a magnet download: reject);
          // split<k>: the bytes arrive in two segments, the first k bytes, then (after the library has read them) the rest
          if (!peers.count(idx)) return "BADCASE";
          size_t c1 = arg.find(':');
          std::string list = arg.substr(0, c1), batch;
          size_t split = 0;
          if (c1 != std::string::npos && arg.compare(c1 + 1, 5, "split") == 0) split = std::stoul(arg.substr(c1 + 6));
          size_t p0 = 0;
          while (p0 <= list.size()) {
            size_t q = list.find(',', p0);
            std::string f = list.substr(p0, q == std::string::npos ? std::string::npos : q - p0);
            if (!f.empty()) batch += WirePeer::extended(torrent::ProtocolExtension::UT_METADATA, "d8:msg_typei0e5:piecei" + f + "ee");
            if (q == std::string::npos) break;
            p0 = q + 1;
          }
          if (batch.size() >= 480) return "BADCASE";
          if (peers[idx].w->fd != -1) {
            if (split > 0 && split < batch.size()) {
              peers[idx].w->send_bytes(batch.substr(0, split));
              pump_all();
              peers[idx].w->send_bytes(batch.substr(split));
            } else {
              peers[idx].w->send_bytes(batch);
            }
          }
          settle_hash();
        } else if (k == 'j') {
          if (!peers.count(idx)) return "BADCASE";
          if (peers[idx].w->fd != -1)
            peers[idx].w->send_bytes(WirePeer::extended(torrent::ProtocolExtension::UT_METADATA, "d8:msg_typei2e5:piecei" + arg + "ee"));
          settle_hash();
        } else if (k == 'd') {
          if (peers.count(idx) && peers[idx].w) { peers[idx].w->close_all(); peers[idx].eof_reported = true; }
          pump_all();
        } else {
          return "BADCASE";
        }
      }
      // the hash of a finished chunk comes back from another thread
      S.settle([&]() { return true; }, 1);
      for (int k2 = 0; k2 < 50; k2++) {
        pump_all();
        if (dl.ptr()->main()->delegator()->transfer_list()->empty()) break;
        usleep(1000);
      }
      ev += collect();
      if (!out.empty()) out += " ; ";
      out += op + " => " + ev + "# " + snapshot();
    }
  } catch (torrent::internal_error& e) {
    internal = true;
    fprintf(stderr, "[c20f] internal_error: %s\n", e.what());
    if (!out.empty()) out += " ; ";
    out += "ERR:internal";
  }
  if (internal) {
    printf("%s\n", out.c_str());
    fflush(stdout);
    _exit(0);
  }
  for (auto& pk : peers)
    if (pk.second.w) pk.second.w->close_all();
  std::string fetched;
  bool was_done = dl.file_list()->is_done() && dl.file_list()->size_files() == 1;
  if (was_done) {
    std::ifstream f((*dl.file_list()->begin())->frozen_path().str(), std::ios::binary);
    fetched.assign((std::istreambuf_iterator<char>(f)), std::istreambuf_iterator<char>());
  }
  try {
    S.step();
    dl.stop(torrent::Download::stop_skip_tracker);
    dl.close(0);
    S.step();
    torrent::download_remove(dl);
    S.step();
  } catch (torrent::base_error& e) {
    out += std::string(" ; ERR:cleanup ") + e.what();
  }
  if (was_done) {
    // "then describes the same torrent as the original file": what the client does next is to load
    // the fetched metadata as a torrent; compare the resulting Download with the one the original gives.
    auto dump_of = [&](const std::string& info_bytes) -> std::string {
      try {
        torrent::Download d = S.add_raw("d4:info" + info_bytes + "e");
        std::string o = "name=" + hex(d.info()->name().str()) + " size=" + std::to_string(d.file_list()->size_bytes()) +
                        " chunk=" + std::to_string(d.file_list()->chunk_size()) + " chunks=" + std::to_string(d.file_list()->size_chunks()) +
                        " priv=" + (d.info()->is_private() ? "1" : "0") + " hash=" + hex(d.info()->hash().str()) +
                        " pieces=" + md5hex(d.ptr()->complete_hash()) + " files=";
        for (auto& fe : *d.file_list()) o += hex(fe->path()->as_string()) + ":" + std::to_string(fe->size_bytes()) + ",";
        torrent::download_remove(d);
        S.step();
        return o;
      } catch (torrent::base_error& e) {
        return std::string("ERR ") + e.what();
      }
    };
    std::string a = dump_of(fetched), b = dump_of(info);
    out += std::string(" ; same=") + (a == b && a.compare(0, 3, "ERR") != 0 ? "1" : "0:" + a + " / " + b);
  }
  std::error_code ec;
  fs::remove_all(root, ec);
  return out;
}

static void on_alarm(int) {
  static const char msg[] = "HANG\n";
  ssize_t r = write(1, msg, sizeof msg - 1);
  (void)r;
  _exit(0);
}

int main() {
  std_setup();
  signal(SIGALRM, on_alarm);
  Session S;
  std::string line;
  while (std::getline(std::cin, line)) {
    if (line.empty()) { std::cout << "\n"; continue; }
    std::string r;
    alarm(30);
    try {
      r = run_case(S, line);
    } catch (torrent::internal_error& e) {
      printf("ERR:internal %s\n", e.what());
      fflush(stdout);
      _exit(0);
    } catch (std::exception& e) {
      r = std::string("ERR:exception ") + e.what();
    }
    alarm(0);
    std::cout << r << "\n";
  }
  return 0;
}
