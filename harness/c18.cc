// C18 implementation driver: the real HashQueue + HashCheckQueue + ThreadDisk object, a main-role and a
// disk-role OS thread under the deterministic scheduler (harness/common/sched.h; schedule points of
// hooks/c18.patch plus the committed C17 points in thread.cc). Same protocol as ocaml/c18_driver.ml.
//   <main cmds> / <disk cmds> / <schedule digits 0|1>      cmds: P:<chunk>:<torrent>  R:<torrent>  D
#include "config.h"
#include "common/util.h"
#include "common/sched.h"

#include <algorithm>
#include <chrono>
#include <map>
#include <memory>
#include <sys/mman.h>

#include <openssl/sha.h>

#include "thread_main.h"
#include "runtime_manager.h"
#include "data/chunk_handle.h"
#include "data/chunk_list.h"
#include "data/chunk_manager.h"
#include "data/hash_check_queue.h"
#include "data/hash_chunk.h"
#include "data/hash_queue.h"
#include "data/thread_disk.h"
#include "torrent/exceptions.h"
#include "torrent/system/poll.h"
#include "torrent/system/thread.h"

using namespace ltv;
using namespace std::chrono_literals;

namespace {

struct Cmd { char kind; int a{}, b{}; };

class HThread : public torrent::system::Thread {
public:
  const char* name() const override { return "ltv-c18-main"; }
  void        call_events() override {}
  std::chrono::microseconds next_timeout() override { return 0us; }
};

torrent::Chunk* create_chunk(uint32_t index, int) {
  char* mem = (char*)mmap(NULL, 10, PROT_READ | PROT_WRITE, MAP_ANON | MAP_PRIVATE, -1, 0);
  if (mem == MAP_FAILED) throw torrent::internal_error("mmap");
  std::memset(mem, index, 10);
  auto* chunk = new torrent::Chunk();
  chunk->push_back(torrent::ChunkPart::MAPPED_MMAP, torrent::MemoryChunk(mem, mem, mem + 10, torrent::MemoryChunk::prot_read, 0));
  return chunk;
}

std::vector<Cmd> parse_list(const std::string& s) {
  std::vector<Cmd> out;
  for (auto& tok : split_ws(s)) {
    Cmd c{tok.at(0)};
    if (c.kind == 'P') { auto p = tok.find(':', 2); c.a = std::stoi(tok.substr(2, p - 2)); c.b = std::stoi(tok.substr(p + 1)); }
    else if (c.kind == 'R') c.a = std::stoi(tok.substr(2));
    else if (c.kind != 'D') throw std::runtime_error("cmd");
    out.push_back(c);
  }
  return out;
}

std::vector<std::string> split_on(const std::string& s, char ch) {
  std::vector<std::string> out; size_t p = 0;
  while (true) { auto q = s.find(ch, p); out.push_back(s.substr(p, q == std::string::npos ? q : q - p)); if (q == std::string::npos) break; p = q + 1; }
  return out;
}

std::string run_case(const std::string& line) {
  auto parts = split_on(line, '/');
  if (parts.size() != 3) return "BADCASE";
  std::vector<Cmd> progs[2] = {parse_list(parts[0]), parse_list(parts[1])};

  auto* main_thread = new HThread;
  torrent::ThreadMain::m_thread_base = main_thread;
  torrent::ThreadDisk::create_thread();
  auto* disk = torrent::ThreadDisk::thread_disk();
  main_thread->m_poll->m_polling_state.store(torrent::system::Poll::flag_polling);
  disk->m_poll->m_polling_state.store(torrent::system::Poll::flag_polling);

  auto* manager = new torrent::ChunkManager;
  auto* chunks  = new torrent::ChunkList;
  chunks->set_manager(manager);
  chunks->slot_create_chunk()   = [](uint32_t i, int f) { return create_chunk(i, f); };
  chunks->slot_free_diskspace() = [](auto&) { return uint64_t(0); };
  chunks->slot_storage_error()  = [](const std::string&) {};
  chunks->set_chunk_size(1 << 16);
  chunks->resize(16);
  auto* hq = new torrent::HashQueue;
  disk->hash_check_queue()->slot_chunk_done() = [hq](auto hc, const auto& hv) { hq->chunk_done(hc, hv); };

  std::vector<std::string>            step_events;
  std::vector<std::pair<int, std::string>> outcomes;
  std::atomic<bool>                   err{false};

  auto state = [&]() {
    return std::string(hq->m_has_done_chunks.load() ? "1" : "0") + ":" + std::to_string(disk->hash_check_queue()->size()) + "." +
           std::to_string(hq->m_done_chunks.size()) + "." + std::to_string(main_thread->m_callbacks.size()) + "." +
           std::to_string(disk->m_callbacks.size()) + ":" +
           ((main_thread->m_poll->m_polling_state.load() & torrent::system::Poll::flag_interrupted) ? "1" : "0") +
           ((disk->m_poll->m_polling_state.load() & torrent::system::Poll::flag_interrupted) ? "1" : "0");
  };

  std::string out = "S";
  std::string fin;
  {
    Controller ctrl;
    ctrl.launch(2, [&](int i) {
      torrent::system::Thread* self = i == 0 ? static_cast<torrent::system::Thread*>(main_thread) : disk;
      torrent::system::Thread::m_self = self;
      self->m_thread_id = std::this_thread::get_id();
      try {
        for (auto& c : progs[i]) {
          switch (c.kind) {
          case 'P': {
            int  idx    = c.a;
            auto handle = chunks->get(idx, torrent::ChunkList::get_flags(torrent::ChunkList::get_not_hashing | torrent::ChunkList::get_blocking));
            hq->push_back(handle, reinterpret_cast<torrent::HashQueueNode::id_type>(uintptr_t(c.b + 1) * 64),
                          [&, idx, chunks](torrent::ChunkHandle h, const char* hash) {
                            if (hash == NULL) {
                              step_events.push_back("X" + std::to_string(idx));
                              outcomes.push_back({idx, "cancel"});
                            } else {
                              unsigned char buf[10], want[20];
                              std::memset(buf, idx, 10);
                              SHA1(buf, 10, want);
                              bool ok = std::memcmp(want, hash, 20) == 0 && (int)h.index() == idx;
                              step_events.push_back(ok ? "G" : "BAD");
                              outcomes.push_back({idx, ok ? "digest" : "wrongdigest"});
                            }
                            chunks->release(&h, torrent::ChunkList::release_default);
                          });
            break;
          }
          case 'R': hq->remove(reinterpret_cast<torrent::HashQueueNode::id_type>(uintptr_t(c.a + 1) * 64)); break;
          case 'D': self->process_callbacks(); break;
          }
        }
      } catch (const torrent::internal_error&) {
        err = true;
      }
      torrent::system::Thread::m_self = nullptr;
    });
    for (char ch : parts[2]) {
      if (ch != '0' && ch != '1') continue;
      int         t   = ch - '0';
      const char* lab = ctrl.label(t);
      std::string l   = lab ? lab : "";
      if (l.size() > 2 && l[1] == ':') l = l.substr(2);
      step_events.clear();
      if (ctrl.step(t) != Controller::STEPPED) { out += " " + std::to_string(t) + ":-"; continue; }
      out += " " + std::to_string(t) + ":" + l + ":" + state();
      for (size_t i = 0; i < step_events.size(); i++) out += (i ? "+" : ":") + step_events[i];
    }
    fin = std::string(ctrl.is_done(0) ? "1" : "0") + (ctrl.is_done(1) ? "1" : "0");
    ctrl.finish();
  }
  std::sort(outcomes.begin(), outcomes.end());
  out += " | F " + fin + " E " + (err ? "1" : "0") + " O ";
  for (size_t i = 0; i < outcomes.size(); i++) out += (i ? "," : "") + std::to_string(outcomes[i].first) + ":" + outcomes[i].second;
  out += " H " + std::to_string(hq->size()) + " Q " + std::to_string(disk->hash_check_queue()->size()) + "." + std::to_string(hq->m_done_chunks.size()) +
         " M " + std::to_string(main_thread->m_callbacks.size()) + "." + std::to_string(disk->m_callbacks.size());
  // blocking handle counts at the end (implementation only, appended after '#': not compared with the model)
  int refs = 0;
  for (uint32_t i = 0; i < 16; i++) refs += (*chunks)[i].blocking();
  out += " # B " + std::to_string(refs);
  // tear down what can be torn down safely; the queue / chunk list objects of an unfinished case are leaked
  torrent::ThreadDisk::destroy_thread();
  torrent::ThreadMain::m_thread_base = nullptr;
  delete main_thread;
  return out;
}

} // namespace

int main(int, char**) {
  std_setup();
  torrent::RuntimeManager::initialize();
  std::string line;
  while (std::getline(std::cin, line)) {
    std::string r;
    try {
      r = run_case(line);
    } catch (const torrent::internal_error& e) {
      r = std::string("ERR:internal ") + e.what();
    } catch (const std::exception& e) {
      r = std::string("ERR:input ") + e.what();
    }
    std::cout << r << "\n";
  }
  return 0;
}
