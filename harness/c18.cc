// C18 implementation driver: the real HashQueue + HashCheckQueue + ThreadDisk object, a main-role and a
// disk-role OS thread under the deterministic scheduler (harness/common/sched.h; schedule points of
// hooks/c18.patch plus the committed C17 points in thread.cc). Same protocol as ocaml/c18_driver.ml.
//   <main cmds> / <disk cmds> / <schedule digits 0|1>      cmds: P:<chunk>:<torrent>  R:<torrent>  D
#include "config.h"
#include "common/util.h"
#include "common/sched.h"
#include "common/futex_interpose.h"

#include <algorithm>
#include <chrono>
#include <map>
#include <memory>
#include <sys/mman.h>
#include <unistd.h>
#include <cstring>

#include <openssl/sha.h>

#include "thread_main.h"
#include "runtime_manager.h"
#include "data/chunk_handle.h"
#include "data/chunk_list.h"
#include "data/chunk_manager.h"
#include "data/hash_check_queue.h"
#include "data/hash_chunk.h"
#include "data/hash_queue.h"
#include "data/thread_disk.h"
#include "torrent/exceptions.h"
#include "torrent/system/poll.h"
#include "torrent/system/thread.h"

using namespace ltv;
using namespace std::chrono_literals;

namespace {

struct Cmd { char kind; int a{}, b{}; };

class HThread : public torrent::system::Thread {
public:
  const char* name() const override { return "ltv-c18-main"; }
  void        call_events() override {}
  std::chrono::microseconds next_timeout() override { return 0us; }
};

// chunk i is made of 1 + i%3 mapped parts (sizes {10} / {9,1} / {3,6,1}: 1-byte parts and a part boundary one
// byte before the end), byte j of chunk i = i*7 + j
const std::vector<std::vector<int>> part_sizes = {{10}, {9, 1}, {3, 6, 1}};
unsigned char chunk_byte(uint32_t index, int j) { return (unsigned char)(index * 7 + j); }

torrent::Chunk* create_chunk(uint32_t index, int prot) {
  auto* chunk = new torrent::Chunk();
  int   j     = 0;
  for (int len : part_sizes[index % 3]) {
    char* mem = (char*)mmap(NULL, len, PROT_READ | PROT_WRITE, MAP_ANON | MAP_PRIVATE, -1, 0);
    if (mem == MAP_FAILED) throw torrent::internal_error("mmap");
    for (int k = 0; k < len; k++) mem[k] = chunk_byte(index, j++);
    chunk->push_back(torrent::ChunkPart::MAPPED_MMAP, torrent::MemoryChunk(mem, mem, mem + len, prot, 0));
  }
  return chunk;
}

std::vector<Cmd> parse_list(const std::string& s) {
  std::vector<Cmd> out;
  for (auto& tok : split_ws(s)) {
    Cmd c{tok.at(0)};
    if (c.kind == 'P') { auto p = tok.find(':', 2); c.a = std::stoi(tok.substr(2, p - 2)); c.b = std::stoi(tok.substr(p + 1)); }
    else if (c.kind == 'R') c.a = std::stoi(tok.substr(2));
    else if (tok == "LOOP") c.kind = 'O';
    else if (c.kind != 'D') throw std::runtime_error("cmd");
    out.push_back(c);
  }
  return out;
}

std::vector<std::string> split_on(const std::string& s, char ch) {
  std::vector<std::string> out; size_t p = 0;
  while (true) { auto q = s.find(ch, p); out.push_back(s.substr(p, q == std::string::npos ? q : q - p)); if (q == std::string::npos) break; p = q + 1; }
  return out;
}

std::string run_case(const std::string& line) {
  auto parts = split_on(line, '/');
  if (parts.size() != 3) return "BADCASE";
  std::vector<Cmd> progs[2] = {parse_list(parts[0]), parse_list(parts[1])};

  auto* main_thread = new HThread;
  torrent::ThreadMain::m_thread_base = main_thread;
  torrent::ThreadDisk::create_thread();
  auto* disk = torrent::ThreadDisk::thread_disk();
  main_thread->m_poll->m_polling_state.store(torrent::system::Poll::flag_polling);
  disk->m_poll->m_polling_state.store(torrent::system::Poll::flag_polling);

  auto* manager = new torrent::ChunkManager;
  auto* chunks  = new torrent::ChunkList;
  chunks->set_manager(manager);
  chunks->slot_create_chunk()   = [](uint32_t i, int f) { return create_chunk(i, f); };
  chunks->slot_free_diskspace() = [](auto&) { return uint64_t(0); };
  chunks->slot_storage_error()  = [](const std::string&) {};
  chunks->set_chunk_size(1 << 16);
  uint32_t nchunks = 16;   // more for the deep-queue cases (> 64 pieces pending at once)
  for (auto& pr : progs) for (auto& c : pr) if (c.kind == 'P' && uint32_t(c.a) + 1 > nchunks) nchunks = c.a + 1;
  chunks->resize(nchunks);
  auto* hq = new torrent::HashQueue;
  disk->hash_check_queue()->slot_chunk_done() = [hq](auto hc, const auto& hv) { hq->chunk_done(hc, hv); };

  std::vector<std::string>            step_events;
  std::vector<std::pair<int, std::string>> outcomes;
  std::atomic<bool>                   err{false};

  auto state = [&]() {
    return std::string(hq->m_has_done_chunks.load() ? "1" : "0") + ":" + std::to_string(disk->hash_check_queue()->size()) + "." +
           std::to_string(hq->m_done_chunks.size()) + "." + std::to_string(main_thread->m_callbacks.size()) + "." +
           std::to_string(disk->m_callbacks.size()) + ":" +
           ((main_thread->m_poll->m_polling_state.load() & torrent::system::Poll::flag_interrupted) ? "1" : "0") +
           ((disk->m_poll->m_polling_state.load() & torrent::system::Poll::flag_interrupted) ? "1" : "0");
  };

  std::string out = "S";
  std::string fin;
  SchedWatchdog wd(20000, [] {
    std::cout << "ERR:hang case did not complete within 20 s (a thread is blocked outside the scheduler's control)" << std::endl;
    _exit(3);
  });
  {
    Controller ctrl;
    // a controlled thread that really blocks in atomic<bool>::wait (m_has_done_chunks) is parked as blocked, visible as
    // "not enabled", until a controlled thread really notifies it; at case end the flag is raised so the wait returns
    ctrl.futex_emulation = getenv("LTV_NO_FUTEX_EMU") == nullptr;   // the switch exists to exercise the hang watchdog path
    ctrl.before_abort    = [hq] { hq->m_has_done_chunks.store(true); };
    // chunk_done takes m_done_chunks_lock at a plain schedule point: it is enabled only when the lock is free
    ctrl.extra_enabled = [hq](int, const char* label) {
      if (std::strcmp(label, "hq_publish_lock") != 0) return true;
      if (!hq->m_done_chunks_lock.try_lock()) return false;
      hq->m_done_chunks_lock.unlock();
      return true;
    };
    ctrl.launch(2, [&](int i) {
      torrent::system::Thread* self = i == 0 ? static_cast<torrent::system::Thread*>(main_thread) : disk;
      torrent::system::Thread::m_self = self;
      self->m_thread_id = std::this_thread::get_id();
      try {
        for (auto& c : progs[i]) {
          switch (c.kind) {
          case 'P': {
            int  idx    = c.a;
            // the piece was written before it is hashed: a writable handle was taken and released, so the node
            // sits in the sync queue while the hash is pending
            auto wh = chunks->get(idx, torrent::ChunkList::get_flags(torrent::ChunkList::get_writable | torrent::ChunkList::get_not_hashing));
            chunks->release(&wh, torrent::ChunkList::release_default);
            auto handle = chunks->get(idx, torrent::ChunkList::get_flags(torrent::ChunkList::get_not_hashing | torrent::ChunkList::get_blocking));
            hq->push_back(handle, reinterpret_cast<torrent::HashQueueNode::id_type>(uintptr_t(c.b + 1) * 64),
                          [&, idx, chunks](torrent::ChunkHandle h, const char* hash) {
                            if (hash == NULL) {
                              step_events.push_back("X" + std::to_string(idx));
                              outcomes.push_back({idx, "cancel"});
                            } else {
                              unsigned char buf[10], want[20];
                              for (int j = 0; j < 10; j++) buf[j] = chunk_byte(idx, j);
                              SHA1(buf, 10, want);
                              bool ok = std::memcmp(want, hash, 20) == 0 && (int)h.index() == idx;
                              step_events.push_back(ok ? "G" : "BAD");
                              outcomes.push_back({idx, ok ? "digest" : "wrongdigest"});
                            }
                            chunks->release(&h, torrent::ChunkList::release_default);
                          });
            // a forced sync (session save / memory pressure) while the hash is pending must not unmap the piece
            chunks->sync_chunks_no_cache(torrent::ChunkList::sync_flags(torrent::ChunkList::sync_all | torrent::ChunkList::sync_force));
            break;
          }
          case 'R': hq->remove(reinterpret_cast<torrent::HashQueueNode::id_type>(uintptr_t(c.a + 1) * 64)); break;
          case 'D': self->process_callbacks(); break;
          case 'O': while (true) self->process_callbacks(); break;  // event loop; unwound by AbortCase at case end
          }
        }
      } catch (const torrent::internal_error& e) {
        if (getenv("LTV_C18_DEBUG")) fprintf(stderr, "internal_error: %s\n", e.what());
        err = true;
      }
      torrent::system::Thread::m_self = nullptr;
    });
    for (char ch : parts[2]) {
      if (ch != '0' && ch != '1') continue;
      int         t   = ch - '0';
      const char* lab = ctrl.label(t);
      std::string l   = lab ? lab : "";
      if (l.size() > 2 && l[1] == ':') l = l.substr(2);
      step_events.clear();
      auto sr = ctrl.step(t);
      if (sr == Controller::HUNG) { std::cout << "ERR:hang thread " << t << " after " << l << std::endl; _exit(3); }
      if (sr != Controller::STEPPED) { out += " " + std::to_string(t) + ":-"; continue; }
      out += " " + std::to_string(t) + ":" + l + ":" + state();
      for (size_t i = 0; i < step_events.size(); i++) out += (i ? "+" : ":") + step_events[i];
    }
    fin = std::string(ctrl.is_done(0) ? "1" : "0") + (ctrl.is_done(1) ? "1" : "0");
    ctrl.finish();
  }
  std::sort(outcomes.begin(), outcomes.end());
  out += " | F " + fin + " E " + (err ? "1" : "0") + " O ";
  for (size_t i = 0; i < outcomes.size(); i++) out += (i ? "," : "") + std::to_string(outcomes[i].first) + ":" + outcomes[i].second;
  out += " H " + std::to_string(hq->size()) + " Q " + std::to_string(disk->hash_check_queue()->size()) + "." + std::to_string(hq->m_done_chunks.size()) +
         " M " + std::to_string(main_thread->m_callbacks.size()) + "." + std::to_string(disk->m_callbacks.size());
  // blocking mapping references held at the end (ChunkListNode::blocking summed over the chunk list): compared
  // with the model (= number of pending nodes; the reference is released in the notification)
  int refs = 0;
  for (uint32_t i = 0; i < nchunks; i++) refs += (*chunks)[i].blocking();
  out += " B " + std::to_string(refs);
  // tear down what can be torn down safely; the queue / chunk list objects of an unfinished case are leaked
  torrent::ThreadDisk::destroy_thread();
  torrent::ThreadMain::m_thread_base = nullptr;
  delete main_thread;
  return out;
}

} // namespace

int main(int, char**) {
  std_setup();
  torrent::RuntimeManager::initialize();
  std::string line;
  while (std::getline(std::cin, line)) {
    std::string r;
    try {
      r = run_case(line);
    } catch (const torrent::internal_error& e) {
      r = std::string("ERR:internal ") + e.what();
    } catch (const std::exception& e) {
      r = std::string("ERR:input ") + e.what();
    }
    std::cout << r << "\n";
  }
  return 0;
}
