// Shared by harness/c07sm.cc and harness/c07sm_dht.cc (the enumerators of protocol/extensions.h and
// dht/dht_transaction.h clash -- both declare torrent::key_v -- so the DhtMessage instantiation
// lives in its own translation unit).
#pragma once
#include <memory>
#include <string>

#include "torrent/object.h"
#include "torrent/object_static_map.h"
#include "torrent/object_stream.h"

using torrent::static_map_entry_type;
using torrent::static_map_mapping_type;

// a key table + value array, either a real static_map_type object or exact-size heap arrays
struct Table {
  virtual ~Table() {}
  virtual size_t size() const = 0;
  virtual const static_map_mapping_type* keys() const = 0;
  virtual static_map_entry_type* values() = 0;
  virtual const char* read(const char* f, const char* l) = 0;
  virtual torrent::object_buffer_t write(char* f, char* l) = 0;
};

template <typename Msg>
struct RealTable : Table {
  Msg msg;
  size_t size() const override { return Msg::size; }
  const static_map_mapping_type* keys() const override { return Msg::keys; }
  static_map_entry_type* values() override { return msg.values(); }
  const char* read(const char* f, const char* l) override { return torrent::static_map_read_bencode(f, l, msg); }
  torrent::object_buffer_t write(char* f, char* l) override {
    return torrent::static_map_write_bencode_c(torrent::object_write_to_buffer, NULL, std::make_pair(f, l), msg);
  }
};

std::unique_ptr<Table> make_dht_table();
