// C06 implementation driver: same case protocol as ocaml/c06_driver.ml, real library through the
// session harness, scripted loopback peers speaking plain BT or MSE (harness/common/msepeer.h).
//
// Case:  D <hs> <st> <chk> <scriptA> <scriptB> <order>   two incoming peers; order = string over {A,B}: who sends its next segment
//        I <hs> <st> <chk> <script>                 incoming connection (peer = MSE initiator / plain)
//        O <hs> <st> <chk> <plain-script> <mse-script>   outgoing; the script is chosen per attempt by
//                                                   what the library sends first
//   hs, st: encryption_mode values 0 deny 1 allow 2 prefer 3 require (handshake / stream)
//   chk: 1 = the script ends with INTERESTED + HAVE(1); after success the connection must show them
//   script: "X" (close at once) or phases separated by '/', phase = tok,tok,...@seg
//     seg: W whole | B byte-wise | a.b.c cut offsets
//     tok: K key | K13 legal key starting with byte 0x13 | KP<k> 96 bytes starting with the first k bytes of "\x13BitTorrent protocol" | KL key giving a shared secret with a leading zero byte (outgoing only) | KZ zero key | O<n> opaque clear | R req1 | RX wrong req1 | S<t> obfuscated skey
//          e:<hex> c:<hex> m:<hex>  literal, RC4 / clear / per negotiated mode
//          eH<t><i><x> cH.. mH..    BT handshake: torrent kind t, id kind i (1 = library's own id), ext bit x
//          eZ<n> mZ<n>              n zero bytes
//          V<s>.<n>                 responder reply ENCRYPT(VC, s, n, PadD[n]) with a fixed select s
//          N<p>.<n>                 responder reply ENCRYPT(VC, select(p, crypto_provide), n, PadD[n])
//          X                        close after this phase
//   torrent kinds: 1 active, 2 added but not started, 3 unknown, 4 second active torrent
// Output (compared with the model):
//   a<k>[p|m]:<state>.<pos>.<end>,...  (outgoing: p/m = the library opened with a plain / MSE handshake) per segment while the handshake lives; then ok | closed
//   w=<K V S<n> P<n> H<0|1>> m=<ids up to the bitfield> att=<connections seen> lib=<ok|bad|->
#include "config.h"

#include <map>
#include <memory>
#include <set>
#include <deque>
#include <netinet/tcp.h>
#include <poll.h>
#include <sys/ioctl.h>
#include <linux/sockios.h>
#include <time.h>
#include <random>

#include "common/msepeer.h"
#include "common/session.h"
#include "common/wirepeer.h"
#include "manager.h"
#include "download/download_main.h"
#include "torrent/download_info.h"
#include "protocol/handshake.h"
#include "protocol/extensions.h"
#include "protocol/handshake_encryption.h"
#include "protocol/handshake_manager.h"
#include "protocol/peer_connection_base.h"
#include "torrent/exceptions.h"
#include "torrent/peer/connection_list.h"
#include "torrent/peer/peer.h"
#include "torrent/peer/peer_info.h"
#include "torrent/runtime/network_config.h"
#include "torrent/utils/log.h"

using namespace ltv;

static std::string g_log;
static uint32_t g_case_no = 0;
static Torrent *T1, *T2, *T4;
static std::string g_unknown(20, '\x33');

static std::string hash_of(int t) {
  switch (t) {
  case 1: return T1->info_hash;
  case 2: return T2->info_hash;
  case 4: return T4->info_hash;
  default: return g_unknown;
  }
}

struct Phase {
  std::vector<std::string> toks;
  std::string seg = "W";
  bool close_after = false;
};
struct Script {
  bool close_now = false;
  std::vector<Phase> phases;
};

static std::vector<std::string> split(const std::string& s, char d) {
  std::vector<std::string> out;
  size_t p = 0;
  while (true) {
    size_t q = s.find(d, p);
    out.push_back(s.substr(p, q == std::string::npos ? std::string::npos : q - p));
    if (q == std::string::npos) break;
    p = q + 1;
  }
  return out;
}

static Script parse_script(const std::string& s) {
  Script sc;
  if (s == "X") { sc.close_now = true; return sc; }
  if (s == "-") return sc;
  for (auto& ph : split(s, '/')) {
    Phase p;
    auto at = ph.rfind('@');
    std::string body = ph;
    if (at != std::string::npos) { p.seg = ph.substr(at + 1); body = ph.substr(0, at); }
    for (auto& t : split(body, ',')) {
      if (t == "X") p.close_after = true;
      else if (!t.empty()) p.toks.push_back(t);
    }
    sc.phases.push_back(p);
  }
  return sc;
}

static uint32_t g_peer_ip = 0;   // network order; address of the current case's scripted peer

// HandshakeManager's set of handshakes without spelling its type: a member container if it has one
// (by any of the usual names), otherwise the (private) base it derives from via its own alias.
template <class M> static auto& hs_container(M* hm) {
  if constexpr (requires { hm->m_handshakes; }) return hm->m_handshakes;
  else if constexpr (requires { hm->m_list; }) return hm->m_list;
  else return *(typename M::base_type*)hm;
}

// The handshake of the current scripted peer. HandshakeManager's container is reached only through
// begin()/end() (whatever it is); `retrying` tells a retry attempt (same address) from the first one.
static torrent::Handshake* find_hs(uint16_t port, bool retrying) {
  auto& v = hs_container(torrent::manager->handshake_manager());
  for (auto itr = std::begin(v); itr != std::end(v); ++itr) {
    auto* h = &**itr;
    const sockaddr* sa = h->socket_address();
    if (sa != nullptr && sa->sa_family == AF_INET && ntohs(((const sockaddr_in*)sa)->sin_port) == port &&
        ((const sockaddr_in*)sa)->sin_addr.s_addr == g_peer_ip && h->encryption()->policy().is_retrying() == retrying) return h;
  }
  return nullptr;
}

static std::set<std::pair<uint32_t, uint16_t>> g_connected;   // remote (address, port) of every connection inserted (ConnectionList::signal_connected)
static uint64_t g_tx0 = 0;         // WirePeer::tx_total when the current connection was made
static std::string g_peer_ip_str;  // dotted address of the current case's scripted peer
static uint16_t g_hs_port = 0;     // remote port of the library-side socket of the current case

// The library-side socket that talks to the current scripted peer (handshake or connection), or -1.
static uint16_t sock_port(int fd, bool remote) {
  sockaddr_in a{};
  socklen_t n = sizeof a;
  if (fd == -1 || (remote ? getpeername(fd, (sockaddr*)&a, &n) : getsockname(fd, (sockaddr*)&a, &n)) != 0) return 0;
  return ntohs(a.sin_port);
}
// pair = the peer-side socket: only the library socket at the other end of THAT TCP connection counts
// (after a failed outgoing attempt the retry's handshake has the same remote address)
static int lib_fd(Session& S, int pair = -1) {
  uint16_t want = pair == -1 ? 0 : sock_port(pair, true);
  auto ok = [&](int fd) { return fd != -1 && (pair == -1 || (want != 0 && sock_port(fd, false) == want)); };
  auto& v = hs_container(torrent::manager->handshake_manager());
  for (auto itr = std::begin(v); itr != std::end(v); ++itr) {
    auto* h = &**itr;
    const sockaddr* sa = h->socket_address();
    if (sa != nullptr && sa->sa_family == AF_INET && ntohs(((const sockaddr_in*)sa)->sin_port) == g_hs_port &&
        ((const sockaddr_in*)sa)->sin_addr.s_addr == g_peer_ip && h->is_open() && ok(h->file_descriptor())) return h->file_descriptor();
  }
  for (Torrent* T : {T1, T2, T4}) {
    torrent::PeerConnectionBase* pcb = S.find_connection(T, g_peer_ip_str, g_hs_port);
    if (pcb != nullptr && pcb->is_open() && ok(pcb->file_descriptor())) return pcb->file_descriptor();
  }
  return -1;
}

// first 136 bytes of the kernel's struct tcp_info (linux/tcp.h; stable ABI; glibc's netinet/tcp.h copy is older)
struct tcp_info_head { uint8_t pad[120]; uint64_t bytes_acked; uint64_t bytes_received; };
static bool tcp_received(int fd, uint64_t& received) {
  tcp_info_head ti{};
  socklen_t n = sizeof ti;
  if (fd == -1 || getsockopt(fd, IPPROTO_TCP, TCP_INFO, &ti, &n) != 0 || n < sizeof ti) return false;
  received = ti.bytes_received;
  return true;
}

// pump() decides "nothing moves" from a few idle rounds, which on a loaded machine can be before the
// kernel has delivered a loopback segment (softirq deferred). qpump keeps pumping until both TCP
// directions have delivered everything that was sent (byte counters of the two sockets agree), so the
// observed state does not depend on wall-clock timing. Bounded by a (generous) number of rounds.
// After the peer closed its end: step until the library's socket has seen the FIN (its TCP state left
// ESTABLISHED) and the library had a few rounds to react, or the socket is gone.
static torrent::Handshake* find_hs(uint16_t port, bool retrying);
static double g_t_q = 0, g_t_c = 0, g_t_a = 0, g_t_adv = 0;
static double nowf() { struct timespec t; clock_gettime(CLOCK_MONOTONIC, &t); return t.tv_sec + t.tv_nsec * 1e-9; }
struct Tm { double& acc; double t0; Tm(double& a) : acc(a), t0(nowf()) {} ~Tm() { acc += nowf() - t0; } };
static void wait_close(Session& S, bool retrying) {
  Tm tmc(g_t_c);
  int after = 0;
  for (int round = 0; round < 20000 && after < 3; round++) {
    pump(S, {});
    S.step();
    int lfd = -1;
    if (auto* h = find_hs(g_hs_port, retrying)) lfd = h->is_open() ? h->file_descriptor() : -1;
    else for (Torrent* T : {T1, T2, T4})
      if (auto* pcb = S.find_connection(T, g_peer_ip_str, g_hs_port)) { if (pcb->is_open()) lfd = pcb->file_descriptor(); }
    if (lfd == -1) return;
    struct tcp_info ti{};
    socklen_t n = sizeof ti;
    if (getsockopt(lfd, IPPROTO_TCP, TCP_INFO, &ti, &n) != 0 || ti.tcpi_state != TCP_ESTABLISHED) { after++; continue; }
    if (round == 500 && getenv("C06_DEBUG")) fprintf(stderr, "wait_close stuck: lfd=%d state=%d retrying=%d\n", lfd, (int)ti.tcpi_state, (int)retrying);
    struct timespec ts{0, 1000000};
    nanosleep(&ts, nullptr);
  }
}

// the library has an outgoing handshake for the current peer but the listener has not seen the
// connection yet: the SYN / accept queue is the kernel's business, wait for it
static void wait_accept(Session& S, WirePeer& w) {
  Tm tm(g_t_a);
  for (int i = 0; i < 300 && w.fd == -1 && lib_fd(S) != -1; i++) {
    struct pollfd pf{w.lfd, POLLIN, 0};
    ::poll(&pf, 1, 100);
    pump(S, {&w});
  }
}

// End of a case, the peer's sockets are closed: step until the library has let go of every socket it
// had for this peer (otherwise connections pile up on a loaded machine and the download stops dialling
// out: connection_list()->size() >= min_size()). A socket the library does not react to although its
// TCP state has left ESTABLISHED (a handshake with no read interest) is left to the timeout below.
static void drain(Session& S) {
  int unresponsive = 0;
  for (int round = 0; round < 20000 && unresponsive < 50; round++) {
    pump(S, {});
    S.step();
    int lfd = lib_fd(S);
    if (lfd == -1) return;
    struct tcp_info ti{};
    socklen_t n = sizeof ti;
    if (getsockopt(lfd, IPPROTO_TCP, TCP_INFO, &ti, &n) != 0 || ti.tcpi_state != TCP_ESTABLISHED) { unresponsive++; continue; }
    struct timespec ts{0, 1000000};
    nanosleep(&ts, nullptr);
  }
}

static void qpump(Session& S, WirePeer& w) {
  Tm tm(g_t_q);
  double tq0 = nowf(); int rounds = 0, infl = 0; struct R { double t0; int& r; int& f; ~R() { if (nowf() - t0 > 5 && getenv("C06_DEBUG")) fprintf(stderr, "qpump slow: %.1fs rounds=%d inflight_rounds=%d\n", nowf() - t0, r, f); } } rr{tq0, rounds, infl};
  for (int round = 0; round < 20000; round++) {
    ltv::pump(S, {&w});
    rounds++;
    bool inflight = !w.tx_pending.empty();
    uint64_t lr = 0;
    int lfd = lib_fd(S, w.fd), outq = 0;
    if (w.fd != -1 && lfd != -1) {
      if (tcp_received(lfd, lr) && lr < w.tx_total - g_tx0) inflight = true;            // peer -> library not delivered yet
      if (ioctl(lfd, SIOCOUTQ, &outq) == 0 && outq > 0) inflight = true;                // library -> peer not delivered (the peer ACKs at once: TCP_QUICKACK)
    }
    if (!inflight) {
      // settled when one more pump moves no byte in either direction and accepts nothing
      uint64_t io0 = Session::io_bytes_moved(), rx0 = w.rx_total, tx0 = w.tx_total; int fd0 = w.fd;
      ltv::pump(S, {&w});
      if (Session::io_bytes_moved() == io0 && w.rx_total == rx0 && w.tx_total == tx0 && w.fd == fd0) return;
      if (round == 300 && getenv("C06_DEBUG")) fprintf(stderr, "qpump moving: io %llu->%llu rx %llu->%llu tx %llu->%llu fd %d->%d hs=%zu\n", (unsigned long long)io0, (unsigned long long)Session::io_bytes_moved(), (unsigned long long)rx0, (unsigned long long)w.rx_total, (unsigned long long)tx0, (unsigned long long)w.tx_total, fd0, w.fd, S.handshake_count());
      continue;
    }
    if (round == 300 && getenv("C06_DEBUG")) fprintf(stderr, "qpump inflight: lfd=%d fd=%d lr=%llu tx=%llu tx0=%llu outq=%d pending=%zu eof=%d\n", lfd, w.fd, (unsigned long long)lr, (unsigned long long)w.tx_total, (unsigned long long)g_tx0, outq, w.tx_pending.size(), (int)w.eof);
    struct timespec ts{0, 1000000};
    nanosleep(&ts, nullptr);
  }
}
   // ConnectionList::signal_connected of the harness torrents

// One peer-side connection (one attempt).
struct Conn {
  Session& S;
  WirePeer& w;
  bool initiator;       // peer is MSE initiator (library incoming)
  bool mse = false;     // this connection speaks MSE
  MseEnd mseend;
  int sel = 0;          // negotiated stream mode (1/2), 0 unknown
  int provide = 0;
  std::string cipher_skey;
  // parsing of the library's output
  int stage = 0;
  size_t off = 0;       // consumed prefix of w.rx
  std::string plain;    // library's post-negotiation stream, decrypted per mode
  std::string events;   // K V S<n> P<n>
  bool hs_enc = false;  // library's BT handshake arrived encrypted
  uint32_t rnd;

  Conn(Session& s, WirePeer& wp, bool init, uint64_t seed) : S(s), w(wp), initiator(init), mseend(seed, init), rnd(uint32_t(seed * 2654435761u + 12345)) {}

  void ensure_ciphers(int t) {
    if (mseend.ciphers) return;
    if (mseend.S.empty()) learn_key();
    cipher_skey = hash_of(t);
    mseend.start_ciphers(cipher_skey);
  }
  void learn_key() {
    if (mseend.S.empty() && w.rx.size() >= 96) mseend.set_remote_key(w.rx.substr(0, 96));
    if (mseend.S.empty()) mseend.set_remote_key(std::string(95, '\0') + "\x02");   // script went on without the library's key
  }
  std::string junk(size_t n) {
    std::string s(n, '\0');
    for (auto& c : s) { rnd = rnd * 1664525u + 1013904223u; c = char(rnd >> 24); }
    return s;
  }
  static std::string be16(unsigned v) { char b[2] = {char(v >> 8), char(v)}; return std::string(b, 2); }
  std::string handshake_bytes(const std::string& a) {   // a = "<t><i><x>"
    int t = a[0] - '0';
    std::string id = a[1] == '1' ? std::string((t == 4 ? T4 : T1)->main()->info()->local_id().c_str(), 20)
                                 : ("-XX0000-" + std::to_string(100000000000ull + g_case_no)).substr(0, 20);
    return WirePeer::handshake(hash_of(t), id, a[2] == '1' ? WirePeer::reserved_ext() : std::string(8, '\0'));
  }
  std::string in_mode(char m, const std::string& plainbytes) {
    if (m == 'c') return plainbytes;
    if (m == 'm' && sel != 2) return plainbytes;
    ensure_ciphers(1);
    return mseend.enc(plainbytes);
  }
  // false: the script says the peer closes here (nothing in common)
  bool expand(const std::string& t, std::string& out) {
    if (t == "K") { mse = true; out += mseend.pubkey(); return true; }
    if (t == "KZ") { mse = true; out += std::string(96, '\0'); return true; }
    if (t == "K13") { mse = true; mseend.rekey_first_byte(19, g_case_no); out += mseend.pubkey(); return true; }   // legal key whose first byte is 0x13
    if (t.size() > 2 && t[0] == 'K' && t[1] == 'P') {   // 96 "key" bytes that begin like the plain handshake (first k bytes)
      mse = true;
      size_t k = std::stoul(t.substr(2));
      std::string key = std::string("\x13" "BitTorrent protocol", 20).substr(0, k) + junk(96 - k);
      if (k == 0 && (unsigned char)key[0] == 0xff) key[0] = 0x7f;
      out += key;
      return true;
    }
    if (t == "KL") {   // key chosen after seeing the library's: shared secret with a leading zero byte
      mse = true;
      if (w.rx.size() >= 96) mseend.rekey_leading_zero(w.rx.substr(0, 96), g_case_no);
      out += mseend.pubkey();
      return true;
    }
    if (t == "R") { learn_key(); out += mseend.req1(); return true; }
    if (t == "RX") { out += junk(20); return true; }
    if (t[0] == 'O') { out += junk(std::stoul(t.substr(1))); return true; }
    if (t[0] == 'S') { int k = t[1] - '0'; learn_key(); out += mseend.req2xor3(hash_of(k)); ensure_ciphers(k); return true; }
    if (t[0] == 'N') {
      auto pp = split(t.substr(1), '.');
      int p = std::stoi(pp[0]);
      unsigned pad = std::stoul(pp[1]);
      parse_rx();
      if ((p & 2) && (provide & 2)) sel = 2;
      else if ((p & 1) && (provide & 1)) sel = 1;
      else return false;
      ensure_ciphers(1);
      out += mseend.enc(std::string(8, '\0') + WirePeer::be32(sel) + be16(pad));
      out += mseend.enc(std::string(pad, '\0'));
      return true;
    }
    if (t[0] == 'V') {
      auto pp = split(t.substr(1), '.');
      unsigned long sv = std::stoul(pp[0]);
      unsigned pad = std::stoul(pp[1]);
      sel = sv == 2 ? 2 : 1;
      ensure_ciphers(1);
      out += mseend.enc(std::string(8, '\0') + WirePeer::be32((uint32_t)sv) + be16(pad));
      out += mseend.enc(std::string(pad, '\0'));
      return true;
    }
    char m = t[0];
    if (m == 'e' || m == 'c' || m == 'm') {
      if (m == 'm' && sel == 0) parse_rx();
      if (t[1] == ':') { out += in_mode(m, unhex(t.substr(2))); return true; }
      if (t[1] == 'H') { out += in_mode(m, handshake_bytes(t.substr(2))); return true; }
      if (t[1] == 'Z') { out += in_mode(m, std::string(std::stoul(t.substr(2)), '\0')); return true; }
    }
    throw std::runtime_error("bad token " + t);
  }

  // incremental parse of what the library has sent
  void parse_rx() {
    std::string& rx = w.rx;
    if (!mse) {
      if (stage == 0 && rx.size() > off) { plain += rx.substr(off); off = rx.size(); }
      return;
    }
    while (true) {
      if (stage == 0) {
        if (rx.size() < 96) return;
        learn_key();
        events += "K";
        off = 96;
        stage = 1;
      } else if (stage == 1) {
        if (initiator) {
          if (!mseend.ciphers) return;
          std::string pat = mseend.vc_pattern_in();
          size_t p = rx.find(pat, off);
          if (p == std::string::npos || rx.size() < p + 14) return;
          std::string neg = mseend.dec(rx.substr(p, 14));
          if (neg.substr(0, 8) != std::string(8, '\0')) { events += "V?"; stage = 9; return; }
          events += "V";
          sel = (unsigned char)neg[11];
          events += "S" + std::to_string(WireMsg{0, neg.substr(8, 4)}.u32(0));
          m_pad = ((unsigned char)neg[12] << 8) | (unsigned char)neg[13];
          off = p + 14;
          stage = 2;
        } else {
          std::string r1 = mseend.req1();
          size_t p = rx.find(r1, off);
          if (p == std::string::npos || rx.size() < p + 40 + 14) return;
          if (rx.substr(p + 20, 20) != mseend.req2xor3(T1->info_hash)) { events += "Q?"; stage = 9; return; }
          ensure_ciphers(1);
          std::string neg = mseend.dec(rx.substr(p + 40, 14));
          if (neg.substr(0, 8) != std::string(8, '\0')) { events += "V?"; stage = 9; return; }
          provide = (unsigned char)neg[11];
          events += "P" + std::to_string(WireMsg{0, neg.substr(8, 4)}.u32(0));
          m_pad = ((unsigned char)neg[12] << 8) | (unsigned char)neg[13];
          off = p + 40 + 14;
          stage = 2;
        }
      } else if (stage == 2) {
        size_t need = m_pad + (initiator ? 0 : 2);
        if (rx.size() < off + need) return;
        std::string d = mseend.dec(rx.substr(off, need));
        off += need;
        if (!initiator) { m_ia = ((unsigned char)d[m_pad] << 8) | (unsigned char)d[m_pad + 1]; stage = 3; }
        else stage = 4;
      } else if (stage == 3) {   // responder: IA
        if (rx.size() < off + m_ia) return;
        plain += mseend.dec(rx.substr(off, m_ia));
        off += m_ia;
        hs_enc = true;
        stage = 4;
      } else if (stage == 4) {
        if (rx.size() == off) return;
        if (sel == 0) return;    // responder has not answered yet
        std::string d = rx.substr(off);
        off = rx.size();
        if (sel == 2) { plain += mseend.dec(d); if (initiator) hs_enc = true; }
        else plain += d;
        return;
      } else return;
    }
  }
  unsigned m_pad = 0, m_ia = 0;

  std::string summary(const std::string& want_hash) {
    parse_rx();
    std::string ev = events;
    std::string msgs;
    std::string p = plain;
    if (p.size() >= 68 && p.compare(0, 20, std::string("\x13" "BitTorrent protocol", 20)) == 0 && (p.substr(28, 20) == want_hash || p.substr(28, 20) == T4->info_hash)) {
      ev += hs_enc ? "H1" : "H0";
      p.erase(0, 68);
      while (p.size() >= 4) {
        uint32_t len = WireMsg{0, p.substr(0, 4)}.u32(0);
        if (len > 100000 || p.size() < 4 + (size_t)len) { if (len > 100000) msgs += "?"; break; }
        int id = len == 0 ? -1 : (unsigned char)p[4];
        msgs += (msgs.empty() ? "" : ",") + std::to_string(id);
        p.erase(0, 4 + len);
        if (id == 5 || id == -1) break;
      }
    } else if (!p.empty()) ev += "H?";
    return "w=" + (ev.empty() ? "-" : ev) + " m=" + (msgs.empty() ? "-" : msgs);
  }
};

static std::vector<std::string> segments(const std::string& bytes, const std::string& seg) {
  std::vector<std::string> out;
  if (bytes.empty()) return out;
  if (seg == "W") { out.push_back(bytes); return out; }
  if (seg == "B") { for (char c : bytes) out.push_back(std::string(1, c)); return out; }
  size_t prev = 0;
  for (auto& c : split(seg, '.')) {
    size_t o = std::stoul(c);
    if (o > prev && o < bytes.size()) { out.push_back(bytes.substr(prev, o - prev)); prev = o; }
  }
  out.push_back(bytes.substr(prev));
  return out;
}

// Runs one script on one connection. Returns the per-segment trace; outcome in `result` ("" = still open).
static std::string run_script(Session& S, Conn& c, const Script& sc, uint16_t hs_port, Torrent* T, std::string& result, bool retrying = false) {
  std::string trace;
  g_connected.erase({g_peer_ip, hs_port});
  auto observe = [&]() -> bool {   // true: handshake over
    torrent::Handshake* h = find_hs(hs_port, retrying);
    if (h != nullptr) {
      trace += (trace.empty() ? "" : ",") + std::to_string((int)h->state()) + "." + std::to_string(h->m_readBuffer.size_position()) + "." +
               std::to_string(h->m_readBuffer.size_end());
      return false;
    }
    // outcome without looking at log text or error codes (the property does not constrain them):
    // a connection was inserted into a connection list, or the handshake is simply gone
    result = g_connected.count({g_peer_ip, hs_port}) ? "ok" : "closed";
    trace += (trace.empty() ? "" : ",") + result;
    return true;
  };
  if (sc.close_now) {
    { int fd = c.w.fd; c.w.fd = -1; if (fd != -1) ::close(fd); }
    { int lfd = c.w.lfd; c.w.lfd = -1; wait_close(S, retrying); c.w.lfd = lfd; }
    observe();
    if (result.empty()) result = "open";
    return trace;
  }
  for (auto& ph : sc.phases) {
    std::string bytes;
    bool closes = ph.close_after;
    for (auto& t : ph.toks)
      if (!c.expand(t, bytes)) { closes = true; break; }
    for (auto& sg : segments(bytes, ph.seg)) {
      if (c.w.fd == -1) break;
      c.w.send_bytes(sg);
      qpump(S, c.w);
      c.parse_rx();
      if (result.empty()) observe();
      else if (result != "ok") break;
    }
    if (!result.empty() && result != "ok") break;
    if (closes) {
      int fd = c.w.fd;
      c.w.fd = -1;
      if (fd != -1) ::close(fd);
      int lfd = c.w.lfd;
      c.w.lfd = -1;            // do not accept a retry inside this pump
      wait_close(S, retrying);
      c.w.lfd = lfd;
      if (result.empty()) observe();
      break;
    }
  }
  if (result.empty()) result = "open";
  return trace;
}

static bool lib_sees_trail(Session& S, Torrent* T, uint16_t port) {
  torrent::PeerConnectionBase* pcb = S.find_connection(T, g_peer_ip_str, port);
  if (pcb == nullptr) pcb = S.find_connection(T4, g_peer_ip_str, port);
  if (pcb == nullptr) return false;
  const torrent::Bitfield* bf = pcb->peer_chunks()->bitfield();
  bool have1 = bf->size_bits() > 1 && bf->get(1);
  bool queued = pcb->m_up_choke.queued() || pcb->m_up_choke.unchoked();
  if (getenv("C06_DEBUG")) fprintf(stderr, "have1=%d queued=%d %s\n", have1, queued, S.dump_connection(pcb).c_str());
  return have1 && queued;
}

// ok: INTERESTED + HAVE(1) of the script are visible in the connection; late: only after the peer
// sent one more (keep-alive) message, i.e. the unread handshake data was parsed with the next read
static std::string lib_check(Session& S, Conn& c, Torrent* T, uint16_t port, const std::string& result, bool chk) {
  if (result != "ok" || !chk) return "lib=-";
  if (lib_sees_trail(S, T, port)) return "lib=ok";
  c.w.send_bytes(c.in_mode('m', std::string(4, '\0')));
  qpump(S, c.w);
  return lib_sees_trail(S, T, port) ? "lib=late" : "lib=bad";
}


// ---- two incoming peers whose segments interleave (case D): each peer is stepped one segment at a time
struct InRun {
  Session& S;
  std::string ip;
  uint32_t ipn = 0;
  uint16_t port = 0;
  WirePeer w;
  std::unique_ptr<Conn> c;
  Script sc;
  size_t phase = 0;
  std::deque<std::string> pending;
  bool close_pending = false, closed = false;
  std::string trace, result;

  InRun(Session& s, const std::string& addr, const std::string& script, uint64_t seed) : S(s), ip(addr), sc(parse_script(script)) {
    inet_pton(AF_INET, ip.c_str(), &ipn);
    activate();
    if (w.connect_to(S.listen_port(), ip.c_str())) {
      port = w.local_port();
      activate();
      qpump(S, w);
      c.reset(new Conn(S, w, true, seed));
      g_connected.erase({ipn, port});
    } else result = "ERR:connect";
  }
  void activate() { g_peer_ip = ipn; g_peer_ip_str = ip; g_hs_port = port; g_tx0 = 0; }
  void observe() {
    torrent::Handshake* h = find_hs(port, false);
    if (h != nullptr) {
      trace += (trace.empty() ? "" : ",") + std::to_string((int)h->state()) + "." + std::to_string(h->m_readBuffer.size_position()) + "." +
               std::to_string(h->m_readBuffer.size_end());
      return;
    }
    result = g_connected.count({ipn, port}) ? "ok" : "closed";
    trace += (trace.empty() ? "" : ",") + result;
  }
  bool done() const { return closed || !result.empty() && result != "ok" || (pending.empty() && !close_pending && (sc.close_now || phase >= sc.phases.size())); }
  // one segment (or the close that ends a phase); false: nothing left to do
  bool step() {
    if (!c || done()) return false;
    activate();
    if (pending.empty() && !close_pending) {
      auto& ph = sc.phases[phase++];
      std::string bytes;
      close_pending = ph.close_after;
      for (auto& t : ph.toks)
        if (!c->expand(t, bytes)) { close_pending = true; break; }
      for (auto& sg : segments(bytes, ph.seg)) pending.push_back(sg);
    }
    if (!pending.empty()) {
      if (w.fd != -1) {
        w.send_bytes(pending.front());
        qpump(S, w);
        c->parse_rx();
        if (result.empty()) observe();
      }
      pending.pop_front();
      return true;
    }
    if (close_pending) {
      close_pending = false;
      closed = true;
      int fd = w.fd;
      w.fd = -1;
      if (fd != -1) ::close(fd);
      wait_close(S, false);
      if (result.empty()) observe();
      return true;
    }
    return false;
  }
  std::string finish(bool chk) {
    if (!c) return "a1:" + result + " w=- m=- att=1 lib=-";
    activate();
    if (result.empty()) result = "open";
    if (w.fd != -1) qpump(S, w);
    std::string out = "a1:" + trace + " " + (result == "ok" ? c->summary(T1->info_hash) : std::string("w=- m=-")) + " att=1 " +
                      lib_check(S, *c, T1, port, result, chk);
    w.close_all();
    drain(S);
    return out;
  }
};

static std::string run_dual(Session& S, const std::vector<std::string>& f) {
  bool chk = f[3] == "1";
  auto ipof = [](unsigned n) { return "127." + std::to_string(1 + (n >> 16) % 200) + "." + std::to_string((n >> 8) & 255) + "." + std::to_string(1 + (n & 255) % 250); };
  g_case_no++;
  InRun A(S, ipof(g_case_no), f[4], g_case_no);
  g_case_no++;
  InRun B(S, ipof(g_case_no), f[5], g_case_no);
  for (char ch : f[6]) (ch == 'A' ? A : B).step();
  while (A.step()) {}
  while (B.step()) {}
  std::string a = A.finish(chk), b = B.finish(chk);
  return "A[" + a + "] B[" + b + "]";
}

static std::string run_case(Session& S, const std::string& line) {
  auto f = split_ws(line);
  if (f.size() < 5) return "BADCASE";
  g_case_no++;
  g_tx0 = 0;
  g_log.clear();
  int hs = std::stoi(f[1]), st = std::stoi(f[2]);
  bool chk = f[3] == "1";
  torrent::runtime::network_config()->set_encryption_modes((torrent::encryption_mode)hs, (torrent::encryption_mode)st);
  std::string ip = "127." + std::to_string(1 + (g_case_no >> 16) % 200) + "." + std::to_string((g_case_no >> 8) & 255) + "." + std::to_string(1 + (g_case_no & 255) % 250);
  std::string outp;
  if (f[0] == "D") {
    if (f.size() < 7) return "BADCASE";
    outp = run_dual(S, f);
    S.step();
    if (S.handshake_count() != 0) S.advance_us(130ll * 1000000);
    return outp;
  }
  inet_pton(AF_INET, ip.c_str(), &g_peer_ip);
  g_peer_ip_str = ip;
  if (f[0] == "I") {
    Script sc = parse_script(f[4]);
    WirePeer w;
    if (!w.connect_to(S.listen_port(), ip.c_str())) return "ERR:connect";
    uint16_t port = w.local_port();
    g_hs_port = port;
    qpump(S, w);
    g_tx0 = 0;
    Conn c(S, w, true, g_case_no);
    std::string result;
    std::string tr = run_script(S, c, sc, port, T1, result);
    qpump(S, w);
    outp = "a1:" + tr + " " + (result == "ok" ? c.summary(T1->info_hash) : std::string("w=- m=-")) + " att=1 " + lib_check(S, c, T1, port, result, chk);
    w.close_all();
    drain(S);
  } else if (f[0] == "O") {
    if (f.size() < 6) return "BADCASE";
    Script sp = parse_script(f[4]), sm = parse_script(f[5]);
    WirePeer w;
    uint16_t port = w.listen_on(ip.c_str());
    if (port == 0) return "ERR:listen";
    g_hs_port = port;
    g_tx0 = 0;
    S.connect_out(T1, ip, port);
    qpump(S, w);
    // the library's connect() reaches the listener through the kernel: wait for it (poll returns as soon
    // as the connection is there; the bound only matters for a tree that really does not connect)
    wait_accept(S, w);
    qpump(S, w);
    int attempts = 0;
    std::string result, summ = "w=- m=-", libs = "lib=-";
    while (w.fd != -1 && attempts < 3) {
      attempts++;
      bool plainhs = w.rx.compare(0, 20, std::string("\x13" "BitTorrent protocol", 20)) == 0;
      g_tx0 = w.tx_total;
      Conn c(S, w, false, g_case_no * 4 + attempts);
      c.mse = !plainhs;
      result.clear();
      std::string tr = run_script(S, c, plainhs ? sp : sm, port, T1, result, attempts > 1);
      if (result == "open") {   // the peer goes away: same as a trailing X
        Script cl; cl.close_now = true;
        result.clear();
        std::string tr2 = run_script(S, c, cl, port, T1, result, attempts > 1);
        tr += (tr.empty() || tr2.empty() ? "" : ",") + tr2;
      }
      if (result == "ok" || result == "open") qpump(S, w);
      if (result == "ok") { summ = c.summary(T1->info_hash); libs = lib_check(S, c, T1, port, result, chk); }
      outp += (outp.empty() ? "" : " ") + std::string("a") + std::to_string(attempts) + (plainhs ? "p:" : "m:") + tr;
      if (result == "ok" || result == "open") break;
      if (w.fd != -1) { ::close(w.fd); w.fd = -1; }
      w.rx.clear();
      w.eof = false;
      w.tx_pending.clear();
      g_tx0 = w.tx_total;    // byte counting restarts with the next connection
      qpump(S, w);
      wait_accept(S, w);     // a retry the library has dialled
      qpump(S, w);
    }
    if (attempts == 0) outp = "a0:noconnect";
    outp += " " + summ + " att=" + std::to_string(attempts) + " " + libs;
    w.close_all();
    drain(S);
  } else return "BADCASE";
  S.step();
  { Tm tm(g_t_adv); if (S.handshake_count() != 0) S.advance_us(130ll * 1000000); }
  if (getenv("C06_DEBUG")) fprintf(stderr, "TIMES q=%.2f close=%.2f accept=%.2f adv=%.2f\n", g_t_q, g_t_c, g_t_a, g_t_adv);   // a handshake left behind (stuck): let its timeout remove it
  if (getenv("C06_DEBUG")) fprintf(stderr, "LOG:\n%s\n", g_log.c_str());
  return outp;
}

// constants of the COMPILED code for coq/C06/ParamsProbe.v (ROBUSTNESS rule 3)
static void print_params() {
  using H = torrent::Handshake;
  std::cout << "c06_part1_size " << H::part1_size << "\n" << "c06_part2_size " << H::part2_size << "\n"
            << "c06_handshake_size " << H::handshake_size << "\n" << "c06_read_message_size " << H::read_message_size << "\n"
            << "c06_enc_negotiation_size " << H::enc_negotiation_size << "\n" << "c06_enc_pad_size " << H::enc_pad_size << "\n"
            << "c06_enc_pad_read_size " << H::enc_pad_read_size << "\n" << "c06_buffer_size " << sizeof(((H*)nullptr)->m_readBuffer.m_buffer) << "\n"
            << "c06_vc_length " << torrent::HandshakeEncryption::vc_length << "\n"
            << "c06_dh_key_length " << torrent::HandshakeEncryption::dh_prime_length << "\n"
            << "c06_pcb_read_buffer " << (unsigned)torrent::PeerConnectionBase::ProtocolRead::buffer_size << "\n"
            << "c06_ext_first_invalid " << (int)torrent::ProtocolExtension::FIRST_INVALID << "\n";
  // largest extension message length read_start accepts (behavioural probe, bisection on a monotone predicate)
  auto accepts = [](uint32_t n) {
    torrent::ProtocolExtension e;
    try { e.read_start(0, n, true); } catch (torrent::communication_error&) { return false; } catch (torrent::internal_error&) { return false; }
    delete[] e.m_read; e.m_read = nullptr;
    return true;
  };
  uint32_t lo = 0, hi = 1u << 24;      // accepts(lo), !accepts(hi)
  if (!accepts(lo) || accepts(hi)) lo = 0, hi = 1;
  while (hi - lo > 1) { uint32_t mid = lo + (hi - lo) / 2; (accepts(mid) ? lo : hi) = mid; }
  std::cout << "c06_ext_max_len " << lo << "\n";
  std::cout << "c06_dh_prime";
  for (unsigned i = 0; i < torrent::HandshakeEncryption::dh_prime_length; i++) std::cout << " " << (unsigned)torrent::HandshakeEncryption::dh_prime[i];
  std::cout << "\n";
}

int main(int argc, char** argv) {
  std_setup();
  if (argc > 1 && std::string(argv[1]) == "--params") { print_params(); return 0; }
  Session S;
  auto mk = [&](const char* name, uint32_t seed, bool corrupt) {
    TorrentSpec spec;
    spec.name = name;
    spec.piece_length = 16384;
    spec.content_seed = seed;
    spec.files = {{"a.bin", 20 * 16384 - 100}};
    if (corrupt) spec.corrupt_pieces = {0};
    return S.add_torrent(spec);
  };
  T1 = mk("c06a", 1, true);
  T2 = mk("c06b", 2, true);
  T4 = mk("c06d", 4, true);
  S.start(T1);
  S.start(T4);
  for (Torrent* T : {T1, T2, T4})
    T->main()->connection_list()->signal_connected().push_back([](auto* p) {
      const sockaddr* sa = p->peer_info()->socket_address();
      if (sa != nullptr && sa->sa_family == AF_INET) g_connected.insert({((const sockaddr_in*)sa)->sin_addr.s_addr, ntohs(((const sockaddr_in*)sa)->sin_port)});
    });
  if (getenv("C06_DEBUG")) {
    torrent::log_open_output("c06", [](const char* d, size_t n, int) { g_log.append(d, n); g_log.push_back('\n'); });
    torrent::log_add_group_output(torrent::LOG_CONNECTION_HANDSHAKE, "c06");
    torrent::log_add_group_output(torrent::LOG_PROTOCOL_NETWORK_ERRORS, "c06");
  }
  // per-case watchdog: a case that does not finish within 10 minutes of wall time is reported as HANG
  signal(SIGALRM, [](int) { const char m[] = "HANG\n"; (void)!write(1, m, sizeof m - 1); _exit(5); });
  std::string line;
  while (std::getline(std::cin, line)) {
    if (line.empty()) { std::cout << "BADCASE\n"; continue; }
    try {
      alarm(600);   // generous: only a truly stuck case is a hang (a byte-wise case takes seconds even under heavy load)
      std::string res = run_case(S, line);
      alarm(0);
      std::cout << res << "\n";
    } catch (torrent::internal_error& e) {
      std::string w = e.what();
      w = w.substr(0, w.find('\n'));
      std::cout << "ERR:internal " << w << "\n";
      std::cout.flush();
      _exit(3);   // the session is unusable after an internal_error; run_sharded resumes after this case
    } catch (std::exception& e) {
      std::cout << "ERR:harness " << e.what() << "\n";
    }
  }
  std::cout.flush();
  return 0;
}
