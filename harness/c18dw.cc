// C18, DownloadWrapper side: "each piece sent to the hashing thread is answered once or CLEANLY CANCELLED" on a real
// Download. hash_check(false) queues pieces on the disk thread; hash_stop() / close() while pieces are queued, in flight or
// hashed-but-undelivered must cancel every one of them, and a cancelled piece gives its chunk handle back: after the call
// returns no ChunkList node of the download holds a reference or a blocking mark (the disk thread can no longer touch it,
// so nothing would ever release it later).
//
// Case line:   <pieces> <piece_len> <op> <op> ...
//   ops:  c   hash_check(false)         (pieces are queued; nothing is delivered until a step)
//         w<k> wait (bounded real time) until the disk thread has published at least k results (undelivered)
//         t<k> one main-loop step sequence: deliver what is published (S.step()), at most k times
//         s   hash_stop()
//         x   close()
//         o   open()
// Output:  one token per op:  <op>:<outstanding>/<refs>/<blocking>/<hq nodes of this download>   | E <0|1>
#include "config.h"

#include <filesystem>
#include <fstream>
#include <iostream>
#include <sstream>
#include <unistd.h>

#include "common/session.h"
#include "common/util.h"

#include "data/chunk_list.h"
#include "data/hash_queue.h"
#include "data/hash_torrent.h"
#include "download/download_main.h"
#include "download/download_wrapper.h"
#include "torrent/data/file_list.h"
#include "torrent/exceptions.h"
#include "torrent/download_info.h"
#include "torrent/torrent.h"

namespace fs = std::filesystem;
using namespace ltv;

static int g_counter = 0;

static std::string run_case(Session& S, const std::string& line) {
  CaseWatchdog wd(30);
  std::istringstream in(line);
  uint32_t npieces = 0, plen = 0;
  in >> npieces >> plen;
  if (npieces == 0 || npieces > 4096 || plen < 1025) return "BADCASE";
  TorrentSpec spec;
  spec.name         = "t";
  spec.piece_length = plen;
  spec.content_seed = 100 + g_counter;   // distinct info hash per case
  spec.files.push_back({"f0", (uint64_t)npieces * plen - 7});
  auto        T    = Session::make_metainfo(spec);
  std::string root = S.scratch() + "/dw" + std::to_string(g_counter++) + "/t";
  fs::create_directories(root);
  std::ofstream(root + "/f0", std::ios::binary).write(T->content.data(), (std::streamsize)T->content.size());
  torrent::Download d = S.add_raw("d4:info" + T->info_bytes + "e");
  d.file_list()->set_root_dir(root);

  auto* wrapper = d.ptr();
  auto* hq      = wrapper->hash_queue();
  auto  snap    = [&](const std::string& op) {
    int  refs = 0, blocking = 0;
    auto* cl = wrapper->main()->chunk_list();
    for (auto& node : *cl) {
      refs += node.references();
      blocking += node.blocking();
    }
    int nodes = 0;
    for (auto& n : *hq) nodes += n.id() == wrapper->data() ? 1 : 0;
    return op + ":" + std::to_string((int)wrapper->hash_checker()->outstanding()) + "/" + std::to_string(refs) + "/" +
           std::to_string(blocking) + "/" + std::to_string(nodes);
  };

  std::string out;
  bool        err = false;
  std::string tok;
  try {
    d.open(0);
    while (in >> tok) {
      switch (tok[0]) {
      case 'c': d.hash_check(false); break;
      case 'w': {
        size_t k = tok.size() > 1 ? std::stoul(tok.substr(1)) : 1;
        for (int i = 0; i < 2000; i++) {
          size_t have;
          {
            std::lock_guard<std::mutex> g(hq->m_done_chunks_lock);
            have = hq->m_done_chunks.size();
          }
          if (have >= k) break;
          std::this_thread::sleep_for(std::chrono::milliseconds(1));
        }
        break;
      }
      case 't': {
        int k = tok.size() > 1 ? std::stoi(tok.substr(1)) : 1;
        for (int i = 0; i < k; i++) S.step();
        break;
      }
      case 's': d.hash_stop(); break;
      case 'x': d.close(0); break;
      case 'o': d.open(0); break;
      default: return "BADCASE op";
      }
      out += (out.empty() ? "" : " ") + snap(tok);
    }
  } catch (const torrent::internal_error& e) {
    err = true;
    out += " !" + std::string(e.what()).substr(0, 60);
  } catch (const torrent::base_error& e) {
    out += " ?" + std::string(e.what()).substr(0, 60);
  }
  out += " | E " + std::string(err ? "1" : "0");
  {
    // a download that still holds chunk references cannot be closed / removed (ChunkList::clear throws): leave it alone
    int refs = 0;
    for (auto& node : *wrapper->main()->chunk_list()) refs += node.references();
    if (refs != 0 && !wrapper->hash_checker()->is_checking()) return out + " LEAKED";
  }
  try {
    if (d.info()->is_open()) {
      if (wrapper->hash_checker()->is_checking()) d.hash_stop();
      d.close(0);
    }
    S.step();
    torrent::download_remove(d);
    S.step();
  } catch (const torrent::base_error&) {
  }
  return out;
}

int main(int, char**) {
  std_setup();
  Session     S;
  std::string line;
  while (std::getline(std::cin, line)) {
    std::string r;
    try {
      r = run_case(S, line);
    } catch (const std::exception& e) {
      r = std::string("ERR:input ") + e.what();
    }
    std::cout << r << "\n";
  }
  std::cout.flush();
  _exit(0);   // no library teardown: a leaked download (reported above) would make it throw
}
